#!/bin/bash
# baseline.sh [dir]: run akita's test suite (guard OFF: no tags, no overlay) in dir (default /repo)
# and compare with the 539 stable-pass tests of /root/.vp/BASELINE.json.
DIR=${1:-/repo}
export GOFLAGS=-mod=mod GOPROXY=off GOTOOLCHAIN=auto
unset GOSUMDB GOWORK
OUT=$(mktemp /tmp/baseline.XXXXXX.json)
(cd "$DIR" && go test -json -vet=off -count=1 -timeout 25m ./... > "$OUT" 2>/dev/null)
python3 - "$OUT" <<'PY'
import json,sys
passed=set()
for l in open(sys.argv[1]):
    try: e=json.loads(l)
    except: continue
    if e.get("Action")=="pass" and e.get("Test"):
        passed.add(e["Package"]+"::"+e["Test"])
b=json.load(open('/root/.vp/BASELINE.json'))
want=set(b["stable_pass"])
missing=sorted(want-passed)
print(f"baseline: {len(want&passed)}/{len(want)} stable tests pass; {len(missing)} missing")
for m in missing[:40]: print("  MISSING", m)
sys.exit(1 if missing else 0)
PY
rc=$?
rm -f "$OUT"
exit $rc

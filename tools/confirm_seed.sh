#!/bin/bash
# confirm_seed.sh <seeded/ID-n>: independently confirm a seeded change in a
# scratch worktree of /repo (removed afterwards): the patch applies and builds,
# the demo fails with it and passes without it, and the 539 baseline tests pass
# with it. Writes the outcome into <dir>/meta.json ("confirmed").
set -u
S=$(cd "$1" && pwd); NAME=$(basename "$S")
VERIF=$(cd "$(dirname "$0")/.." && pwd)
export GOFLAGS=-mod=mod GOPROXY=off GOTOOLCHAIN=auto; unset GOSUMDB GOWORK
DEMO=$(python3 -c "import json;print(json.load(open('$S/meta.json'))['demo_path'])")
WT=/tmp/cs-$NAME
git -C /repo worktree remove --force $WT 2>/dev/null; rm -rf $WT
git -C /repo worktree add --detach -q $WT HEAD || exit 2
res() { python3 - "$S/meta.json" "$@" <<'PY'
import json,sys
f=sys.argv[1]; m=json.load(open(f)); m["confirmed"]=dict(a.split("=",1) for a in sys.argv[2:]); json.dump(m,open(f,'w'),indent=1)
PY
}
cd $WT
PKG=./$(dirname $DEMO)
mkdir -p $(dirname $DEMO); cp $S/demo_test.go $DEMO
go test -vet=off -count=1 $PKG > /tmp/cs-$NAME.clean.log 2>&1; CLEAN=$?
git apply $S/patch.diff || { res apply=failed; cd /; git -C /repo worktree remove --force $WT; exit 1; }
go build ./... > /tmp/cs-$NAME.build.log 2>&1; BUILD=$?
go test -vet=off -count=1 $PKG > /tmp/cs-$NAME.mut.log 2>&1; MUT=$?
rm -f $DEMO; rmdir -p $(dirname $DEMO) 2>/dev/null
BASE=$($VERIF/tools/baseline.sh $WT | head -1)
cd /; git -C /repo worktree remove --force $WT; git -C /repo worktree prune
ok=no; [ $CLEAN = 0 ] && [ $BUILD = 0 ] && [ $MUT != 0 ] && [[ "$BASE" == *"539/539"* ]] && ok=yes
res ok=$ok build_with_patch=rc$BUILD demo_without_patch=rc$CLEAN demo_with_patch=rc$MUT "suite_with_patch=$BASE" "repo_head=$(git -C /repo rev-parse --short HEAD)"
echo "$NAME ok=$ok build=$BUILD demo_clean=$CLEAN demo_mut=$MUT $BASE"
rm -f /tmp/cs-$NAME.*.log
[ $ok = yes ]

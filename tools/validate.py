#!/opt/veriftools/pyvenv/bin/python
import json, jsonschema, sys, glob, os
V = os.environ.get("VERIF_DIR", "/verif")
m = json.load(open(f"{V}/MANIFEST.json"))
jsonschema.validate(m, json.load(open('/root/.vp/MANIFEST.schema.json')))
es = json.load(open('/root/.vp/EVIDENCE.schema.json'))
bad = 0
for c in m["checks"]:
    f = c["evidence_file"]
    if not os.path.exists(f):
        print("missing evidence", f); bad += 1; continue
    try:
        jsonschema.validate(json.load(open(f)), es)
    except Exception as e:
        print("INVALID", f, str(e)[:300]); bad += 1
print("manifest ok;", len(m["checks"]), "checks;", bad, "evidence problems")
sys.exit(1 if bad else 0)

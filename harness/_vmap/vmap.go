// Package vmap is the map-order seam of the /verif harness. It is compiled
// INTO the akita module through `go build -overlay` (as
// github.com/sarchlab/akita/v5/vmap); every `for ... range m` over a map in
// akita library code is rewritten to `for ... range vmap.Iter(m, site)`.
//
// The iteration order is then an explicit choice of the harness: a base policy
// (ascending / descending / rotated keys) plus at most one deviation — one
// dynamic occurrence (site, n-th execution with >= 2 keys) iterated in reverse.
// Keys are visited from a snapshot taken at loop start and re-checked for
// membership when reached, which is a legal Go map iteration (entries deleted
// before being reached are skipped; entries inserted during the loop may be
// skipped).
package vmap

import (
	"cmp"
	"fmt"
	"iter"
	"reflect"
	"sort"
)

// Policy values.
const (
	Ascending = iota
	Descending
	Rotate1
)

// State of the seam (single-threaded use: serial simulations).
var (
	// Base is the base order policy.
	Base = Ascending
	// DevSite/DevNth select the single deviating occurrence (DevSite < 0: none).
	DevSite = -1
	DevNth  = 0
	// Occ counts, per static site, the dynamic occurrences with >= 2 keys seen
	// since the last Reset.
	Occ = map[int]int{}
	// Uncontrolled lists sites whose key type cannot be ordered reproducibly
	// (pointer / interface / chan keys).
	Uncontrolled = map[int]string{}
	// Total counts every instrumented range executed since the last Reset.
	Total int
)

// Reset clears the occurrence counters.
func Reset() {
	Occ = map[int]int{}
	Total = 0
}

func orderable(k reflect.Kind) bool {
	switch k {
	case reflect.Pointer, reflect.Interface, reflect.Chan, reflect.UnsafePointer, reflect.Func:
		return false
	}
	return true
}

func sortKeys[K comparable](keys []K) {
	if len(keys) < 2 {
		return
	}
	switch any(keys[0]).(type) {
	case int:
		sortOrdered(any(keys).([]int))
		return
	case uint64:
		sortOrdered(any(keys).([]uint64))
		return
	case string:
		sortOrdered(any(keys).([]string))
		return
	case uint32:
		sortOrdered(any(keys).([]uint32))
		return
	case int64:
		sortOrdered(any(keys).([]int64))
		return
	}
	rv := reflect.ValueOf(keys[0])
	switch rv.Kind() {
	case reflect.Int, reflect.Int8, reflect.Int16, reflect.Int32, reflect.Int64:
		sort.Slice(keys, func(i, j int) bool { return reflect.ValueOf(keys[i]).Int() < reflect.ValueOf(keys[j]).Int() })
	case reflect.Uint, reflect.Uint8, reflect.Uint16, reflect.Uint32, reflect.Uint64, reflect.Uintptr:
		sort.Slice(keys, func(i, j int) bool { return reflect.ValueOf(keys[i]).Uint() < reflect.ValueOf(keys[j]).Uint() })
	case reflect.String:
		sort.Slice(keys, func(i, j int) bool { return reflect.ValueOf(keys[i]).String() < reflect.ValueOf(keys[j]).String() })
	default:
		strs := make([]string, len(keys))
		for i, k := range keys {
			strs[i] = fmt.Sprintf("%#v", k)
		}
		idx := make([]int, len(keys))
		for i := range idx {
			idx[i] = i
		}
		sort.Slice(idx, func(a, b int) bool { return strs[idx[a]] < strs[idx[b]] })
		out := make([]K, len(keys))
		for i, j := range idx {
			out[i] = keys[j]
		}
		copy(keys, out)
	}
}

func sortOrdered[T cmp.Ordered](s []T) { sort.Slice(s, func(i, j int) bool { return s[i] < s[j] }) }

// Iter returns the controlled iteration over m for the static site.
func Iter[M ~map[K]V, K comparable, V any](m M, site int) iter.Seq2[K, V] {
	return func(yield func(K, V) bool) {
		Total++
		keys := make([]K, 0, len(m))
		for k := range m {
			keys = append(keys, k)
		}
		if len(keys) >= 2 {
			var zero K
			if t := reflect.TypeOf(zero); t == nil || !orderable(t.Kind()) {
				Uncontrolled[site] = fmt.Sprintf("%T", zero)
			} else {
				sortKeys(keys)
				n := Occ[site]
				Occ[site] = n + 1
				order := Base
				if site == DevSite && n == DevNth {
					// the deviating occurrence: the opposite of the base order
					if order == Descending {
						order = Ascending
					} else {
						order = Descending
					}
				}
				switch order {
				case Descending:
					for i, j := 0, len(keys)-1; i < j; i, j = i+1, j-1 {
						keys[i], keys[j] = keys[j], keys[i]
					}
				case Rotate1:
					keys = append(keys[1:], keys[0])
				}
			}
		}
		for _, k := range keys {
			v, ok := m[k]
			if !ok {
				continue
			}
			if !yield(k, v) {
				return
			}
		}
	}
}

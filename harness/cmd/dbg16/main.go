package main

import (
	"encoding/json"
	"fmt"
	"os"

	"github.com/sarchlab/akita/v5/mem/memprotocol"
	"github.com/sarchlab/akita/v5/messaging"
	"github.com/sarchlab/akita/v5/tracing"

	"verif/harness/simx"
)

type ptracer struct {
	tracing.NopTracer
	name string
	now  func() uint64
}

func (p *ptracer) StartTask(t tracing.TaskStart) {
	fmt.Printf("%6d   [%s] start %d parent=%d %s/%s\n", p.now(), p.name, t.ID, t.ParentID, t.Kind, t.What)
}
func (p *ptracer) EndTask(t tracing.TaskEnd) { fmt.Printf("%6d   [%s] end %d\n", p.now(), p.name, t.ID) }
func (p *ptracer) AddTaskTag(t tracing.TaskTag) {
	fmt.Printf("%6d   [%s] tag task=%d %s\n", p.now(), p.name, t.TaskID, t.What)
}

// dbg16 <replay.json>: print the message trace of a memory-chain case.
func main() {
	b, _ := os.ReadFile(os.Args[1])
	var r struct {
		Case struct {
			Cfg simx.ChainCfg `json:"cfg"`
			Ops []simx.MemOp  `json:"ops"`
		} `json:"case"`
	}
	if err := json.Unmarshal(b, &r); err != nil {
		panic(err)
	}
	ch := simx.BuildChain(r.Case.Cfg, r.Case.Ops)
	messaging.VerifMsgObserver = func(kind, port string, msg messaging.Msg) {
		if kind != "send" {
			return
		}
		d := ""
		switch m := msg.(type) {
		case memprotocol.ReadReq:
			d = fmt.Sprintf("READ %#x+%d", m.Address, m.AccessByteSize)
		case memprotocol.WriteReq:
			d = fmt.Sprintf("WRITE %#x %x mask=%v", m.Address, m.Data, m.DirtyMask != nil)
		case memprotocol.DataReadyRsp:
			d = fmt.Sprintf("DATA %x rspto=%d", m.Data, m.RspTo)
		case memprotocol.WriteDoneRsp:
			d = fmt.Sprintf("WDONE rspto=%d", m.RspTo)
		default:
			d = fmt.Sprintf("%T", msg)
		}
		fmt.Printf("%6d %-14s id=%d %s\n", ch.Env.Eng.CurrentTime(), port, msg.Meta().ID, d)
	}
	for _, c := range ch.WB {
		tracing.CollectTrace(c, &ptracer{name: c.Name(), now: func() uint64 { return uint64(ch.Env.Eng.CurrentTime()) }})
	}
	for _, c := range ch.WT {
		tracing.CollectTrace(c, &ptracer{name: c.Name(), now: func() uint64 { return uint64(ch.Env.Eng.CurrentTime()) }})
	}
	ch.Driver.TickLater()
	ch.Env.Run(400000)
	for _, res := range ch.Driver.State.Results {
		fmt.Printf("result %+v\n", res)
	}
}

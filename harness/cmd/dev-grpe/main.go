package main

import (
	_ "verif/harness/checks/grpe"
	"verif/harness/lib"
)

func main() { lib.Main() }

package main

import (
	_ "verif/harness/checks/grpb"
	"verif/harness/lib"
)

func main() { lib.Main() }

package main

import (
	"fmt"
	"os"

	"github.com/sarchlab/akita/v5/timing"

	"verif/harness/simx"
)

func main() {
	cfg := simx.VMCfg{Width: 1, Sets: 2, Ways: 1, MSHR: 1, Lat: 1, MMULat: 2, PortBuf: 2, Burst: 2, Full: true}
	ops := []simx.XOp{{PID: 1, VPage: 0}, {PID: 1, VPage: 1}, {PID: 2, VPage: 0}, {PID: 1, VPage: 0}}
	var trace []string
	timing.VerifEventObserver = func(e timing.Event) {
		trace = append(trace, fmt.Sprintf("%d %s %T id=%d", e.Time(), e.HandlerID(), e, timing.GetIDGeneratorNextID()))
	}
	ref := simx.BuildVM(cfg, ops)
	ref.Driver.TickLater()
	ref.Env.Run(100000)
	rs, _ := ref.Env.Snapshot()
	fmt.Println("REF idgen", string(rs["IDGenerator"]))
	ref.Env.Close()

	refTrace := trace
	trace = nil
	src := simx.BuildVM(cfg, ops)
	src.Driver.TickLater()
	src.Env.Eng.RunUntil(1000)
	fmt.Println("SRC at cut idgen", timing.GetIDGeneratorNextID())
	src.Env.Sim.SaveCheckpoint("/dev/shm/dbg.tar.gz", "v")
	src.Env.Close()
	simx.SkipReset = os.Getenv("SAME") != ""
	dst := simx.BuildVM(cfg, ops)
	simx.SkipReset = false
	fmt.Println("DST after build idgen", timing.GetIDGeneratorNextID())
	if err := dst.Env.Sim.LoadCheckpoint("/dev/shm/dbg.tar.gz", "v"); err != nil {
		panic(err)
	}
	fmt.Println("DST after load idgen", timing.GetIDGeneratorNextID())
	dst.Env.Run(100000)
	for i := range trace {
		if i >= len(refTrace) || trace[i] != refTrace[i] {
			fmt.Println("FIRST DIVERGENCE at event", i, "\n ref:", refTrace[i-1], "|", refTrace[i], "\n dst:", trace[i-1], "|", trace[i])
			break
		}
	}
	ds, _ := dst.Env.Snapshot()
	fmt.Println("DST idgen", string(ds["IDGenerator"]))
	for _, k := range simx.DiffSnapshots(rs, ds) {
		fmt.Println("DIFF", k, "\n  ref:", string(rs[k]), "\n  dst:", string(ds[k]))
	}
}

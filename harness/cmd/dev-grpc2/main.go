package main

import (
	_ "verif/harness/checks/grpc2"
	"verif/harness/lib"
)

func main() { lib.Main() }

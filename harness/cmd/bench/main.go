package main

import (
	"fmt"
	"time"

	"verif/harness/simx"
)

func main() {
	lines := simx.SameSetLines(2)
	ops := []simx.MemOp{{Write: true, Addr: lines[0], Size: 64, Data: make([]byte, 64)}, {Addr: lines[0], Size: 64}}
	for _, full := range []bool{false, true} {
		t0 := time.Now()
		n := 50
		var tb, tr, tc time.Duration
		for i := 0; i < n; i++ {
			a := time.Now()
			ch := simx.BuildChain(simx.ChainCfg{Stages: []string{"wb"}, Memory: "ideal", NumMem: 1, PortBuf: 4, Lat: 1, MSHR: 2, Eager: true, Full: full}, append([]simx.MemOp{}, ops...))
			b := time.Now()
			ch.Driver.TickLater()
			ch.Env.Run(100000)
			c := time.Now()
			ch.Env.Close()
			d := time.Now()
			tb += b.Sub(a)
			tr += c.Sub(b)
			tc += d.Sub(c)
		}
		fmt.Printf("full=%v per sim %v (build %v run %v close %v)\n", full, time.Since(t0)/time.Duration(n), tb/time.Duration(n), tr/time.Duration(n), tc/time.Duration(n))
	}
}

package main

import (
	_ "verif/harness/checks/sched"
	"verif/harness/lib"
)

func main() { lib.Main() }

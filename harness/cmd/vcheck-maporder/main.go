package main

import (
	_ "verif/harness/checks/maporder"
	"verif/harness/lib"
)

func main() { lib.Main() }

package main

import (
	_ "verif/harness/checks"
	_ "verif/harness/checks/grpa"
	_ "verif/harness/checks/grpb"
	"verif/harness/lib"
)

func main() { lib.Main() }

package main

import (
	_ "verif/harness/checks"
	_ "verif/harness/checks/grpa"
	"verif/harness/lib"
)

func main() { lib.Main() }

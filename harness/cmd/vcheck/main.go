package main

import (
	_ "verif/harness/checks"
	"verif/harness/lib"
)

func main() { lib.Main() }

package main

import (
	_ "verif/harness/checks"
	_ "verif/harness/checks/grpa"
	_ "verif/harness/checks/grpb"
	_ "verif/harness/checks/grpc"
	_ "verif/harness/checks/grpc2"
	_ "verif/harness/checks/grpd"
	_ "verif/harness/checks/grpe"
	_ "verif/harness/checks/sim"
	"verif/harness/lib"
)

func main() { lib.Main() }

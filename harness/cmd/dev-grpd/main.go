package main

import (
	_ "verif/harness/checks/grpd"
	"verif/harness/lib"
)

func main() { lib.Main() }

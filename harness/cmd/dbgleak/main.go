package main

import (
	"fmt"

	"github.com/sarchlab/akita/v5/timing"
	"github.com/sarchlab/akita/v5/tracing"

	"verif/harness/simx"
)

// dbgleak: which assemblies leave entries in the tracing side tables after a
// quiescent run?
func main() {
	lines := simx.SameSetLines(3)
	stageSets := [][]string{{}, {"rob"}, {"wb"}, {"wt-around"}, {"wt-evict"}, {"wt-through"}, {"wt-through", "wb"}, {"rob", "wb"}}
	mems := []string{"ideal", "banked2", "dram-DDR4"}
	scripts := [][]simx.MemOp{
		{{Addr: lines[0], Size: 4}},
		{{Write: true, Addr: lines[0], Size: 4, Data: []byte{1, 2, 3, 4}}},
		{{Write: true, Addr: lines[0], Size: 64, Data: make([]byte, 64)}},
		{{Addr: lines[0], Size: 4}, {Addr: lines[0], Size: 4}},
		{{Write: true, Addr: lines[0], Size: 4, Data: []byte{1, 2, 3, 4}}, {Addr: lines[0], Size: 64}},
		{{Write: true, Addr: lines[0], Size: 64, Data: make([]byte, 64)}, {Write: true, Addr: lines[1], Size: 64, Data: make([]byte, 64)}, {Write: true, Addr: lines[2], Size: 64, Data: make([]byte, 64)}},
	}
	for _, full := range []bool{false, true} {
		for _, st := range stageSets {
			for _, m := range mems {
				for si, ops := range scripts {
					timing.ResetIDGenerator()
					tracing.VerifResetRegistries()
					cfg := simx.ChainCfg{Stages: st, Memory: m, NumMem: 1, PortBuf: 4, Lat: 1, MSHR: 2, Eager: true, Full: full}
					ch := simx.BuildChain(cfg, ops)
					ch.Driver.TickLater()
					ch.Env.Run(400000)
					done := ch.Driver.Done()
					ch.Env.Close()
					keys := tracing.VerifRegistryKeys()
					if n := tracing.VerifResetRegistries(); n > 0 && si == 5 && m == "ideal" {
						fmt.Println("   ", keys)
						fmt.Printf("full=%v %v+%s script%d done=%v: %d entries left\n", full, st, m, si, done, n)
					}
					_ = keys
				}
			}
		}
	}
}

package main

import (
	"context"
	"database/sql"
	"fmt"
	"os"
	"time"

	"github.com/sarchlab/akita/v5/daisen2"
)

func main() {
	dir, _ := os.MkdirTemp("/dev/shm", "grpc-stress")
	defer os.RemoveAll(dir)
	p := dir + "/t.sqlite3"
	db, _ := sql.Open("sqlite3", p)
	db.Exec("CREATE TABLE trace(ID INTEGER, Kind TEXT)")
	db.Exec("INSERT INTO trace VALUES(1,'x')")
	db.Close()
	srv := daisen2.NewReplayServer(p, "")
	pool := daisen2.VerifServerDB(srv)
	bad := 0
	for i := 0; i < 1500; i++ {
		ctx, cancel := context.WithCancel(context.Background())
		d := time.Duration(20+i%20) * time.Millisecond
		t := time.AfterFunc(d, cancel)
		t0 := time.Now()
		out := daisen2.VerifRunAgentTool(ctx, srv, "data_query", `{"sql":"WITH RECURSIVE c(x) AS (SELECT 1 UNION ALL SELECT x+1 FROM c WHERE x < 300000000) SELECT COUNT(*) FROM c"}`)
		if el := time.Since(t0); el > 500*time.Millisecond { fmt.Printf("iter %d delay %v took %v out=%q\n", i, d, el, out) }
		t.Stop()
		cancel()
		// check all pooled conns
		n := pool.Stats().OpenConnections
		var conns []*sql.Conn
		for k := 0; k < n; k++ {
			c, err := pool.Conn(context.Background())
			if err != nil {
				fmt.Println("conn err", err)
				continue
			}
			conns = append(conns, c)
			var qo int
			c.QueryRowContext(context.Background(), "PRAGMA query_only").Scan(&qo)
			if qo != 0 {
				bad++
				fmt.Printf("iter %d: query_only left ON (out=%q)\n", i, out)
				c.ExecContext(context.Background(), "PRAGMA query_only = OFF")
			}
		}
		for _, c := range conns {
			c.Close()
		}
	}
	fmt.Println("bad:", bad, "open:", pool.Stats().OpenConnections)
}

package main

import (
	_ "verif/harness/checks/grpc"
	"verif/harness/lib"
)

func main() { lib.Main() }

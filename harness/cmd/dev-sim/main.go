package main

import (
	_ "verif/harness/checks/sim"
	"verif/harness/lib"
)

func main() { lib.Main() }

// instr generates a `go build -overlay` that instruments /repo's current
// working tree for the scheduler engine (sync seam) and/or the map-order seam.
// It never writes under /repo.
package main

import (
	"bytes"
	"encoding/json"
	"flag"
	"fmt"
	"go/ast"
	"go/format"
	"go/printer"
	"go/parser"
	"go/token"
	"os"
	"path/filepath"
	"sort"
	"strconv"
	"strings"
)

const modPath = "github.com/sarchlab/akita/v5"

var (
	repo     = flag.String("repo", "/repo", "akita working tree")
	out      = flag.String("out", "", "output directory")
	shimSrc  = flag.String("shims", "/verif/harness/_vsched", "source of the vsched virtual package")
	vmapSrc  = flag.String("vmap", "/verif/harness/_vmap", "source of the vmap virtual package")
	syncPkgs = flag.String("sync", "", "comma-separated package dirs (relative to repo) whose sync/atomic/go/chan operations are redirected")
	chanPkgs = flag.String("chan", "timing", "comma-separated package dirs whose channel operations are redirected")
	pointsIn = flag.String("points", "", "comma-separated files (relative to repo) that get a scheduling point before every statement")
	mapMode  = flag.Bool("maporder", false, "also apply the map-order seam (needs type information)")
	mapPkgs  = flag.String("mappkgs", "", "package dirs for the map-order seam (default: all library packages)")
	baseOv   = flag.String("base-overlay", "", "an existing overlay (e.g. a mutant) whose replacements are used as the source of truth")
)

var base = map[string]string{}

// readSrc reads a /repo file through the base overlay.
func readSrc(f string) ([]byte, error) {
	if r, ok := base[f]; ok {
		return os.ReadFile(r)
	}
	return os.ReadFile(f)
}

type overlay struct {
	Replace map[string]string
}

func main() {
	flag.Parse()
	if *out == "" {
		fmt.Fprintln(os.Stderr, "instr: -out required")
		os.Exit(2)
	}
	ov := overlay{Replace: map[string]string{}}
	must(os.MkdirAll(*out, 0o755))
	if *baseOv != "" {
		b, err := os.ReadFile(*baseOv)
		must(err)
		var bo overlay
		must(json.Unmarshal(b, &bo))
		for k, v := range bo.Replace {
			base[k] = v
			ov.Replace[k] = v
		}
	}
	report := map[string]any{}

	// virtual packages
	addVirtual := func(srcDir, rel string) {
		_ = filepath.Walk(srcDir, func(p string, info os.FileInfo, err error) error {
			if err != nil || info.IsDir() || !strings.HasSuffix(p, ".go") {
				return nil
			}
			r, _ := filepath.Rel(srcDir, p)
			ov.Replace[filepath.Join(*repo, rel, r)] = p
			return nil
		})
	}
	if *syncPkgs != "" {
		addVirtual(*shimSrc, "vsched")
	}
	if *mapMode {
		addVirtual(*vmapSrc, "vmap")
	}

	rewritten := map[string][]byte{} // abs path -> new content
	if *syncPkgs != "" {
		// file.go or file.go:FuncA+FuncB (only inside those functions/methods)
		pts := map[string]bool{}
		ptFuncs := map[string]map[string]bool{}
		for _, f := range splitList(*pointsIn) {
			name, funcs, scoped := strings.Cut(f, ":")
			abs := filepath.Join(*repo, name)
			pts[abs] = true
			if scoped {
				ptFuncs[abs] = map[string]bool{}
				for _, fn := range strings.Split(funcs, "+") {
					ptFuncs[abs][fn] = true
				}
			}
		}
		chans := map[string]bool{}
		for _, d := range splitList(*chanPkgs) {
			chans[d] = true
		}
		var sites []string
		for _, d := range splitList(*syncPkgs) {
			files, _ := filepath.Glob(filepath.Join(*repo, d, "*.go"))
			sort.Strings(files)
			for _, f := range files {
				if strings.HasSuffix(f, "_test.go") {
					continue
				}
				src, err := readSrc(f)
				must(err)
				nsrc, notes, err := rewriteSync(f, src, chans[d], pts[f], ptFuncs[f])
				if err != nil {
					fmt.Fprintf(os.Stderr, "instr: %s: %v\n", f, err)
					os.Exit(1)
				}
				if nsrc != nil {
					rewritten[f] = nsrc
					sites = append(sites, notes...)
				}
			}
		}
		report["sync_sites"] = sites
	}
	if *mapMode {
		sites, err := rewriteMaps(rewritten)
		if err != nil {
			fmt.Fprintf(os.Stderr, "instr: maporder: %v\n", err)
			os.Exit(1)
		}
		report["map_sites"] = sites
	}
	for f, b := range rewritten {
		rel, _ := filepath.Rel(*repo, f)
		dst := filepath.Join(*out, "src", rel)
		must(os.MkdirAll(filepath.Dir(dst), 0o755))
		must(os.WriteFile(dst, b, 0o644))
		ov.Replace[f] = dst
	}
	b, _ := json.MarshalIndent(ov, "", " ")
	must(os.WriteFile(filepath.Join(*out, "overlay.json"), b, 0o644))
	rb, _ := json.MarshalIndent(report, "", " ")
	must(os.WriteFile(filepath.Join(*out, "report.json"), rb, 0o644))
}

func must(err error) {
	if err != nil {
		fmt.Fprintln(os.Stderr, "instr:", err)
		os.Exit(1)
	}
}

func splitList(s string) []string {
	var out []string
	for _, x := range strings.Split(s, ",") {
		x = strings.TrimSpace(x)
		if x != "" {
			out = append(out, x)
		}
	}
	return out
}

// rewriteSync redirects sync, sync/atomic, go statements and (optionally)
// channel operations of one file. It returns nil when nothing changed.
func rewriteSync(path string, src []byte, chans, points bool, pointFuncs map[string]bool) ([]byte, []string, error) {
	fset := token.NewFileSet()
	f, err := parser.ParseFile(fset, path, src, parser.ParseComments)
	if err != nil {
		return nil, nil, err
	}
	// statement points can be limited to the bodies of named functions
	type span struct{ lo, hi token.Pos }
	var pointSpans []span
	if points && pointFuncs != nil {
		found := map[string]bool{}
		for _, d := range f.Decls {
			if fd, ok := d.(*ast.FuncDecl); ok && fd.Body != nil && pointFuncs[fd.Name.Name] {
				pointSpans = append(pointSpans, span{fd.Body.Pos(), fd.Body.End()})
				found[fd.Name.Name] = true
			}
		}
		for fn := range pointFuncs {
			if !found[fn] {
				return nil, nil, fmt.Errorf("-points: function %s not found in %s", fn, path)
			}
		}
	}
	wantPoint := func(st ast.Stmt) bool {
		if !points {
			return false
		}
		if pointFuncs == nil {
			return true
		}
		for _, sp := range pointSpans {
			if st.Pos() >= sp.lo && st.Pos() < sp.hi {
				return true
			}
		}
		return false
	}
	changed := false
	var notes []string
	needVsched := false
	for _, im := range f.Imports {
		p, _ := strconv.Unquote(im.Path.Value)
		switch p {
		case "sync":
			if im.Name != nil && im.Name.Name != "sync" {
				return nil, nil, fmt.Errorf("renamed import of sync is not supported")
			}
			im.Path.Value = strconv.Quote(modPath + "/vsched/vsync")
			im.Name = ast.NewIdent("sync")
			changed = true
		case "sync/atomic":
			if im.Name != nil && im.Name.Name != "atomic" {
				return nil, nil, fmt.Errorf("renamed import of sync/atomic is not supported")
			}
			im.Path.Value = strconv.Quote(modPath + "/vsched/vatomic")
			im.Name = ast.NewIdent("atomic")
			changed = true
		}
	}
	var ferr error
	pos := func(n ast.Node) string {
		p := fset.Position(n.Pos())
		return fmt.Sprintf("%s:%d", filepath.Base(p.Filename), p.Line)
	}
	vs := func(name string) ast.Expr {
		needVsched = true
		return &ast.SelectorExpr{X: ast.NewIdent("vsched"), Sel: ast.NewIdent(name)}
	}
	var rewriteStmtList func(list []ast.Stmt) []ast.Stmt
	rewriteExpr := func(e ast.Expr) ast.Expr { return e }
	_ = rewriteExpr

	// expression-level: <-ch
	var fixExprs func(n ast.Node)
	fixExprs = func(n ast.Node) {
		ast.Inspect(n, func(x ast.Node) bool {
			switch v := x.(type) {
			case *ast.SelectStmt:
				if chans {
					ferr = fmt.Errorf("%s: select statement is not modelled by the channel seam", pos(v))
				}
			case *ast.RangeStmt:
				// range over a channel cannot be told apart without types; the
				// explored packages do not use it (checked by reading); a
				// `for v := range ch` would simply stay uncontrolled.
			}
			return true
		})
	}
	fixExprs(f)
	if ferr != nil {
		return nil, nil, ferr
	}

	replaceRecv := func(e *ast.Expr) {
		if u, ok := (*e).(*ast.UnaryExpr); ok && u.Op == token.ARROW && chans {
			notes = append(notes, pos(u)+" recv")
			*e = &ast.CallExpr{Fun: vs("Recv"), Args: []ast.Expr{u.X}}
			changed = true
		}
	}
	// walk all expressions that can hold a receive
	var walk func(n ast.Node)
	walk = func(n ast.Node) {
		ast.Inspect(n, func(x ast.Node) bool {
			switch v := x.(type) {
			case *ast.AssignStmt:
				for i := range v.Rhs {
					replaceRecv(&v.Rhs[i])
				}
			case *ast.ExprStmt:
				replaceRecv(&v.X)
			case *ast.ValueSpec:
				for i := range v.Values {
					replaceRecv(&v.Values[i])
				}
			case *ast.CallExpr:
				for i := range v.Args {
					replaceRecv(&v.Args[i])
				}
			case *ast.ReturnStmt:
				for i := range v.Results {
					replaceRecv(&v.Results[i])
				}
			case *ast.BinaryExpr:
				replaceRecv(&v.X)
				replaceRecv(&v.Y)
			}
			return true
		})
	}
	walk(f)

	rewriteStmtList = func(list []ast.Stmt) []ast.Stmt {
		var outl []ast.Stmt
		for _, st := range list {
			if wantPoint(st) {
				switch st.(type) {
				case *ast.DeclStmt, *ast.LabeledStmt, *ast.CaseClause, *ast.CommClause:
				default:
					outl = append(outl, &ast.ExprStmt{X: &ast.CallExpr{Fun: vs("Point")}})
					changed = true
				}
			}
			switch v := st.(type) {
			case *ast.GoStmt:
				notes = append(notes, pos(v)+" go")
				outl = append(outl, &ast.ExprStmt{X: &ast.CallExpr{
					Fun: vs("Go"),
					Args: []ast.Expr{&ast.FuncLit{
						Type: &ast.FuncType{Params: &ast.FieldList{}},
						Body: &ast.BlockStmt{List: []ast.Stmt{&ast.ExprStmt{X: v.Call}}},
					}},
				}})
				changed = true
				continue
			case *ast.SendStmt:
				if chans {
					notes = append(notes, pos(v)+" send")
					// vsched.SendPoint(func() bool { return len(C) < cap(C) }); C <- V
					lenCall := &ast.CallExpr{Fun: ast.NewIdent("len"), Args: []ast.Expr{v.Chan}}
					capCall := &ast.CallExpr{Fun: ast.NewIdent("cap"), Args: []ast.Expr{v.Chan}}
					pred := &ast.FuncLit{
						Type: &ast.FuncType{Params: &ast.FieldList{}, Results: &ast.FieldList{List: []*ast.Field{{Type: ast.NewIdent("bool")}}}},
						Body: &ast.BlockStmt{List: []ast.Stmt{&ast.ReturnStmt{Results: []ast.Expr{&ast.BinaryExpr{X: lenCall, Op: token.LSS, Y: capCall}}}}},
					}
					outl = append(outl, &ast.ExprStmt{X: &ast.CallExpr{Fun: vs("SendPoint"), Args: []ast.Expr{pred}}})
					outl = append(outl, v)
					changed = true
					continue
				}
			}
			outl = append(outl, st)
		}
		return outl
	}
	ast.Inspect(f, func(x ast.Node) bool {
		switch v := x.(type) {
		case *ast.BlockStmt:
			v.List = rewriteStmtList(v.List)
		case *ast.CaseClause:
			v.Body = rewriteStmtList(v.Body)
		case *ast.CommClause:
			v.Body = rewriteStmtList(v.Body)
		}
		return true
	})
	if !changed {
		return nil, nil, nil
	}
	if needVsched {
		addImport(f, modPath+"/vsched", "vsched")
	}
	if points {
		// free-floating comments between statements confuse the printer once
		// position-less statements are inserted: keep only the comments in
		// front of the package clause (build constraints)
		var keep []*ast.CommentGroup
		for _, cg := range f.Comments {
			if cg.End() < f.Package {
				keep = append(keep, cg)
			}
		}
		f.Comments = keep
	}
	var buf bytes.Buffer
	if err := format.Node(&buf, fset, f); err != nil {
		if dump := os.Getenv("INSTR_DUMP"); dump != "" {
			var b2 bytes.Buffer
			_ = printer.Fprint(&b2, fset, f)
			_ = os.WriteFile(dump, b2.Bytes(), 0o644)
		}
		return nil, nil, err
	}
	return buf.Bytes(), notes, nil
}

func addImport(f *ast.File, path, name string) {
	_ = name
	for _, im := range f.Imports {
		if p, _ := strconv.Unquote(im.Path.Value); p == path {
			return
		}
	}
	spec := &ast.ImportSpec{Path: &ast.BasicLit{Kind: token.STRING, Value: strconv.Quote(path)}}
	decl := &ast.GenDecl{Tok: token.IMPORT, Specs: []ast.Spec{spec}}
	f.Decls = append([]ast.Decl{decl}, f.Decls...)
	f.Imports = append(f.Imports, spec)
}

package main

func rewriteMaps(rewritten map[string][]byte) ([]string, error) {
	return nil, nil
}

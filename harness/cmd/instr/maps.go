package main

import (
	"bytes"
	"fmt"
	"go/ast"
	"go/format"
	"go/types"
	"os"
	"path/filepath"
	"sort"
	"strconv"
	"strings"

	"golang.org/x/tools/go/packages"
)

// rewriteMaps finds every `for ... range X` whose X has map type in akita's
// library packages and wraps X in vmap.Iter(X, siteID). Files that were already
// rewritten by the sync seam are re-parsed from their rewritten form, so both
// seams compose. It returns a description of every site.
func rewriteMaps(rewritten map[string][]byte) ([]string, error) {
	// go/packages reads /repo; feed it the base overlay and the sync-seam rewrites
	ov := map[string][]byte{}
	for f, r := range base {
		b, err := os.ReadFile(r)
		if err != nil {
			return nil, err
		}
		ov[f] = b
	}
	for f, b := range rewritten {
		ov[f] = b
	}
	// the sync seam imports the virtual vsched package: give the loader its sources
	for _, pair := range [][2]string{{*shimSrc, "vsched"}} {
		_ = filepath.Walk(pair[0], func(p string, info os.FileInfo, err error) error {
			if err != nil || info.IsDir() || !strings.HasSuffix(p, ".go") {
				return nil
			}
			r, _ := filepath.Rel(pair[0], p)
			b, e := os.ReadFile(p)
			if e == nil {
				ov[filepath.Join(*repo, pair[1], r)] = b
			}
			return nil
		})
	}
	cfg := &packages.Config{
		Mode:       packages.NeedName | packages.NeedFiles | packages.NeedCompiledGoFiles | packages.NeedSyntax | packages.NeedTypes | packages.NeedTypesInfo | packages.NeedImports,
		Dir:        *repo,
		Overlay:    ov,
		BuildFlags: []string{"-tags=verif"},
		Env:        append(os.Environ(), "GOFLAGS=-mod=mod", "GOPROXY=off"),
	}
	pats := []string{"./..."}
	if *mapPkgs != "" {
		pats = nil
		for _, d := range splitList(*mapPkgs) {
			pats = append(pats, "./"+d)
		}
	}
	pkgs, err := packages.Load(cfg, pats...)
	if err != nil {
		return nil, err
	}
	var sites []string
	siteID := 0
	sort.Slice(pkgs, func(i, j int) bool { return pkgs[i].PkgPath < pkgs[j].PkgPath })
	for _, pkg := range pkgs {
		if len(pkg.Errors) > 0 {
			// packages with broken generated code (missing mocks) only fail in tests; library errors are fatal
			return nil, fmt.Errorf("package %s: %v", pkg.PkgPath, pkg.Errors[0])
		}
		rel := strings.TrimPrefix(pkg.PkgPath, modPath)
		if strings.HasPrefix(rel, "/vsched") || strings.HasPrefix(rel, "/vmap") ||
			strings.HasPrefix(rel, "/doc") || strings.Contains(rel, "/acceptancetests") || strings.HasPrefix(rel, "/examples") {
			continue
		}
		for i, f := range pkg.Syntax {
			path := pkg.CompiledGoFiles[i]
			if !strings.HasPrefix(path, *repo) || strings.HasSuffix(path, "_test.go") {
				continue
			}
			changed := false
			ast.Inspect(f, func(n ast.Node) bool {
				rs, ok := n.(*ast.RangeStmt)
				if !ok {
					return true
				}
				tv, ok := pkg.TypesInfo.Types[rs.X]
				if !ok {
					return true
				}
				if _, isMap := tv.Type.Underlying().(*types.Map); !isMap {
					return true
				}
				p := pkg.Fset.Position(rs.Pos())
				r, _ := filepath.Rel(*repo, p.Filename)
				sites = append(sites, fmt.Sprintf("%d %s:%d %s", siteID, r, p.Line, tv.Type.String()))
				rs.X = &ast.CallExpr{
					Fun:  &ast.SelectorExpr{X: ast.NewIdent("vmap"), Sel: ast.NewIdent("Iter")},
					Args: []ast.Expr{rs.X, &ast.BasicLit{Kind: 5 /* token.INT */, Value: strconv.Itoa(siteID)}},
				}
				siteID++
				changed = true
				return true
			})
			if !changed {
				continue
			}
			addImport(f, modPath+"/vmap", "vmap")
			var buf bytes.Buffer
			if err := format.Node(&buf, pkg.Fset, f); err != nil {
				return nil, err
			}
			rewritten[path] = buf.Bytes()
		}
	}
	return sites, nil
}

package grpd

import (
	"fmt"
	"runtime/debug"
	"sort"
	"strings"

	"github.com/sarchlab/akita/v5/hooking"
	"github.com/sarchlab/akita/v5/modeling"
	"github.com/sarchlab/akita/v5/timing"

	"verif/harness/lib"
)

// C12: ticking components tick on clock edges, at most once per instant, keep
// ticking while they make progress, and a receive / port-free notification
// leads to a tick at a later clock edge.

const (
	c12NotifyRecv = iota
	c12NotifyPortFree
	c12TickNow
	c12TickLater
)

var c12KindName = []string{"notifyrecv", "notifyportfree", "ticknow", "ticklater"}

// c12Req is one wake request of the script.
type c12Req struct {
	// Slot = 2*instantIndex + phase. Phase 0 requests are made by a primary
	// driver event that was scheduled before Run (so before a tick of the same
	// instant); phase 1 requests are made by a secondary driver event scheduled
	// during phase 0 of the same instant (so after a tick of that instant).
	Slot int `json:"slot"`
	Kind int `json:"kind"`
}

type c12Case struct {
	FreqHz    uint64   `json:"freq_hz"`
	Secondary bool     `json:"secondary"` // built like a direct connection: secondary tick events
	Reqs      []c12Req `json:"reqs"`
	Prog      []bool   `json:"progress"` // result of the k-th Tick; false afterwards
}

type c12Spec struct {
	FreqHz uint64 `json:"freq_hz"`
}

type c12State struct {
	Ticks int `json:"ticks"`
}

type c12MW struct {
	eng   *timing.SerialEngine
	comp  *modeling.Component[c12Spec, c12State, modeling.None]
	prog  []bool
	ticks []uint64
}

func (m *c12MW) Tick() bool {
	k := len(m.ticks)
	m.ticks = append(m.ticks, uint64(m.eng.CurrentTime()))
	m.comp.State.Ticks++
	if k < len(m.prog) {
		return m.prog[k]
	}
	return false
}

var c12Freqs = []uint64{1_000_000_000, 1_500_000_000, 3_000_000_000, 700_000_000}

// c12Instants is the instant set of one frequency: clock edges 0, p, 2p,
// off-edge instants p/2 and p+1, and the edges 1000/2000 of a 1 GHz connection
// (off-edge for every other frequency).
func c12Instants(p uint64) []uint64 {
	set := map[uint64]bool{0: true, p / 2: true, p: true, p + 1: true, 2 * p: true, 1000: true, 2000: true}
	out := make([]uint64, 0, len(set))
	for t := range set {
		out = append(out, t)
	}
	sort.Slice(out, func(i, j int) bool { return out[i] < out[j] })
	return out
}

type c12Made struct {
	kind int
	at   uint64
}

func runC12(cs c12Case) (string, []lib.Problem) {
	timing.ResetIDGenerator()
	pr := &probs{prefix: "ticking:"}
	if cs.FreqHz == 0 {
		pr.bad("bad-case", "frequency 0")
		return "bad", pr.list
	}
	p := periodOf(cs.FreqHz)
	inst := c12Instants(p)
	freq := timing.Freq(cs.FreqHz)

	eng := timing.NewSerialEngine()
	reg := modeling.NewStandaloneRegistrar(eng)
	const name = "TC"
	comp := modeling.NewBuilder[c12Spec, c12State, modeling.None]().
		WithEngine(eng).WithFreq(freq).WithSpec(c12Spec{FreqHz: cs.FreqHz}).Build(name)
	if cs.Secondary {
		// exactly what directconnection.Builder does
		comp.TickingComponent = modeling.NewSecondaryTickingComponent(name, eng, freq, comp)
	}
	mw := &c12MW{eng: eng, comp: comp, prog: cs.Prog}
	comp.AddMiddleware(mw)
	comp.DeclarePort("In")
	port := modeling.MakePortBuilder().WithRegistrar(reg).WithComponent(comp).Build("In")
	comp.AssignPort("In", port)

	var hookTicks []uint64
	eng.AcceptHook(&hookFn{fn: func(ctx hooking.HookCtx) {
		if ctx.Pos != timing.HookPosBeforeEvent {
			return
		}
		if evt, ok := ctx.Item.(timing.Event); ok && evt.HandlerID() == name {
			hookTicks = append(hookTicks, uint64(evt.Time()))
		}
	}})

	var made []c12Made
	do := func(kind int) {
		made = append(made, c12Made{kind, uint64(eng.CurrentTime())})
		switch kind {
		case c12NotifyRecv:
			comp.NotifyRecv(port)
		case c12NotifyPortFree:
			comp.NotifyPortFree(port)
		case c12TickNow:
			comp.TickNow()
		case c12TickLater:
			comp.TickLater()
		}
	}
	drv := newDriver(eng)
	for i := 0; i < len(inst); i++ {
		var early, late []int
		for _, r := range cs.Reqs {
			if r.Slot < 0 || r.Slot >= 2*len(inst) || r.Kind < 0 || r.Kind > 3 {
				pr.bad("bad-case", "request %+v out of range", r)
				return "bad", pr.list
			}
			if r.Slot/2 == i {
				if r.Slot%2 == 0 {
					early = append(early, r.Kind)
				} else {
					late = append(late, r.Kind)
				}
			}
		}
		if len(early)+len(late) == 0 {
			continue
		}
		t := inst[i]
		drv.at(t, false, func() {
			for _, k := range early {
				do(k)
			}
			if len(late) > 0 {
				drv.at(t, true, func() {
					for _, k := range late {
						do(k)
					}
				})
			}
		})
	}

	if msg := lib.Catch(func() {
		if err := eng.Run(); err != nil {
			pr.bad("run-error", "Run returned %v", err)
		}
	}); msg != "" {
		pr.bad("run-panic", "Run panicked: %s", msg)
		return "panic", pr.list
	}

	ticks := mw.ticks
	if fmt.Sprint(ticks) != fmt.Sprint(hookTicks) {
		pr.bad("tick-event-mismatch", "tick events seen by the engine hook %v, Tick() calls at %v", hookTicks, ticks)
	}
	at := map[uint64]int{}
	for _, t := range ticks {
		if t%p != 0 {
			pr.bad("off-edge", "period %d ps: ticked at %d, not a multiple of the period (ticks %v)", p, t, ticks)
		}
		at[t]++
		if at[t] == 2 {
			pr.bad("twice-in-one-instant", "period %d ps: ticked twice at %d (ticks %v)", p, t, ticks)
		}
	}
	for k, t := range ticks {
		if k < len(cs.Prog) && cs.Prog[k] && at[t+p] == 0 {
			pr.bad("progress-not-reticked", "period %d ps: tick #%d at %d made progress but there is no tick at %d (ticks %v)", p, k, t, t+p, ticks)
		}
	}
	for _, m := range made {
		if m.kind != c12NotifyRecv && m.kind != c12NotifyPortFree {
			continue
		}
		hi := refNextTick(m.at, p)
		ok := false
		for _, t := range ticks {
			if t > m.at && t <= hi {
				ok = true
			}
		}
		if !ok {
			cls := "off-edge"
			if m.at%p == 0 {
				cls = "on-edge"
			}
			pr.bad(c12KindName[m.kind]+"-no-later-tick:"+cls, "period %d ps: %s at %d but no tick in (%d, %d] (ticks %v)",
				p, c12KindName[m.kind], m.at, m.at, hi, ticks)
		}
	}
	if len(made) != len(cs.Reqs) {
		pr.bad("harness-requests-not-made", "%d of %d scripted requests were executed", len(made), len(cs.Reqs))
	}

	var sb strings.Builder
	for _, t := range ticks {
		fmt.Fprintf(&sb, "%d.", t/p)
	}
	return sb.String(), pr.list
}

func enumC12(c *lib.Ctx, yield func(c12Case) bool) {
	maxReq := lib.Pick(c, 3, 4)
	reqs := make([]c12Req, 0, 8)
	prog := make([]bool, 4)
	for n := 0; n <= maxReq; n++ {
		for _, f := range c12Freqs {
			nslots := 2 * len(c12Instants(periodOf(f)))
			for _, sec := range []bool{false, true} {
				var rec func(minSlot int) bool
				rec = func(minSlot int) bool {
					if len(reqs) == n {
						for pat := 0; pat < 16; pat++ {
							for i := range prog {
								prog[i] = pat>>i&1 == 1
							}
							if !yield(c12Case{FreqHz: f, Secondary: sec, Reqs: reqs, Prog: prog}) {
								return false
							}
						}
						return true
					}
					for slot := minSlot; slot < nslots; slot++ {
						for kind := 0; kind < 4; kind++ {
							reqs = append(reqs, c12Req{Slot: slot, Kind: kind})
							ok := rec(slot)
							reqs = reqs[:len(reqs)-1]
							if !ok {
								return false
							}
						}
					}
					return true
				}
				if !rec(0) {
					return
				}
			}
		}
	}
}

func init() {
	lib.Register(&lib.Check{
		ID:    "C12",
		Level: "exploration",
		Rule: "every (frequency in {1 GHz, 1.5 GHz, 3 GHz, 700 MHz}) x (primary | secondary tick scheduler) x every script of <= N wake requests (quick N=3, thorough N=4) " +
			"over {NotifyRecv, NotifyPortFree, TickNow, TickLater} x instants {0, p/2, p, p+1, 2p, 1000, 2000} ps (p = floor(1e12/f); on- and off-edge) x {before, after} the ticks of that instant, in every order and with duplicates, " +
			"x every progress pattern of 4 booleans (k-th Tick's result; false afterwards, which also covers all shorter patterns). Requests are made by driver events on the real SerialEngine against a real modeling.Component; " +
			"ticks are observed by an engine BeforeEvent hook and by the Tick log. Oracle: tick time = 0 mod p; <= 1 tick per instant; progress at t => tick at t+p; NotifyRecv/NotifyPortFree at t => a tick in (t, NextTick(t)]. Each tuple is a distinct case.",
		Sharded:     true,
		MinOutcomes: 8,
		Assumptions: []string{
			"clock edge = multiple of floor(1e12/f) ps, the integer period timing.Freq.Period defines",
			"notifications are made by calling the component's NotifyRecv/NotifyPortFree with a real port (the port-side conditions for calling them are C11's subject)",
			"TickNow/TickLater requests only perturb the scheduler guard; the statement puts no obligation on them",
		},
		Run: func(c *lib.Ctx) {
			debug.SetGCPercent(1600) // tiny live heap, millions of short cases: fewer GC cycles
			lib.Cases(c, func(yield func(c12Case) bool) { enumC12(c, yield) }, runC12)
		},
		Replay: lib.ReplayCases(runC12),
	})
}

// Package grpd holds the checks of the component/connection kernel group:
// C09 (no lost wakeups), C10 (direct connection ledger), C12 (ticking
// components) and C13 (event-driven components). Every rig is built from the
// real akita builders on a real timing.SerialEngine through
// modeling.NewStandaloneRegistrar (no simulation.Simulation, hence no SQLite
// files and no tracing side tables).
package grpd

import (
	"fmt"

	"github.com/sarchlab/akita/v5/hooking"
	"github.com/sarchlab/akita/v5/messaging"
	"github.com/sarchlab/akita/v5/timing"

	"verif/harness/lib"
)

const psPerSecond uint64 = 1_000_000_000_000

// hookFn adapts a closure to hooking.Hook.
type hookFn struct{ fn func(ctx hooking.HookCtx) }

func (h *hookFn) Func(ctx hooking.HookCtx) { h.fn(ctx) }

// drvEvent is an event of the scripted driver: the harness' own handler that
// performs scripted calls from inside the engine's dispatch loop.
type drvEvent struct {
	timing.EventBase
	Idx int
}

// driver runs closures at scripted instants on the real engine.
type driver struct {
	eng  *timing.SerialEngine
	acts []func()
}

const driverName = "Driver"

func newDriver(eng *timing.SerialEngine) *driver {
	d := &driver{eng: eng}
	eng.RegisterHandler(driverName, d)
	return d
}

func (d *driver) Handle(e timing.Event) error {
	d.acts[e.(drvEvent).Idx]()
	return nil
}

// at schedules f at time t (a primary or a secondary event). It may be called
// before Run or from inside a handler (t >= now).
func (d *driver) at(t uint64, secondary bool, f func()) {
	eb := timing.MakeEventBase(timing.VTimeInPicoSec(t), driverName)
	eb.Secondary = secondary
	d.acts = append(d.acts, f)
	d.eng.Schedule(drvEvent{EventBase: eb, Idx: len(d.acts) - 1})
}

// tmsg is the message type of all rigs in this group.
type tmsg struct {
	messaging.MsgMeta
	Seq  int    // ledger number, unique per case
	Body string // payload that must arrive unmodified
}

// probs collects problems with a common key prefix.
type probs struct {
	prefix string
	list   []lib.Problem
	seen   map[string]bool
}

func (p *probs) bad(key, format string, a ...any) {
	k := p.prefix + key
	if p.seen == nil {
		p.seen = map[string]bool{}
	}
	if p.seen[k] {
		return
	}
	p.seen[k] = true
	p.list = append(p.list, lib.Problem{Key: k, What: fmt.Sprintf(format, a...)})
}

// periodOf is the reference clock period in ps: floor(10^12 / f). A "clock
// edge" of a component is a multiple of it (timing/freq.go defines Period,
// ThisTick and NextTick over exactly this integer).
func periodOf(freqHz uint64) uint64 { return psPerSecond / freqHz }

// refNextTick is the first clock edge strictly after t.
func refNextTick(t, period uint64) uint64 { return (t/period + 1) * period }

// refThisTick is the first clock edge at or after t.
func refThisTick(t, period uint64) uint64 { return (t + period - 1) / period * period }

package grpd

import (
	"encoding/json"
	"fmt"
	"github.com/sarchlab/akita/v5/hooking"
	"runtime/debug"
	"sort"
	"strings"

	"github.com/sarchlab/akita/v5/messaging"
	"github.com/sarchlab/akita/v5/modeling"
	"github.com/sarchlab/akita/v5/noc/directconnection"
	"github.com/sarchlab/akita/v5/timing"

	"verif/harness/lib"
)

// C09: no lost wakeups. When the event queue is empty no port holds an
// outgoing message whose destination CanDeliver, no draining component has an
// unread incoming message, and sent set == delivered set.

// c09Msg is one scripted message: it becomes available at its source at
// instant At (ps) and is addressed to sink Dst (index among the sinks).
type c09Msg struct {
	At  uint64 `json:"at"`
	Src int    `json:"src"` // index among the sources
	Dst int    `json:"dst"` // index among the sinks
}

type c09Case struct {
	// Shape: "S-K" (source -> sink), "S-F-K" (source -> forwarder -> sink),
	// "SS-K" (two sources -> one sink), "S-KK" (one source -> two sinks).
	Shape string `json:"shape"`
	// Conns: 1 = every port on one direct connection; 2 = one connection per
	// link (S-F-K) / per source (SS-K) / per sink (S-KK).
	Conns int `json:"conns"`
	// Kinds[i]: "T" ticking or "E" event-driven, per component in shape order.
	Kinds []string `json:"kinds"`
	// Periods[i] in ps for ticking components (0 for event-driven ones).
	Periods []uint64 `json:"periods"`
	// ConnPeriods[j] in ps per connection.
	ConnPeriods []uint64 `json:"conn_periods"`
	Cap         int      `json:"cap"`
	// Kick: how a ticking source is told about a new message at its instant:
	// "later" = TickLater (the idiom of every akita example), "now" = TickNow.
	Kick string   `json:"kick"`
	Msgs []c09Msg `json:"msgs"`
}

type c09Spec struct {
	Role string `json:"role"`
}

type c09State struct {
	Next int `json:"next"`
	Got  int `json:"got"`
}

type c09Planned struct {
	at  uint64
	out messaging.Port
	dst messaging.RemotePort
	seq int
}

type c09Node struct {
	rig     *c09Rig
	role    byte // 'S', 'F', 'K'
	ticking bool
	period  uint64
	name    string
	ins     []messaging.Port
	outs    []messaging.Port
	script  []c09Planned
	next    int
	fwdDst  messaging.RemotePort
	got     []tmsg
	gotAt   []uint64
	sent    []tmsg
	tc      *modeling.Component[c09Spec, c09State, modeling.None]
	ed      *modeling.EventDrivenComponent[c09Spec, c09State, modeling.None]
}

func (n *c09Node) tag() string {
	k := "E"
	if n.ticking {
		k = "T"
	}
	return k + string(n.role)
}

type c09Rig struct {
	eng   *timing.SerialEngine
	nodes []*c09Node
	ports map[messaging.RemotePort]messaging.Port
	pr    *probs
}

// Tick makes a c09Node a modeling.Middleware.
func (n *c09Node) Tick() bool { return n.act(uint64(n.rig.eng.CurrentTime())) }

// Process makes a c09Node a modeling.EventProcessor.
func (n *c09Node) Process(_ *modeling.EventDrivenComponent[c09Spec, c09State, modeling.None], now timing.VTimeInPicoSec) bool {
	return n.act(uint64(now))
}

func (n *c09Node) act(now uint64) bool {
	progress := false
	switch n.role {
	case 'K':
		for _, in := range n.ins {
			for {
				m := in.RetrieveIncoming()
				if m == nil {
					break
				}
				n.got = append(n.got, m.(tmsg))
				n.gotAt = append(n.gotAt, now)
				progress = true
			}
		}
	case 'F':
		in, out := n.ins[0], n.outs[0]
		for in.PeekIncoming() != nil && out.CanSend() {
			m := in.RetrieveIncoming().(tmsg)
			n.got = append(n.got, m)
			n.gotAt = append(n.gotAt, now)
			fm := tmsg{
				MsgMeta: messaging.MsgMeta{ID: timing.GetIDGenerator().Generate(), Src: out.AsRemote(), Dst: n.fwdDst},
				Seq:     m.Seq, Body: m.Body,
			}
			out.Send(fm)
			n.sent = append(n.sent, fm)
			progress = true
		}
	case 'S':
		for n.next < len(n.script) && n.script[n.next].at <= now {
			p := n.script[n.next]
			if !p.out.CanSend() {
				break
			}
			m := tmsg{
				MsgMeta: messaging.MsgMeta{ID: timing.GetIDGenerator().Generate(), Src: p.out.AsRemote(), Dst: p.dst},
				Seq:     p.seq, Body: fmt.Sprintf("payload-%d", p.seq),
			}
			p.out.Send(m)
			n.sent = append(n.sent, m)
			n.next++
			progress = true
		}
		if !n.ticking && n.next < len(n.script) && n.script[n.next].at > now {
			n.ed.ScheduleWakeAt(timing.VTimeInPicoSec(n.script[n.next].at))
		}
	}
	return progress
}

var c09Shapes = map[string]string{"S-K": "SK", "S-F-K": "SFK", "SS-K": "SSK", "S-KK": "SKK"}

func (r *c09Rig) newPort(n *c09Node, logical string, capacity int) messaging.Port {
	reg := modeling.NewStandaloneRegistrar(r.eng)
	var owner messaging.Component
	if n.ticking {
		n.tc.DeclarePort(logical)
		owner = n.tc
	} else {
		n.ed.DeclarePort(logical)
		owner = n.ed
	}
	p := modeling.MakePortBuilder().WithRegistrar(reg).WithComponent(owner).
		WithSpec(modeling.PortSpec{BufSize: capacity}).Build(logical)
	if n.ticking {
		n.tc.AssignPort(logical, p)
	} else {
		n.ed.AssignPort(logical, p)
	}
	r.ports[p.AsRemote()] = p
	return p
}

func runC09(cs c09Case) (string, []lib.Problem) {
	timing.ResetIDGenerator()
	pr := &probs{prefix: "lostwakeup:"}
	roles, ok := c09Shapes[cs.Shape]
	nconn := cs.Conns
	if !ok || len(cs.Kinds) != len(roles) || len(cs.Periods) != len(roles) || len(cs.ConnPeriods) != nconn ||
		nconn < 1 || nconn > 2 || (cs.Shape == "S-K" && nconn != 1) || cs.Cap < 1 || (cs.Kick != "later" && cs.Kick != "now") {
		pr.bad("bad-case", "malformed case")
		return "bad", pr.list
	}
	eng := timing.NewSerialEngine()
	reg := modeling.NewStandaloneRegistrar(eng)
	rig := &c09Rig{eng: eng, ports: map[messaging.RemotePort]messaging.Port{}, pr: pr}

	var conns []*directconnection.Comp
	for j := 0; j < nconn; j++ {
		if cs.ConnPeriods[j] == 0 {
			pr.bad("bad-case", "connection period 0")
			return "bad", pr.list
		}
		conns = append(conns, directconnection.MakeBuilder().WithRegistrar(reg).
			WithSpec(directconnection.Spec{Freq: timing.Freq(psPerSecond / cs.ConnPeriods[j])}).Build(fmt.Sprintf("Conn%d", j)))
	}
	var sources, sinks []*c09Node
	for i := range roles {
		n := &c09Node{rig: rig, role: roles[i], ticking: cs.Kinds[i] == "T", period: cs.Periods[i],
			name: fmt.Sprintf("%c%d", roles[i], i)}
		if cs.Kinds[i] != "T" && cs.Kinds[i] != "E" {
			pr.bad("bad-case", "kind %q", cs.Kinds[i])
			return "bad", pr.list
		}
		spec := c09Spec{Role: string(roles[i])}
		if n.ticking {
			if n.period == 0 {
				pr.bad("bad-case", "ticking component with period 0")
				return "bad", pr.list
			}
			n.tc = modeling.NewBuilder[c09Spec, c09State, modeling.None]().WithEngine(eng).
				WithFreq(timing.Freq(psPerSecond / n.period)).WithSpec(spec).Build(n.name)
			n.tc.AddMiddleware(n)
		} else {
			n.ed = modeling.NewEventDrivenBuilder[c09Spec, c09State, modeling.None]().WithEngine(eng).
				WithSpec(spec).WithProcessor(n).Build(n.name)
		}
		rig.nodes = append(rig.nodes, n)
		switch n.role {
		case 'S':
			sources = append(sources, n)
		case 'K':
			sinks = append(sinks, n)
		}
	}
	// ---- ports and wiring (plug order: upstream first)
	last := nconn - 1
	switch cs.Shape {
	case "S-K":
		s, k := rig.nodes[0], rig.nodes[1]
		s.outs = []messaging.Port{rig.newPort(s, "Out", cs.Cap)}
		k.ins = []messaging.Port{rig.newPort(k, "In", cs.Cap)}
		conns[0].PlugIn(s.outs[0])
		conns[0].PlugIn(k.ins[0])
	case "S-F-K":
		s, f, k := rig.nodes[0], rig.nodes[1], rig.nodes[2]
		s.outs = []messaging.Port{rig.newPort(s, "Out", cs.Cap)}
		f.ins = []messaging.Port{rig.newPort(f, "In", cs.Cap)}
		f.outs = []messaging.Port{rig.newPort(f, "Out", cs.Cap)}
		k.ins = []messaging.Port{rig.newPort(k, "In", cs.Cap)}
		f.fwdDst = k.ins[0].AsRemote()
		conns[0].PlugIn(s.outs[0])
		conns[0].PlugIn(f.ins[0])
		conns[last].PlugIn(f.outs[0])
		conns[last].PlugIn(k.ins[0])
	case "SS-K":
		s0, s1, k := rig.nodes[0], rig.nodes[1], rig.nodes[2]
		s0.outs = []messaging.Port{rig.newPort(s0, "Out", cs.Cap)}
		s1.outs = []messaging.Port{rig.newPort(s1, "Out", cs.Cap)}
		if nconn == 1 {
			k.ins = []messaging.Port{rig.newPort(k, "In", cs.Cap)}
			conns[0].PlugIn(s0.outs[0])
			conns[0].PlugIn(s1.outs[0])
			conns[0].PlugIn(k.ins[0])
		} else {
			k.ins = []messaging.Port{rig.newPort(k, "In0", cs.Cap), rig.newPort(k, "In1", cs.Cap)}
			conns[0].PlugIn(s0.outs[0])
			conns[0].PlugIn(k.ins[0])
			conns[1].PlugIn(s1.outs[0])
			conns[1].PlugIn(k.ins[1])
		}
	case "S-KK":
		s, k0, k1 := rig.nodes[0], rig.nodes[1], rig.nodes[2]
		k0.ins = []messaging.Port{rig.newPort(k0, "In", cs.Cap)}
		k1.ins = []messaging.Port{rig.newPort(k1, "In", cs.Cap)}
		if nconn == 1 {
			s.outs = []messaging.Port{rig.newPort(s, "Out", cs.Cap)}
			conns[0].PlugIn(s.outs[0])
			conns[0].PlugIn(k0.ins[0])
			conns[0].PlugIn(k1.ins[0])
		} else {
			s.outs = []messaging.Port{rig.newPort(s, "Out0", cs.Cap), rig.newPort(s, "Out1", cs.Cap)}
			conns[0].PlugIn(s.outs[0])
			conns[0].PlugIn(k0.ins[0])
			conns[1].PlugIn(s.outs[1])
			conns[1].PlugIn(k1.ins[0])
		}
	}
	// ---- scripts
	var lastAt uint64
	for i, m := range cs.Msgs {
		if m.Src < 0 || m.Src >= len(sources) || m.Dst < 0 || m.Dst >= len(sinks) || m.At < lastAt {
			pr.bad("bad-case", "message %+v", m)
			return "bad", pr.list
		}
		lastAt = m.At
		s := sources[m.Src]
		p := c09Planned{at: m.At, seq: i + 1}
		switch cs.Shape {
		case "S-F-K":
			p.out, p.dst = s.outs[0], rig.nodes[1].ins[0].AsRemote()
		case "SS-K":
			p.out = s.outs[0]
			p.dst = sinks[0].ins[0].AsRemote()
			if nconn == 2 {
				p.dst = sinks[0].ins[m.Src].AsRemote()
			}
		case "S-KK":
			p.out = s.outs[0]
			if nconn == 2 {
				p.out = s.outs[m.Dst]
			}
			p.dst = sinks[m.Dst].ins[0].AsRemote()
		default:
			p.out, p.dst = s.outs[0], sinks[0].ins[0].AsRemote()
		}
		s.script = append(s.script, p)
	}
	if c09Observe&1 != 0 {
		eng.AcceptHook(c09NopHook{})
	}
	if c09Observe&2 != 0 {
		for _, p := range rig.ports {
			p.AcceptHook(c09NopHook{})
		}
	}
	drv := newDriver(eng)
	for _, s := range sources {
		if len(s.script) == 0 {
			continue
		}
		if !s.ticking {
			s.ed.ScheduleWakeAt(timing.VTimeInPicoSec(s.script[0].at))
			continue
		}
		seen := map[uint64]bool{}
		for _, p := range s.script {
			if seen[p.at] {
				continue
			}
			seen[p.at] = true
			src := s
			drv.at(p.at, false, func() {
				if cs.Kick == "now" {
					src.tc.TickNow()
				} else {
					src.tc.TickLater()
				}
			})
		}
	}

	if msg := lib.Catch(func() {
		if err := eng.Run(); err != nil {
			pr.bad("run-error", "Run returned %v", err)
		}
	}); msg != "" {
		pr.bad("run-panic", "Run panicked: %s", msg)
		return "panic", pr.list
	}

	// ---- oracle: the event queue is empty now
	describe := func() string {
		var sb strings.Builder
		fmt.Fprintf(&sb, "engine drained at %d ps;", uint64(eng.CurrentTime()))
		for _, n := range rig.nodes {
			fmt.Fprintf(&sb, " %s(%s", n.name, n.tag())
			for _, p := range n.ins {
				fmt.Fprintf(&sb, " %s:in=%d", p.Name(), p.NumIncoming())
			}
			for _, p := range n.outs {
				fmt.Fprintf(&sb, " %s:out=%d", p.Name(), p.NumOutgoing())
			}
			if n.role == 'S' {
				fmt.Fprintf(&sb, " sent %d/%d", n.next, len(n.script))
			}
			sb.WriteString(")")
		}
		return sb.String()
	}
	stuck := false
	for _, n := range rig.nodes {
		for _, p := range n.outs {
			head := p.PeekOutgoing()
			if head == nil {
				continue
			}
			dst := rig.ports[head.Meta().Dst]
			if dst == nil {
				pr.bad("harness-unknown-destination", "message to %s", head.Meta().Dst)
				continue
			}
			if dst.CanDeliver() {
				stuck = true
				pr.bad("outgoing-deliverable:owner="+n.tag(), "port %s still holds message #%d for %s, which can accept it, and no event is left; %s",
					p.Name(), head.(tmsg).Seq, dst.Name(), describe())
			}
		}
		switch n.role {
		case 'K':
			for _, p := range n.ins {
				if p.NumIncoming() > 0 {
					stuck = true
					pr.bad("unread-incoming:owner="+n.tag(), "draining sink %s has %d unread messages at %s and no event is left; %s", n.name, p.NumIncoming(), p.Name(), describe())
				}
			}
		case 'F':
			if n.ins[0].NumIncoming() > 0 && n.outs[0].CanSend() {
				stuck = true
				pr.bad("unread-incoming:owner="+n.tag(), "forwarder %s has %d unread messages, a free output port, and no event is left; %s", n.name, n.ins[0].NumIncoming(), describe())
			}
		case 'S':
			if n.next < len(n.script) && n.script[n.next].out.CanSend() {
				stuck = true
				pr.bad("unsent:owner="+n.tag(), "source %s has sent %d of %d messages (next due at %d), its port can send, and no event is left; %s",
					n.name, n.next, len(n.script), n.script[n.next].at, describe())
			}
		}
	}
	// sent set == delivered set
	sentBy := map[int]int{}
	nsent := 0
	for _, s := range sources {
		for _, m := range s.sent {
			sentBy[m.Seq]++
			nsent++
		}
	}
	gotBy := map[int]int{}
	ngot := 0
	for _, k := range sinks {
		for _, m := range k.got {
			gotBy[m.Seq]++
			ngot++
			if gotBy[m.Seq] == 2 {
				pr.bad("ledger:duplicate", "message #%d reached a sink twice; %s", m.Seq, describe())
			}
			if sentBy[m.Seq] == 0 {
				pr.bad("ledger:never-sent", "sink %s got message #%d that no source sent", k.name, m.Seq)
			}
			if m.Body != fmt.Sprintf("payload-%d", m.Seq) {
				pr.bad("ledger:modified", "sink %s got message #%d with body %q", k.name, m.Seq, m.Body)
			}
			if rig.ports[m.Dst] == nil || rig.ports[m.Dst].Component().Name() != k.name {
				pr.bad("ledger:wrong-sink", "sink %s got a message for %s", k.name, m.Dst)
			}
		}
	}
	if !stuck {
		missing := []int{}
		for i := range cs.Msgs {
			if gotBy[i+1] == 0 {
				missing = append(missing, i+1)
			}
		}
		sort.Ints(missing)
		if len(missing) > 0 {
			pr.bad("ledger:sent-not-delivered", "messages %v never reached their sink although nothing is stuck; %s", missing, describe())
		}
	}
	if c09Fingerprint != nil {
		var sb strings.Builder
		for _, k := range sinks {
			fmt.Fprintf(&sb, "%s:", k.name)
			for i, m := range k.got {
				fmt.Fprintf(&sb, " #%d@%d", m.Seq, k.gotAt[i])
			}
			sb.WriteString("; ")
		}
		fmt.Fprintf(&sb, "end@%d", uint64(eng.CurrentTime()))
		*c09Fingerprint = sb.String()
	}
	out := fmt.Sprintf("%s/%d %s got%d/%d end%d", cs.Shape, cs.Conns, strings.Join(cs.Kinds, ""), ngot, len(cs.Msgs), uint64(eng.CurrentTime())/500)
	return out, pr.list
}

// Observer seam for C33 (grpc2): c09Observe bit 0 attaches a no-op hook to the
// engine, bit 1 a no-op hook to every port; c09Fingerprint receives what every
// sink got and when, plus the final time.
var (
	c09Observe     int
	c09Fingerprint *string
)

type c09NopHook struct{}

func (c09NopHook) Func(hooking.HookCtx) {}

// C33RelayCases yields the C09 cases (quick bounds) that have two connections
// or an event-driven component, as opaque JSON.
func C33RelayCases(c *lib.Ctx, yield func(raw json.RawMessage, label string) bool) {
	enumC09(c09BoundsFor(c), func(cs c09Case) bool {
		ed := false
		for _, k := range cs.Kinds {
			ed = ed || k == "E"
		}
		if cs.Conns < 2 || !ed || cs.Kick != "later" {
			return true
		}
		raw, _ := json.Marshal(cs)
		return yield(raw, fmt.Sprintf("%s/%d %s", cs.Shape, cs.Conns, strings.Join(cs.Kinds, "")))
	})
}

// C33RelayRun runs one such case under an observer mask and returns the
// fingerprint (and the case's own problems, which C09 judges).
func C33RelayRun(raw json.RawMessage, observe int) (string, error) {
	var cs c09Case
	if err := json.Unmarshal(raw, &cs); err != nil {
		return "", err
	}
	var fp string
	c09Observe, c09Fingerprint = observe, &fp
	defer func() { c09Observe, c09Fingerprint = 0, nil }()
	runC09(cs)
	return fp, nil
}

// ---------------------------------------------------------------------------
// enumeration

type c09Bounds struct {
	instants    []uint64
	maxMsgs     int
	periods     []uint64
	connPeriods []uint64
	kicks       []string
}

func c09Scripts(b c09Bounds, nsrc, nsink int, yield func([]c09Msg) bool) bool {
	for n := 0; n <= b.maxMsgs; n++ {
		cur := make([]c09Msg, 0, n)
		var rec func(minI int) bool
		rec = func(minI int) bool {
			if len(cur) == n {
				return yield(cur)
			}
			for i := minI; i < len(b.instants); i++ {
				for s := 0; s < nsrc; s++ {
					for k := 0; k < nsink; k++ {
						cur = append(cur, c09Msg{At: b.instants[i], Src: s, Dst: k})
						ok := rec(i)
						cur = cur[:len(cur)-1]
						if !ok {
							return false
						}
					}
				}
			}
			return true
		}
		if !rec(0) {
			return false
		}
	}
	return true
}

func enumC09(b c09Bounds, yield func(c09Case) bool) {
	type shape struct {
		name  string
		conns []int
	}
	shapes := []shape{{"S-K", []int{1}}, {"S-F-K", []int{1, 2}}, {"SS-K", []int{1, 2}}, {"S-KK", []int{1, 2}}}
	for _, sh := range shapes {
		roles := c09Shapes[sh.name]
		ncomp := len(roles)
		nsrc, nsink := strings.Count(roles, "S"), strings.Count(roles, "K")
		for _, nconn := range sh.conns {
			for kindBits := 0; kindBits < 1<<ncomp; kindBits++ {
				kinds := make([]string, ncomp)
				nTick := 0
				tickingSource := false
				for i := range kinds {
					kinds[i] = "T"
					if kindBits>>i&1 == 1 {
						kinds[i] = "E"
					} else {
						nTick++
						if roles[i] == 'S' {
							tickingSource = true
						}
					}
				}
				kicks := b.kicks
				if !tickingSource {
					kicks = kicks[:1]
				}
				nper := 1
				for i := 0; i < nTick; i++ {
					nper *= len(b.periods)
				}
				for pc := 0; pc < nper; pc++ {
					periods := make([]uint64, ncomp)
					x := pc
					for i := range periods {
						if kinds[i] == "T" {
							periods[i] = b.periods[x%len(b.periods)]
							x /= len(b.periods)
						}
					}
					ncp := 1
					for j := 0; j < nconn; j++ {
						ncp *= len(b.connPeriods)
					}
					for cc := 0; cc < ncp; cc++ {
						cps := make([]uint64, nconn)
						y := cc
						for j := range cps {
							cps[j] = b.connPeriods[y%len(b.connPeriods)]
							y /= len(b.connPeriods)
						}
						for _, capacity := range []int{1, 2} {
							for _, kick := range kicks {
								ok := c09Scripts(b, nsrc, nsink, func(ms []c09Msg) bool {
									return yield(c09Case{Shape: sh.name, Conns: nconn, Kinds: kinds, Periods: periods,
										ConnPeriods: cps, Cap: capacity, Kick: kick, Msgs: ms})
								})
								if !ok {
									return
								}
							}
						}
					}
				}
			}
		}
	}
}

func c09BoundsFor(c *lib.Ctx) c09Bounds {
	if c.Thorough() {
		return c09Bounds{instants: []uint64{0, 500, 1000, 1500, 2000, 3000}, maxMsgs: 4,
			periods: []uint64{1000, 1500}, connPeriods: []uint64{1000, 1500}, kicks: []string{"later", "now"}}
	}
	// DESIGN.md lists {0, 0.5, 1 ns}; 2 ns is added because the smallest
	// counter-example found needs a send one connection cycle after the
	// previous traffic has died down.
	return c09Bounds{instants: []uint64{0, 500, 1000, 2000}, maxMsgs: 3,
		periods: []uint64{1000, 1500}, connPeriods: []uint64{1000}, kicks: []string{"later", "now"}}
}

func init() {
	lib.Register(&lib.Check{
		ID:    "C09",
		Level: "exploration",
		Rule: "every topology of <= 3 components {S->K, S->F->K, two sources->K, S->two sinks} x every component ticking|event-driven x ticking periods {1 ns, 1.5 ns} x 1 or 2 real direct connections (1 GHz; thorough also 1.5 ns) x port capacity {1,2} " +
			"x ticking-source kick {TickLater, TickNow} x every script of <= 3 (thorough 4) messages (availability instant from {0, 0.5, 1, 2 ns} (thorough: + 1.5, 3 ns), non-decreasing; source and sink where there are two); forwarders send on receipt in the same instant when event-driven. " +
			"All components follow the port protocol and sleep when blocked. Oracle when Run returns: no port holds an outgoing message whose destination CanDeliver; no sink (or forwarder with a free output) has an unread incoming message; no source with a free port has an unsent due message; every scripted message reached its sink exactly once, intact. Each tuple is a distinct case.",
		Sharded:     true,
		MinOutcomes: 10,
		Assumptions: []string{
			"components are minimal protocol-abiding sources/forwarders/sinks written for the harness on the real modeling.Component / EventDrivenComponent builders",
			"sinks and forwarders drain everything they can whenever they run",
		},
		Run: func(c *lib.Ctx) {
			debug.SetGCPercent(1600) // tiny live heap, millions of short cases: fewer GC cycles
			lib.Cases(c, func(yield func(c09Case) bool) { enumC09(c09BoundsFor(c), yield) }, runC09)
		},
		Replay: lib.ReplayCases(runC09),
	})
}

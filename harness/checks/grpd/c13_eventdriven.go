package grpd

import (
	"bytes"
	"encoding/json"
	"fmt"
	"sort"
	"strings"

	"github.com/sarchlab/akita/v5/hooking"
	"github.com/sarchlab/akita/v5/modeling"
	"github.com/sarchlab/akita/v5/timing"

	"verif/harness/lib"
)

// C13: event-driven components wake no later than requested.

// c13Op is one operation of a history. The first operation of every history
// only selects the processor variant.
type c13Op struct {
	Var string `json:"var,omitempty"`
	Op  string `json:"op"`
}

// Alphabet, simplest first.
var c13Alphabet = []string{"step", "now", "at0", "at1", "at2", "at3", "recv", "free", "other1"}

// Processor variants: "idle" does nothing; "rearm1" asks for a wakeup at now+1
// from inside Process (twice at most); "rearm0" calls ScheduleWakeNow from
// inside Process (twice at most).
var c13Variants = []string{"idle", "rearm1", "rearm0"}

type c13Spec struct {
	Variant string `json:"variant"`
}

type c13State struct {
	Runs int `json:"runs"`
}

type c13Comp = modeling.EventDrivenComponent[c13Spec, c13State, modeling.None]

// c13Oblig is one outstanding request: made at R, for no later than T.
type c13Oblig struct {
	R, T uint64
	Op   string
}

type c13Run struct {
	eng     *c13Sched
	variant string
	budget  int
	comp    *c13Comp
	pending []c13Oblig
	runs    []uint64
	pr      *probs
}

func (r *c13Run) request(op string, t uint64) {
	r.pending = append(r.pending, c13Oblig{R: uint64(r.eng.CurrentTime()), T: t, Op: op})
}

func (r *c13Run) Process(comp *c13Comp, now timing.VTimeInPicoSec) bool {
	t := uint64(now)
	r.runs = append(r.runs, t)
	comp.State.Runs++
	if uint64(r.eng.CurrentTime()) != t {
		r.pr.bad("process-time", "Process(now=%d) while the engine is at %d", t, r.eng.CurrentTime())
	}
	for _, o := range r.pending {
		if t > o.T {
			r.pr.bad("late:"+o.Op, "%s made at %d for no later than %d: the next processor run is at %d (runs %v)", o.Op, o.R, o.T, t, r.runs)
		}
	}
	r.pending = r.pending[:0]
	if r.budget > 0 {
		r.budget--
		switch r.variant {
		case "rearm1":
			r.request("in-process-at1", t+1)
			comp.ScheduleWakeAt(now + 1)
		case "rearm0":
			r.request("in-process-now", t)
			comp.ScheduleWakeNow()
		}
	}
	return true
}

// c13Sched passes every Schedule call on to the real SerialEngine and records
// it, so the canonical state key can contain the pending-event multiset.
type c13Sched struct {
	*timing.SerialEngine
	queued []c13Queued
}

type c13Queued struct {
	t       uint64
	handler string
}

func (s *c13Sched) Schedule(e timing.Event) {
	s.queued = append(s.queued, c13Queued{uint64(e.Time()), e.HandlerID()})
	s.SerialEngine.Schedule(e)
}

type c13Noop struct{}

func (c13Noop) Handle(timing.Event) error { return nil }

func c13Exec(hist []c13Op) (string, bool, []lib.Problem) {
	if len(hist) == 0 {
		return "init", false, nil
	}
	timing.ResetIDGenerator()
	pr := &probs{prefix: "eventdriven:"}
	variant := hist[0].Var
	ok := false
	for _, v := range c13Variants {
		ok = ok || v == variant
	}
	if !ok {
		pr.bad("bad-case", "unknown variant %q", variant)
		return "", true, pr.list
	}

	eng := &c13Sched{SerialEngine: timing.NewSerialEngine()}
	reg := modeling.NewStandaloneRegistrar(eng.SerialEngine)
	run := &c13Run{eng: eng, variant: variant, pr: pr}
	if variant != "idle" {
		run.budget = 2
	}
	const name = "ED"
	comp := modeling.NewEventDrivenBuilder[c13Spec, c13State, modeling.None]().
		WithEngine(eng).WithSpec(c13Spec{Variant: variant}).WithProcessor(run).Build(name)
	run.comp = comp
	comp.DeclarePort("P")
	port := modeling.MakePortBuilder().WithRegistrar(reg).WithComponent(comp).Build("P")
	comp.AssignPort("P", port)
	eng.RegisterHandler("Other", c13Noop{})

	ops := hist[1:]
	next := 0
	exhausted := false
	key := ""

	capture := func() {
		now := uint64(eng.CurrentTime())
		var buf bytes.Buffer
		var ck struct {
			PendingWakeup uint64 `json:"pending_wakeup"`
		}
		if err := comp.SaveCheckpoint(&buf); err != nil {
			pr.bad("checkpoint-error", "SaveCheckpoint: %v", err)
		} else if err := json.Unmarshal(buf.Bytes(), &ck); err != nil {
			pr.bad("checkpoint-error", "decode checkpoint: %v", err)
		}
		guard := "-"
		if ck.PendingWakeup != ^uint64(0) {
			guard = fmt.Sprint(int64(ck.PendingWakeup) - int64(now))
		}
		q := append([]c13Queued(nil), eng.queued...)
		sort.SliceStable(q, func(i, j int) bool { return q[i].t < q[j].t })
		var sb strings.Builder
		fmt.Fprintf(&sb, "%s b%d g%s q[", variant, run.budget, guard)
		for _, e := range q {
			fmt.Fprintf(&sb, "%s+%d ", e.handler[:1], e.t-now)
		}
		sb.WriteString("] o[")
		// only the tightest outstanding deadline can still matter, but the list
		// is tiny: keep all deadlines, sorted, relative to now
		dl := []int64{}
		for _, o := range run.pending {
			dl = append(dl, int64(o.T)-int64(now))
		}
		sort.Slice(dl, func(i, j int) bool { return dl[i] < dl[j] })
		fmt.Fprintf(&sb, "%v]", dl)
		key = sb.String()
	}

	exec := func(op string) {
		now := eng.CurrentTime()
		switch op {
		case "now":
			run.request("schedulewakenow", uint64(now))
			comp.ScheduleWakeNow()
		case "at0", "at1", "at2", "at3":
			d := timing.VTimeInPicoSec(op[2] - '0')
			run.request("schedulewakeat", uint64(now+d))
			comp.ScheduleWakeAt(now + d)
		case "recv":
			run.request("notifyrecv", uint64(now))
			comp.NotifyRecv(port)
		case "free":
			run.request("notifyportfree", uint64(now))
			comp.NotifyPortFree(port)
		case "other1":
			eng.Schedule(timing.MakeEventBase(now+1, "Other"))
		default:
			pr.bad("bad-case", "unknown op %q", op)
		}
	}

	// runBatch performs operations up to and including the next "step"; it
	// returns false when the history is exhausted (and captures the state).
	runBatch := func() bool {
		for next < len(ops) {
			op := ops[next].Op
			next++
			if op == "step" {
				return true
			}
			exec(op)
		}
		exhausted = true
		capture()
		return false
	}

	eng.AcceptHook(&hookFn{fn: func(ctx hooking.HookCtx) {
		evt, ok := ctx.Item.(timing.Event)
		if !ok {
			return
		}
		switch ctx.Pos {
		case timing.HookPosBeforeEvent:
			for i, q := range eng.queued {
				if q.t == uint64(evt.Time()) && q.handler == evt.HandlerID() {
					eng.queued = append(eng.queued[:i], eng.queued[i+1:]...)
					break
				}
			}
		case timing.HookPosAfterEvent:
			// "engine handles next event" is done; perform the operations up
			// to the next step from between two events of the real Run loop
			if !exhausted {
				runBatch()
			}
		}
	}})

	msg := lib.Catch(func() {
		for {
			if !runBatch() {
				break
			}
			if err := eng.Run(); err != nil {
				pr.bad("run-error", "Run returned %v", err)
			}
			if exhausted {
				break
			}
		}
		// drain: every outstanding request must now be honoured
		if err := eng.Run(); err != nil {
			pr.bad("run-error", "Run returned %v", err)
		}
	})
	if msg != "" {
		pr.bad("panic", "panicked: %s", msg)
		return "", true, pr.list
	}
	for _, o := range run.pending {
		pr.bad("lost:"+o.Op, "%s made at %d for no later than %d was never followed by a processor run (runs %v, engine drained at %d)",
			o.Op, o.R, o.T, run.runs, eng.CurrentTime())
	}
	if len(eng.queued) != 0 {
		pr.bad("harness-queue-tracking", "queue tracker still has %v after the engine drained", eng.queued)
	}
	if len(pr.list) > 0 {
		return "", true, pr.list
	}
	if c13Outcome != nil {
		c13Outcome(fmt.Sprintf("%s last=%s processor-runs=%d", hist[0].Var, hist[len(hist)-1].Op, len(run.runs)))
	}
	return key, false, nil
}

// c13Outcome, when set, receives the outcome class of every executed history.
var c13Outcome func(string)

func init() {
	lib.Register(&lib.Check{
		ID:    "C13",
		Level: "model_checking",
		Rule: "explicit-state BFS over histories of {engine handles next event, ScheduleWakeNow, ScheduleWakeAt(now+0..3), NotifyRecv, NotifyPortFree, another handler's event at now+1} " +
			"for processor variants {idle, re-arms at now+1 from inside Process (2x), ScheduleWakeNow from inside Process (2x)} on a real EventDrivenComponent and real SerialEngine; operations between two 'step's are performed from an engine AfterEvent hook, " +
			"i.e. between two events of the real Run loop. Every transition replays the history on a fresh engine+component, then drains the engine. Oracle: the first processor run after a request made at r for t happens at a time <= t (and one does happen); " +
			"notifications are requests for t = r. State = (variant, re-arm budget, pendingWakeup guard read through SaveCheckpoint, pending event multiset, outstanding deadlines), all relative to now.",
		Sharded:     false,
		MinOutcomes: 20,
		Assumptions: []string{
			"a wakeup request for a past time is a caller error (the engine panics) and is not part of the alphabet",
			"canonical state is time-shift invariant: the component never looks at absolute time (only MaxUint64 is special)",
		},
		Run: func(c *lib.Ctx) {
			c13Outcome = c.Outcome
			lib.BFS(c, lib.BFSConfig[c13Op]{
				Ops: func(hist []c13Op) []c13Op {
					if len(hist) == 0 {
						out := []c13Op{}
						for _, v := range c13Variants {
							out = append(out, c13Op{Var: v, Op: "init"})
						}
						return out
					}
					out := make([]c13Op, 0, len(c13Alphabet))
					for _, o := range c13Alphabet {
						out = append(out, c13Op{Op: o})
					}
					return out
				},
				Exec:     c13Exec,
				MaxDepth: lib.Pick(c, 9, 11), // including the variant-selecting first operation
				Workers:  1,
			})
		},
		Replay: func(c *lib.Ctx, raw json.RawMessage) []lib.Problem {
			var h []c13Op
			if err := json.Unmarshal(raw, &h); err != nil {
				c.InternalError("bad replay: %v", err)
				return nil
			}
			_, _, p := c13Exec(h)
			return p
		},
	})
}

package grpd

import (
	"fmt"
	"reflect"
	"runtime/debug"

	"github.com/sarchlab/akita/v5/hooking"
	"github.com/sarchlab/akita/v5/messaging"
	"github.com/sarchlab/akita/v5/modeling"
	"github.com/sarchlab/akita/v5/noc/directconnection"
	"github.com/sarchlab/akita/v5/timing"

	"verif/harness/lib"
)

// C10: direct connections deliver exactly once, intact, in order, to the right
// port, with backpressure.

type c10Send struct {
	Dst int `json:"dst"` // index of the destination agent
	At  int `json:"at"`  // first cycle (1 GHz) in which the message may be sent
}

type c10Case struct {
	N       int         `json:"n"`                 // plugged ports (one per agent)
	Cap     int         `json:"cap"`               // incoming (and, unless OutCap is set, outgoing) capacity of every port
	OutCap  int         `json:"out_cap,omitempty"` // outgoing capacity when it differs from the incoming one
	Drain   string      `json:"drain"`             // how every agent drains its incoming buffer
	Scripts [][]c10Send `json:"scripts"`           // per agent, sent in order
}

// Drain patterns. "stall3" and "late8" retrieve nothing until an external
// un-stall at cycle 3 / 8 (8 is later than any activity the scripts can cause,
// so the whole system is asleep with full buffers by then), then everything.
// "alternate" retrieves one message in even cycles only. "never" never drains.
var c10Drains = []string{"always", "stall3", "alternate", "late8", "never"}

type c10Spec struct {
	Index int `json:"index"`
}

type c10State struct {
	Next int `json:"next"`
}

type c10Agent struct {
	comp    *modeling.Component[c10Spec, c10State, modeling.None]
	port    messaging.Port
	idx     int
	script  []c10Send
	next    int
	drain   string
	stalled bool
	got     []tmsg
	rig     *c10Rig
}

type c10Rig struct {
	eng    *timing.SerialEngine
	agents []*c10Agent
	seq    int
	pr     *probs
}

func (a *c10Agent) Tick() bool {
	cycle := int(uint64(a.rig.eng.CurrentTime()) / 1000)
	progress := false
	take := func() bool {
		m := a.port.RetrieveIncoming()
		if m == nil {
			return false
		}
		tm, ok := m.(tmsg)
		if !ok {
			a.rig.pr.bad("retrieved-foreign-message", "agent %d retrieved %#v", a.idx, m)
			return true
		}
		a.got = append(a.got, tm)
		return true
	}
	switch a.drain {
	case "always", "stall3", "late8":
		if !a.stalled {
			for take() {
				progress = true
			}
		}
	case "alternate":
		if cycle%2 == 0 {
			if take() {
				progress = true
			}
		} else if a.port.NumIncoming() > 0 {
			progress = true // busy with the previous message
		}
	case "never":
	}
	for a.next < len(a.script) {
		e := a.script[a.next]
		if e.At > cycle {
			progress = true // counting down to the ready cycle
			break
		}
		if !a.port.CanSend() {
			break
		}
		a.rig.seq++
		a.port.Send(tmsg{
			MsgMeta: messaging.MsgMeta{
				ID:  timing.GetIDGenerator().Generate(),
				Src: a.port.AsRemote(),
				Dst: a.rig.agents[e.Dst].port.AsRemote(),
			},
			Seq:  a.rig.seq,
			Body: fmt.Sprintf("from %d #%d to %d", a.idx, a.next, e.Dst),
		})
		a.next++
		a.comp.State.Next = a.next
		progress = true
	}
	return progress
}

type c10Evt struct {
	pos  *hooking.HookPos
	port string
	msg  messaging.Msg
}

func runC10(cs c10Case) (string, []lib.Problem) {
	timing.ResetIDGenerator()
	pr := &probs{prefix: "dc:"}
	okDrain := false
	for _, d := range c10Drains {
		okDrain = okDrain || d == cs.Drain
	}
	if cs.N < 2 || cs.N > 4 || cs.Cap < 1 || len(cs.Scripts) != cs.N || !okDrain {
		pr.bad("bad-case", "malformed case")
		return "bad", pr.list
	}
	eng := timing.NewSerialEngine()
	reg := modeling.NewStandaloneRegistrar(eng)
	rig := &c10Rig{eng: eng, pr: pr}
	conn := directconnection.MakeBuilder().WithRegistrar(reg).Build("Conn")
	var events []c10Evt
	for i := 0; i < cs.N; i++ {
		name := fmt.Sprintf("A%d", i)
		comp := modeling.NewBuilder[c10Spec, c10State, modeling.None]().
			WithEngine(eng).WithFreq(1 * timing.GHz).WithSpec(c10Spec{Index: i}).Build(name)
		a := &c10Agent{comp: comp, idx: i, script: cs.Scripts[i], drain: cs.Drain, rig: rig}
		a.stalled = cs.Drain == "stall3" || cs.Drain == "late8"
		comp.AddMiddleware(a)
		comp.DeclarePort("P")
		if cs.OutCap != 0 {
			// the port builder only makes symmetric ports
			a.port = messaging.NewPort(comp, cs.Cap, cs.OutCap, comp.Name()+".P")
			reg.RegisterPort(a.port)
		} else {
			a.port = modeling.MakePortBuilder().WithRegistrar(reg).WithComponent(comp).
				WithSpec(modeling.PortSpec{BufSize: cs.Cap}).Build("P")
		}
		comp.AssignPort("P", a.port)
		pname := a.port.Name()
		a.port.AcceptHook(&hookFn{fn: func(ctx hooking.HookCtx) {
			m, _ := ctx.Item.(messaging.Msg)
			events = append(events, c10Evt{ctx.Pos, pname, m})
		}})
		conn.PlugIn(a.port)
		rig.agents = append(rig.agents, a)
		for _, s := range a.script {
			if s.Dst < 0 || s.Dst >= cs.N || s.Dst == i {
				pr.bad("bad-case", "agent %d sends to %d", i, s.Dst)
				return "bad", pr.list
			}
		}
	}
	drv := newDriver(eng)
	if unstall := map[string]uint64{"stall3": 3000, "late8": 8000}[cs.Drain]; unstall != 0 {
		drv.at(unstall, false, func() {
			for _, a := range rig.agents {
				a.stalled = false
				a.comp.TickLater()
			}
		})
	}
	for _, a := range rig.agents {
		a.comp.TickNow()
	}
	if msg := lib.Catch(func() {
		if err := eng.Run(); err != nil {
			pr.bad("run-error", "Run returned %v", err)
		}
	}); msg != "" {
		pr.bad("run-panic", "Run panicked: %s", msg)
		return "panic", pr.list
	}

	// ---- ledger from the port hooks
	type entry struct {
		msg       tmsg
		src       string
		delivered int
		outgone   int
		retrieved int
	}
	ledger := map[int]*entry{}
	var order []int
	lastFrom := map[string]int{}
	lastFromTo := map[string]int{}
	nSent, nOut, nRecvd, nIn := map[string]int{}, map[string]int{}, map[string]int{}, map[string]int{}
	for _, ev := range events {
		tm, ok := ev.msg.(tmsg)
		if !ok {
			pr.bad("foreign-message", "port %s saw %#v at %s", ev.port, ev.msg, ev.pos.Name)
			continue
		}
		switch ev.pos {
		case messaging.HookPosPortMsgSend:
			nSent[ev.port]++
			if ledger[tm.Seq] != nil {
				pr.bad("harness-duplicate-seq", "sequence number %d sent twice", tm.Seq)
			}
			ledger[tm.Seq] = &entry{msg: tm, src: ev.port}
			order = append(order, tm.Seq)
		case messaging.HookPosPortMsgRecvd:
			nRecvd[ev.port]++
			e := ledger[tm.Seq]
			if e == nil {
				pr.bad("delivered-never-sent", "port %s received %+v which was never sent", ev.port, tm)
				continue
			}
			if !reflect.DeepEqual(tm, e.msg) {
				pr.bad("modified", "port %s received %+v, sent as %+v", ev.port, tm, e.msg)
			}
			if ev.port != string(e.msg.Dst) {
				pr.bad("wrong-port", "message %+v delivered to port %s", e.msg, ev.port)
			}
			e.delivered++
			if e.delivered == 2 {
				pr.bad("duplicate-delivery", "message %+v delivered twice", e.msg)
			}
			if last, ok := lastFrom[e.src]; ok && last > tm.Seq {
				if lastFromTo[e.src+">"+ev.port] > tm.Seq {
					pr.bad("reordered:same-destination", "message #%d from %s arrived at %s after #%d", tm.Seq, e.src, ev.port, lastFromTo[e.src+">"+ev.port])
				} else {
					pr.bad("reordered:across-destinations", "message #%d from %s arrived after its later message #%d", tm.Seq, e.src, last)
				}
			}
			if lastFrom[e.src] < tm.Seq {
				lastFrom[e.src] = tm.Seq
			}
			if lastFromTo[e.src+">"+ev.port] < tm.Seq {
				lastFromTo[e.src+">"+ev.port] = tm.Seq
			}
		case messaging.HookPosPortMsgRetrieveOutgoing:
			nOut[ev.port]++
			e := ledger[tm.Seq]
			if e == nil || e.src != ev.port {
				pr.bad("outgoing-unknown", "port %s released %+v which it never sent", ev.port, tm)
				continue
			}
			e.outgone++
			if e.outgone == 2 {
				pr.bad("harness-outgoing-twice", "message %+v left the sender twice", e.msg)
			}
			if e.delivered == 0 {
				pr.bad("dropped", "message %+v was removed from the sender's buffer without having been delivered", e.msg)
			}
		case messaging.HookPosPortMsgRetrieveIncoming:
			nIn[ev.port]++
			e := ledger[tm.Seq]
			if e == nil {
				pr.bad("retrieved-never-sent", "port %s handed over %+v which was never sent", ev.port, tm)
				continue
			}
			if !reflect.DeepEqual(tm, e.msg) {
				pr.bad("modified", "receiver at %s retrieved %+v, sent as %+v", ev.port, tm, e.msg)
			}
			e.retrieved++
			if e.retrieved > e.delivered {
				pr.bad("retrieved-more-than-delivered", "message %+v retrieved %d times, delivered %d times", e.msg, e.retrieved, e.delivered)
			}
		}
	}
	// ---- end state
	scripted := 0
	for _, a := range rig.agents {
		scripted += len(a.script)
		p := a.port.Name()
		if a.port.NumOutgoing() != nSent[p]-nOut[p] {
			pr.bad("buffer-count", "port %s holds %d outgoing messages, ledger says %d", p, a.port.NumOutgoing(), nSent[p]-nOut[p])
		}
		if a.port.NumIncoming() != nRecvd[p]-nIn[p] {
			pr.bad("buffer-count", "port %s holds %d incoming messages, ledger says %d", p, a.port.NumIncoming(), nRecvd[p]-nIn[p])
		}
	}
	delivered, retrieved := 0, 0
	for _, s := range order {
		e := ledger[s]
		if e.delivered >= 1 {
			delivered++
		}
		if e.retrieved >= 1 {
			retrieved++
		}
		if e.delivered >= 1 && e.outgone == 0 {
			pr.bad("delivered-but-kept", "message %+v was delivered but is still in the sender's buffer", e.msg)
		}
	}
	if cs.Drain != "never" {
		if len(order) != scripted {
			pr.bad("undelivered-with-draining-receivers:unsent", "%d of %d scripted messages were sent although every receiver drains", len(order), scripted)
		} else if delivered != scripted {
			pr.bad("undelivered-with-draining-receivers:in-sender-port", "%d of %d messages were delivered although every receiver drains", delivered, scripted)
		} else if retrieved != scripted {
			pr.bad("undelivered-with-draining-receivers:in-receiver-port", "%d of %d messages reached their receivers' Tick", retrieved, scripted)
		}
	}
	for _, a := range rig.agents {
		for _, m := range a.got {
			if string(m.Dst) != a.port.Name() {
				pr.bad("wrong-port", "agent %d got %+v", a.idx, m)
			}
		}
	}
	out := fmt.Sprintf("%s n%d s%d d%d r%d t%d", cs.Drain, cs.N, len(order), delivered, retrieved, uint64(eng.CurrentTime())/1000)
	return out, pr.list
}

// c10ScriptsOf yields every script of exactly n sends for agent self among
// nAgents: destination = any other agent, ready cycles non-decreasing in 0..2.
func c10ScriptsOf(nAgents, self, n int, yield func([]c10Send) bool) bool {
	cur := make([]c10Send, 0, n)
	var rec func(minAt int) bool
	rec = func(minAt int) bool {
		if len(cur) == n {
			return yield(cur)
		}
		for at := minAt; at <= 2; at++ {
			for d := 0; d < nAgents; d++ {
				if d == self {
					continue
				}
				cur = append(cur, c10Send{Dst: d, At: at})
				ok := rec(at)
				cur = cur[:len(cur)-1]
				if !ok {
					return false
				}
			}
		}
		return true
	}
	return rec(0)
}

// c10Family yields every assignment of scripts with <= maxLen sends to the
// first `senders` agents (the others only receive).
func c10Family(n, senders, maxLen int, yield func([][]c10Send) bool) bool {
	scripts := make([][]c10Send, n)
	var rec func(i int) bool
	rec = func(i int) bool {
		if i == senders {
			return yield(scripts)
		}
		for l := 0; l <= maxLen; l++ {
			ok := c10ScriptsOf(n, i, l, func(s []c10Send) bool {
				scripts[i] = s
				return rec(i + 1)
			})
			if !ok {
				return false
			}
		}
		scripts[i] = nil
		return true
	}
	return rec(0)
}

type c10Fam struct{ n, senders, maxLen int }

func enumC10(c *lib.Ctx, yield func(c10Case) bool) {
	fams := []c10Fam{{2, 2, 3}, {3, 2, 3}, {3, 3, 2}, {4, 2, 2}, {4, 4, 1}}
	if c.Thorough() {
		fams = []c10Fam{{2, 2, 3}, {3, 3, 3}, {4, 2, 3}, {4, 3, 2}, {4, 4, 1}}
	}
	// ports whose incoming and outgoing capacities differ
	for _, f := range []c10Fam{{2, 2, 3}, {3, 2, 2}} {
		for _, caps := range [][2]int{{1, 2}, {2, 1}, {1, 3}, {2, 4}} {
			for _, d := range c10Drains {
				ok := c10Family(f.n, f.senders, f.maxLen, func(s [][]c10Send) bool {
					return yield(c10Case{N: f.n, Cap: caps[0], OutCap: caps[1], Drain: d, Scripts: s})
				})
				if !ok {
					return
				}
			}
		}
	}
	for _, f := range fams {
		for _, cp := range []int{1, 2} {
			for _, d := range c10Drains {
				ok := c10Family(f.n, f.senders, f.maxLen, func(s [][]c10Send) bool {
					return yield(c10Case{N: f.n, Cap: cp, Drain: d, Scripts: s})
				})
				if !ok {
					return
				}
			}
		}
	}
}

func init() {
	lib.Register(&lib.Check{
		ID:    "C10",
		Level: "exploration",
		Rule: "one real direct connection (1 GHz) with N = 2..4 plugged ports of capacity {1,2} (and, for N = 2..3, ports with different incoming/outgoing capacities (1,2) (2,1) (1,3) (2,4)), one 1 GHz ticking agent per port; every assignment of send scripts (destination = any other agent, ready cycle in 0..2 non-decreasing) " +
			"for the families (N, sending agents, max sends per sender) quick {(2,2,3),(3,2,3),(3,3,2),(4,2,2),(4,4,1)} / thorough {(2,2,3),(3,3,3),(4,2,3),(4,3,2),(4,4,1)} " +
			"x receiver drain pattern {always, stalled until cycle 3, one message every other cycle, stalled until cycle 8 (system asleep) then always, never}. " +
			"Oracle = ledger built from the port Send/Recv/RetrieveOutgoing/RetrieveIncoming hooks: every received message was sent, DeepEqual, at the port named by Dst, once; nothing leaves a sender's buffer undelivered; " +
			"per-source arrival order = send order; buffer counts match the ledger; with eventually-draining receivers every scripted message is sent, delivered and retrieved when Run returns; no panic (Deliver on a full port panics). Each (family member, capacity, drain) is a distinct case.",
		Sharded:     true,
		MinOutcomes: 10,
		Assumptions: []string{
			"agents follow the port protocol (CanSend before Send; sleep when blocked and rely on NotifyPortFree/NotifyRecv)",
			"all ports have equal incoming and outgoing capacity (modeling.PortSpec has one BufSize)",
		},
		Run: func(c *lib.Ctx) {
			debug.SetGCPercent(1600) // tiny live heap, millions of short cases: fewer GC cycles
			lib.Cases(c, func(yield func(c10Case) bool) { enumC10(c, yield) }, runC10)
		},
		Replay: lib.ReplayCases(runC10),
	})
}

package grpd

import (
	"bytes"
	"fmt"
	"runtime/debug"
	"strings"

	"github.com/sarchlab/akita/v5/hooking"
	"github.com/sarchlab/akita/v5/mem"
	"github.com/sarchlab/akita/v5/mem/idealmemcontroller"
	"github.com/sarchlab/akita/v5/mem/memcontrolprotocol"
	"github.com/sarchlab/akita/v5/mem/memprotocol"
	"github.com/sarchlab/akita/v5/mem/vm"
	"github.com/sarchlab/akita/v5/mem/vm/addresstranslator"
	"github.com/sarchlab/akita/v5/mem/vm/gmmu"
	"github.com/sarchlab/akita/v5/mem/vm/mmu"
	"github.com/sarchlab/akita/v5/mem/vm/mmuCache"
	"github.com/sarchlab/akita/v5/mem/vm/tlb"
	"github.com/sarchlab/akita/v5/mem/vm/vmprotocol"
	"github.com/sarchlab/akita/v5/messaging"
	"github.com/sarchlab/akita/v5/modeling"
	"github.com/sarchlab/akita/v5/noc/directconnection"
	"github.com/sarchlab/akita/v5/timing"

	"verif/harness/lib"
	"verif/harness/simx"
)

// C25: address translation stacks translate correctly.
//
//   requester -> AT -> TLB -> [L2 TLB] -> [MMU cache] -> {MMU | GMMU -> MMU}
//                 \-> ideal memory
//
// Every component is the real akita component built by its own builder; every
// link is its own real direct connection (as in mem/acceptancetests/virtualmem).

const (
	c25PageSize  = 4096
	c25FrameBase = 0x10000 // frame f lives at c25FrameBase + f*4096
	c25LocalDev  = 1       // device id of the AT / GMMU
	c25RemoteDev = 2
)

// c25Tables: assignments of 3 virtual pages per PID (index 0 = PID 1, index 1
// = PID 2) to 4 frames. Injective per PID, fully shared between the PIDs,
// sharing inside a PID, and a permutation that collides across PIDs.
var c25Tables = [][2][3]int{
	{{0, 1, 2}, {1, 2, 3}},
	{{0, 1, 2}, {0, 1, 2}},
	{{0, 0, 1}, {2, 3, 3}},
	{{3, 2, 1}, {1, 3, 0}},
}

type c25Op struct {
	PID int  `json:"pid"` // 1 or 2
	VP  int  `json:"vp"`  // virtual page 0..2
	Off int  `json:"off"` // 0 or 8
	W   bool `json:"w,omitempty"`
}

// c25Update is the optional page-table update history: at driver cycle Cut the
// mapping of the page touched by the LAST op is changed to the lowest frame
// that no page of that PID is mapped to (so that a translation answered with a
// sibling page's frame can never pass for the new mapping),
// then First ("pause" or "drain") -> Invalidate(filter) -> Enable is sent to
// every translation cache, top-down, one acknowledged command at a time. Ops
// not yet issued at the cut (the last Hold ops are always held back) are issued
// only after the final acknowledgement.
type c25Update struct {
	First string `json:"first"`
	// Cut < 0: run the history once per cut cycle 0..(cycle at which the
	// accesses issued before the update have drained)+1. Later cuts would find
	// the same idle stack.
	Cut int `json:"cut"`
	// Hold: how many trailing ops are held back until the final
	// acknowledgement (0 means 1: only the last op). With Hold >= 2 the
	// invalidated page's way can be recycled by another page before the page
	// is accessed again.
	Hold int `json:"hold,omitempty"`
	// Filter of the Invalidate: "" = the updated page's address and PID,
	// "pid" = every page of that PID, "all" = every entry.
	Filter string `json:"filter,omitempty"`
	// Late: the page table is changed after the first command (Pause / Drain)
	// has been acknowledged by every target and before the Invalidate is sent
	// (quiesce, change, invalidate, enable) instead of right before the first
	// command.
	Late bool `json:"late,omitempty"`
}

func (u *c25Update) hold() int {
	if u.Hold <= 0 {
		return 1
	}
	return u.Hold
}

type c25Case struct {
	// (omitempty: lib keeps the shortest JSON as the representative of a
	// violation key, so the smallest failing stack is the one reported)
	L2    bool `json:"l2,omitempty"`    // second TLB level
	Cache bool `json:"cache,omitempty"` // MMU cache between the last TLB and the walker
	GMMU  bool `json:"gmmu,omitempty"`  // GMMU -> MMU instead of MMU
	// Local (GMMU shapes): 0 = every page local to the GMMU's device, 1 = every
	// page remote (walked by the MMU below), 2 = odd virtual pages remote.
	Local   int        `json:"local,omitempty"`
	Sets    int        `json:"sets"`
	Ways    int        `json:"ways"`
	MSHR    int        `json:"mshr"`
	Lat     int        `json:"lat"`
	Table   int        `json:"table"`
	Eager   bool       `json:"eager,omitempty"` // issue without waiting for the previous response
	PortBuf int        `json:"port_buf"`
	Ops     []c25Op    `json:"ops"`
	Upd     *c25Update `json:"upd,omitempty"`
}

func (cs c25Case) shape() string {
	s := "AT>TLB"
	if cs.L2 {
		s += ">L2TLB"
	}
	if cs.Cache {
		s += ">MMUCache"
	}
	if cs.GMMU {
		s += ">GMMU"
	}
	return s + ">MMU"
}

// ---------------------------------------------------------------------------
// the scripted requester + shoot-down controller

type c25DrvSpec struct {
	NumOps int `json:"num_ops"`
}

type c25DrvState struct {
	Next  int `json:"next"`
	Phase int `json:"phase"`
}

type c25Inflight struct {
	op    int
	reqID uint64
}

type c25Result struct {
	op   int
	kind string
	data []byte
}

type c25CtrlStep struct {
	cmd    memcontrolprotocol.Command
	target messaging.RemotePort
}

type c25Driver struct {
	comp *modeling.Component[c25DrvSpec, c25DrvState, modeling.None]
	rig  *c25Rig

	next      int
	inflight  []c25Inflight
	results   []c25Result
	anomalies []string
	issuedAt  []int // phase in which each op was issued: 0 before the update, 2 after the final ack

	// shoot-down
	phase     int // 0 = before the cut, 1 = control sequence running, 2 = after the final ack
	steps     []c25CtrlStep
	step      int
	waitingID uint64
	nacks     []string
	cut       int
	ticks     int
}

func (d *c25Driver) Tick() bool {
	rig := d.rig
	cs := rig.cs
	memPort := d.comp.GetPortByName("Mem")
	ctrlPort := d.comp.GetPortByName("Ctrl")
	progress := false
	cycle := int(uint64(d.comp.CurrentTime()) / 1000)

	for {
		msg := memPort.RetrieveIncoming()
		if msg == nil {
			break
		}
		progress = true
		idx := -1
		for i, f := range d.inflight {
			if f.reqID == msg.Meta().RspTo {
				idx = i
			}
		}
		if idx < 0 {
			d.anomalies = append(d.anomalies, fmt.Sprintf("unexpected %T RspTo=%d from %s", msg, msg.Meta().RspTo, msg.Meta().Src))
			continue
		}
		f := d.inflight[idx]
		d.inflight = append(d.inflight[:idx], d.inflight[idx+1:]...)
		r := c25Result{op: f.op}
		switch rsp := msg.(type) {
		case memprotocol.DataReadyRsp:
			r.kind, r.data = "data", append([]byte{}, rsp.Data...)
		case memprotocol.WriteDoneRsp:
			r.kind = "done"
		default:
			r.kind = fmt.Sprintf("%T", msg)
		}
		d.results = append(d.results, r)
	}

	for {
		msg := ctrlPort.RetrieveIncoming()
		if msg == nil {
			break
		}
		progress = true
		rsp, ok := msg.(memcontrolprotocol.Rsp)
		if !ok || d.phase != 1 || rsp.RspTo != d.waitingID {
			d.anomalies = append(d.anomalies, fmt.Sprintf("unexpected control message %#v", msg))
			continue
		}
		if !rsp.Success {
			d.nacks = append(d.nacks, fmt.Sprintf("%s answered command %d with %q", rsp.Src, rsp.Command, rsp.Error))
		}
		d.waitingID = 0
		d.step++
	}

	limit := len(cs.Ops)
	if cs.Upd != nil && d.phase == 0 {
		limit -= cs.Upd.hold() // the trailing ops are always issued after the shoot-down
		if cycle >= d.cut {
			if !cs.Upd.Late {
				rig.applyUpdate()
			}
			d.phase = 1
		} else {
			progress = true // counting down to the cut
		}
	}
	if d.phase == 1 {
		if d.waitingID == 0 {
			if !rig.sampled && d.step == len(d.steps)/3 {
				rig.sampled = true
				for _, lv := range rig.levels {
					for _, x := range lv.reqs {
						rig.outstandingAtQuiesce = rig.outstandingAtQuiesce || x.rsps == 0
					}
				}
			}
			if cs.Upd.Late && !rig.updated && d.step == len(d.steps)/3 {
				rig.applyUpdate() // every target has acknowledged the first command
			}
			if d.step == len(d.steps) {
				d.phase = 2
				rig.ackCycle = cycle
			} else if ctrlPort.CanSend() {
				st := d.steps[d.step]
				req := memcontrolprotocol.Req{Command: st.cmd}
				req.ID = timing.GetIDGenerator().Generate()
				req.Src = ctrlPort.AsRemote()
				req.Dst = st.target
				req.TrafficClass = "memcontrolprotocol.Req"
				if st.cmd == memcontrolprotocol.CmdInvalidate {
					last := cs.Ops[len(cs.Ops)-1]
					switch cs.Upd.Filter {
					case "all":
					case "pid":
						req.PID = vm.PID(last.PID)
					default:
						req.Addresses = []uint64{uint64(last.VP) * c25PageSize}
						req.PID = vm.PID(last.PID)
					}
				}
				ctrlPort.Send(req)
				d.waitingID = req.ID
				progress = true
			}
		}
		if d.phase == 1 {
			d.comp.State.Phase = d.phase
			return progress
		}
		limit = len(cs.Ops)
		progress = true
	}

	for d.next < limit {
		if !cs.Eager && len(d.inflight) > 0 {
			break
		}
		if !memPort.CanSend() {
			break
		}
		op := cs.Ops[d.next]
		id := timing.GetIDGenerator().Generate()
		addr := uint64(op.VP)*c25PageSize + uint64(op.Off)
		size := d.next + 1 // the size tags the op at the memory
		var msg messaging.Msg
		if op.W {
			req := memprotocol.WriteReq{}
			req.ID, req.Src, req.Dst = id, memPort.AsRemote(), rig.at.GetPortByName("Top").AsRemote()
			req.Address, req.PID = addr, vm.PID(op.PID)
			req.Data = c25Payload(d.next, size)
			req.TrafficBytes, req.TrafficClass = size+12, "memprotocol.WriteReq"
			msg = req
		} else {
			req := memprotocol.ReadReq{}
			req.ID, req.Src, req.Dst = id, memPort.AsRemote(), rig.at.GetPortByName("Top").AsRemote()
			req.Address, req.PID = addr, vm.PID(op.PID)
			req.AccessByteSize = uint64(size)
			req.TrafficBytes, req.TrafficClass = 12, "memprotocol.ReadReq"
			msg = req
		}
		memPort.Send(msg)
		d.inflight = append(d.inflight, c25Inflight{op: d.next, reqID: id})
		d.issuedAt[d.next] = d.phase
		d.next++
		d.comp.State.Next = d.next
		progress = true
	}
	d.comp.State.Phase = d.phase
	return progress
}

func c25CmdName(c memcontrolprotocol.Command) string {
	switch c {
	case memcontrolprotocol.CmdPause:
		return "pause"
	case memcontrolprotocol.CmdDrain:
		return "drain"
	case memcontrolprotocol.CmdEnable:
		return "enable"
	case memcontrolprotocol.CmdInvalidate:
		return "invalidate"
	}
	return fmt.Sprintf("cmd%d", int(c))
}

func c25Payload(op, size int) []byte {
	b := make([]byte, size)
	for i := range b {
		b[i] = byte(0xA0 + 0x10*op + i)
	}
	return b
}

// ---------------------------------------------------------------------------
// rig

type c25XReq struct {
	id    uint64
	src   messaging.RemotePort
	pid   vm.PID
	vaddr uint64
	rsps  int
}

type c25Level struct {
	name string
	reqs []*c25XReq
	byID map[uint64]*c25XReq
	// unknownRsps counts responses sent with a RspTo that names no received
	// request: each of them leaves one request of this level unanswered.
	unknownRsps int
}

func (lv *c25Level) unanswered() (n int, first *c25XReq) {
	for _, x := range lv.reqs {
		if x.rsps == 0 {
			if first == nil {
				first = x
			}
			n++
		}
	}
	return n, first
}

type c25MemSeen struct {
	write bool
	addr  uint64
	size  int
	data  []byte
}

type c25Rig struct {
	cs      c25Case
	env     *simx.Env
	pr      *probs
	pt      vm.PageTable
	at      *addresstranslator.Comp
	drv     *c25Driver
	levels  []*c25Level
	memSeen []c25MemSeen

	frames   [2][3]int // current mapping
	oldFrame int       // frame of the updated page before the update (-1 = no update yet)
	updated  bool
	ackCycle int
	// sampled when every target has acknowledged the first command: was a
	// translation request still unanswered at some level below the AT?
	sampled, outstandingAtQuiesce bool
}

func (r *c25Rig) isRemote(vp int) bool {
	if !r.cs.GMMU {
		return false
	}
	return r.cs.Local == 1 || (r.cs.Local == 2 && vp%2 == 1)
}

func (r *c25Rig) page(pid, vp, frame int) vm.Page {
	dev := uint64(c25LocalDev)
	if r.isRemote(vp) {
		dev = c25RemoteDev
	}
	return vm.Page{PID: vm.PID(pid), VAddr: uint64(vp) * c25PageSize, PAddr: c25FrameBase + uint64(frame)*c25PageSize,
		PageSize: c25PageSize, Valid: true, DeviceID: dev}
}

func (r *c25Rig) applyUpdate() {
	last := r.cs.Ops[len(r.cs.Ops)-1]
	old := r.frames[last.PID-1][last.VP]
	r.oldFrame = old
	nf := (old + 1) % 4
	for f := 0; f < 4; f++ {
		used := false
		for _, g := range r.frames[last.PID-1] {
			used = used || g == f
		}
		if !used {
			nf = f
			break
		}
	}
	r.frames[last.PID-1][last.VP] = nf
	r.pt.Update(r.page(last.PID, last.VP, nf))
	r.updated = true
}

func (r *c25Rig) ports(comp messaging.Component, names ...string) {
	r.env.AssignPorts(comp, r.cs.PortBuf, names...)
}

func (r *c25Rig) link(name string, a, b messaging.Port) {
	c := directconnection.MakeBuilder().WithRegistrar(r.env).Build(name)
	c.PlugIn(a)
	c.PlugIn(b)
}

// watch attaches the ledger hook to the Top port of a translation component.
func (r *c25Rig) watch(level string, top messaging.Port) {
	lv := &c25Level{name: level, byID: map[uint64]*c25XReq{}}
	r.levels = append(r.levels, lv)
	top.AcceptHook(&hookFn{fn: func(ctx hooking.HookCtx) {
		switch ctx.Pos {
		case messaging.HookPosPortMsgRecvd:
			req, ok := ctx.Item.(vmprotocol.TranslationReq)
			if !ok {
				r.pr.bad("translation:foreign-message:"+level, "%s.Top received %#v", level, ctx.Item)
				return
			}
			x := &c25XReq{id: req.ID, src: req.Src, pid: req.PID, vaddr: req.VAddr}
			lv.reqs = append(lv.reqs, x)
			lv.byID[req.ID] = x
		case messaging.HookPosPortMsgSend:
			rsp, ok := ctx.Item.(vmprotocol.TranslationRsp)
			if !ok {
				r.pr.bad("translation:foreign-message:"+level, "%s.Top sent %#v", level, ctx.Item)
				return
			}
			x := lv.byID[rsp.RspTo]
			if x == nil {
				lv.unknownRsps++
				r.pr.bad("translation:response-to-unknown-request:"+level,
					"%s answered with RspTo=%d (Dst=%s, page pid=%d vaddr=%#x), but never received a request with that ID; requests received: %s",
					level, rsp.RspTo, rsp.Dst, rsp.Page.PID, rsp.Page.VAddr, lv.describe())
				return
			}
			x.rsps++
			if x.rsps == 2 {
				r.pr.bad("translation:answered-twice:"+level, "%s answered request %d twice", level, x.id)
			}
			if rsp.Dst != x.src {
				r.pr.bad("translation:response-wrong-destination:"+level, "%s answered request %d from %s with Dst=%s", level, x.id, x.src, rsp.Dst)
			}
			if rsp.Page.PID != x.pid || rsp.Page.VAddr != x.vaddr {
				r.pr.bad("translation:response-for-other-page:"+level, "%s answered the request for pid=%d vaddr=%#x with the page pid=%d vaddr=%#x",
					level, x.pid, x.vaddr, rsp.Page.PID, rsp.Page.VAddr)
				return
			}
			vp := int(x.vaddr / c25PageSize)
			if int(x.pid) < 1 || int(x.pid) > 2 || vp > 2 {
				return
			}
			want := c25FrameBase + uint64(r.frames[x.pid-1][vp])*c25PageSize
			okOld := false
			if r.updated {
				last := r.cs.Ops[len(r.cs.Ops)-1]
				okOld = int(x.pid) == last.PID && vp == last.VP && rsp.Page.PAddr == c25FrameBase+uint64(r.oldFrame)*c25PageSize
			}
			if rsp.Page.PAddr != want && !okOld {
				r.pr.bad("translation:wrong-frame:"+level, "%s translated pid=%d vaddr=%#x to %#x, the page table says %#x", level, x.pid, x.vaddr, rsp.Page.PAddr, want)
			}
		}
	}})
}

func (lv *c25Level) describe() string {
	var sb strings.Builder
	for _, x := range lv.reqs {
		fmt.Fprintf(&sb, "[id=%d from %s pid=%d vaddr=%#x answers=%d]", x.id, x.src, x.pid, x.vaddr, x.rsps)
	}
	return sb.String()
}

func c25Build(cs c25Case, cut int, pr *probs) *c25Rig {
	env := simx.NewLight()
	r := &c25Rig{cs: cs, env: env, pr: pr, oldFrame: -1, ackCycle: -1}
	r.frames = c25Tables[cs.Table]

	r.pt = vm.MakePageTableBuilder().WithLog2PageSize(12).WithSimulation(env).Build("PageTable")
	for pid := 1; pid <= 2; pid++ {
		for vp := 0; vp < 3; vp++ {
			r.pt.Insert(r.page(pid, vp, r.frames[pid-1][vp]))
		}
	}

	// memory
	mspec := idealmemcontroller.DefaultSpec()
	mspec.Capacity = 1 * mem.MB
	mspec.Latency = 2
	mspec.Width = 2
	memc := idealmemcontroller.MakeBuilder().WithRegistrar(env).WithSpec(mspec).Build("Mem")
	r.ports(memc, "Top", "Control")
	memc.GetPortByName("Top").AcceptHook(&hookFn{fn: func(ctx hooking.HookCtx) {
		if ctx.Pos != messaging.HookPosPortMsgRecvd {
			return
		}
		switch req := ctx.Item.(type) {
		case memprotocol.ReadReq:
			r.memSeen = append(r.memSeen, c25MemSeen{addr: req.Address, size: int(req.AccessByteSize)})
		case memprotocol.WriteReq:
			r.memSeen = append(r.memSeen, c25MemSeen{write: true, addr: req.Address, size: len(req.Data), data: append([]byte{}, req.Data...)})
		default:
			pr.bad("memory:foreign-message", "memory received %#v", ctx.Item)
		}
	}})

	// walker(s), bottom-up
	mspec2 := mmu.DefaultSpec()
	mspec2.Latency = 2
	mspec2.MaxRequestsInFlight = 2
	mmuc := mmu.MakeBuilder().WithRegistrar(env).WithSpec(mspec2).WithResources(mmu.Resources{PageTable: r.pt}).Build("MMU")
	r.ports(mmuc, "Top", "Control")
	r.watch("MMU", mmuc.GetPortByName("Top"))
	below := mmuc.GetPortByName("Top")
	controls := []messaging.Port{} // translation caches, bottom-up
	allCtl := []messaging.Port{memc.GetPortByName("Control"), mmuc.GetPortByName("Control")}

	if cs.GMMU {
		gspec := gmmu.DefaultSpec()
		gspec.DeviceID = c25LocalDev
		gspec.Latency = 1
		gspec.MaxRequestsInFlight = 2
		gspec.LowModule = below.AsRemote()
		g := gmmu.MakeBuilder().WithRegistrar(env).WithSpec(gspec).WithResources(gmmu.Resources{PageTable: r.pt}).Build("GMMU")
		r.ports(g, "Top", "Bottom", "Control")
		r.link("ConnGMMU", g.GetPortByName("Bottom"), below)
		r.watch("GMMU", g.GetPortByName("Top"))
		below = g.GetPortByName("Top")
		allCtl = append(allCtl, g.GetPortByName("Control"))
	}

	// the module above the MMU cache is only known once it is built: build the
	// TLBs first when a cache is present, wiring by port name
	nTLB := 1
	if cs.L2 {
		nTLB = 2
	}
	tlbName := func(i int) string { // i = 0 is the lowest level
		if nTLB == 2 && i == 0 {
			return "L2TLB"
		}
		return "TLB"
	}
	if cs.Cache {
		cspec := mmuCache.DefaultSpec()
		cspec.NumBlocks = 2
		cspec.NumLevels = 2
		cspec.LatencyPerLevel = 1
		cspec.NumReqPerCycle = 2
		c := mmuCache.MakeBuilder().WithRegistrar(env).WithSpec(cspec).WithResources(mmuCache.Resources{
			LowModulePort: below.AsRemote(),
			UpModulePort:  messaging.RemotePort(tlbName(0) + ".Bottom"),
		}).Build("MMUCache")
		r.ports(c, "Top", "Bottom", "Control")
		r.link("ConnCache", c.GetPortByName("Bottom"), below)
		r.watch("MMUCache", c.GetPortByName("Top"))
		below = c.GetPortByName("Top")
		controls = append(controls, c.GetPortByName("Control"))
		allCtl = append(allCtl, c.GetPortByName("Control"))
	}
	for i := 0; i < nTLB; i++ {
		tspec := tlb.DefaultSpec()
		tspec.NumSets, tspec.NumWays, tspec.MSHRSize, tspec.Latency = cs.Sets, cs.Ways, cs.MSHR, cs.Lat
		tspec.NumReqPerCycle = 2
		t := tlb.MakeBuilder().WithRegistrar(env).WithSpec(tspec).WithResources(tlb.Resources{
			TranslationProviderMapper: &mem.SinglePortMapper{Port: below.AsRemote()},
		}).Build(tlbName(i))
		r.ports(t, "Top", "Bottom", "Control")
		r.link("Conn"+tlbName(i), t.GetPortByName("Bottom"), below)
		r.watch(tlbName(i), t.GetPortByName("Top"))
		below = t.GetPortByName("Top")
		controls = append(controls, t.GetPortByName("Control"))
		allCtl = append(allCtl, t.GetPortByName("Control"))
	}

	aspec := addresstranslator.DefaultSpec()
	aspec.DeviceID = c25LocalDev
	aspec.NumReqPerCycle = 2
	r.at = addresstranslator.MakeBuilder().WithRegistrar(env).WithSpec(aspec).WithResources(addresstranslator.Resources{
		MemProviderMapper:         &mem.SinglePortMapper{Port: memc.GetPortByName("Top").AsRemote()},
		TranslationProviderMapper: &mem.SinglePortMapper{Port: below.AsRemote()},
	}).Build("AT")
	r.ports(r.at, "Top", "Bottom", "Translation", "Control")
	r.link("ConnXlate", r.at.GetPortByName("Translation"), below)
	r.link("ConnMem", r.at.GetPortByName("Bottom"), memc.GetPortByName("Top"))
	allCtl = append(allCtl, r.at.GetPortByName("Control"))

	// driver
	dc := modeling.NewBuilder[c25DrvSpec, c25DrvState, modeling.None]().WithEngine(env.Eng).WithFreq(1 * timing.GHz).
		WithSpec(c25DrvSpec{NumOps: len(cs.Ops)}).Build("Driver")
	dc.DeclarePort("Mem", memprotocol.Requester)
	dc.DeclarePort("Ctrl", memcontrolprotocol.Requester)
	d := &c25Driver{comp: dc, rig: r, cut: cut, issuedAt: make([]int, len(cs.Ops))}
	dc.AddMiddleware(d)
	env.RegisterComponent(dc)
	env.AssignPorts(dc, cs.PortBuf, "Mem", "Ctrl")
	r.drv = d
	r.link("ConnTop", dc.GetPortByName("Mem"), r.at.GetPortByName("Top"))
	cc := directconnection.MakeBuilder().WithRegistrar(env).Build("ConnCtrl")
	cc.PlugIn(dc.GetPortByName("Ctrl"))
	for _, p := range allCtl {
		cc.PlugIn(p)
	}
	if cs.Upd != nil {
		first := memcontrolprotocol.CmdPause
		if cs.Upd.First == "drain" {
			first = memcontrolprotocol.CmdDrain
		}
		for _, cmd := range []memcontrolprotocol.Command{first, memcontrolprotocol.CmdInvalidate, memcontrolprotocol.CmdEnable} {
			for i := len(controls) - 1; i >= 0; i-- { // top-down
				d.steps = append(d.steps, c25CtrlStep{cmd: cmd, target: controls[i].AsRemote()})
			}
		}
	}
	return r
}

// c25RunOnce builds and runs one execution; it returns the driver cycle at
// which the engine drained.
func c25RunOnce(cs c25Case, cut int, pr *probs) (endCycle int, outcome string) {
	r := c25Build(cs, cut, pr)
	r.drv.comp.TickLater()
	if msg := r.env.Run(50000); msg != "" {
		key := "run-panic"
		if strings.HasPrefix(msg, "HORIZON") {
			key = "livelock"
		}
		pr.bad(key+":"+cs.shape(), "cut %d: %s", cut, msg)
		return 0, "panic"
	}
	endCycle = int(uint64(r.env.Eng.CurrentTime()) / 1000)
	d := r.drv
	where := fmt.Sprintf("%s, cut %d, drained at cycle %d", cs.shape(), cut, endCycle)

	// ---- every translation request answered exactly once at every level.
	// r.levels is ordered bottom-up and a level cannot answer a miss before
	// the level below it has answered, so only the LOWEST level that is stuck
	// is blamed; whatever is stuck above it (translation requests, accesses, a
	// Drain waiting for them) is its consequence and is only listed in the
	// text. A request whose answer left under a foreign RspTo has already been
	// reported by the port hook as response-to-unknown-request.
	culprit := -1
	for i, lv := range r.levels {
		if n, _ := lv.unanswered(); n > 0 || lv.unknownRsps > 0 {
			culprit = i
			break
		}
	}
	if culprit >= 0 {
		lv := r.levels[culprit]
		if n, first := lv.unanswered(); n > lv.unknownRsps {
			var above []string
			for _, up := range r.levels[culprit+1:] {
				if k, _ := up.unanswered(); k > 0 {
					above = append(above, fmt.Sprintf("%s:%d", up.name, k))
				}
			}
			pr.bad("translation:request-unanswered:"+lv.name,
				"%s: %s never answered request %d from %s (pid=%d vaddr=%#x) although nothing below it is left unanswered; %d of its %d requests are unanswered (%d answers left under an unknown RspTo); stuck above it as a consequence: %v",
				where, lv.name, first.id, first.src, first.pid, first.vaddr, n, len(lv.reqs), lv.unknownRsps, above)
		}
	}

	// ---- every driver request answered exactly once
	ctrlStuck := cs.Upd != nil && d.phase != 2
	answered := make([]int, len(cs.Ops))
	for _, res := range d.results {
		answered[res.op]++
		want := "data"
		if cs.Ops[res.op].W {
			want = "done"
		}
		if res.kind != want {
			pr.bad("memory:wrong-response-kind", "%s: op %d got a %s response", where, res.op, res.kind)
		}
	}
	for i, n := range answered {
		switch {
		case n > 1:
			pr.bad("memory:request-answered-twice", "%s: op %d got %d responses", where, i, n)
		case n == 0 && culprit >= 0:
			// waits for (or behind) the translation already blamed above
		case n == 0 && i >= d.next && ctrlStuck:
			// held back behind the control sequence, which is reported below
		case n == 0:
			pr.bad("memory:request-unanswered", "%s: op %d %+v never got a response although every translation request was answered (issued %d of %d ops)", where, i, cs.Ops[i], d.next, len(cs.Ops))
		}
	}
	for _, a := range d.anomalies {
		pr.bad("memory:unexpected-response", "%s: %s", where, a)
	}
	for _, a := range d.nacks {
		pr.bad("control:command-refused", "%s: %s", where, a)
	}
	if ctrlStuck && d.step < len(d.steps) {
		st := d.steps[d.step]
		// a Drain legitimately waits for in-flight misses: if a level below
		// never answers, the missing acknowledgement is a consequence
		if !(culprit >= 0 && st.cmd == memcontrolprotocol.CmdDrain) {
			pr.bad("control:command-not-acknowledged:"+c25CmdName(st.cmd)+":"+strings.TrimSuffix(string(st.target), ".Control"),
				"%s: the %s/invalidate/enable sequence stopped at step %d of %d: %s never acknowledged %s although no translation request is left unanswered",
				where, cs.Upd.First, d.step, len(d.steps), st.target, c25CmdName(st.cmd))
		}
	} else if ctrlStuck {
		pr.bad("control:sequence-not-finished", "%s: all %d commands acknowledged but the controller never left the control phase", where, len(d.steps))
	}

	// ---- physical address at the memory
	seenOf := make([]int, len(cs.Ops))
	for _, m := range r.memSeen {
		op := m.size - 1
		if op < 0 || op >= len(cs.Ops) || cs.Ops[op].W != m.write {
			pr.bad("address:unknown-access-at-memory", "%s: memory saw %+v, which no op issued", where, m)
			continue
		}
		seenOf[op]++
		if seenOf[op] == 2 {
			pr.bad("address:access-reached-memory-twice", "%s: op %d reached the memory twice", where, op)
		}
		o := cs.Ops[op]
		if m.write && !bytes.Equal(m.data, c25Payload(op, m.size)) {
			pr.bad("address:write-data-changed", "%s: op %d wrote %v", where, op, m.data)
		}
		want := c25FrameBase + uint64(r.frames[o.PID-1][o.VP])*c25PageSize + uint64(o.Off)
		if m.addr == want {
			continue
		}
		last := cs.Ops[len(cs.Ops)-1]
		onUpdated := r.updated && o.PID == last.PID && o.VP == last.VP
		oldAddr := c25FrameBase + uint64(r.oldFrame)*c25PageSize + uint64(o.Off)
		switch {
		case onUpdated && m.addr == oldAddr && d.issuedAt[op] == 0:
			// issued before the update: it races with it and may use either mapping
		case onUpdated && m.addr == oldAddr:
			variant := cs.Upd.First
			if variant == "pause" && !r.outstandingAtQuiesce {
				// the recorded finding is a fill that was outstanding when the
				// stack was paused; with nothing outstanding this is another defect
				variant = "pause:nothing-outstanding-when-paused"
			}
			pr.bad("address:stale-after-invalidate:"+variant, "%s: op %d %+v was issued after the %s/invalidate/enable sequence was acknowledged (cycle %d) but reached memory at %#x, the old frame; the page table says %#x",
				where, op, o, cs.Upd.First, r.ackCycle, m.addr, want)
		default:
			pr.bad("address:wrong-physical-address", "%s: op %d %+v reached memory at %#x, the page table says %#x", where, op, o, m.addr, want)
		}
	}
	for i, n := range seenOf {
		if n == 0 && answered[i] > 0 {
			pr.bad("address:answered-without-reaching-memory", "%s: op %d was answered but never reached the memory", where, i)
		}
	}

	// ---- end-to-end data (serial, update-free runs): a flat reference memory
	if !cs.Eager && cs.Upd == nil {
		ref := simx.FlatMemory{}
		byOp := map[int]c25Result{}
		for _, res := range d.results {
			byOp[res.op] = res
		}
		for i, o := range cs.Ops {
			pa := c25FrameBase + uint64(r.frames[o.PID-1][o.VP])*c25PageSize + uint64(o.Off)
			if o.W {
				ref.Apply(simx.MemOp{Addr: pa, Data: c25Payload(i, i+1)})
			} else if res, ok := byOp[i]; ok && res.kind == "data" {
				if want := ref.Read(pa, uint64(i+1)); !bytes.Equal(res.data, want) {
					pr.bad("data:read-returned-other-bytes", "%s: op %d %+v read %v, a flat memory at the mapped address holds %v", where, i, o, res.data, want)
				}
			}
		}
	}
	hits := 0
	for _, lv := range r.levels {
		hits += len(lv.reqs)
	}
	return endCycle, fmt.Sprintf("%s x%d m%d", cs.shape(), hits, len(r.memSeen))
}

func c25Valid(cs c25Case) bool {
	if cs.Sets < 1 || cs.Ways < 1 || cs.MSHR < 1 || cs.Lat < 1 || cs.PortBuf < 1 || cs.Table < 0 || cs.Table >= len(c25Tables) || cs.Local < 0 || cs.Local > 2 || len(cs.Ops) > 6 {
		return false
	}
	for _, o := range cs.Ops {
		if o.PID < 1 || o.PID > 2 || o.VP < 0 || o.VP > 2 || o.Off < 0 || o.Off >= c25PageSize-8 {
			return false
		}
	}
	if cs.Upd != nil && (len(cs.Ops) == 0 || (cs.Upd.First != "pause" && cs.Upd.First != "drain") || cs.Upd.hold() > len(cs.Ops) ||
		(cs.Upd.Filter != "" && cs.Upd.Filter != "pid" && cs.Upd.Filter != "all")) {
		return false
	}
	return true
}

var c25Executions func(n int64)

func runC25(cs c25Case) (string, []lib.Problem) {
	pr := &probs{prefix: "xlate:"}
	if !c25Valid(cs) {
		pr.bad("bad-case", "malformed case")
		return "bad", pr.list
	}
	if cs.Upd == nil {
		_, out := c25RunOnce(cs, 0, pr)
		if c25Executions != nil {
			c25Executions(1)
		}
		return out, pr.list
	}
	if cs.Upd.Cut >= 0 {
		_, out := c25RunOnce(cs, cs.Upd.Cut, pr)
		if c25Executions != nil {
			c25Executions(1)
		}
		return out + " upd", pr.list
	}
	// every cut: cycle 0 .. one past the cycle at which the accesses issued
	// before the update have drained (from then on the stack is idle and every
	// later cut finds the same state)
	base := cs
	base.Upd = nil
	base.Ops = cs.Ops[:len(cs.Ops)-cs.Upd.hold()]
	scratch := &probs{prefix: "xlate:"}
	end, _ := c25RunOnce(base, 0, scratch)
	n := int64(1)
	out := ""
	for cut := 0; cut <= end+1; cut++ {
		_, out = c25RunOnce(cs, cut, pr)
		n++
	}
	if c25Executions != nil {
		c25Executions(n)
	}
	late := ""
	if cs.Upd.Late {
		late = "-then-update"
	}
	return fmt.Sprintf("%s upd-%s%s%s h%d cuts%d", out, cs.Upd.First, late, cs.Upd.Filter, cs.Upd.hold(), end+2), pr.list
}

// ---------------------------------------------------------------------------
// enumeration

// c25Scripts yields every script of minOps..maxOps accesses. Scripts of up to
// two accesses use the full alphabet (read|write x pid x vpage x offset{0,8});
// in longer scripts the offset is tied to the kind (reads 0, writes 8): the
// offset only takes part in the address translator's final addition.
func c25Scripts(minOps, maxOps int, yield func([]c25Op) bool) bool {
	for n := minOps; n <= maxOps; n++ {
		cur := make([]c25Op, n)
		var rec func(i int) bool
		rec = func(i int) bool {
			if i == n {
				return yield(cur)
			}
			for _, w := range []bool{false, true} {
				for pid := 1; pid <= 2; pid++ {
					for vp := 0; vp < 3; vp++ {
						offs := []int{0, 8}
						if n > 2 {
							offs = []int{0}
							if w {
								offs = []int{8}
							}
						}
						for _, off := range offs {
							cur[i] = c25Op{PID: pid, VP: vp, Off: off, W: w}
							if !rec(i + 1) {
								return false
							}
						}
					}
				}
			}
			return true
		}
		if !rec(0) {
			return false
		}
	}
	return true
}

type c25Geo struct{ sets, ways, mshr, lat int }

type c25Shape struct {
	l2, cache, gmmu bool
	local           int
}

func c25AllShapes() []c25Shape {
	var shapes []c25Shape
	for _, g := range []bool{false, true} {
		for _, ca := range []bool{false, true} {
			for _, l2 := range []bool{false, true} {
				if !g {
					shapes = append(shapes, c25Shape{l2, ca, g, 0})
					continue
				}
				for local := 0; local < 3; local++ {
					shapes = append(shapes, c25Shape{l2, ca, g, local})
				}
			}
		}
	}
	return shapes
}

func c25AllGeos() []c25Geo {
	var geos []c25Geo
	for _, lat := range []int{1, 2, 4} {
		for _, sets := range []int{1, 2} {
			for _, ways := range []int{1, 2} {
				for _, mshr := range []int{1, 2} {
					geos = append(geos, c25Geo{sets, ways, mshr, lat})
				}
			}
		}
	}
	return geos
}

func enumC25(c *lib.Ctx, yield func(c25Case) bool) {
	maxOps := lib.Pick(c, 2, 3)
	mk := func(sh c25Shape, g c25Geo, table, buf int, eager bool, ops []c25Op, upd *c25Update) c25Case {
		return c25Case{L2: sh.l2, Cache: sh.cache, GMMU: sh.gmmu, Local: sh.local, Sets: g.sets, Ways: g.ways,
			MSHR: g.mshr, Lat: g.lat, Table: table, Eager: eager, PortBuf: buf, Ops: ops, Upd: upd}
	}
	static := func(sh c25Shape, g c25Geo, table, buf int) bool {
		for _, eager := range []bool{false, true} {
			ok := c25Scripts(0, maxOps, func(ops []c25Op) bool {
				if eager {
					if len(ops) < 2 {
						return true // identical to the serial run
					}
					if len(ops) == 2 && (ops[0].Off != 0 || ops[1].Off != 0) {
						return true // offsets are covered by the serial runs
					}
				}
				return yield(mk(sh, g, table, buf, eager, ops, nil))
			})
			if !ok {
				return false
			}
		}
		return true
	}
	thorough := c.Thorough()
	// family A: every stack x page tables, three TLB geometries
	for _, sh := range c25AllShapes() {
		for _, g := range []c25Geo{{1, 1, 1, 1}, {1, 1, 1, 2}, {2, 2, 2, 4}} {
			for table := range c25Tables {
				if !thorough && table%2 == 1 {
					continue // quick: tables 0 (injective) and 2 (sharing inside a PID)
				}
				if !static(sh, g, table, 4) {
					return
				}
			}
		}
	}
	// family B: every TLB geometry x port buffer size on the TLB-only stacks
	for _, sh := range []c25Shape{{}, {l2: true}} {
		for _, g := range c25AllGeos() {
			for _, buf := range []int{1, 4} {
				if (g == c25Geo{1, 1, 1, 1} || g == c25Geo{1, 1, 1, 2} || g == c25Geo{2, 2, 2, 4}) && buf == 4 {
					continue // already in family A
				}
				if !thorough && g.ways != g.mshr {
					continue // quick: (sets, ways=MSHR) only
				}
				if !static(sh, g, 0, buf) {
					return
				}
			}
		}
	}
	// family D (quick only: the thorough tier has 3-access scripts in every
	// family): an evicted page is accessed again. Every read-only script of 3
	// accesses on the one-way TLB stacks.
	if !thorough {
		for _, sh := range []c25Shape{{}, {l2: true}} {
			for _, g := range []c25Geo{{1, 1, 1, 2}, {2, 1, 1, 2}} {
				ok := c25Scripts(3, 3, func(ops []c25Op) bool {
					for _, o := range ops {
						if o.W {
							return true
						}
					}
					return yield(mk(sh, g, 0, 4, false, ops, nil))
				})
				if !ok {
					return
				}
			}
		}
	}
	// family E: an invalidated entry's way is recycled before the page is
	// accessed again. Read-only scripts of 3..4 (thorough 5) accesses of PID 1
	// whose last page was touched before the update; the last 2..3 accesses are
	// issued after the final acknowledgement (so another page of the same set
	// can take the invalidated way first); TLB-only stacks, one-set and
	// two-set/one-way geometries; at every cut.
	{
		geosE := []c25Geo{{1, 1, 1, 2}, {1, 2, 2, 2}, {2, 1, 1, 2}}
		maxE := 4
		if thorough {
			geosE = append(geosE, c25Geo{1, 2, 1, 4}, c25Geo{2, 2, 2, 1})
			maxE = 5
		}
		for _, sh := range []c25Shape{{}, {l2: true}} {
			for _, g := range geosE {
				for _, first := range []string{"drain", "pause"} {
					for n := 3; n <= maxE; n++ {
						for hold := 2; hold <= 3 && hold < n; hold++ {
							for _, filter := range []string{"", "pid", "all"} {
								if filter != "" && !thorough && n > 3 {
									continue // quick: PID / all filters on the 3-access scripts only
								}
								ops := make([]c25Op, n)
								var rec func(i int) bool
								rec = func(i int) bool {
									if i == n {
										last := ops[n-1]
										touched := false
										for _, o := range ops[:n-hold] {
											touched = touched || o.VP == last.VP
										}
										if !touched {
											return true
										}
										return yield(mk(sh, g, 0, 4, false, append([]c25Op{}, ops...), &c25Update{First: first, Cut: -1, Hold: hold, Filter: filter}))
									}
									for vp := 0; vp < 3; vp++ {
										ops[i] = c25Op{PID: 1, VP: vp}
										if !rec(i + 1) {
											return false
										}
									}
									return true
								}
								if !rec(0) {
									return
								}
							}
						}
					}
				}
			}
		}
	}
	// family C: one page-table update + shoot-down at every cut
	geosC := []c25Geo{{1, 1, 1, 1}, {1, 1, 1, 2}}
	if c.Thorough() {
		geosC = append(geosC, c25Geo{2, 2, 2, 2}, c25Geo{1, 2, 2, 4})
	}
	for _, sh := range c25AllShapes() {
		if sh.local == 1 {
			continue // "all remote" adds nothing over "odd pages remote" here
		}
		for _, g := range geosC {
			for _, first := range []string{"pause", "drain"} {
				for _, eager := range []bool{false, true} {
					ok := c25Scripts(2, maxOps, func(ops []c25Op) bool {
						if eager && len(ops) < 3 {
							return true // a single pre-update access: eager == serial
						}
						// only histories that touch the updated page before the update too
						last := ops[len(ops)-1]
						touched := false
						for _, o := range ops[:len(ops)-1] {
							touched = touched || (o.PID == last.PID && o.VP == last.VP)
						}
						if !touched || (len(ops) == 2 && last.Off != 0) || (!thorough && ops[0].Off != 0) {
							return true
						}
						if !yield(mk(sh, g, 0, 4, eager, ops, &c25Update{First: first, Cut: -1})) {
							return false
						}
						// quiesce first, then change the table, then invalidate
						// (the Pause variant is covered by the same window as the
						// early update; quick: the small stacks only)
						if first == "drain" && (thorough || !sh.gmmu) {
							return yield(mk(sh, g, 0, 4, eager, ops, &c25Update{First: first, Cut: -1, Late: true}))
						}
						return true
					})
					if !ok {
						return
					}
				}
			}
		}
	}
}

func init() {
	lib.Register(&lib.Check{
		ID:    "C25",
		Level: "exploration",
		Rule: "every stack AT -> TLB -> [L2 TLB] -> [MMU cache] -> {MMU | GMMU -> MMU} (GMMU: pages all local / all remote / odd pages remote) built from the real components, one real direct connection per link, an ideal memory under the AT; " +
			"2 PIDs x 3 virtual 4 KiB pages mapped to 4 frames by 4 tables (injective, shared across PIDs, shared inside a PID, permuted); scripts = every sequence of <= 2 (thorough 3) accesses (read|write, pid, vpage, offset in {0,8}; in 3-access scripts the offset is tied to the kind), issued serially or eagerly; " +
			"family A: all 16 stacks x tables {0,2} (thorough all 4) x TLB geometries (sets,ways,MSHR,latency) {(1,1,1,1),(1,1,1,2),(2,2,2,4)}, port buffers 4; family B: stacks TLB>MMU and TLB>L2TLB>MMU x every geometry sets{1,2} x ways{1,2} x MSHR{1,2} (quick: MSHR = ways) x latency{1,2,4} x port buffers {1,4}, table 0; " +
			"family C: every script of 2 (thorough 2..3) accesses whose last page was touched before, with one page-table update of that page (to a frame no page of that PID uses) at EVERY driver cycle up to one past the cycle at which the accesses issued before it have drained (later cuts find the same idle stack), followed by {Pause|Drain} -> Invalidate(pid,page) -> Enable sent top-down to every TLB / MMU cache, one acknowledged command at a time, and the order Drain -> page-table update -> Invalidate -> Enable (update after every Drain acknowledgement; quick: stacks without GMMU); the last access is issued after the final acknowledgement (12 stacks x geometries {(1,1,1,1),(1,1,1,2)} (thorough + (2,2,2,2),(1,2,2,4))); " +
			"family E (way recycling after an invalidation): every read-only script of 3..4 (thorough 5) accesses of one PID over 3 pages whose last page was touched before the update, the last 2..3 accesses issued after the final acknowledgement, {Drain|Pause} x Invalidate filter {page+PID; PID only; everything (quick: the latter two on 3-access scripts)} at every cut, on TLB>MMU and TLB>L2TLB>MMU with geometries (1,1,1,2),(1,2,2,2),(2,1,1,2) (thorough + (1,2,1,4),(2,2,2,1)); " +
			"family D (quick only; thorough has 3-access scripts in every family): every read-only script of 3 accesses (an evicted page is accessed again) on TLB>MMU and TLB>L2TLB>MMU with one-way TLBs (sets 1 and 2). " +
			"Oracle: the address each access has at the memory == frame(pid,vpage) + offset (accesses issued before the update may use either mapping, accesses issued after the acknowledgement only the new one); port-hook ledger on every Top port: each translation request answered exactly once with RspTo == its ID, Dst == its Src, its own page and the table's frame; every access answered exactly once; write payloads reach the memory unchanged; serial update-free runs also read back what a flat memory at the mapped addresses holds; every control command acknowledged; no panic, no livelock. " +
			"Only the lowest stuck translation level is reported: requests, accesses and a Drain stuck above it are its consequences and are listed in its text. Each tuple is a distinct case.",
		Sharded:     true,
		MinOutcomes: 10,
		Assumptions: []string{
			"page tables always contain the accessed pages (no page faults, no auto allocation, no migration)",
			"GMMU and MMU share one page table; a page is remote when its DeviceID differs from the GMMU's",
			"the shoot-down controller follows mem/CONTROL_PROTOCOL.md: one command at a time, next command only after the acknowledgement; only translation caches (TLBs, MMU cache) are commanded",
			"accesses issued before the page-table update race with it and may legitimately use either mapping",
		},
		Run: func(c *lib.Ctx) {
			debug.SetGCPercent(800)
			// counts lib's 5x confirmation reruns of failing cases too
			c25Executions = func(n int64) { c.Add("simulations_incl_confirm_reruns", n) }
			lib.Cases(c, func(yield func(c25Case) bool) { enumC25(c, yield) }, runC25)
			simx.ResetGlobals()
		},
		Replay: lib.ReplayCases(runC25),
	})
}

package grpd

import "verif/harness/lib"

// C03Scenarios yields a deterministic subset of the C25 (translation stack)
// cases as opaque scenario runs, for the determinism check C03.
func C03Scenarios(c *lib.Ctx, yield func(name string, run func()) bool) {
	stride := 811
	if c.Thorough() {
		stride = 23
	}
	i := 0
	enumC25(c, func(cs c25Case) bool {
		i++
		if i%stride != 0 {
			return true
		}
		cc := cs
		return yield("xlate", func() { runC25(cc) })
	})
}

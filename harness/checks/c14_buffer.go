package checks

import (
	"encoding/json"
	"fmt"
	"reflect"

	"github.com/sarchlab/akita/v5/queueing"

	"verif/harness/lib"
)

// C14: queueing.Buffer behaves as a bounded FIFO list.

type c14Op struct {
	Cap int    `json:"cap,omitempty"` // only on the first op: selects the capacity
	Op  string `json:"op"`
}

var c14Alphabet = []string{"push", "pop", "peek", "updatefront", "clear", "mutatecopy",
	"snaprestore", "json", "jsonvalue", "restoreover", "restoreshort"}

func c14Exec(hist []c14Op) (string, bool, []lib.Problem) {
	if len(hist) == 0 {
		return "init", false, nil
	}
	capacity := hist[0].Cap
	name := fmt.Sprintf("Buf%d", capacity)
	buf := queueing.NewBuffer[int](name, capacity)
	b := &buf
	var model []int
	pushes := 0
	var probs []lib.Problem
	bad := func(step int, clause, format string, a ...any) {
		probs = append(probs, lib.Problem{
			Key:  fmt.Sprintf("buffer:%s:after-%s", clause, hist[step].Op),
			What: fmt.Sprintf("cap=%d step %d (%s): ", capacity, step, hist[step].Op) + fmt.Sprintf(format, a...),
		})
	}
	observe := func(step int) {
		if b.Size() != len(model) {
			bad(step, "size", "Size()=%d, model has %d", b.Size(), len(model))
		}
		if b.Capacity() != capacity {
			bad(step, "capacity", "Capacity()=%d want %d", b.Capacity(), capacity)
		}
		if b.Name() != name {
			bad(step, "name", "Name()=%q want %q", b.Name(), name)
		}
		if b.CanPush() != (len(model) < capacity) {
			bad(step, "canpush", "CanPush()=%v with %d/%d elements", b.CanPush(), len(model), capacity)
		}
		if len(model) > capacity {
			bad(step, "overflow", "model exceeds capacity")
		}
		got := b.Elements()
		if len(got) != len(model) || (len(model) > 0 && !reflect.DeepEqual(got, model)) {
			bad(step, "contents", "Elements()=%v want %v", got, model)
		}
		wantFront := 0
		if len(model) > 0 {
			wantFront = model[0]
		}
		if b.Peek() != wantFront {
			bad(step, "peek", "Peek()=%d want %d", b.Peek(), wantFront)
		}
	}
	for i, op := range hist {
		switch op.Op {
		case "push":
			v := 1 + pushes%3
			pushes++
			if len(model) >= capacity {
				msg := lib.Catch(func() { b.PushTyped(v) })
				if msg == "" {
					bad(i, "push-full-accepted", "push on a full buffer was not refused")
				}
			} else {
				msg := lib.Catch(func() { b.PushTyped(v) })
				if msg != "" {
					bad(i, "push-refused", "push with room panicked: %s", msg)
				}
				model = append(model, v)
			}
		case "pop":
			want := 0
			if len(model) > 0 {
				want = model[0]
				model = model[1:]
			}
			if got := b.Pop(); got != want {
				bad(i, "pop", "Pop()=%d want %d", got, want)
			}
		case "peek":
			// covered by observe
		case "updatefront":
			b.UpdateFront(9)
			if len(model) > 0 {
				model = append([]int{9}, model[1:]...)
			}
		case "clear":
			b.Clear()
			model = nil
		case "mutatecopy":
			e := b.Elements()
			for k := range e {
				e[k] = -1
			}
			_ = append(e, 77)
		case "snaprestore":
			snap := b.Elements()
			b.Clear()
			b.Restore(snap)
			for k := range snap {
				snap[k] = -5 // the buffer must not alias the restored slice
			}
		case "json":
			data, err := json.Marshal(b)
			if err != nil {
				bad(i, "json-marshal", "%v", err)
				break
			}
			nb := new(queueing.Buffer[int])
			if err := json.Unmarshal(data, nb); err != nil {
				bad(i, "json-unmarshal", "%v", err)
				break
			}
			b = nb
		case "jsonvalue":
			// a Buffer embedded by value in a State struct
			type holder struct {
				B queueing.Buffer[int] `json:"b"`
			}
			data, err := json.Marshal(holder{B: *b})
			if err != nil {
				bad(i, "json-marshal", "%v", err)
				break
			}
			var h holder
			if err := json.Unmarshal(data, &h); err != nil {
				bad(i, "json-unmarshal", "%v", err)
				break
			}
			b = &h.B
		case "restoreover":
			over := make([]int, capacity+1)
			msg := lib.Catch(func() { b.Restore(over) })
			if msg == "" {
				bad(i, "restore-over-accepted", "Restore of %d elements into capacity %d was accepted", capacity+1, capacity)
			}
		case "restoreshort":
			if capacity == 0 {
				break
			}
			b.Restore([]int{7})
			model = []int{7}
		}
		observe(i)
		if len(probs) > 0 {
			return "", true, probs
		}
	}
	return fmt.Sprintf("cap%d %v p%d", capacity, model, pushes%3), false, nil
}

func init() {
	lib.Register(&lib.Check{
		ID:    "C14",
		Level: "model_checking",
		Rule: "explicit-state BFS over histories of {push(auto value),pop,peek,updatefront,clear,mutate-copy,snapshot/restore,JSON pointer/value round trip,restore over capacity,restore short} " +
			"on the real queueing.Buffer[int] for capacities 0..3; every transition replays the history on a fresh buffer and compares Size/Capacity/Name/CanPush/Elements/Peek and every return value with a Go slice; " +
			"state = (capacity, contents, push counter mod 3)",
		MinOutcomes: 0,
		Assumptions: []string{"element type int; hooks not attached (hook firing is covered by C33)"},
		Run: func(c *lib.Ctx) {
			lib.BFS(c, lib.BFSConfig[c14Op]{
				Ops: func(hist []c14Op) []c14Op {
					if len(hist) == 0 {
						return []c14Op{{Cap: 0, Op: "peek"}, {Cap: 1, Op: "peek"}, {Cap: 2, Op: "peek"}, {Cap: 3, Op: "peek"}}
					}
					ops := make([]c14Op, 0, len(c14Alphabet))
					for _, o := range c14Alphabet {
						ops = append(ops, c14Op{Op: o})
					}
					return ops
				},
				Exec:     c14Exec,
				MaxDepth: lib.Pick(c, 9, 12),
				Workers:  8,
			})
		},
		Replay: func(c *lib.Ctx, raw json.RawMessage) []lib.Problem {
			var h []c14Op
			if err := json.Unmarshal(raw, &h); err != nil {
				c.InternalError("bad replay: %v", err)
				return nil
			}
			_, _, p := c14Exec(h)
			return p
		},
	})
}

package checks

import (
	"encoding/json"
	"fmt"
	"reflect"

	"github.com/sarchlab/akita/v5/hooking"
	"github.com/sarchlab/akita/v5/queueing"

	"verif/harness/lib"
)

// C14: queueing.Buffer behaves as a bounded FIFO list.

type c14Op struct {
	Cap  int    `json:"cap,omitempty"`  // only on the first op: selects the capacity
	Elem string `json:"elem,omitempty"` // only on the first op: element type ("" = int, "rec" = c14Rec)
	Op   string `json:"op"`
}

var c14Alphabet = []string{"push", "pop", "peek", "updatefront", "clear", "mutatecopy",
	"snaprestore", "json", "jsonvalue", "restoreover", "restoreshort", "ckpt", "rollback", "jsonintoused"}

// c14Rec is an element type whose JSON form leaves members out (omitempty
// scalars, maps, pointers): decoding it on top of an old value would keep what
// the text does not mention.
type c14Rec struct {
	ID        int               `json:"id"`
	Committed bool              `json:"committed,omitempty"`
	Tags      map[string]string `json:"tags,omitempty"`
	Ptr       *int              `json:"ptr,omitempty"`
}

func c14MkInt(v int) int { return v }

// c14MkRec spreads the optional members over the values the histories use
// (1..3 pushed, 9 update-front, 7 restore, -1/-5/77 scribbles on copies).
func c14MkRec(v int) c14Rec {
	r := c14Rec{ID: v}
	switch v {
	case 2, 9:
		r.Committed = true
	}
	switch v {
	case 3, 9:
		r.Tags = map[string]string{fmt.Sprintf("k%d", v): "x"}
	}
	if v == 1 || v == 7 {
		p := v * 11
		r.Ptr = &p
	}
	return r
}

// c14NopHook is a hook that observes and does nothing (element family "hk").
type c14NopHook struct{}

func (c14NopHook) Func(hooking.HookCtx) {}

// c14Outcome, when set, receives the outcome class of every executed history.
var c14Outcome func(string)

func c14Exec(hist []c14Op) (string, bool, []lib.Problem) {
	if len(hist) > 0 && hist[0].Elem == "rec" {
		return c14ExecT(hist, c14MkRec)
	}
	return c14ExecT(hist, c14MkInt)
}

func c14ExecT[T any](hist []c14Op, mk func(int) T) (string, bool, []lib.Problem) {
	if len(hist) == 0 {
		return "init", false, nil
	}
	capacity := hist[0].Cap
	name := fmt.Sprintf("Buf%d", capacity)
	buf := queueing.NewBuffer[T](name, capacity)
	b := &buf
	if hist[0].Elem == "hk" {
		// an observer must not change what the buffer does
		b.AcceptHook(c14NopHook{})
	}
	var model []int
	vals := func(m []int) []T {
		out := make([]T, len(m))
		for k, v := range m {
			out[k] = mk(v)
		}
		return out
	}
	var zero T
	var ckptData []byte
	var ckptModel []int
	hasCkpt := false
	pushes := 0
	var probs []lib.Problem
	bad := func(step int, clause, format string, a ...any) {
		probs = append(probs, lib.Problem{
			Key:  fmt.Sprintf("buffer:%s:after-%s", clause, hist[step].Op),
			What: fmt.Sprintf("cap=%d step %d (%s): ", capacity, step, hist[step].Op) + fmt.Sprintf(format, a...),
		})
	}
	observe := func(step int) {
		if b.Size() != len(model) {
			bad(step, "size", "Size()=%d, model has %d", b.Size(), len(model))
		}
		if b.Capacity() != capacity {
			bad(step, "capacity", "Capacity()=%d want %d", b.Capacity(), capacity)
		}
		if b.Name() != name {
			bad(step, "name", "Name()=%q want %q", b.Name(), name)
		}
		if b.CanPush() != (len(model) < capacity) {
			bad(step, "canpush", "CanPush()=%v with %d/%d elements", b.CanPush(), len(model), capacity)
		}
		if len(model) > capacity {
			bad(step, "overflow", "model exceeds capacity")
		}
		got := b.Elements()
		if len(got) != len(model) || (len(model) > 0 && !reflect.DeepEqual(got, vals(model))) {
			bad(step, "contents", "Elements()=%+v want %+v", got, vals(model))
		}
		wantFront := zero
		if len(model) > 0 {
			wantFront = mk(model[0])
		}
		if !reflect.DeepEqual(b.Peek(), wantFront) {
			bad(step, "peek", "Peek()=%+v want %+v", b.Peek(), wantFront)
		}
	}
	for i, op := range hist {
		switch op.Op {
		case "push":
			v := 1 + pushes%3
			pushes++
			if len(model) >= capacity {
				msg := lib.Catch(func() { b.PushTyped(mk(v)) })
				if msg == "" {
					bad(i, "push-full-accepted", "push on a full buffer was not refused")
				}
			} else {
				msg := lib.Catch(func() { b.PushTyped(mk(v)) })
				if msg != "" {
					bad(i, "push-refused", "push with room panicked: %s", msg)
				}
				model = append(model, v)
			}
		case "pop":
			want := zero
			if len(model) > 0 {
				want = mk(model[0])
				model = model[1:]
			}
			if got := b.Pop(); !reflect.DeepEqual(got, want) {
				bad(i, "pop", "Pop()=%+v want %+v", got, want)
			}
		case "peek":
			// covered by observe
		case "updatefront":
			b.UpdateFront(mk(9))
			if len(model) > 0 {
				model = append([]int{9}, model[1:]...)
			}
		case "clear":
			b.Clear()
			model = nil
		case "mutatecopy":
			e := b.Elements()
			for k := range e {
				e[k] = mk(-1)
			}
			_ = append(e, mk(77))
		case "snaprestore":
			snap := b.Elements()
			b.Clear()
			b.Restore(snap)
			for k := range snap {
				snap[k] = mk(-5) // the buffer must not alias the restored slice
			}
		case "json":
			data, err := json.Marshal(b)
			if err != nil {
				bad(i, "json-marshal", "%v", err)
				break
			}
			nb := new(queueing.Buffer[T])
			if err := json.Unmarshal(data, nb); err != nil {
				bad(i, "json-unmarshal", "%v", err)
				break
			}
			b = nb
		case "jsonvalue":
			// a Buffer embedded by value in a State struct
			type holder struct {
				B queueing.Buffer[T] `json:"b"`
			}
			data, err := json.Marshal(holder{B: *b})
			if err != nil {
				bad(i, "json-marshal", "%v", err)
				break
			}
			var h holder
			if err := json.Unmarshal(data, &h); err != nil {
				bad(i, "json-unmarshal", "%v", err)
				break
			}
			b = &h.B
		case "restoreover":
			over := make([]T, capacity+1)
			msg := lib.Catch(func() { b.Restore(over) })
			if msg == "" {
				bad(i, "restore-over-accepted", "Restore of %d elements into capacity %d was accepted", capacity+1, capacity)
			}
		case "restoreshort":
			if capacity == 0 {
				break
			}
			b.Restore([]T{mk(7)})
			model = []int{7}
		case "ckpt":
			// the JSON text of the buffer as it is now, kept for a later rollback
			data, err := json.Marshal(b)
			if err != nil {
				bad(i, "json-marshal", "%v", err)
				break
			}
			ckptData, ckptModel, hasCkpt = data, append([]int(nil), model...), true
		case "rollback":
			// decode the kept text into the live buffer (whatever it holds by now)
			if !hasCkpt {
				break
			}
			if err := json.Unmarshal(ckptData, b); err != nil {
				bad(i, "json-unmarshal", "%v", err)
				break
			}
			model = append([]int(nil), ckptModel...)
		case "jsonintoused":
			// decode the buffer's text into another buffer that has been used
			data, err := json.Marshal(b)
			if err != nil {
				bad(i, "json-marshal", "%v", err)
				break
			}
			other := queueing.NewBuffer[T]("Other", capacity+2)
			for _, v := range []int{9, 2, 3, 1, 9}[:capacity+2] {
				other.PushTyped(mk(v))
			}
			other.Pop()
			if err := json.Unmarshal(data, &other); err != nil {
				bad(i, "json-unmarshal", "%v", err)
				break
			}
			b = &other
		}
		observe(i)
		if len(probs) > 0 {
			return "", true, probs
		}
	}
	ck := "-"
	if hasCkpt {
		ck = fmt.Sprint(ckptModel)
	}
	if c14Outcome != nil {
		c14Outcome(fmt.Sprintf("after-%s elem=%q size=%d/%d ckpt=%v", hist[len(hist)-1].Op, hist[0].Elem, len(model), capacity, hasCkpt))
	}
	return fmt.Sprintf("cap%d%s %v p%d ck%s", capacity, hist[0].Elem, model, pushes%3, ck), false, nil
}

func init() {
	lib.Register(&lib.Check{
		ID:    "C14",
		Level: "model_checking",
		Rule: "explicit-state BFS over histories of {push(auto value),pop,peek,updatefront,clear,mutate-copy,snapshot/restore,JSON pointer/value round trip into a fresh buffer,restore over capacity,restore short,keep the JSON text,decode the kept text into the live buffer (rollback),decode the current text into another used buffer} " +
			"on the real queueing.Buffer[T] for T in {int, a struct with omitempty scalar, map and pointer members, int with a do-nothing hook attached to the buffer} and capacities 0..3; every transition replays the history on a fresh buffer and compares Size/Capacity/Name/CanPush/Elements/Peek and every return value with a Go slice (deep equality); " +
			"state = (element type, capacity, contents, push counter mod 3, kept contents)",
		MinOutcomes: 40,
		Assumptions: []string{"two element types; the attached hook only observes (what hooks are told is covered by C33)"},
		Run: func(c *lib.Ctx) {
			c14Outcome = c.Outcome
			lib.BFS(c, lib.BFSConfig[c14Op]{
				Ops: func(hist []c14Op) []c14Op {
					if len(hist) == 0 {
						var first []c14Op
						for _, el := range []string{"", "rec", "hk"} {
							for cp := 0; cp <= 3; cp++ {
								first = append(first, c14Op{Cap: cp, Elem: el, Op: "peek"})
							}
						}
						return first
					}
					ops := make([]c14Op, 0, len(c14Alphabet))
					for _, o := range c14Alphabet {
						ops = append(ops, c14Op{Op: o})
					}
					return ops
				},
				Exec:     c14Exec,
				MaxDepth: lib.Pick(c, 9, 12),
				Workers:  8,
			})
		},
		Replay: func(c *lib.Ctx, raw json.RawMessage) []lib.Problem {
			var h []c14Op
			if err := json.Unmarshal(raw, &h); err != nil {
				c.InternalError("bad replay: %v", err)
				return nil
			}
			_, _, p := c14Exec(h)
			return p
		},
	})
}

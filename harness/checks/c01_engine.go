package checks

import (
	"fmt"
	"sort"

	"github.com/sarchlab/akita/v5/hooking"
	"github.com/sarchlab/akita/v5/timing"

	"verif/harness/lib"
)

// C01 / C02: the serial engine against a reference scheduler, over every
// event program up to a size.

// progNode is one event of an event program. Nodes are listed in preorder of
// an ordered forest; the handler of a node schedules its children in order.
type progNode struct {
	Parent int  `json:"p"` // -1 = root, scheduled before Run
	Sec    bool `json:"s"` // secondary event
	Dt     int  `json:"d"` // roots: absolute time; children: delay after the parent's time
}

type engCase struct {
	Nodes []progNode `json:"nodes"`
	Hook  bool       `json:"hook"`            // run with an engine hook attached (other dispatch branch)
	Bound []int      `json:"bound,omitempty"` // C02: RunUntil boundaries
}

type progEvent struct {
	timing.EventBase
	Node int
}

type handled struct {
	Node int
	Time uint64
}

type progHandler struct {
	eng   *timing.SerialEngine
	nodes []progNode
	kids  [][]int
	log   *[]handled
	name  string
	// hook bracket tracking
	open *int
}

func (h *progHandler) Handle(e timing.Event) error {
	pe := e.(progEvent)
	*h.log = append(*h.log, handled{pe.Node, uint64(e.Time())})
	for _, k := range h.kids[pe.Node] {
		scheduleNode(h.eng, h.nodes, k, uint64(e.Time())+uint64(h.nodes[k].Dt))
	}
	return nil
}

func scheduleNode(eng *timing.SerialEngine, nodes []progNode, k int, t uint64) {
	eb := timing.MakeEventBase(timing.VTimeInPicoSec(t), fmt.Sprintf("h%d", k%2))
	eb.Secondary = nodes[k].Sec
	eng.Schedule(progEvent{EventBase: eb, Node: k})
}

type engHook struct {
	log     *[]handled
	events  []string
	problem string
	pending int
}

func (h *engHook) Func(ctx hooking.HookCtx) {
	pe, ok := ctx.Item.(progEvent)
	if !ok {
		h.problem = "hook item is not the event"
		return
	}
	switch ctx.Pos {
	case timing.HookPosBeforeEvent:
		if h.pending != -1 {
			h.problem = fmt.Sprintf("BeforeEvent(%d) while node %d is still open", pe.Node, h.pending)
		}
		h.pending = pe.Node
		h.events = append(h.events, fmt.Sprintf("B%d@%d", pe.Node, len(*h.log)))
	case timing.HookPosAfterEvent:
		if h.pending != pe.Node {
			h.problem = fmt.Sprintf("AfterEvent(%d) does not pair with BeforeEvent(%d)", pe.Node, h.pending)
		}
		n := len(*h.log)
		if n == 0 || (*h.log)[n-1].Node != pe.Node {
			h.problem = fmt.Sprintf("AfterEvent(%d) but the handler did not run in between", pe.Node)
		}
		h.pending = -1
	}
}

// refSchedule is the reference scheduler: repeatedly take the pending event
// with the least (time, primary-before-secondary, schedule order).
func refSchedule(nodes []progNode, kids [][]int) []handled {
	type pend struct {
		node int
		t    uint64
		sec  bool
		seq  int
	}
	var q []pend
	seq := 0
	for i, n := range nodes {
		if n.Parent < 0 {
			q = append(q, pend{i, uint64(n.Dt), n.Sec, seq})
			seq++
		}
	}
	var out []handled
	for len(q) > 0 {
		best := 0
		for i := 1; i < len(q); i++ {
			a, b := q[i], q[best]
			if a.t != b.t {
				if a.t < b.t {
					best = i
				}
				continue
			}
			if a.sec != b.sec {
				if !a.sec {
					best = i
				}
				continue
			}
			if a.seq < b.seq {
				best = i
			}
		}
		p := q[best]
		q = append(q[:best], q[best+1:]...)
		out = append(out, handled{p.node, p.t})
		for _, k := range kids[p.node] {
			q = append(q, pend{k, p.t + uint64(nodes[k].Dt), nodes[k].Sec, seq})
			seq++
		}
	}
	return out
}

func kidsOf(nodes []progNode) [][]int {
	kids := make([][]int, len(nodes))
	for i, n := range nodes {
		if n.Parent >= 0 {
			kids[n.Parent] = append(kids[n.Parent], i)
		}
	}
	return kids
}

func progShape(nodes []progNode) string {
	roots, sec, same := 0, 0, 0
	for _, n := range nodes {
		if n.Parent < 0 {
			roots++
		} else if n.Dt == 0 {
			same++
		}
		if n.Sec {
			sec++
		}
	}
	if len(nodes) >= 8 && (roots == len(nodes) || roots == 1) {
		// scale family: one class per size bucket
		return fmt.Sprintf("burst n<=%d roots=%v sec=%v same=%v", (len(nodes)+99)/100*100, roots > 1, sec > 0, same > 0)
	}
	return fmt.Sprintf("n%d r%d s%d z%d", len(nodes), roots, sec, same)
}

func runEngCase(cs engCase) (string, []lib.Problem) {
	nodes := cs.Nodes
	kids := kidsOf(nodes)
	want := refSchedule(nodes, kids)

	eng := timing.NewSerialEngine()
	var log []handled
	for _, name := range []string{"h0", "h1"} {
		eng.RegisterHandler(name, &progHandler{eng: eng, nodes: nodes, kids: kids, log: &log, name: name})
	}
	var hk *engHook
	if cs.Hook {
		hk = &engHook{log: &log, pending: -1}
		eng.AcceptHook(hk)
	}
	for i, n := range nodes {
		if n.Parent < 0 {
			scheduleNode(eng, nodes, i, uint64(n.Dt))
		}
	}
	var probs []lib.Problem
	bad := func(key, format string, a ...any) {
		probs = append(probs, lib.Problem{Key: "engine:" + key, What: fmt.Sprintf(format, a...)})
	}

	// C02 part: boundaries
	pos := 0 // index into want of the next expected event
	for bi, b := range cs.Bound {
		before := len(log)
		timeBefore := uint64(eng.CurrentTime())
		msg := lib.Catch(func() {
			if err := eng.RunUntil(timing.VTimeInPicoSec(b)); err != nil {
				bad("rununtil-error", "RunUntil(%d) returned %v", b, err)
			}
		})
		if msg != "" {
			bad("rununtil-panic", "RunUntil(%d) panicked: %s", b, msg)
			return "panic", probs
		}
		// every handled event so far has time <= b
		for _, h := range log[before:] {
			if h.Time > uint64(b) {
				bad("rununtil-overrun", "boundary #%d RunUntil(%d) handled node %d at time %d", bi, b, h.Node, h.Time)
			}
		}
		pos = len(log)
		// nothing with time <= b remains: the reference's next event is later
		if pos < len(want) && want[pos].Time <= uint64(b) && equalPrefix(log, want) {
			bad("rununtil-underrun", "boundary #%d RunUntil(%d) returned with node %d at time %d still queued", bi, b, want[pos].Node, want[pos].Time)
		}
		wantClock := timeBefore
		if len(log) > before {
			wantClock = log[len(log)-1].Time
		}
		if uint64(eng.CurrentTime()) != wantClock {
			bad("rununtil-clock", "after RunUntil(%d) the clock is %d, last handled event was at %d", b, eng.CurrentTime(), wantClock)
		}
	}

	msg := lib.Catch(func() {
		if err := eng.Run(); err != nil {
			bad("run-error", "Run returned %v", err)
		}
	})
	if msg != "" {
		bad("run-panic", "Run panicked: %s", msg)
		return "panic", probs
	}
	if !equalLogs(log, want) {
		key := "order"
		if len(log) != len(want) {
			key = "count"
		} else {
			// classify the first difference
			for i := range log {
				if log[i] != want[i] {
					a, b := nodes[log[i].Node], nodes[want[i].Node]
					switch {
					case log[i].Time != want[i].Time:
						key = "time-order"
					case a.Sec != b.Sec:
						key = "phase-order"
					default:
						key = "fifo-order"
					}
					break
				}
			}
		}
		bad(key, "handled sequence %v, reference scheduler says %v", log, want)
	}
	seen := map[int]int{}
	var last uint64
	for _, h := range log {
		seen[h.Node]++
		if h.Time < last {
			bad("time-decreased", "time went from %d to %d", last, h.Time)
		}
		last = h.Time
	}
	for i := range nodes {
		if seen[i] != 1 {
			bad("not-exactly-once", "node %d handled %d times", i, seen[i])
		}
	}
	if len(log) > 0 && uint64(eng.CurrentTime()) != log[len(log)-1].Time {
		bad("final-clock", "CurrentTime()=%d after the last event at %d", eng.CurrentTime(), log[len(log)-1].Time)
	}
	if hk != nil {
		if hk.problem != "" {
			bad("hook-pairing", "%s", hk.problem)
		}
		if hk.pending != -1 {
			bad("hook-pairing", "BeforeEvent(%d) never closed", hk.pending)
		}
		if len(hk.events) != len(log) {
			bad("hook-count", "%d BeforeEvent hooks for %d handled events", len(hk.events), len(log))
		}
	}
	n := len(log)
	_ = eng.Run()
	if len(log) != n {
		bad("run-not-drained", "a second Run handled %d more events", len(log)-n)
	}
	return progShape(nodes), probs
}

func equalLogs(a, b []handled) bool {
	if len(a) != len(b) {
		return false
	}
	for i := range a {
		if a[i] != b[i] {
			return false
		}
	}
	return true
}

func equalPrefix(a, b []handled) bool {
	if len(a) > len(b) {
		return false
	}
	for i := range a {
		if a[i] != b[i] {
			return false
		}
	}
	return true
}

// enumForests yields every ordered forest with exactly n nodes as a parent
// array in preorder (Catalan(n) of them).
func enumForests(n int, yield func(parents []int) bool) bool {
	parents := make([]int, n)
	var rec func(i int) bool
	rec = func(i int) bool {
		if i == n {
			return yield(parents)
		}
		if i == 0 {
			parents[0] = -1
			return rec(1)
		}
		// parent is any node on the path from node i-1 up to the root level
		p := i - 1
		for {
			parents[i] = p
			if !rec(i + 1) {
				return false
			}
			if p == -1 {
				break
			}
			p = parents[p]
		}
		return true
	}
	return rec(0)
}

// enumPrograms yields every labelled program with 1..maxN nodes, labels
// (class, dt in 0..maxDt).
func enumPrograms(maxN, maxDt int, yield func([]progNode) bool) {
	for n := 1; n <= maxN; n++ {
		nodes := make([]progNode, n)
		ok := enumForests(n, func(par []int) bool {
			for i := range nodes {
				nodes[i].Parent = par[i]
			}
			var lab func(i int) bool
			lab = func(i int) bool {
				if i == n {
					cp := append([]progNode(nil), nodes...)
					return yield(cp)
				}
				for _, sec := range []bool{false, true} {
					for dt := 0; dt <= maxDt; dt++ {
						nodes[i].Sec, nodes[i].Dt = sec, dt
						if !lab(i + 1) {
							return false
						}
					}
				}
				return true
			}
			return lab(0)
		})
		if !ok {
			return
		}
	}
}

// enumWide yields the "wide" family: r roots at times {0,1} in every
// class/time pattern, with a uniform same-instant child pattern.
func enumWide(minR, maxR int, yield func([]progNode) bool) {
	for r := minR; r <= maxR; r++ {
		total := 1
		for i := 0; i < r; i++ {
			total *= 4
		}
		for code := 0; code < total; code++ {
			for child := 0; child < 4; child++ {
				var nodes []progNode
				x := code
				for i := 0; i < r; i++ {
					l := x % 4
					x /= 4
					nodes = append(nodes, progNode{Parent: -1, Sec: l&1 == 1, Dt: l >> 1})
				}
				for i := 0; i < r; i++ {
					if child&1 == 1 {
						nodes = append(nodes, progNode{Parent: i, Sec: false, Dt: 0})
					}
					if child&2 == 2 {
						nodes = append(nodes, progNode{Parent: i, Sec: true, Dt: 0})
					}
				}
				// children must follow preorder only for kidsOf's ordering, which
				// uses index order; any order is a valid program.
				if !yield(nodes) {
					return
				}
			}
		}
	}
}

// enumBursts yields the scale family: for every size n in 1..maxN one program
// per shape (sizes below 8 are covered by the other families), so that every
// queue length up to maxN occurs while filling and
// while draining (implementation thresholds on the number of pending events
// are crossed in both directions).
func enumBursts(maxN int, yield func([]progNode) bool) {
	for n := 8; n <= maxN; n++ {
		shapes := [][]progNode{}
		var same, sameSec, asc, desc, zig []progNode
		for i := 0; i < n; i++ {
			same = append(same, progNode{Parent: -1, Dt: 0})
			sameSec = append(sameSec, progNode{Parent: -1, Sec: true, Dt: 0})
			asc = append(asc, progNode{Parent: -1, Sec: i%3 == 1, Dt: i})
			desc = append(desc, progNode{Parent: -1, Sec: i%3 == 2, Dt: n - 1 - i})
			t := i
			if i%2 == 1 {
				t = n - i
			}
			zig = append(zig, progNode{Parent: -1, Sec: i%4 >= 2, Dt: t / 2})
		}
		shapes = append(shapes, same, sameSec, asc, desc, zig)
		if n >= 2 {
			fan := []progNode{{Parent: -1, Dt: 0}}
			fanSame := []progNode{{Parent: -1, Sec: true, Dt: 1}}
			for i := 1; i < n; i++ {
				fan = append(fan, progNode{Parent: 0, Dt: n - i})
				fanSame = append(fanSame, progNode{Parent: 0, Sec: i%2 == 0, Dt: 0})
			}
			shapes = append(shapes, fan, fanSame)
		}
		for _, sh := range shapes {
			if !yield(sh) {
				return
			}
		}
	}
}

func maxTime(nodes []progNode) int {
	kids := kidsOf(nodes)
	m := 0
	for _, h := range refSchedule(nodes, kids) {
		if int(h.Time) > m {
			m = int(h.Time)
		}
	}
	return m
}

func init() {
	lib.Register(&lib.Check{
		ID:    "C01",
		Level: "exploration",
		Rule: "every event program = ordered forest of <= N events (quick N=5, thorough N=6) with labels (primary|secondary, delay 0..2; roots at absolute 0..2), handlers schedule their children in order; plus a scale family: for every size n = 8..600 (thorough 1200) seven shapes (n same-instant primaries; n same-instant secondaries; ascending, descending and zig-zag times with mixed classes; one root fanning out n-1 children at distinct times; one root fanning out n-1 same-instant children of alternating class), so that every pending-queue length up to that size occurs while filling and draining; " +
			"plus the wide family (4..7 roots at times {0,1}, every class/time pattern x {no, primary, secondary, both} same-instant children); each program is run on the real SerialEngine with and without an engine hook " +
			"and the complete handled sequence is compared with a reference scheduler (time, primary-first, schedule order). Each (program, hook) pair is a distinct case.",
		Sharded:     true,
		MinOutcomes: 10,
		Run: func(c *lib.Ctx) {
			lib.Cases(c, func(yield func(engCase) bool) {
				cont := true
				enumPrograms(lib.Pick(c, 5, 6), 2, func(n []progNode) bool {
					cont = yield(engCase{Nodes: n}) && yield(engCase{Nodes: n, Hook: true})
					return cont
				})
				if !cont {
					return
				}
				enumWide(4, lib.Pick(c, 6, 7), func(n []progNode) bool {
					cont = yield(engCase{Nodes: n}) && yield(engCase{Nodes: n, Hook: true})
					return cont
				})
				if !cont {
					return
				}
				enumBursts(lib.Pick(c, 600, 1200), func(n []progNode) bool {
					return yield(engCase{Nodes: n, Hook: len(n)%2 == 0})
				})
			}, runEngCase)
		},
		Replay: lib.ReplayCases(runEngCase),
	})

	lib.Register(&lib.Check{
		ID:    "C02",
		Level: "exploration",
		Rule: "every event program of <= N events (N=4; delays 0..2 quick, 0..3 thorough) x every non-decreasing sequence of 1..3 RunUntil boundaries over {0..Tmax+1} followed by Run, on the real SerialEngine; plus the scale family of C01 (every burst size 8..300, thorough 800, seven shapes) with boundary sequences {0}, {T/2}, {T/2,T/2}, {T/3,2T/3,T+1}; " +
			"oracle: concatenated handled sequence == reference single-Run sequence; after each RunUntil(t) nothing later than t was handled, nothing <= t remains, clock == last handled event. Each (program, boundary sequence) is a distinct case.",
		Sharded:     true,
		MinOutcomes: 10,
		Run: func(c *lib.Ctx) {
			lib.Cases(c, func(yield func(engCase) bool) {
				enumPrograms(4, lib.Pick(c, 2, 3), func(n []progNode) bool {
					tm := maxTime(n) + 1
					for l := 1; l <= 3; l++ {
						b := make([]int, l)
						var rec func(i, lo int) bool
						rec = func(i, lo int) bool {
							if i == l {
								return yield(engCase{Nodes: n, Bound: append([]int(nil), b...), Hook: (len(n)+l)%2 == 0})
							}
							for v := lo; v <= tm; v++ {
								b[i] = v
								if !rec(i+1, v) {
									return false
								}
							}
							return true
						}
						if !rec(0, 0) {
							return false
						}
					}
					return true
				})
				// scale family: every burst size with boundaries in front of,
				// inside and behind the burst
				enumBursts(lib.Pick(c, 300, 800), func(n []progNode) bool {
					tm := maxTime(n)
					for _, b := range [][]int{{0}, {tm / 2}, {tm / 2, tm / 2}, {tm / 3, 2 * tm / 3, tm + 1}} {
						if !yield(engCase{Nodes: n, Bound: b, Hook: len(n)%2 == 1}) {
							return false
						}
					}
					return true
				})
			}, runEngCase)
		},
		Replay: lib.ReplayCases(runEngCase),
	})
	_ = sort.Ints
}

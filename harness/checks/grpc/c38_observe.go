package grpc

import (
	"context"
	"errors"
	"fmt"
	"net"
	"net/netip"
	"os"
	"sort"
	"strings"
	"sync"
	"time"

	"github.com/sarchlab/akita/v5/daisen2"

	"verif/harness/lib"
)

// Dial observation (entry "observe"): the flow one request takes — URL guard,
// then the client's Transport.DialContext with a LIVE context and the real
// network "tcp" — with daisen2.VerifSetDialControl recording the resolved
// ip:port of every connection attempt and aborting it with a sentinel error
// (the hook runs after socket() and before connect(), so nothing leaves the
// machine; the dialer's 30 s timeout is never waited for). Host names are
// answered by the fake DNS from a SEQUENCE of three answers: the URL guard's
// lookup, the dial-time vetting lookup, and every later lookup.
//
// Public answers of this family are documentation addresses (TEST-NET-1/2,
// 2001:db8::/32): not internal in the statement's sense, and not routed anywhere
// even if something did slip.
//
// Before the family runs, a canary proves on a loopback listener owned by the
// check that the hook really intercepts the guarded dialer's connections; if it
// does not, the family is disabled (an internal error, never a violation).

var errObserved = errors.New("verif: connection attempt observed and aborted")

type dialObs struct {
	mu    sync.Mutex
	calls []string // "network address"
}

func (o *dialObs) control(network, address string) error {
	o.mu.Lock()
	o.calls = append(o.calls, network+" "+address)
	o.mu.Unlock()
	return errObserved
}

var (
	observeReady    bool   // the canary confirmed that the hook intercepts connections
	observeDisabled string // why not
)

// observeDial calls the client's DialContext for addr and returns every
// destination the hook saw.
func observeDial(addr string) (dests []netip.AddrPort, res stepResult) {
	tr := c38Transport()
	if tr == nil || tr.DialContext == nil {
		return nil, stepResult{skipped: true, detail: "the client's transport has no guarded DialContext"}
	}
	obs := &dialObs{}
	daisen2.VerifSetDialControl(obs.control)
	defer daisen2.VerifSetDialControl(nil)
	ctx, cancel := context.WithTimeout(context.Background(), 20*time.Second)
	defer cancel()
	conn, err := tr.DialContext(ctx, "tcp", addr)
	if conn != nil {
		conn.Close()
		res.conn = true
	}
	if err != nil {
		res.detail = err.Error()
	}
	obs.mu.Lock()
	defer obs.mu.Unlock()
	for _, c := range obs.calls {
		_, a, _ := strings.Cut(c, " ")
		if ap, perr := netip.ParseAddrPort(a); perr == nil {
			dests = append(dests, netip.AddrPortFrom(ap.Addr().Unmap().WithZone(""), ap.Port()))
		} else {
			res.detail += " [unparsable destination " + c + "]"
		}
	}
	res.allowed = len(dests) > 0
	return dests, res
}

// observeCanary: with the opt-in set the guarded dialer dials anything; aim it
// at a loopback listener of ours. The hook must see exactly that destination and
// the listener must not get a connection.
func observeCanary(c *lib.Ctx) {
	ln, err := net.Listen("tcp4", "127.0.0.1:0")
	if err != nil {
		observeDisabled = "cannot listen on loopback: " + err.Error()
		c.InternalError("dial observation disabled: %s", observeDisabled)
		return
	}
	defer ln.Close()
	accepted := make(chan struct{}, 1)
	go func() {
		if conn, err := ln.Accept(); err == nil {
			conn.Close()
			accepted <- struct{}{}
		}
	}()
	for _, k := range c38EnvVars {
		os.Unsetenv(k)
	}
	os.Setenv("DAISEN_ALLOW_PRIVATE_LLM_URL", "1")
	dests, res := observeDial(ln.Addr().String())
	os.Unsetenv("DAISEN_ALLOW_PRIVATE_LLM_URL")
	want := netip.MustParseAddrPort(ln.Addr().String())
	got := len(dests) == 1 && dests[0] == want
	select {
	case <-accepted:
		got = false
		res.detail += " [the listener accepted a connection: the hook did not abort it]"
	case <-time.After(50 * time.Millisecond):
	}
	if !got || res.conn {
		observeDisabled = fmt.Sprintf("the connection hook does not intercept the guarded dialer (saw %v, %s)", dests, res.detail)
		c.InternalError("dial observation disabled: %s", observeDisabled)
		return
	}
	observeReady = true
}

// ---- the answers of this family ---------------------------------------------------------------

var obsAnswers = []struct {
	name string
	ans  dnsAnswer
}{
	{"pub4", dnsAnswer{IPs: []string{"192.0.2.10"}}},
	{"two-pub4", dnsAnswer{IPs: []string{"192.0.2.10", "198.51.100.20"}}},
	{"pub4+pub6", dnsAnswer{IPs: []string{"192.0.2.10", "2001:db8::10"}}},
	{"pub6", dnsAnswer{IPs: []string{"2001:db8::10"}}},
	{"loopback4", dnsAnswer{IPs: []string{"127.0.0.1"}}},
	{"loopback6", dnsAnswer{IPs: []string{"::1"}}},
	{"private10", dnsAnswer{IPs: []string{"10.0.0.1"}}},
	{"private172", dnsAnswer{IPs: []string{"172.16.0.1"}}},
	{"private192", dnsAnswer{IPs: []string{"192.168.1.1"}}},
	{"ula", dnsAnswer{IPs: []string{"fd12:3456:789a::1"}}},
	{"metadata", dnsAnswer{IPs: []string{"169.254.169.254"}}},
	{"linklocal6", dnsAnswer{IPs: []string{"fe80::1"}}},
	{"unspec4", dnsAnswer{IPs: []string{"0.0.0.0"}}},
	{"unspec6", dnsAnswer{IPs: []string{"::"}}},
	{"mapped-loopback", dnsAnswer{IPs: []string{"::ffff:127.0.0.1"}}},
	{"mcast4", dnsAnswer{IPs: []string{"224.0.0.251"}}},
	{"pub+private", dnsAnswer{IPs: []string{"192.0.2.10", "10.0.0.1"}}},
	{"nxdomain", dnsAnswer{NX: true}},
	{"nodata", dnsAnswer{}},
}

func answerAddrs(a dnsAnswer) []netip.Addr {
	var out []netip.Addr
	if a.NX {
		return nil
	}
	for _, s := range a.IPs {
		if ad, err := netip.ParseAddr(s); err == nil {
			out = append(out, ad.Unmap())
		}
	}
	return out
}

func enumObserve(c *lib.Ctx, yield func(c38Case) bool) {
	names := []string{c38Name}
	if c.Thorough() {
		names = append(names, c38Name+".", strings.ToUpper(c38Name))
	}
	// host names x every sequence of three answers (guard lookup, vetting lookup, any later lookup)
	for _, n := range names {
		for _, a1 := range obsAnswers {
			for _, a2 := range obsAnswers {
				for _, a3 := range obsAnswers {
					if !yield(c38Case{Entry: "observe", Enc: a1.name + ">" + a2.name + ">" + a3.name, Host: n, Kind: "dns-name", Deco: "https",
						Target: "https://" + n + "/v1/chat/completions", Name: c38Name, DNS: []dnsAnswer{a1.ans, a2.ans, a3.ans}}) {
						return
					}
				}
			}
		}
	}
	// IP literals through the same flow
	for _, as := range c38Addrs {
		for _, hf := range hostForms(netip.MustParseAddr(as)) {
			if hf.kind == "numeric-name" {
				continue
			}
			for _, d := range []urlDeco{c38Decos[1], c38Decos[2]} {
				if !yield(c38Case{Entry: "observe", Truth: as, Enc: hf.enc, Host: hf.host, Kind: hf.kind, Deco: d.name, Target: d.f(urlHost(hf.host))}) {
					return
				}
			}
		}
	}
}

var obsStats struct{ flows, dnsQueries, destinations, dialsWithoutDestination int64 }

// runObserveCase is the "observe" entry of runC38Case (environment and fake DNS
// already set up by the caller).
func runObserveCase(cs c38Case, bad func(entry, family, format string, a ...any)) (outcome string) {
	if !observeReady {
		return "observe-disabled"
	}
	truthFamily := ""
	var truthAddr netip.Addr
	if cs.Truth != "" {
		truthAddr = netip.MustParseAddr(cs.Truth).Unmap()
		truthFamily = classify(truthAddr)
	}
	lookup := func(n int) dnsAnswer {
		if n >= len(cs.DNS) {
			n = len(cs.DNS) - 1
		}
		return cs.DNS[n]
	}
	fam := truthFamily
	if cs.Truth == "" {
		fam = answerFamily(lookup(0))
	}
	res := stepURLGuard(cs.Target)
	outcome = famWord(fam) + ":" + allowedWord(res.allowed)
	if res.allowed && fam != "" {
		bad("url-guard", fam, "destination %s (%s) was let through: %s", destText(cs), fam, res.detail)
	}
	u, perr := parseLikeClient(cs.Target)
	if !res.allowed || perr != nil {
		return outcome
	}
	// the vetting answer: what the dial-time lookup returns
	var vetted []netip.Addr
	vetFam := truthFamily
	if cs.Truth != "" {
		vetted = []netip.Addr{truthAddr}
	} else {
		vetted = answerAddrs(lookup(1))
		vetFam = answerFamily(lookup(1))
	}
	addr := dialAddrOf(u)
	dests, dres := observeDial(addr)
	obsStats.flows++
	obsStats.dnsQueries += int64(theDNS.queryCount())
	obsStats.destinations += int64(len(dests))
	if dres.skipped {
		return outcome + ">dialer-missing"
	}
	if dres.conn {
		bad("dial-observed", "connection", "DialContext(%q) returned a connection although every attempt is aborted by the hook", addr)
	}
	wantPort := uint16(443)
	if p := u.Port(); p != "" {
		fmt.Sscanf(p, "%d", &wantPort)
	}
	sort.Slice(dests, func(i, j int) bool { return dests[i].String() < dests[j].String() })
	seen := map[string]bool{}
	for _, d := range dests {
		if seen[d.String()] {
			continue
		}
		seen[d.String()] = true
		if f := classify(d.Addr()); f != "" {
			bad("dial-observed", f, "a connection to %s (%s) was attempted; vetting answer %v, later answers %+v (%d DNS queries in this flow)", d, f, vetted, cs.DNS, theDNS.queryCount())
			continue
		}
		inVetted := false
		for _, v := range vetted {
			if v == d.Addr() {
				inVetted = true
			}
		}
		if !inVetted || d.Port() != wantPort {
			bad("dial-observed", "unvetted-destination", "a connection to %s was attempted, which is not an address of the vetting answer %v port %d (%d DNS queries in this flow)", d, vetted, wantPort, theDNS.queryCount())
		}
	}
	if vetFam != "" && len(dests) > 0 {
		bad("dial-observed", "dial-after-internal-vetting-answer", "the vetting answer %v contains an internal address (%s) and yet %v was dialled", vetted, vetFam, dests)
	}
	if len(dests) == 0 {
		obsStats.dialsWithoutDestination++
		return outcome + ">" + famWord(vetFam) + ":no-attempt q" + fmt.Sprint(theDNS.queryCount())
	}
	return outcome + ">" + famWord(vetFam) + fmt.Sprintf(":attempted%d q%d", len(seen), theDNS.queryCount())
}

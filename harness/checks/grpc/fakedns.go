package grpc

import (
	"context"
	"encoding/binary"
	"io"
	"net"
	"strings"
	"sync"
)

// fakeDNS is an in-process DNS server. It is reached only through
// net.Resolver.Dial, which hands the Go resolver one end of a net.Pipe: no
// socket is ever opened, and no lookup can leave the process. Its answers are
// the choice points of a case: the n-th lookup of a name gets the n-th scripted
// answer (the last one repeats).

type dnsAnswer struct {
	NX  bool     `json:"nx,omitempty"`  // NXDOMAIN
	IPs []string `json:"ips,omitempty"` // dotted text -> A record; any text with a colon (incl. ::ffff:a.b.c.d) -> AAAA record
}

type fakeDNS struct {
	mu      sync.Mutex
	script  map[string][]dnsAnswer // lower-case FQDN with trailing dot
	asked   map[string]int         // name|type -> count
	queries int
}

var theDNS = &fakeDNS{}

// installFakeDNS points net.DefaultResolver (used by net.LookupIP and by
// net.DefaultResolver.LookupIP, i.e. by both guards) at the fake server.
var installOnce sync.Once

func installFakeDNS() {
	installOnce.Do(func() {
		net.DefaultResolver = &net.Resolver{
			PreferGo: true,
			Dial: func(ctx context.Context, network, address string) (net.Conn, error) {
				c1, c2 := net.Pipe() // not a PacketConn: the resolver speaks the stream framing
				go theDNS.serve(c2)
				return c1, nil
			},
		}
	})
}

func (d *fakeDNS) reset(script map[string][]dnsAnswer) {
	d.mu.Lock()
	d.script = map[string][]dnsAnswer{}
	for k, v := range script {
		k = strings.ToLower(k)
		if !strings.HasSuffix(k, ".") {
			k += "."
		}
		d.script[k] = v
	}
	d.asked = map[string]int{}
	d.queries = 0
	d.mu.Unlock()
}

func (d *fakeDNS) queryCount() int {
	d.mu.Lock()
	defer d.mu.Unlock()
	return d.queries
}

func (d *fakeDNS) serve(c net.Conn) {
	defer c.Close()
	for {
		var lb [2]byte
		if _, err := io.ReadFull(c, lb[:]); err != nil {
			return
		}
		msg := make([]byte, binary.BigEndian.Uint16(lb[:]))
		if _, err := io.ReadFull(c, msg); err != nil {
			return
		}
		resp := d.answer(msg)
		if resp == nil {
			return
		}
		out := make([]byte, 2+len(resp))
		binary.BigEndian.PutUint16(out, uint16(len(resp)))
		copy(out[2:], resp)
		if _, err := c.Write(out); err != nil {
			return
		}
	}
}

const (
	dnsTypeA    = 1
	dnsTypeAAAA = 28
)

func (d *fakeDNS) answer(msg []byte) []byte {
	if len(msg) < 12 || binary.BigEndian.Uint16(msg[4:6]) < 1 {
		return nil
	}
	// parse the first question
	off := 12
	var labels []string
	for {
		if off >= len(msg) {
			return nil
		}
		l := int(msg[off])
		off++
		if l == 0 {
			break
		}
		if l&0xc0 != 0 || off+l > len(msg) {
			return nil
		}
		labels = append(labels, string(msg[off:off+l]))
		off += l
	}
	if off+4 > len(msg) {
		return nil
	}
	qtype := binary.BigEndian.Uint16(msg[off : off+2])
	question := msg[12 : off+4]
	name := strings.ToLower(strings.Join(labels, ".")) + "."

	d.mu.Lock()
	d.queries++
	script, known := d.script[name]
	var ans dnsAnswer
	if known && len(script) > 0 {
		key := name + "|" + string(rune('0'+qtype%64))
		n := d.asked[key]
		d.asked[key] = n + 1
		if n >= len(script) {
			n = len(script) - 1
		}
		ans = script[n]
	} else {
		ans = dnsAnswer{NX: true}
	}
	d.mu.Unlock()

	var rdatas [][]byte
	if !ans.NX {
		for _, s := range ans.IPs {
			ip := net.ParseIP(s)
			if ip == nil {
				continue
			}
			if v4 := ip.To4(); v4 != nil && !strings.Contains(s, ":") {
				if qtype == dnsTypeA {
					rdatas = append(rdatas, v4)
				}
			} else if qtype == dnsTypeAAAA {
				rdatas = append(rdatas, ip.To16())
			}
		}
	}

	resp := make([]byte, 12, 64)
	copy(resp[0:2], msg[0:2]) // ID
	flags := uint16(0x8180)   // response, recursion desired+available
	if ans.NX {
		flags |= 3
	}
	binary.BigEndian.PutUint16(resp[2:4], flags)
	binary.BigEndian.PutUint16(resp[4:6], 1)
	binary.BigEndian.PutUint16(resp[6:8], uint16(len(rdatas)))
	resp = append(resp, question...)
	for _, rd := range rdatas {
		resp = append(resp, 0xc0, 0x0c) // pointer to the question name
		var fixed [10]byte
		binary.BigEndian.PutUint16(fixed[0:2], qtype)
		binary.BigEndian.PutUint16(fixed[2:4], 1) // IN
		binary.BigEndian.PutUint32(fixed[4:8], 0) // TTL
		binary.BigEndian.PutUint16(fixed[8:10], uint16(len(rd)))
		resp = append(resp, fixed[:]...)
		resp = append(resp, rd...)
	}
	return resp
}

package grpc

import (
	"archive/tar"
	"bytes"
	"compress/gzip"
	"crypto/sha256"
	"database/sql"
	"encoding/base64"
	"encoding/hex"
	"encoding/json"
	"fmt"
	"io"
	"io/fs"
	"os"
	"os/exec"
	"path/filepath"
	"runtime"
	"runtime/debug"
	"sort"
	"strings"
	"time"

	"github.com/sarchlab/akita/v5/daisen2"
	"github.com/sarchlab/akita/v5/sourcefs"

	"verif/harness/lib"
)

// Archive scenarios of C39 and the isolated child process that opens them.
//
// A scenario is a list of `source` table rows (root + archive). Archives are
// written here with archive/tar directly (not with sourcefs.WriteArchive), so
// that hostile names, types and sizes can be expressed. Opening a hostile
// archive is always done in a child process (this same binary re-executed with
// VERIF_C39_CHILD set): a crash, runaway recursion or runaway allocation of the
// code under test kills the child, not the checker, and is the observation.

const (
	mib              = 1 << 20
	archiveFileCap   = 8 * mib  // sourcefs: "8 MiB per recorded file"
	archiveTotalCap  = 96 * mib // sourcefs: "96 MiB total decompressed per archive"
	childMemoryLimit = 3 << 30  // the child gives up when the Go runtime holds more than this
)

type entrySpec struct {
	Name  string `json:"name"`
	Type  string `json:"type,omitempty"`  // "" regular, or symlink|hardlink|dir|char|fifo|cont
	Lines int    `json:"lines,omitempty"` // regular: that many marker lines ...
	Bytes int64  `json:"bytes,omitempty"` // ... or that many bytes of filler (sparse-style: generated, never stored)
	Tag   string `json:"tag,omitempty"`   // distinguishes the contents of duplicates
	Link  string `json:"link,omitempty"`
}

type rowSpec struct {
	Root    string      `json:"root"`
	Entries []entrySpec `json:"entries"`
	Raw     string      `json:"raw,omitempty"` // instead of entries: garbage | empty | gzip-garbage | truncated | not-base64
}

type scenario struct {
	Name string    `json:"name"`
	Rows []rowSpec `json:"rows"`
}

// entryContent returns the content of a small (line-based) entry.
func entryContent(scn, root string, e entrySpec) []byte {
	var b bytes.Buffer
	for i := 1; i <= e.Lines; i++ {
		fmt.Fprintf(&b, "  MARK %s|%s|%s|%s line %d of %d\n", scn, root, e.Name, e.Tag, i, e.Lines)
	}
	return b.Bytes()
}

// fillerReader yields n bytes of a fixed non-zero pattern without storing them.
type fillerReader struct{ n int64 }

func (f *fillerReader) Read(p []byte) (int, error) {
	if f.n <= 0 {
		return 0, io.EOF
	}
	if int64(len(p)) > f.n {
		p = p[:f.n]
	}
	for i := range p {
		p[i] = 'z'
	}
	f.n -= int64(len(p))
	return len(p), nil
}

func fillerHash(n int64) string {
	h := sha256.New()
	_, _ = io.Copy(h, &fillerReader{n})
	return hex.EncodeToString(h.Sum(nil)[:8])
}

func hash8(b []byte) string {
	h := sha256.Sum256(b)
	return hex.EncodeToString(h[:8])
}

func buildArchive(scn string, r rowSpec) ([]byte, error) {
	switch r.Raw {
	case "garbage":
		return []byte("this is not a gzip stream at all"), nil
	case "empty":
		return nil, nil
	case "gzip-garbage":
		var buf bytes.Buffer
		gz := gzip.NewWriter(&buf)
		_, _ = gz.Write(bytes.Repeat([]byte("not a tar header "), 100))
		_ = gz.Close()
		return buf.Bytes(), nil
	}
	var buf bytes.Buffer
	gz, _ := gzip.NewWriterLevel(&buf, gzip.BestSpeed)
	tw := tar.NewWriter(gz)
	for _, e := range r.Entries {
		hdr := &tar.Header{Name: e.Name, Mode: 0o644, Typeflag: tar.TypeReg, Format: tar.FormatPAX}
		switch e.Type {
		case "symlink":
			hdr.Typeflag, hdr.Linkname = tar.TypeSymlink, e.Link
		case "hardlink":
			hdr.Typeflag, hdr.Linkname = tar.TypeLink, e.Link
		case "dir":
			hdr.Typeflag, hdr.Mode = tar.TypeDir, 0o755
		case "char":
			hdr.Typeflag = tar.TypeChar
		case "fifo":
			hdr.Typeflag = tar.TypeFifo
		case "cont":
			hdr.Typeflag = tar.TypeCont
		}
		var content io.Reader
		if hdr.Typeflag == tar.TypeReg || hdr.Typeflag == tar.TypeCont {
			if e.Bytes > 0 {
				hdr.Size, content = e.Bytes, &fillerReader{e.Bytes}
			} else {
				c := entryContent(scn, r.Root, e)
				hdr.Size, content = int64(len(c)), bytes.NewReader(c)
			}
		}
		if err := tw.WriteHeader(hdr); err != nil {
			return nil, fmt.Errorf("scenario %s entry %q: %w", scn, e.Name, err)
		}
		if content != nil {
			if _, err := io.Copy(tw, content); err != nil {
				return nil, err
			}
		}
	}
	if err := tw.Close(); err != nil {
		return nil, err
	}
	if err := gz.Close(); err != nil {
		return nil, err
	}
	out := buf.Bytes()
	if r.Raw == "truncated" {
		out = out[:len(out)*2/3]
	}
	return out, nil
}

// ---- the model: which names may serve which contents ---------------------------------

// cleanJoin is the harness's own lexical path resolution: "" and "." segments
// vanish, ".." removes the previous segment. ok=false when the path is absolute
// or climbs above its start.
func cleanJoin(parts ...string) (string, bool) {
	var stack []string
	first := true
	for _, p := range parts {
		if p == "" {
			continue
		}
		if first && strings.HasPrefix(p, "/") {
			return "", false
		}
		first = false
		for _, seg := range strings.Split(p, "/") {
			switch seg {
			case "", ".":
			case "..":
				if len(stack) == 0 {
					return "", false
				}
				stack = stack[:len(stack)-1]
			default:
				stack = append(stack, seg)
			}
		}
	}
	if len(stack) == 0 {
		return ".", true
	}
	return strings.Join(stack, "/"), true
}

type fileModel struct {
	// acceptable[name] = set of "hash/size" a tool may serve under that name
	acceptable map[string]map[string]bool
	// small contents by name (for line-level comparison), possibly several per name
	contents map[string][][]byte
	roots    map[string]bool
	// oversized lists "hash/size" values that must never be served under any name
	oversized map[string]bool
	// traversalKeys are cleaned names that come from entries with ".." segments or a leading "/"
	traversalKeys map[string]bool
}

func sig(hash string, size int64) string { return fmt.Sprintf("%s/%d", hash, size) }

func buildModel(s scenario) *fileModel {
	m := &fileModel{acceptable: map[string]map[string]bool{}, contents: map[string][][]byte{}, roots: map[string]bool{}, oversized: map[string]bool{}, traversalKeys: map[string]bool{}}
	for _, r := range s.Rows {
		m.roots[r.Root] = true
		for _, e := range r.Entries {
			if e.Type != "" {
				continue // not a regular file: has no content to serve
			}
			var sg string
			var small []byte
			if e.Bytes > 0 {
				sg = sig(fillerHash(e.Bytes), e.Bytes)
				if e.Bytes > archiveFileCap {
					m.oversized[sg] = true
					continue
				}
			} else {
				small = entryContent(s.Name, r.Root, e)
				sg = sig(hash8(small), int64(len(small)))
			}
			// A name that stays inside the tree after lexical cleaning may be served
			// under its cleaned name; a name that climbs out or is absolute may not
			// be served under any name.
			key, ok := cleanJoin(r.Root, e.Name)
			if strings.HasPrefix(e.Name, "/") {
				// path.Join(root, "/abs") is root/abs: inside the tree under a non-empty root
				key, ok = cleanJoin(r.Root, strings.TrimLeft(e.Name, "/"))
				if r.Root == "" {
					ok = false
				}
			}
			if !ok || key == "." {
				continue
			}
			if m.acceptable[key] == nil {
				m.acceptable[key] = map[string]bool{}
			}
			m.acceptable[key][sg] = true
			if strings.HasPrefix(e.Name, "/") || e.Name == ".." || strings.HasPrefix(e.Name, "../") || strings.Contains(e.Name, "/../") {
				m.traversalKeys[key] = true
			}
			if e.Bytes == 0 {
				m.contents[key] = append(m.contents[key], small)
			}
		}
	}
	return m
}

func (m *fileModel) children(dir string) map[string]bool {
	out := map[string]bool{}
	prefix := dir + "/"
	if dir == "." {
		prefix = ""
	}
	for k := range m.acceptable {
		if strings.HasPrefix(k, prefix) {
			rest := k[len(prefix):]
			if i := strings.Index(rest, "/"); i >= 0 {
				rest = rest[:i]
			}
			if rest != "" {
				out[rest] = true
			}
		}
	}
	return out
}

// ---- scenarios ----------------------------------------------------------------------

func normalEntries() []entrySpec {
	return []entrySpec{
		{Name: "go.mod", Lines: 2},
		{Name: "x.go", Lines: 3},
		{Name: "a/x.go", Lines: 5},
		{Name: "a/b/x.go", Lines: 250},
		{Name: "a/empty.go"},
		{Name: "b", Lines: 1},
	}
}

func c39Scenarios(thorough bool) []scenario {
	n := normalEntries()
	with := func(extra ...entrySpec) []entrySpec { return append(append([]entrySpec{}, n...), extra...) }
	big := func(name string, size int64) entrySpec { return entrySpec{Name: name, Bytes: size} }
	var many []entrySpec
	for i := 0; i < 13; i++ {
		many = append(many, big(fmt.Sprintf("big%02d.go", i), archiveFileCap))
	}
	bomb := int64(512 * mib)
	if thorough {
		bomb = 4096 * mib
	}
	out := []scenario{
		{"normal", []rowSpec{{Root: "r", Entries: n}}},
		{"empty-root", []rowSpec{{Root: "", Entries: n}}},
		{"deep-root", []rowSpec{{Root: "github.com/x/y", Entries: n}}},
		{"two-roots", []rowSpec{{Root: "r", Entries: n}, {Root: "s", Entries: []entrySpec{{Name: "x.go", Lines: 2, Tag: "s"}}}}},
		{"traversal", []rowSpec{{Root: "r", Entries: with(
			entrySpec{Name: "../esc.go", Lines: 2}, entrySpec{Name: "../../esc2.go", Lines: 2},
			entrySpec{Name: "a/../../esc3.go", Lines: 2}, entrySpec{Name: "/abs.go", Lines: 2},
			entrySpec{Name: "a//dbl.go", Lines: 2}, entrySpec{Name: "./dot.go", Lines: 2},
			entrySpec{Name: "a/./mid.go", Lines: 2}, entrySpec{Name: "a/../inner.go", Lines: 2},
			entrySpec{Name: "..", Lines: 2}, entrySpec{Name: "a\\bs.go", Lines: 2},
			entrySpec{Name: "..\\bs2.go", Lines: 2}, entrySpec{Name: "%2e%2e/enc.go", Lines: 2},
		)}}},
		{"traversal-empty-root", []rowSpec{{Root: "", Entries: with(
			entrySpec{Name: "../esc.go", Lines: 2}, entrySpec{Name: "/abs.go", Lines: 2},
			entrySpec{Name: "/etc/passwd", Lines: 2}, entrySpec{Name: "a/../../esc3.go", Lines: 2},
		)}}},
		{"cross-root", []rowSpec{{Root: "r", Entries: n}, {Root: "s", Entries: []entrySpec{{Name: "../r/x.go", Lines: 2, Tag: "from-s"}, {Name: "y.go", Lines: 1}}}}},
		{"odd-names", []rowSpec{{Root: "r", Entries: with(
			entrySpec{Name: ".", Lines: 2, Tag: "dot"},
			entrySpec{Name: strings.Repeat("long/", 60) + "deep.go", Lines: 2},
			entrySpec{Name: strings.Repeat("n", 300) + ".go", Lines: 2},
			entrySpec{Name: "sp ace.go", Lines: 2}, entrySpec{Name: "ü/ñ.go", Lines: 2},
		)}}},
		{"root-dot", []rowSpec{{Root: ".", Entries: n}}},
		{"root-traversal", []rowSpec{{Root: "../up", Entries: n}}},
		{"root-abs", []rowSpec{{Root: "/abs/root", Entries: n}}},
		{"duplicates", []rowSpec{{Root: "r", Entries: with(entrySpec{Name: "x.go", Lines: 4, Tag: "second"}, entrySpec{Name: "./x.go", Lines: 6, Tag: "third"})}}},
		{"duplicate-rows", []rowSpec{{Root: "r", Entries: n}, {Root: "r", Entries: []entrySpec{{Name: "x.go", Lines: 7, Tag: "row2"}}}}},
		{"file-dir-conflict", []rowSpec{{Root: "r", Entries: with(entrySpec{Name: "a", Lines: 2, Tag: "file-a"}, entrySpec{Name: "x.go/inner.go", Lines: 2})}}},
		{"root-is-file", []rowSpec{{Root: "r", Entries: n}, {Root: "", Entries: []entrySpec{{Name: "r", Lines: 2, Tag: "file-r"}}}}},
		{"non-regular", []rowSpec{{Root: "r", Entries: with(
			entrySpec{Name: "link.go", Type: "symlink", Link: "/etc/passwd"}, entrySpec{Name: "rel.go", Type: "symlink", Link: "../../etc/passwd"},
			entrySpec{Name: "hard.go", Type: "hardlink", Link: "x.go"}, entrySpec{Name: "d", Type: "dir"}, entrySpec{Name: "d2/", Type: "dir"},
			entrySpec{Name: "dev.go", Type: "char"}, entrySpec{Name: "fifo.go", Type: "fifo"}, entrySpec{Name: "cont.go", Type: "cont", Lines: 2},
		)}}},
		{"file-5mib", []rowSpec{{Root: "r", Entries: with(big("five.go", 5*mib))}}},
		{"file-at-cap", []rowSpec{{Root: "r", Entries: with(big("cap.go", archiveFileCap))}}},
		{"file-over-cap", []rowSpec{{Root: "r", Entries: with(big("over.go", archiveFileCap+1))}}},
		{"file-over-cap-first", []rowSpec{{Root: "r", Entries: append([]entrySpec{big("0over.go", archiveFileCap+1)}, n...)}}},
		{"total-over-cap", []rowSpec{{Root: "r", Entries: append(append([]entrySpec{}, n...), many...)}}},
		{"over-cap-other-row", []rowSpec{{Root: "r", Entries: n}, {Root: "s", Entries: []entrySpec{big("over.go", archiveFileCap+1)}}}},
		{"bomb", []rowSpec{{Root: "r", Entries: with(big("bomb.go", bomb))}}},
		{"garbage", []rowSpec{{Root: "r", Raw: "garbage"}}},
		{"empty-archive", []rowSpec{{Root: "r", Raw: "empty"}}},
		{"gzip-garbage", []rowSpec{{Root: "r", Raw: "gzip-garbage"}}},
		{"truncated", []rowSpec{{Root: "r", Entries: n, Raw: "truncated"}}},
		{"not-base64", []rowSpec{{Root: "r", Entries: n, Raw: "not-base64"}}},
		{"garbage-after-good-row", []rowSpec{{Root: "r", Entries: n}, {Root: "s", Raw: "garbage"}}},
	}
	return out
}

func scenarioByName(name string, thorough bool) (scenario, bool) {
	for _, s := range c39Scenarios(thorough) {
		if s.Name == name {
			return s, true
		}
	}
	return scenario{}, false
}

// ---- opening a scenario with the real server ----------------------------------------------

// openScenario writes the scenario into a trace file and opens it with the real
// replay server (NewReplayServer -> loadCodeSource -> sourcefs.OpenTraceSource).
func openScenario(s scenario, dir string) (*daisen2.Server, error) {
	p := filepath.Join(dir, "trace-"+s.Name+".sqlite3")
	db, err := sql.Open("sqlite3", p)
	if err != nil {
		return nil, err
	}
	if _, err := db.Exec(`CREATE TABLE source (Root TEXT, Format TEXT, Content TEXT)`); err != nil {
		db.Close()
		return nil, err
	}
	for _, r := range s.Rows {
		arc, err := buildArchive(s.Name, r)
		if err != nil {
			db.Close()
			return nil, err
		}
		content := base64.StdEncoding.EncodeToString(arc)
		if r.Raw == "not-base64" {
			content = "!!!" + content
		}
		if _, err := db.Exec(`INSERT INTO source (Root, Format, Content) VALUES (?, ?, ?)`, r.Root, "tar.gz;base64", content); err != nil {
			db.Close()
			return nil, err
		}
	}
	if err := db.Close(); err != nil {
		return nil, err
	}
	srv := daisen2.NewReplayServer(p, "")
	// everything is in memory now; release the file
	_ = daisen2.VerifServerDB(srv).Close()
	for _, f := range []string{p, p + "-wal", p + "-shm"} {
		_ = os.Remove(f)
	}
	return srv, nil
}

// ---- child process ----------------------------------------------------------------------------

type childTask struct {
	Mode     string   `json:"mode"` // open | readarchive
	Scenario scenario `json:"scenario"`
	Probe    []string `json:"probe,omitempty"` // names to read directly
}

type servedFile struct {
	Sig string `json:"sig"` // hash/size
}

type childReport struct {
	Err        string                `json:"err,omitempty"` // error of ReadArchive (mode readarchive)
	Empty      bool                  `json:"empty"`         // Source.IsEmpty
	Roots      []string              `json:"roots,omitempty"`
	Files      int                   `json:"files"`
	Walk       map[string]servedFile `json:"walk,omitempty"`   // files found by walking the served tree
	Direct     map[string]servedFile `json:"direct,omitempty"` // probe names that could be read
	WalkErr    string                `json:"walk_err,omitempty"`
	TotalAlloc uint64                `json:"total_alloc"`
	TotalBytes int64                 `json:"total_bytes"` // bytes retained in the result
}

func init() {
	if os.Getenv("VERIF_C39_CHILD") == "" {
		return
	}
	// Child mode: never reaches lib.Main.
	debug.SetMaxStack(256 << 20)
	go func() {
		var ms runtime.MemStats
		for {
			runtime.ReadMemStats(&ms)
			if ms.Sys > childMemoryLimit {
				fmt.Fprintf(os.Stderr, "C39-CHILD-MEMORY-EXHAUSTED sys=%d\n", ms.Sys)
				os.Exit(3)
			}
			time.Sleep(5 * time.Millisecond)
		}
	}()
	var task childTask
	if err := json.NewDecoder(os.Stdin).Decode(&task); err != nil {
		fmt.Fprintln(os.Stderr, "bad child task:", err)
		os.Exit(4)
	}
	rep := runChildTask(task)
	_ = json.NewEncoder(os.Stdout).Encode(rep)
	lib.CleanScratch()
	os.Exit(0)
}

func runChildTask(task childTask) childReport {
	var rep childReport
	s := task.Scenario
	switch task.Mode {
	case "readarchive":
		arc, err := buildArchive(s.Name, s.Rows[0])
		if err != nil {
			fmt.Fprintln(os.Stderr, "build:", err)
			os.Exit(4)
		}
		var m0, m1 runtime.MemStats
		runtime.GC()
		runtime.ReadMemStats(&m0)
		files, err := sourcefs.ReadArchive(arc)
		runtime.ReadMemStats(&m1)
		rep.TotalAlloc = m1.TotalAlloc - m0.TotalAlloc
		if err != nil {
			rep.Err = err.Error()
		}
		rep.Walk = map[string]servedFile{}
		for name, c := range files {
			rep.Walk[name] = servedFile{sig(hash8(c), int64(len(c)))}
			rep.TotalBytes += int64(len(c))
		}
		rep.Files = len(files)
	case "open":
		dir, err := os.MkdirTemp(lib.ScratchDir(), "c39-child-")
		if err != nil {
			fmt.Fprintln(os.Stderr, "tmp:", err)
			os.Exit(4)
		}
		defer os.RemoveAll(dir)
		var m0, m1 runtime.MemStats
		runtime.ReadMemStats(&m0)
		srv, err := openScenario(s, dir)
		runtime.ReadMemStats(&m1)
		rep.TotalAlloc = m1.TotalAlloc - m0.TotalAlloc
		if err != nil {
			os.RemoveAll(dir)
			fmt.Fprintln(os.Stderr, "open:", err)
			os.Exit(4)
		}
		src := srv.CodeSource()
		rep.Empty = src.IsEmpty()
		rep.Roots = append([]string{}, src.Roots...)
		rep.Files = src.Files
		rep.Walk = map[string]servedFile{}
		rep.Direct = map[string]servedFile{}
		if fsys := src.FS(); fsys != nil {
			err := fs.WalkDir(fsys, ".", func(p string, d fs.DirEntry, err error) error {
				if err != nil {
					return err
				}
				if d.IsDir() {
					return nil
				}
				b, err := fs.ReadFile(fsys, p)
				if err != nil {
					return nil
				}
				rep.Walk[p] = servedFile{sig(hash8(b), int64(len(b)))}
				rep.TotalBytes += int64(len(b))
				return nil
			})
			if err != nil {
				rep.WalkErr = err.Error()
			}
			for _, name := range task.Probe {
				var b []byte
				var rerr error
				if msg := lib.Catch(func() { b, rerr = fs.ReadFile(fsys, name) }); msg != "" || rerr != nil {
					continue
				}
				rep.Direct[name] = servedFile{sig(hash8(b), int64(len(b)))}
			}
		}
		os.RemoveAll(dir)
	}
	return rep
}

// runChild re-executes this binary in child mode. crashed=true when the child
// died (fatal error, stack overflow, memory watchdog, kill) instead of reporting.
func runChild(task childTask, timeout time.Duration) (rep childReport, crashed bool, how string) {
	self, err := os.Executable()
	if err != nil {
		panic(err)
	}
	in, _ := json.Marshal(task)
	cmd := exec.Command(self)
	cmd.Env = append(os.Environ(), "VERIF_C39_CHILD=1", "GOMAXPROCS=2", "GOTRACEBACK=none")
	cmd.Stdin = bytes.NewReader(in)
	var out, serr bytes.Buffer
	cmd.Stdout, cmd.Stderr = &out, &serr
	if err := cmd.Start(); err != nil {
		panic(err)
	}
	// the child's own scratch directory, in case it dies before removing it
	defer os.RemoveAll(filepath.Join(filepath.Dir(lib.ScratchDir()), fmt.Sprintf("verif-%d", cmd.Process.Pid)))
	done := make(chan error, 1)
	go func() { done <- cmd.Wait() }()
	select {
	case err = <-done:
	case <-time.After(timeout):
		_ = cmd.Process.Kill()
		<-done
		return rep, true, fmt.Sprintf("did not finish within %v", timeout)
	}
	if err != nil {
		tail := serr.String()
		if code := cmd.ProcessState.ExitCode(); code == 4 {
			panic("C39 child could not set up its task: " + tail)
		}
		if len(tail) > 300 {
			tail = tail[:300]
		}
		return rep, true, fmt.Sprintf("%v: %s", err, strings.TrimSpace(tail))
	}
	if err := json.Unmarshal(out.Bytes(), &rep); err != nil {
		panic("C39 child printed no report: " + out.String() + serr.String())
	}
	return rep, false, ""
}

// probeNames lists every name worth reading directly: raw and cleaned joins.
func probeNames(s scenario) []string {
	set := map[string]bool{}
	for _, r := range s.Rows {
		for _, e := range r.Entries {
			set[e.Name] = true
			set[r.Root+"/"+e.Name] = true
			set[strings.TrimLeft(e.Name, "/")] = true
			if k, ok := cleanJoin(r.Root, e.Name); ok {
				set[k] = true
			}
			if k, ok := cleanJoin(e.Name); ok {
				set[k] = true
			}
			set[filepath.Base(e.Name)] = true
		}
	}
	var out []string
	for k := range set {
		out = append(out, k)
	}
	sort.Strings(out)
	return out
}

package grpc

import (
	"context"
	"encoding/json"
	"errors"
	"fmt"
	"net"
	"net/http"
	"net/netip"
	"net/url"
	"os"
	"strings"
	"time"

	"github.com/sarchlab/akita/v5/daisen2"

	"verif/harness/lib"
)

// C38: outbound LLM connections never reach internal addresses.
//
// SAFETY (no real outbound connection can happen, by construction):
//   - name resolution never leaves the process: net.DefaultResolver is replaced
//     by a PreferGo resolver whose Dial returns one end of a net.Pipe served by
//     the in-process fake DNS (fakedns.go);
//   - the guarded dialer is only ever called either with an already-cancelled
//     context (IP-literal hosts: Go's dialSerial returns OpError{Op:"dial"}
//     before any socket call when ctx is done) or with the unknown network name
//     noDialNetwork (hostnames, which need a live context for the lookup: Go's
//     Dialer fails in parseNetwork before any socket call);
//   - the URL guard, redirect check and proxied-request check only resolve.
// A guard that lets a destination through therefore shows up as a
// *net.OpError{Op:"dial"} without a packet being sent.

const noDialNetwork = "tcp-verif-nodial"

type c38Case struct {
	Entry  string      `json:"entry"`           // url-guard | redirect | proxy-check | dialer | flow | flow4
	Truth  string      `json:"truth,omitempty"` // ground-truth destination address (IP-literal and numeric-name cases)
	Enc    string      `json:"enc"`             // encoding of the host
	Host   string      `json:"host"`            // host text exactly as placed in the URL / dial address
	Deco   string      `json:"deco,omitempty"`  // URL decoration
	Target string      `json:"target"`          // the URL, or host:port for the dialer
	Env    string      `json:"env,omitempty"`   // "", optout, optin, proxy-other, proxy-same
	Name   string      `json:"name,omitempty"`  // DNS name whose answers are scripted
	DNS    []dnsAnswer `json:"dns,omitempty"`   // answer to the n-th lookup of Name
	Kind   string      `json:"kind"`            // literal | v4-mapped | numeric-name | dns-name
}

// ---- independent classifier (CIDR table on raw bytes) -----------------------------

// classify returns the family named by the statement ("" = not one of them).
func classify(a netip.Addr) string {
	b := a.AsSlice()
	if len(b) == 16 {
		mapped := true
		for i := 0; i < 10; i++ {
			if b[i] != 0 {
				mapped = false
			}
		}
		if mapped && b[10] == 0xff && b[11] == 0xff {
			b = b[12:]
		}
	}
	if len(b) == 4 {
		switch {
		case b[0] == 127:
			return "loopback"
		case b[0] == 10, b[0] == 172 && b[1]&0xf0 == 16, b[0] == 192 && b[1] == 168:
			return "private"
		case b[0] == 169 && b[1] == 254:
			return "link-local"
		case b[0] == 0 && b[1] == 0 && b[2] == 0 && b[3] == 0:
			return "unspecified"
		case b[0] == 224 && b[1] == 0 && b[2] == 0:
			return "link-local-multicast"
		}
		return ""
	}
	allZero := true
	for _, x := range b[:15] {
		if x != 0 {
			allZero = false
		}
	}
	switch {
	case allZero && b[15] == 1:
		return "loopback"
	case allZero && b[15] == 0:
		return "unspecified"
	case b[0]&0xfe == 0xfc:
		return "private"
	case b[0] == 0xfe && b[1]&0xc0 == 0x80:
		return "link-local"
	case b[0] == 0xff && b[1]&0x0f == 0x02:
		return "link-local-multicast"
	}
	return ""
}

// the destinations: every class of the statement with its boundary addresses,
// the addresses just outside each boundary, public controls, and a few ranges
// the statement does not name (no verdict for those).
var c38Addrs = []string{
	// loopback
	"127.0.0.1", "127.0.0.0", "127.255.255.255", "127.1.2.3", "::1",
	// private
	"10.0.0.0", "10.0.0.1", "10.255.255.255",
	"172.16.0.0", "172.16.0.1", "172.31.255.255",
	"192.168.0.0", "192.168.1.1", "192.168.255.255",
	"fc00::", "fc00::1", "fd12:3456:789a::1", "fdff:ffff:ffff:ffff:ffff:ffff:ffff:ffff",
	// link-local
	"169.254.0.0", "169.254.169.254", "169.254.255.255",
	"fe80::", "fe80::1", "febf:ffff:ffff:ffff:ffff:ffff:ffff:ffff",
	// unspecified
	"0.0.0.0", "::",
	// link-local multicast
	"224.0.0.0", "224.0.0.1", "224.0.0.251", "224.0.0.255", "ff02::1", "ff02::fb",
	// just outside the boundaries + public controls
	"126.255.255.255", "128.0.0.0", "9.255.255.255", "11.0.0.0",
	"172.15.255.255", "172.32.0.0", "192.167.255.255", "192.169.0.0",
	"169.253.255.255", "169.255.0.0", "224.0.1.0",
	"1.1.1.1", "8.8.8.8", "93.184.216.34",
	"2606:4700:4700::1111", "2001:4860:4860::8888",
	"fbff:ffff:ffff:ffff:ffff:ffff:ffff:ffff", "fe00::1", "fe7f:ffff:ffff:ffff:ffff:ffff:ffff:ffff", "fec0::1",
	"ff01::1", "ff05::2",
	// ranges the statement does not name (recorded, not judged)
	"0.1.2.3", "100.64.0.1", "198.18.0.1", "255.255.255.255",
	"64:ff9b::7f00:1", "2002:7f00:1::", "::7f00:1", "::ffff:0:7f00:1",
}

type hostForm struct {
	enc  string
	host string // as used in a dial address (no brackets, zone with a bare %)
	kind string // literal | v4-mapped | numeric-name
}

func hostForms(a netip.Addr) []hostForm {
	var out []hostForm
	if a.Is4() {
		b := a.As4()
		u := uint32(b[0])<<24 | uint32(b[1])<<16 | uint32(b[2])<<8 | uint32(b[3])
		hi, lo := uint16(u>>16), uint16(u)
		out = append(out,
			hostForm{"dotted", fmt.Sprintf("%d.%d.%d.%d", b[0], b[1], b[2], b[3]), "literal"},
			hostForm{"mapped-dotted", fmt.Sprintf("::ffff:%d.%d.%d.%d", b[0], b[1], b[2], b[3]), "v4-mapped"},
			hostForm{"mapped-hex", fmt.Sprintf("::ffff:%x:%x", hi, lo), "v4-mapped"},
			hostForm{"mapped-upper", fmt.Sprintf("::FFFF:%X:%X", hi, lo), "v4-mapped"},
			hostForm{"mapped-full", fmt.Sprintf("0:0:0:0:0:ffff:%x:%x", hi, lo), "v4-mapped"},
			hostForm{"mapped-zeros", fmt.Sprintf("0000:0000:0000:0000:0000:ffff:%04x:%04x", hi, lo), "v4-mapped"},
			hostForm{"mapped-zone", fmt.Sprintf("::ffff:%d.%d.%d.%d%%eth0", b[0], b[1], b[2], b[3]), "v4-mapped"},
			// forms inet_aton accepts but Go treats as host *names*
			hostForm{"short2", fmt.Sprintf("%d.%d", b[0], u&0xffffff), "numeric-name"},
			hostForm{"short3", fmt.Sprintf("%d.%d.%d", b[0], b[1], u&0xffff), "numeric-name"},
			hostForm{"octal", fmt.Sprintf("0%o.0%o.0%o.0%o", b[0], b[1], b[2], b[3]), "numeric-name"},
			hostForm{"hex-dotted", fmt.Sprintf("0x%x.0x%x.0x%x.0x%x", b[0], b[1], b[2], b[3]), "numeric-name"},
			hostForm{"decimal32", fmt.Sprintf("%d", u), "numeric-name"},
			hostForm{"hex32", fmt.Sprintf("0x%08x", u), "numeric-name"},
			hostForm{"trailing-dot", fmt.Sprintf("%d.%d.%d.%d.", b[0], b[1], b[2], b[3]), "numeric-name"},
			hostForm{"fullwidth", fullwidth(fmt.Sprintf("%d.%d.%d.%d", b[0], b[1], b[2], b[3])), "numeric-name"},
		)
		return out
	}
	b := a.As16()
	var groups [8]uint16
	for i := range groups {
		groups[i] = uint16(b[2*i])<<8 | uint16(b[2*i+1])
	}
	full := make([]string, 8)
	for i, g := range groups {
		full[i] = fmt.Sprintf("%04x", g)
	}
	out = append(out,
		hostForm{"v6-compressed", a.String(), "literal"},
		hostForm{"v6-full", strings.Join(full, ":"), "literal"},
		hostForm{"v6-upper", strings.ToUpper(a.String()), "literal"},
		hostForm{"v6-zone", a.String() + "%eth0", "literal"},
	)
	return out
}

func fullwidth(s string) string {
	var b strings.Builder
	for _, r := range s {
		switch {
		case r >= '0' && r <= '9':
			b.WriteRune('０' + (r - '0'))
		case r == '.':
			b.WriteRune('。')
		default:
			b.WriteRune(r)
		}
	}
	return b.String()
}

func urlHost(h string) string {
	if strings.Contains(h, ":") {
		return "[" + strings.Replace(h, "%", "%25", 1) + "]"
	}
	return h
}

type urlDeco struct {
	name string
	f    func(h string) string // h is already bracketed when needed
}

var c38Decos = []urlDeco{
	{"plain", func(h string) string { return "http://" + h + "/v1/chat/completions" }},
	{"https", func(h string) string { return "https://" + h + "/v1/chat/completions" }},
	{"port", func(h string) string { return "http://" + h + ":8080/v1" }},
	{"upper-scheme", func(h string) string { return "HTTP://" + h + "/" }},
	{"userinfo", func(h string) string { return "http://user:pw@" + h + "/v1" }},
	{"userinfo-public", func(h string) string { return "http://8.8.8.8@" + h + "/" }},
	{"userinfo-public-port", func(h string) string { return "http://8.8.8.8:80@" + h + ":81/" }},
	{"fragment-at", func(h string) string { return "http://" + h + "/#@8.8.8.8/" }},
	{"query-at", func(h string) string { return "http://" + h + "?@8.8.8.8/" }},
	{"backslash-at", func(h string) string { return "http://8.8.8.8\\@" + h + "/" }},
	{"schemeless", func(h string) string { return "//" + h + "/v1" }},
}

const c38Name = "llm.c38-verif.test"

// the answers a (hostile) DNS can give to one lookup
var c38Answers = []struct {
	name string
	ans  dnsAnswer
}{
	{"pub4", dnsAnswer{IPs: []string{"93.184.216.34"}}},
	{"pub6", dnsAnswer{IPs: []string{"2606:2800:220:1::1"}}},
	{"pub46", dnsAnswer{IPs: []string{"93.184.216.34", "2606:2800:220:1::1"}}},
	{"loopback4", dnsAnswer{IPs: []string{"127.0.0.1"}}},
	{"loopback6", dnsAnswer{IPs: []string{"::1"}}},
	{"private10", dnsAnswer{IPs: []string{"10.0.0.1"}}},
	{"private172", dnsAnswer{IPs: []string{"172.31.255.255"}}},
	{"private192", dnsAnswer{IPs: []string{"192.168.1.1"}}},
	{"ula", dnsAnswer{IPs: []string{"fd12:3456:789a::1"}}},
	{"metadata", dnsAnswer{IPs: []string{"169.254.169.254"}}},
	{"linklocal6", dnsAnswer{IPs: []string{"fe80::1"}}},
	{"unspec4", dnsAnswer{IPs: []string{"0.0.0.0"}}},
	{"unspec6", dnsAnswer{IPs: []string{"::"}}},
	{"mapped-loopback", dnsAnswer{IPs: []string{"::ffff:127.0.0.1"}}},
	{"mapped-private", dnsAnswer{IPs: []string{"::ffff:10.0.0.1"}}},
	{"mcast4", dnsAnswer{IPs: []string{"224.0.0.251"}}},
	{"pub-then-private", dnsAnswer{IPs: []string{"93.184.216.34", "10.0.0.1"}}},
	{"private-then-pub", dnsAnswer{IPs: []string{"10.0.0.1", "93.184.216.34"}}},
	{"pubA-linklocalAAAA", dnsAnswer{IPs: []string{"93.184.216.34", "fe80::1"}}},
	{"loopbackA-pubAAAA", dnsAnswer{IPs: []string{"127.0.0.1", "2606:2800:220:1::1"}}},
	{"pub-pub-mapped", dnsAnswer{IPs: []string{"93.184.216.34", "1.1.1.1", "::ffff:192.168.1.1"}}},
	{"nxdomain", dnsAnswer{NX: true}},
	{"nodata", dnsAnswer{}},
}

func c38Enumerate(c *lib.Ctx, yield func(c38Case) bool) {
	urlEntries := []string{"url-guard", "redirect", "proxy-check"}
	// ---- IP literals and numeric host forms: class x encoding x entry point x decoration
	for _, as := range c38Addrs {
		a := netip.MustParseAddr(as)
		for _, hf := range hostForms(a) {
			variants := []c38Case{{Truth: as, Enc: hf.enc, Host: hf.host, Kind: hf.kind}}
			if hf.kind == "numeric-name" {
				// what the environment's resolver makes of such a name is a choice:
				// unknown, or the inet_aton reading a libc resolver would give
				variants = []c38Case{
					{Truth: as, Enc: hf.enc + "/nx", Host: hf.host, Kind: hf.kind, Name: hf.host, DNS: []dnsAnswer{{NX: true}}},
					{Truth: as, Enc: hf.enc + "/aton", Host: hf.host, Kind: hf.kind, Name: hf.host, DNS: []dnsAnswer{{IPs: []string{as}}}},
				}
			}
			for _, v := range variants {
				for _, e := range urlEntries {
					for _, d := range c38Decos {
						cs := v
						cs.Entry, cs.Deco, cs.Target = e, d.name, d.f(urlHost(hf.host))
						if !yield(cs) {
							return
						}
					}
					// unbracketed IPv6 in a URL
					if strings.Contains(hf.host, ":") {
						cs := v
						cs.Entry, cs.Deco, cs.Target = e, "unbracketed", "http://"+hf.host+"/v1"
						if !yield(cs) {
							return
						}
					}
				}
				for _, port := range []string{"80", "8443"} {
					cs := v
					cs.Entry, cs.Deco, cs.Target = "dialer", "port-"+port, net.JoinHostPort(hf.host, port)
					if !yield(cs) {
						return
					}
				}
				cs := v
				cs.Entry, cs.Deco, cs.Target = "flow", "plain", c38Decos[0].f(urlHost(hf.host))
				if !yield(cs) {
					return
				}
				// environment: explicit opt-out, opt-in, a proxy configured for another host
				for _, env := range []string{"optout", "optin", "proxy-other", "proxy-same"} {
					for _, e := range []string{"url-guard", "redirect", "proxy-check", "dialer"} {
						if env == "proxy-same" && e != "dialer" {
							continue
						}
						cs := v
						cs.Entry, cs.Env = e, env
						if e == "dialer" {
							cs.Deco, cs.Target = "port-3128", net.JoinHostPort(hf.host, "3128")
						} else {
							cs.Deco, cs.Target = "plain", c38Decos[0].f(urlHost(hf.host))
						}
						if !yield(cs) {
							return
						}
					}
				}
			}
		}
	}
	// ---- host names: the DNS answers are the choice points
	names := []string{c38Name, c38Name + ".", strings.ToUpper(c38Name)}
	decos := []urlDeco{c38Decos[0], c38Decos[1], c38Decos[2], c38Decos[5]}
	for _, n := range names {
		for _, an := range c38Answers {
			base := c38Case{Enc: an.name, Host: n, Kind: "dns-name", Name: c38Name, DNS: []dnsAnswer{an.ans}}
			for _, e := range urlEntries {
				for _, d := range decos {
					cs := base
					cs.Entry, cs.Deco, cs.Target = e, d.name, d.f(n)
					if !yield(cs) {
						return
					}
				}
			}
			for _, env := range []string{"", "optout", "proxy-other"} {
				cs := base
				cs.Entry, cs.Deco, cs.Target, cs.Env = "dialer", "port-443", net.JoinHostPort(n, "443"), env
				if !yield(cs) {
					return
				}
			}
		}
	}
	// names that mean "this machine" by convention; the fake DNS does not know them
	for _, n := range []string{"localhost", "LOCALHOST", "localhost.", "foo.localhost", "localhost.localdomain"} {
		base := c38Case{Enc: "localhost-name", Host: n, Kind: "dns-name", Truth: "127.0.0.1", Name: n, DNS: []dnsAnswer{{NX: true}}}
		for _, e := range urlEntries {
			cs := base
			cs.Entry, cs.Deco, cs.Target = e, "plain", c38Decos[0].f(n)
			if !yield(cs) {
				return
			}
		}
		cs := base
		cs.Entry, cs.Deco, cs.Target = "dialer", "port-80", net.JoinHostPort(n, "80")
		if !yield(cs) {
			return
		}
	}
	// ---- re-resolution: URL guard, then the dial of the same name (2 lookups): every pair of answers
	for _, a1 := range c38Answers {
		for _, a2 := range c38Answers {
			if !yield(c38Case{Entry: "flow", Enc: a1.name + ">" + a2.name, Host: c38Name, Kind: "dns-name", Deco: "plain",
				Target: c38Decos[0].f(c38Name), Name: c38Name, DNS: []dnsAnswer{a1.ans, a2.ans}}) {
				return
			}
		}
	}
	if c.Thorough() {
		// URL guard, dial, redirect check back to the same name, dial again: every 4-sequence over 12 of the answers
		idx := []int{0, 1, 3, 4, 5, 8, 9, 10, 13, 16, 19, 21}
		for _, i1 := range idx {
			for _, i2 := range idx {
				for _, i3 := range idx {
					for _, i4 := range idx {
						a := []int{i1, i2, i3, i4}
						var names []string
						var dns []dnsAnswer
						for _, i := range a {
							names = append(names, c38Answers[i].name)
							dns = append(dns, c38Answers[i].ans)
						}
						if !yield(c38Case{Entry: "flow4", Enc: strings.Join(names, ">"), Host: c38Name, Kind: "dns-name", Deco: "plain",
							Target: c38Decos[0].f(c38Name), Name: c38Name, DNS: dns}) {
							return
						}
					}
				}
			}
		}
	}
	// ---- dial observation: what is really dialled (see c38_observe.go)
	enumObserve(c, yield)
}

// ---- execution --------------------------------------------------------------------

var c38EnvVars = []string{"DAISEN_ALLOW_PRIVATE_LLM_URL", "HTTP_PROXY", "HTTPS_PROXY", "http_proxy", "https_proxy", "ALL_PROXY", "all_proxy", "NO_PROXY", "no_proxy"}

const c38OtherProxy = "http://192.0.2.9:3128" // TEST-NET-1; never dialled (see SAFETY)

func c38SetEnv(cs c38Case) {
	for _, k := range c38EnvVars {
		os.Unsetenv(k)
	}
	switch cs.Env {
	case "optout":
		os.Setenv("DAISEN_ALLOW_PRIVATE_LLM_URL", "0")
	case "optin":
		os.Setenv("DAISEN_ALLOW_PRIVATE_LLM_URL", "1")
	case "proxy-other":
		os.Setenv("HTTP_PROXY", c38OtherProxy)
		os.Setenv("HTTPS_PROXY", c38OtherProxy)
	case "proxy-same":
		os.Setenv("HTTP_PROXY", "http://"+cs.Target)
	}
}

type stepResult struct {
	allowed bool   // the guard let the destination through
	detail  string // error text / what happened
	skipped bool   // the entry point cannot be driven with this input (e.g. unparseable URL)
	conn    bool   // a connection object was returned (must never happen)
}

func c38Transport() *http.Transport {
	tr, _ := daisen2.VerifLLMClient().Transport.(*http.Transport)
	return tr
}

func stepURLGuard(raw string) stepResult {
	err := daisen2.VerifGuardLLMURL(raw)
	if err != nil {
		return stepResult{detail: err.Error()}
	}
	return stepResult{allowed: true, detail: "guardLLMURL returned nil"}
}

var c38Base = &url.URL{Scheme: "http", Host: "api.public-llm.example", Path: "/v1/chat/completions"}

// parseLikeClient resolves a Location / request target the way http.Client does.
func parseLikeClient(raw string) (*url.URL, error) { return c38Base.Parse(raw) }

func stepRedirect(raw string) stepResult {
	u, err := parseLikeClient(raw)
	if err != nil {
		return stepResult{skipped: true, detail: "Location does not parse: " + err.Error()}
	}
	req := &http.Request{Method: "GET", URL: u, Header: http.Header{}, Host: u.Host}
	via := []*http.Request{{Method: "POST", URL: c38Base, Header: http.Header{}}}
	cr := daisen2.VerifLLMClient().CheckRedirect
	if cr == nil {
		return stepResult{allowed: true, detail: "the client has no CheckRedirect"}
	}
	if err := cr(req, via); err != nil {
		return stepResult{detail: err.Error()}
	}
	return stepResult{allowed: true, detail: "CheckRedirect returned nil"}
}

func stepProxyCheck(raw string) stepResult {
	u, err := parseLikeClient(raw)
	if err != nil {
		return stepResult{skipped: true, detail: "URL does not parse: " + err.Error()}
	}
	tr := c38Transport()
	if tr == nil || tr.Proxy == nil {
		return stepResult{skipped: true, detail: "the client's transport has no Proxy function"}
	}
	proxyURL, _ := url.Parse(c38OtherProxy)
	restore := daisen2.VerifSetLLMProxyFunc(func(*http.Request) (*url.URL, error) { return proxyURL, nil })
	defer restore()
	req := &http.Request{Method: "POST", URL: u, Header: http.Header{}, Host: u.Host}
	p, err := tr.Proxy(req)
	if err != nil {
		return stepResult{detail: err.Error()}
	}
	if p == nil {
		return stepResult{skipped: true, detail: "request would not be proxied"}
	}
	return stepResult{allowed: true, detail: "request handed to proxy " + p.String()}
}

// stepDial calls the client's DialContext. See SAFETY at the top of the file.
func stepDial(addr string, hostIsLiteral bool) stepResult {
	tr := c38Transport()
	if tr == nil || tr.DialContext == nil {
		return stepResult{allowed: true, detail: "the client's transport has no guarded DialContext"}
	}
	var ctx context.Context
	var cancel context.CancelFunc
	network := "tcp"
	if hostIsLiteral {
		ctx, cancel = context.WithCancel(context.Background())
		cancel() // cancelled before the call: Go's dialer returns before any socket call
	} else {
		ctx, cancel = context.WithTimeout(context.Background(), 5*time.Minute)
		defer cancel()
		network = noDialNetwork // unknown network: Go's dialer fails before any socket call
	}
	conn, err := tr.DialContext(ctx, network, addr)
	if conn != nil {
		conn.Close()
		return stepResult{allowed: true, conn: true, detail: "a connection was returned"}
	}
	var op *net.OpError
	if errors.As(err, &op) && op.Op == "dial" {
		return stepResult{allowed: true, detail: "dial attempted: " + err.Error()}
	}
	if err == nil {
		return stepResult{allowed: true, detail: "nil connection and nil error"}
	}
	return stepResult{detail: err.Error()}
}

// dialAddrOf mirrors net/http's canonicalAddr: host + explicit or scheme-default port.
func dialAddrOf(u *url.URL) string {
	port := u.Port()
	if port == "" {
		if u.Scheme == "https" {
			port = "443"
		} else {
			port = "80"
		}
	}
	return net.JoinHostPort(u.Hostname(), port)
}

func isLiteralHost(h string) bool {
	_, err := netip.ParseAddr(h)
	return err == nil
}

// answerFamily returns the family of the first internal address in a DNS answer.
func answerFamily(a dnsAnswer) string {
	if a.NX {
		return ""
	}
	for _, s := range a.IPs {
		if ad, err := netip.ParseAddr(s); err == nil {
			if f := classify(ad); f != "" {
				return f
			}
		}
	}
	return ""
}

func runC38Case(cs c38Case) (string, []lib.Problem) {
	installFakeDNS()
	c38SetEnv(cs)
	defer c38SetEnv(c38Case{})
	script := map[string][]dnsAnswer{}
	if cs.Name != "" {
		script[cs.Name] = cs.DNS
	}
	theDNS.reset(script)

	var probs []lib.Problem
	envTag := ""
	if cs.Env != "" {
		envTag = ":env-" + cs.Env
	}
	bad := func(entry, family, format string, a ...any) {
		probs = append(probs, lib.Problem{
			Key:  fmt.Sprintf("llmguard:%s:internal-allowed:%s:%s%s", entry, cs.Kind, family, envTag),
			What: fmt.Sprintf("[%s %s/%s %q] ", cs.Entry, cs.Enc, cs.Deco, cs.Target) + fmt.Sprintf(format, a...),
		})
	}

	// ground truth: the family of the destination as the statement names it
	lookupFamily := func(n int) string { // family of the n-th lookup's answer (hostname cases)
		if len(cs.DNS) == 0 {
			return ""
		}
		if n >= len(cs.DNS) {
			n = len(cs.DNS) - 1
		}
		return answerFamily(cs.DNS[n])
	}
	truthFamily := ""
	if cs.Truth != "" {
		truthFamily = classify(netip.MustParseAddr(cs.Truth))
	}
	judged := cs.Env == "" || cs.Env == "optout" || cs.Env == "proxy-other"

	// For URL entry points the destination is what the client would dial for the
	// parsed URL. The lattice builds every URL so that its RFC 3986 host is cs.Host;
	// if Go's parser sees another host the case is recorded, not judged.
	hostAgrees := func(raw string) (bool, string) {
		u, err := parseLikeClient(raw)
		if err != nil {
			return true, "unparseable" // nothing can be contacted; any refusal is fine, "allowed" still counts
		}
		if strings.EqualFold(u.Hostname(), cs.Host) {
			return true, ""
		}
		return false, u.Hostname()
	}

	var res stepResult
	var outcome string
	msg, where := lib.CatchStack(func() {
		switch cs.Entry {
		case "url-guard", "redirect", "proxy-check":
			switch cs.Entry {
			case "url-guard":
				res = stepURLGuard(cs.Target)
			case "redirect":
				res = stepRedirect(cs.Target)
			default:
				res = stepProxyCheck(cs.Target)
			}
			fam := truthFamily
			if cs.Truth == "" {
				fam = lookupFamily(0)
			}
			agrees, seen := hostAgrees(cs.Target)
			switch {
			case res.skipped:
				outcome = "skipped"
			case !agrees:
				outcome = "parser-sees-other-host:" + allowedWord(res.allowed)
				_ = seen
			default:
				outcome = famWord(fam) + ":" + allowedWord(res.allowed)
				if res.allowed && fam != "" && judged {
					bad(cs.Entry, fam, "destination %s (%s) was let through: %s", destText(cs), fam, res.detail)
				}
			}
		case "dialer":
			res = stepDial(cs.Target, isLiteralHost(cs.Host))
			fam := truthFamily
			if cs.Truth == "" {
				fam = lookupFamily(0)
			}
			outcome = famWord(fam) + ":" + allowedWord(res.allowed)
			if res.conn {
				probs = append(probs, lib.Problem{Key: "llmguard:dialer:connection-returned", What: fmt.Sprintf("DialContext(%q) returned a connection", cs.Target)})
			}
			if res.allowed && fam != "" && judged {
				bad("dialer", fam, "dial of %s (%s) was attempted: %s", destText(cs), fam, res.detail)
			}
		case "observe":
			outcome = runObserveCase(cs, bad)
		case "flow", "flow4":
			// what the server does for one request: URL guard, then the transport
			// dials the URL's host; flow4 adds a redirect back to the same URL.
			step := 0
			res = stepURLGuard(cs.Target)
			fam := truthFamily
			if cs.Truth == "" {
				fam = lookupFamily(step)
			}
			if res.allowed && fam != "" && judged {
				bad("url-guard", fam, "destination %s (%s) was let through: %s", destText(cs), fam, res.detail)
			}
			outcome = famWord(fam) + ":" + allowedWord(res.allowed)
			u, perr := parseLikeClient(cs.Target)
			if !res.allowed || perr != nil {
				break
			}
			dial := func() {
				step++
				f := truthFamily
				if cs.Truth == "" {
					f = lookupFamily(step)
				}
				res = stepDial(dialAddrOf(u), isLiteralHost(u.Hostname()))
				outcome += ">" + famWord(f) + ":" + allowedWord(res.allowed)
				if res.allowed && f != "" && judged {
					bad("dialer", f, "after the URL guard passed, the dial-time lookup gave %s (%s) and the dial was attempted: %s", destText(cs), f, res.detail)
				}
			}
			dial()
			if cs.Entry == "flow4" && res.allowed {
				step++
				f := lookupFamily(step)
				res = stepRedirect(cs.Target)
				outcome += ">" + famWord(f) + ":" + allowedWord(res.allowed)
				if res.allowed && f != "" && judged {
					bad("redirect", f, "redirect-time lookup gave %s and the redirect was followed: %s", f, res.detail)
				}
				if res.allowed {
					dial()
				}
			}
		}
	})
	if msg != "" {
		probs = append(probs, lib.Problem{Key: "llmguard:" + cs.Entry + ":panic", What: fmt.Sprintf("%q: %s at %s", cs.Target, msg, where)})
		return cs.Entry + "/panic", probs
	}
	if cs.Kind == "dns-name" && cs.Enc != "localhost-name" && !res.skipped && cs.Env != "optin" && theDNS.queryCount() == 0 {
		// the lookups must have gone through the fake DNS
		if _, perr := parseLikeClient(cs.Target); perr == nil || cs.Entry == "dialer" {
			c38Internal = append(c38Internal, fmt.Sprintf("%s %q was decided without consulting the fake DNS", cs.Entry, cs.Target))
		}
	}
	return fmt.Sprintf("%s/%s/%s%s", cs.Entry, cs.Kind, outcome, envTag), probs
}

// c38Internal collects failures of the harness itself (reported as internal
// errors, never as violations).
var c38Internal []string

func allowedWord(a bool) string {
	if a {
		return "allowed"
	}
	return "refused"
}

func famWord(f string) string {
	if f == "" {
		return "not-internal"
	}
	return f
}

func destText(cs c38Case) string {
	if cs.Truth != "" {
		return cs.Truth
	}
	return fmt.Sprintf("%s with answers %+v", cs.Name, cs.DNS)
}

// c38Canaries makes sure the harness itself works: public destinations pass
// every entry point (so "refused" is not the only thing the guards ever say),
// and host names are really answered by the fake DNS.
func c38Canaries(c *lib.Ctx) {
	installFakeDNS()
	observeCanary(c)
	must := func(cs c38Case, wantOutcomeSub string) {
		out, probs := runC38Case(cs)
		if len(probs) > 0 || !strings.Contains(out, wantOutcomeSub) {
			c.InternalError("canary %s %q: outcome %q (want %q), problems %v", cs.Entry, cs.Target, out, wantOutcomeSub, probs)
		}
	}
	pub := dnsAnswer{IPs: []string{"93.184.216.34"}}
	for _, e := range []string{"url-guard", "redirect", "proxy-check"} {
		must(c38Case{Entry: e, Truth: "8.8.8.8", Enc: "dotted", Host: "8.8.8.8", Kind: "literal", Deco: "plain", Target: "http://8.8.8.8/v1"}, "not-internal:allowed")
		must(c38Case{Entry: e, Enc: "pub4", Host: c38Name, Kind: "dns-name", Deco: "plain", Target: "http://" + c38Name + "/v1", Name: c38Name, DNS: []dnsAnswer{pub}}, "not-internal:allowed")
		must(c38Case{Entry: e, Truth: "10.0.0.1", Enc: "dotted", Host: "10.0.0.1", Kind: "literal", Deco: "plain", Target: "http://10.0.0.1/v1"}, "private:refused")
	}
	must(c38Case{Entry: "dialer", Truth: "8.8.8.8", Enc: "dotted", Host: "8.8.8.8", Kind: "literal", Target: "8.8.8.8:443"}, "not-internal:allowed")
	must(c38Case{Entry: "dialer", Enc: "pub4", Host: c38Name, Kind: "dns-name", Target: c38Name + ":443", Name: c38Name, DNS: []dnsAnswer{pub}}, "not-internal:allowed")
	must(c38Case{Entry: "dialer", Truth: "127.0.0.1", Enc: "dotted", Host: "127.0.0.1", Kind: "literal", Target: "127.0.0.1:80"}, "loopback:refused")
	doc := dnsAnswer{IPs: []string{"192.0.2.10"}}
	must(c38Case{Entry: "observe", Enc: "pub4>pub4>pub4", Host: c38Name, Kind: "dns-name", Deco: "https", Target: "https://" + c38Name + "/v1", Name: c38Name, DNS: []dnsAnswer{doc, doc, doc}}, "not-internal:allowed>not-internal:attempted1 q4")
	must(c38Case{Entry: "observe", Enc: "pub>loopback>pub", Host: c38Name, Kind: "dns-name", Deco: "https", Target: "https://" + c38Name + "/v1", Name: c38Name, DNS: []dnsAnswer{doc, {IPs: []string{"127.0.0.1"}}, doc}}, "loopback:no-attempt")
	must(c38Case{Entry: "flow", Enc: "pub4>pub4", Host: c38Name, Kind: "dns-name", Deco: "plain", Target: "http://" + c38Name + "/v1", Name: c38Name, DNS: []dnsAnswer{pub, pub}}, "not-internal:allowed>not-internal:allowed")
}

func init() {
	lib.Register(&lib.Check{
		ID:    "C38",
		Level: "fault_enumeration",
		Rule: fmt.Sprintf("full product of %d destination addresses (every class of the statement with both boundary addresses, the addresses just outside, public controls, a few unnamed ranges) x encodings "+
			"(dotted; IPv4-mapped IPv6 dotted/hex/upper/expanded/zero-padded/zoned; IPv6 compressed/full/upper/zoned; short, octal, hex, 32-bit decimal/hex, trailing-dot and full-width forms, the latter being host names for Go and resolved by the environment as {unknown, inet_aton reading}) x entry points "+
			"{URL guard, the client's CheckRedirect, the client's Transport.Proxy with a proxy configured, the client's Transport.DialContext, URL-guard-then-dial flow} x %d URL decorations (scheme, port, userinfo tricks, '@' in fragment/query, backslash, schemeless, unbracketed IPv6) x environment {default, opt-out=0, proxy configured for another host; opt-in=1 and dial-target-is-the-proxy recorded only}; "+
			"host names x %d scripted DNS answers (each internal class, IPv4-mapped AAAA, mixed public+internal in both orders and across A/AAAA, NXDOMAIN, no data) served by an in-process fake DNS, and every pair of answers for the re-resolution flow guard->dial [thorough: every 4-sequence over 12 answers for guard->dial->redirect->dial]. "+
			"Dial observation: the flow URL guard -> the client's Transport.DialContext with a live context and network tcp, with the /repo hook daisen2.VerifSetDialControl recording the resolved ip:port of every connection attempt and aborting it before connect(): host names x EVERY sequence of 3 answers (guard lookup, dial-time vetting lookup, every later lookup) over %d answers (one and two public addresses A+A and A+AAAA, each internal class, IPv4-mapped, mixed, NXDOMAIN, no data; public answers are documentation addresses), and every IP literal encoding through the same flow; every attempted destination must be non-internal AND an address of the vetting answer with the URL's port, and no attempt may follow a vetting answer containing an internal address; DNS queries per flow are recorded. "+
			"Oracle: an independent byte-level CIDR classifier; a destination in a named class must be refused (a let-through shows as nil error / *net.OpError{Op:dial}); no dial can reach the network (cancelled context or unknown network). Each (destination, encoding, entry, decoration, environment) tuple is a distinct case.",
			len(c38Addrs), len(c38Decos)+1, len(c38Answers), len(obsAnswers)),
		Sharded:     true,
		MinOutcomes: 40,
		Assumptions: []string{
			"the destination of a URL is the host net/url parses (guard and client share that parser); URLs whose RFC 3986 host differs from what net/url sees are recorded, not judged",
			"any internal address among the resolved addresses makes the destination internal",
			"the HTTP handlers' own call of the URL guard and a live end-to-end request through the client are not driven",
			"dial observation relies on the verif hook VerifSetDialControl aborting every attempt before connect(); a canary on a loopback listener owned by the check proves the hook is wired before the family runs, otherwise the family is disabled (internal error)",
			"host names are resolved by Go's resolver against the fake DNS; the cgo/libc resolver path is represented by the {unknown, inet_aton} environment choice for numeric names",
		},
		Run: func(c *lib.Ctx) {
			c38Canaries(c)
			lib.Cases(c, func(yield func(c38Case) bool) { c38Enumerate(c, yield) }, runC38Case)
			c.Add("observed_dial_flows", obsStats.flows)
			c.Add("observed_dns_queries", obsStats.dnsQueries)
			c.Add("observed_connection_attempts", obsStats.destinations)
			c.Add("observed_flows_without_attempt", obsStats.dialsWithoutDestination)
			for i, m := range c38Internal {
				if i < 5 {
					c.InternalError("%s", m)
				}
			}
		},
		Replay: func(c *lib.Ctx, raw json.RawMessage) []lib.Problem {
			installFakeDNS()
			observeCanary(c)
			return lib.ReplayCases(runC38Case)(c, raw)
		},
	})
}

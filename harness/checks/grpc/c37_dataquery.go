// Package grpc holds the checks of the daisen2 / sourcefs group (C37 C38 C39):
// hostile-input lattices, fully enumerated, against independent oracles.
package grpc

import (
	"context"
	"crypto/sha256"
	"database/sql"
	"encoding/hex"
	"encoding/json"
	"fmt"
	"os"
	"path/filepath"
	"sort"
	"strings"
	"sync"
	"sync/atomic"
	"time"

	"github.com/sarchlab/akita/v5/daisen2"

	"verif/harness/lib"
)

// C37: the data_query tool cannot modify the trace.
//
// Every case builds a fresh trace file, opens it with the real replay server
// (daisen2.NewReplayServer: writable pool in WAL mode, exactly what the tool
// runs against), sends one SQL text through the real tool dispatch, and then
// compares the world with the snapshot taken just before the call.

const dirMark = "@@D@@" // replaced by the case's scratch directory

type c37Case struct {
	Family  string `json:"family"`            // statement family (part of the problem key)
	Stmt    string `json:"stmt"`              // statement name
	Wrap    string `json:"wrap"`              // wrapper name(s)
	SQL     string `json:"sql"`               // final text; dirMark stands for the scratch dir
	Special string `json:"special,omitempty"` // "", "size", "cancel", "timeout"
}

type c37Stmt struct{ family, name, sql string }

// Every statement that would change something is written so that it *would*
// succeed on a writable connection (the "limit 1" literals defeat the LIMIT
// injection of the prefix filter, which would otherwise turn a smuggled write
// into a syntax error and hide what the engine-level guard does).
var c37Stmts = []c37Stmt{
	{"select", "select", `SELECT ID, Kind FROM trace ORDER BY ID`},
	{"select", "count", `SELECT COUNT(*) FROM trace`},
	{"select", "with-select", `WITH c AS (SELECT ID FROM trace) SELECT COUNT(*) FROM c`},
	{"select", "join", `SELECT t.ID, l.Locale FROM trace t JOIN location l ON t.Location = l.ID`},
	{"cte-write", "cte-delete", `WITH c AS (SELECT 'limit 1' AS l) DELETE FROM trace RETURNING ID`},
	{"cte-write", "cte-insert", `WITH c AS (SELECT 'limit 1' AS l) INSERT INTO trace(ID, Kind) SELECT 999, l FROM c RETURNING ID`},
	{"cte-write", "cte-update", `WITH c AS (SELECT 'limit 1' AS l) UPDATE trace SET What = (SELECT l FROM c) RETURNING ID`},
	{"cte-write", "cte-replace", `WITH c AS (SELECT 'limit 1' AS l) REPLACE INTO trace(ID, Kind) VALUES (1, 'x') RETURNING ID`},
	{"cte-write", "cte-delete-nolit", `WITH c AS (SELECT 1) DELETE FROM trace RETURNING ID`},
	{"dml", "insert", `INSERT INTO trace(ID, Kind) VALUES (999, 'limit 1')`},
	{"dml", "insert-returning", `INSERT INTO trace(ID, Kind) VALUES (999, 'limit 1') RETURNING ID`},
	{"dml", "update", `UPDATE trace SET What = 'limit 1'`},
	{"dml", "delete", `DELETE FROM trace WHERE 'limit 1' <> ''`},
	{"dml", "replace", `REPLACE INTO trace(ID, Kind) VALUES (1, 'limit 1')`},
	{"dml", "insert-or-replace", `INSERT OR REPLACE INTO location(ID, Locale) VALUES (1, 'limit 1')`},
	{"ddl", "drop-table", `DROP TABLE trace`},
	{"ddl", "drop-if-exists", `DROP TABLE IF EXISTS location`},
	{"ddl", "create-table", `CREATE TABLE evil(x)`},
	{"ddl", "create-as-select", `CREATE TABLE evil AS SELECT * FROM trace`},
	{"ddl", "create-index", `CREATE INDEX evil_i ON trace(Kind)`},
	{"ddl", "create-view", `CREATE VIEW evil_v AS SELECT 1`},
	{"ddl", "create-trigger", `CREATE TRIGGER evil_t AFTER INSERT ON trace BEGIN DELETE FROM location; END`},
	{"ddl", "create-temp", `CREATE TEMP TABLE evil_tmp(x)`},
	{"ddl", "alter-add", `ALTER TABLE trace ADD COLUMN z`},
	{"ddl", "alter-rename", `ALTER TABLE trace RENAME TO trace2`},
	{"pragma", "pragma-user-version", `PRAGMA user_version = 7`},
	{"pragma", "pragma-journal-delete", `PRAGMA journal_mode = DELETE`},
	{"pragma", "pragma-query-only-off", `PRAGMA query_only = OFF`},
	{"pragma", "pragma-writable-schema", `PRAGMA writable_schema = ON`},
	{"pragma", "pragma-application-id", `PRAGMA application_id = 9`},
	{"pragma", "pragma-checkpoint", `PRAGMA wal_checkpoint(TRUNCATE)`},
	{"pragma", "pragma-locking", `PRAGMA locking_mode = EXCLUSIVE`},
	{"pragma", "pragma-schema-version", `PRAGMA schema_version = 99`},
	{"pragma-fn", "fn-user-version", `SELECT * FROM pragma_user_version`},
	{"pragma-fn", "fn-journal-mode", `SELECT * FROM pragma_journal_mode('DELETE')`},
	{"pragma-fn", "fn-checkpoint", `SELECT * FROM pragma_wal_checkpoint('TRUNCATE')`},
	{"pragma-fn", "fn-query-only", `SELECT * FROM pragma_query_only(0)`},
	{"attach", "attach", `ATTACH DATABASE '` + dirMark + `/evil.db' AS e`},
	{"attach", "detach", `DETACH DATABASE main`},
	{"vacuum", "vacuum", `VACUUM`},
	{"vacuum", "vacuum-into", `VACUUM INTO '` + dirMark + `/copy.db'`},
	{"vacuum", "reindex", `REINDEX`},
	{"vacuum", "analyze", `ANALYZE`},
	{"tx", "begin", `BEGIN`},
	{"tx", "begin-immediate", `BEGIN IMMEDIATE`},
	{"tx", "begin-exclusive", `BEGIN EXCLUSIVE`},
	{"tx", "commit", `COMMIT`},
	{"tx", "rollback", `ROLLBACK`},
	{"tx", "savepoint", `SAVEPOINT s`},
	{"tx", "release", `RELEASE s`},
	{"fn", "load-extension", `SELECT load_extension('` + dirMark + `/x.so')`},
	{"fn", "writefile", `SELECT writefile('` + dirMark + `/w.txt', 'x')`},
	{"fn", "fts3-tokenizer", `SELECT fts3_tokenizer('simple')`},
}

type c37Wrap struct {
	name string
	f    func(string) string
}

func mixedCase(s string) string {
	// keep the directory mark and quoted literals intact
	var b strings.Builder
	inLit := false
	up := true
	for i := 0; i < len(s); i++ {
		c := s[i]
		if c == '\'' {
			inLit = !inLit
		}
		if !inLit && (c >= 'a' && c <= 'z' || c >= 'A' && c <= 'Z') {
			if up {
				c = c &^ 0x20
			} else {
				c = c | 0x20
			}
			up = !up
		}
		b.WriteByte(c)
	}
	return b.String()
}

func lowerOutsideLiterals(s string) string {
	var b strings.Builder
	inLit := false
	for i := 0; i < len(s); i++ {
		c := s[i]
		if c == '\'' {
			inLit = !inLit
		}
		if !inLit && c >= 'A' && c <= 'Z' {
			c |= 0x20
		}
		b.WriteByte(c)
	}
	return b.String()
}

var c37Wraps = []c37Wrap{
	{"plain", func(s string) string { return s }},
	{"lower", lowerOutsideLiterals},
	{"mixed", mixedCase},
	{"paren", func(s string) string { return "(" + s }},
	{"paren2", func(s string) string { return "( (" + s + "))" }},
	{"block-comment", func(s string) string { return "/* c */ " + s }},
	{"empty-comment", func(s string) string { return "/**/" + s }},
	{"line-comment", func(s string) string { return "-- c\n" + s }},
	{"space", func(s string) string { return " \t\r\n" + s + "\n " }},
	{"odd-space", func(s string) string { return "\f\v \u00a0\ufeff" + s }},
	{"semi", func(s string) string { return s + ";" }},
	{"semi-many", func(s string) string { return s + " ; \n;;" }},
	{"trail-comment", func(s string) string { return s + " /* limit 1 */" }},
	{"trail-line-comment", func(s string) string { return s + " -- limit 1" }},
	{"two-before", func(s string) string { return "SELECT 1 /* limit 1 */; " + s }},
	{"two-after", func(s string) string { return s + "; SELECT 1" }},
	{"semi-in-literal", func(s string) string { return "WITH v AS (SELECT ';' AS s, 'limit 1' AS l) " + s }},
	{"with-prefix", func(s string) string { return "WITH v AS (SELECT 'limit 1' AS l) " + s }},
	{"nested-cte", func(s string) string {
		return "WITH a AS (WITH b AS (SELECT 'limit 1' AS l) SELECT * FROM b) " + s
	}},
	{"recursive-cte", func(s string) string {
		return "WITH RECURSIVE r(x) AS (SELECT 1 UNION ALL SELECT x+1 FROM r WHERE x < 3) " + s + " /* limit 1 */"
	}},
	{"explain", func(s string) string { return "EXPLAIN " + s }},
	{"explain-plan", func(s string) string { return "EXPLAIN QUERY PLAN " + s }},
	{"subquery", func(s string) string { return "SELECT * FROM (" + s + ") /* limit 1 */" }},
	{"union", func(s string) string { return "SELECT 1 UNION ALL " + s }},
	{"nul-tail", func(s string) string { return s + " /* limit 1 */\x00 DROP TABLE trace" }},
	{"nul-head", func(s string) string { return "SELECT 1 /* limit 1 */ \x00" + s }},
}

func recursiveRows(n int, sel string) string {
	return fmt.Sprintf("WITH RECURSIVE c(x) AS (SELECT 1 UNION ALL SELECT x+1 FROM c WHERE x < %d) %s", n, sel)
}

func c37SizeCases(thorough bool) []c37Case {
	mk := func(name, sql string) c37Case {
		return c37Case{Family: "size", Stmt: name, Wrap: "plain", SQL: sql, Special: "size"}
	}
	var out []c37Case
	out = append(out,
		mk("rows-1e5", recursiveRows(100000, "SELECT x FROM c")),
		mk("rows-1e5-limit-in-literal", recursiveRows(100000, "SELECT x, 'limit 5' AS l FROM c")),
		mk("rows-1e5-limit-in-comment", recursiveRows(100000, "SELECT x FROM c /* limit 5 */")),
		mk("rows-1e5-own-limit", recursiveRows(100000, "SELECT x FROM c LIMIT 99999")),
		mk("rows-1e5-negative-limit", recursiveRows(100000, "SELECT x FROM c LIMIT -1")),
		mk("rows-1e5-limit-offset", recursiveRows(100000, "SELECT x FROM c LIMIT 5000 OFFSET 7")),
		mk("rows-1001", recursiveRows(1001, "SELECT x FROM c LIMIT 1001")),
		mk("rows-1000", recursiveRows(1000, "SELECT x FROM c LIMIT 1001")),
		mk("wide-rows", recursiveRows(5000, "SELECT x, printf('%0200d', x) AS p FROM c LIMIT 5000")),
		mk("cell-5000", "SELECT printf('%05000d', 1) AS p"),
		mk("cells-20x4096", "SELECT "+strings.TrimSuffix(strings.Repeat("printf('%05000d', 1),", 20), ",")),
		mk("hex-zeroblob-1e6", "SELECT hex(zeroblob(1000000)) AS z"),
		mk("zeroblob-1e6", "SELECT zeroblob(1000000) AS z"),
		mk("columns-2000", "SELECT "+strings.TrimSuffix(strings.Repeat("1,", 2000), ",")),
		mk("columns-5000", "SELECT "+strings.TrimSuffix(strings.Repeat("1,", 5000), ",")),
		mk("alias-1e5", `SELECT 1 AS "`+strings.Repeat("a", 100000)+`"`),
		mk("alias-70000", `SELECT 1 AS "`+strings.Repeat("a", 70000)+`"`),
		mk("aliases-1000x100", func() string {
			var b strings.Builder
			b.WriteString("SELECT ")
			for i := 0; i < 1000; i++ {
				if i > 0 {
					b.WriteString(", ")
				}
				fmt.Fprintf(&b, `1 AS "c%04d%s"`, i, strings.Repeat("x", 95))
			}
			return b.String()
		}()),
		mk("recorded-wide-columns", "SELECT * FROM widecols"),
		mk("recorded-wide-columns-rows", "SELECT * FROM widecols, trace"),
	)
	if thorough {
		out = append(out,
			mk("hex-zeroblob-5e7", "SELECT hex(zeroblob(50000000)) AS z"),
			mk("rows-1e7", recursiveRows(10000000, "SELECT x, 'limit 5' AS l FROM c")),
			mk("alias-9e5", `SELECT 1 AS "`+strings.Repeat("a", 900000)+`"`),
		)
	}
	return out
}

func c37Enumerate(c *lib.Ctx, yield func(c37Case) bool) {
	// single wrappers: full product
	for _, st := range c37Stmts {
		for _, w := range c37Wraps {
			if !yield(c37Case{Family: st.family, Stmt: st.name, Wrap: w.name, SQL: w.f(st.sql)}) {
				return
			}
		}
	}
	for _, sc := range c37SizeCases(c.Thorough()) {
		if !yield(sc) {
			return
		}
	}
	// a client going away in the middle of a query (the request context is the
	// tool's parent context), per statement family that reaches the engine
	for _, n := range []int{1, 2} {
		if !yield(c37Case{Family: "cancel", Stmt: fmt.Sprintf("cancel-mid-query-%d", n), Wrap: "plain",
			SQL: recursiveRows(3000000, "SELECT COUNT(*) FROM c"), Special: "cancel"}) {
			return
		}
	}
	if c.Thorough() {
		// wrapper pairs: full product over the wrappers that change what the prefix
		// filter or the engine sees (the others only re-spell the same text)
		pair := map[string]bool{"lower": true, "paren": true, "block-comment": true, "line-comment": true, "space": true, "semi": true,
			"trail-comment": true, "two-before": true, "two-after": true, "with-prefix": true, "nested-cte": true, "explain": true, "subquery": true, "nul-head": true}
		for _, st := range c37Stmts {
			for _, w1 := range c37Wraps {
				for _, w2 := range c37Wraps {
					if !pair[w1.name] || !pair[w2.name] {
						continue
					}
					if !yield(c37Case{Family: st.family, Stmt: st.name, Wrap: w2.name + "(" + w1.name + ")", SQL: w2.f(w1.f(st.sql))}) {
						return
					}
				}
			}
		}
		// the tool's own 15 s timeout
		yield(c37Case{Family: "cancel", Stmt: "tool-timeout", Wrap: "plain",
			SQL: recursiveRows(2000000000, "SELECT COUNT(*) FROM c"), Special: "timeout"})
	}
}

// ---- fixture ----------------------------------------------------------------

var (
	c37TemplateOnce sync.Once
	c37Template     []byte
	c37TemplateErr  error
	c37Seq          atomic.Int64
)

func c37BuildTemplate() {
	dir := filepath.Join(lib.ScratchDir(), "c37-template")
	_ = os.MkdirAll(dir, 0o755)
	defer os.RemoveAll(dir)
	p := filepath.Join(dir, "t.sqlite3")
	db, err := sql.Open("sqlite3", p)
	if err != nil {
		c37TemplateErr = err
		return
	}
	stmts := []string{
		`CREATE TABLE trace(ID INTEGER, ParentID INTEGER, Kind TEXT, What TEXT, Location INTEGER, StartTime REAL, EndTime REAL)`,
		`CREATE TABLE location(ID INTEGER PRIMARY KEY, Locale TEXT)`,
		`CREATE TABLE milestone(ID INTEGER, TaskID INTEGER, Time REAL, Kind TEXT, What TEXT, Location INTEGER)`,
		`CREATE INDEX trace_kind ON trace(Kind)`,
		`INSERT INTO location(ID, Locale) VALUES (1, 'L2Cache'), (2, 'L1Cache'), (3, 'DRAM')`,
	}
	for i := 1; i <= 12; i++ {
		stmts = append(stmts, fmt.Sprintf(`INSERT INTO trace VALUES (%d, %d, '%s', 'req', %d, %d, %d)`,
			i, i/2, []string{"read", "write", "fetch"}[i%3], 1+i%3, i*10, i*10+7))
		stmts = append(stmts, fmt.Sprintf(`INSERT INTO milestone VALUES (%d, %d, %d, 'hw', 'bank', %d)`, i, i, i*10+3, 1+i%3))
	}
	// a table whose recorded column names are long (the trace file is not
	// trusted either: SELECT * echoes these names)
	var wc strings.Builder
	wc.WriteString("CREATE TABLE widecols(")
	for i := 0; i < 100; i++ {
		if i > 0 {
			wc.WriteString(", ")
		}
		fmt.Fprintf(&wc, `"w%03d%s" INTEGER`, i, strings.Repeat("y", 996))
	}
	wc.WriteString(")")
	stmts = append(stmts, wc.String(), `INSERT INTO widecols DEFAULT VALUES`)
	for _, s := range stmts {
		if _, err := db.Exec(s); err != nil {
			c37TemplateErr = fmt.Errorf("template %q: %w", s[:min(len(s), 60)], err)
			db.Close()
			return
		}
	}
	if err := db.Close(); err != nil {
		c37TemplateErr = err
		return
	}
	c37Template, c37TemplateErr = os.ReadFile(p)
}

type dirSnap struct {
	names  []string
	hashes map[string]string // for every file except *-shm (a lock/index area readers update by design)
}

func snapDir(dir string) dirSnap {
	s := dirSnap{hashes: map[string]string{}}
	_ = filepath.Walk(dir, func(p string, info os.FileInfo, err error) error {
		if err != nil || p == dir {
			return nil
		}
		rel, _ := filepath.Rel(dir, p)
		if info.IsDir() {
			s.names = append(s.names, rel+"/")
			return nil
		}
		s.names = append(s.names, rel)
		if strings.HasSuffix(rel, "-shm") {
			return nil
		}
		b, err := os.ReadFile(p)
		if err == nil {
			h := sha256.Sum256(b)
			s.hashes[rel] = hex.EncodeToString(h[:8]) + fmt.Sprintf("/%d", len(b))
		}
		return nil
	})
	sort.Strings(s.names)
	return s
}

// dumpDB renders the logical contents of the database through an independent
// read-only connection: schema, every table's rows, and the header values a
// statement could change.
func dumpDB(db *sql.DB) (string, error) {
	var b strings.Builder
	for _, pr := range []string{"user_version", "application_id", "schema_version", "journal_mode", "page_size", "auto_vacuum", "encoding"} {
		var v any
		if err := db.QueryRow("PRAGMA " + pr).Scan(&v); err != nil {
			return "", fmt.Errorf("pragma %s: %w", pr, err)
		}
		fmt.Fprintf(&b, "%s=%v\n", pr, cellString(v))
	}
	rows, err := db.Query(`SELECT type, name, tbl_name, COALESCE(sql, '') FROM sqlite_master ORDER BY type, name`)
	if err != nil {
		return "", err
	}
	var tables []string
	for rows.Next() {
		var typ, name, tbl, sqlText string
		if err := rows.Scan(&typ, &name, &tbl, &sqlText); err != nil {
			rows.Close()
			return "", err
		}
		h := sha256.Sum256([]byte(sqlText))
		fmt.Fprintf(&b, "%s %s %s %x\n", typ, name, tbl, h[:6])
		if typ == "table" {
			tables = append(tables, name)
		}
	}
	rows.Close()
	if err := rows.Err(); err != nil {
		return "", err
	}
	for _, t := range tables {
		r, err := db.Query(`SELECT rowid, * FROM "` + strings.ReplaceAll(t, `"`, `""`) + `" ORDER BY rowid`)
		if err != nil {
			return "", fmt.Errorf("dump %s: %w", t, err)
		}
		cols, _ := r.Columns()
		fmt.Fprintf(&b, "== %s (%d cols)\n", t, len(cols))
		for r.Next() {
			vals := make([]any, len(cols))
			ptrs := make([]any, len(cols))
			for i := range vals {
				ptrs[i] = &vals[i]
			}
			if err := r.Scan(ptrs...); err != nil {
				r.Close()
				return "", err
			}
			for _, v := range vals {
				b.WriteString(cellString(v))
				b.WriteByte('|')
			}
			b.WriteByte('\n')
		}
		r.Close()
		if err := r.Err(); err != nil {
			return "", err
		}
	}
	return b.String(), nil
}

func cellString(v any) string {
	switch t := v.(type) {
	case nil:
		return "NULL"
	case []byte:
		return "b:" + string(t)
	default:
		return fmt.Sprintf("%T:%v", t, t)
	}
}

// ---- one case -----------------------------------------------------------------

func c37ResultClass(out string) string {
	switch {
	case strings.HasPrefix(out, "["):
		if strings.Contains(strings.SplitN(out, "\n", 2)[0], "truncated") {
			return "rows-truncated"
		}
		return "rows"
	case strings.HasPrefix(out, "Error: only read-only"):
		return "filter-prefix"
	case strings.HasPrefix(out, "Error: only a single statement"):
		return "filter-semicolon"
	case strings.HasPrefix(out, "Error: empty query"):
		return "filter-empty"
	case strings.Contains(out, "readonly database"):
		return "engine-readonly"
	case strings.Contains(out, "context canceled"), strings.Contains(out, "deadline exceeded"), strings.Contains(out, "interrupted"):
		return "cancelled"
	case strings.HasPrefix(out, "Error: query failed"):
		return "engine-error"
	case strings.HasPrefix(out, "Error:"):
		return "other-error"
	}
	return "other"
}

func runC37Case(cs c37Case) (string, []lib.Problem) {
	c37TemplateOnce.Do(c37BuildTemplate)
	if c37TemplateErr != nil {
		panic("C37 template: " + c37TemplateErr.Error())
	}
	var probs []lib.Problem
	bad := func(clause, format string, a ...any) {
		probs = append(probs, lib.Problem{
			Key:  fmt.Sprintf("dataquery:%s:%s", clause, cs.Family),
			What: fmt.Sprintf("[%s/%s] ", cs.Stmt, cs.Wrap) + fmt.Sprintf(format, a...),
		})
	}

	dir := filepath.Join(lib.ScratchDir(), fmt.Sprintf("c37-%d", c37Seq.Add(1)))
	if err := os.MkdirAll(dir, 0o755); err != nil {
		panic(err)
	}
	defer os.RemoveAll(dir)
	dbPath := filepath.Join(dir, "trace.sqlite3")
	if err := os.WriteFile(dbPath, c37Template, 0o644); err != nil {
		panic(err)
	}

	// The real server: writable pool, WAL mode, recorded-source load.
	srv := daisen2.NewReplayServer(dbPath, "")
	pool := daisen2.VerifServerDB(srv)
	defer pool.Close()

	// The harness's own independent read-only connection for the logical dump.
	obs, err := sql.Open("sqlite3", "file:"+dbPath+"?mode=ro")
	if err != nil {
		panic(err)
	}
	obs.SetMaxOpenConns(1)
	defer obs.Close()

	dump0, err := dumpDB(obs)
	if err != nil {
		panic("C37 initial dump: " + err.Error())
	}
	snap0 := snapDir(dir)

	query := strings.ReplaceAll(cs.SQL, dirMark, dir)
	args, _ := json.Marshal(map[string]any{"reason": "verif", "sql": query})

	ctx := context.Background()
	var cancel context.CancelFunc
	switch cs.Special {
	case "cancel":
		ctx, cancel = context.WithCancel(ctx)
		t := time.AfterFunc(300*time.Millisecond, cancel)
		defer t.Stop()
		defer cancel()
	}
	var out string
	if msg, where := lib.CatchStack(func() { out = daisen2.VerifRunAgentTool(ctx, srv, "data_query", string(args)) }); msg != "" {
		bad("panic", "the tool panicked: %s at %s", msg, where)
		return cs.Family + "/panic", probs
	}
	class := c37ResultClass(out)

	// (1) nothing on disk changed, nothing was created
	snap1 := snapDir(dir)
	if strings.Join(snap0.names, "\n") != strings.Join(snap1.names, "\n") {
		created, removed := diffNames(snap0.names, snap1.names)
		if len(created) > 0 {
			bad("file-created", "files created next to the trace: %v (query %s)", created, clipQ(query))
		}
		if len(removed) > 0 {
			bad("file-removed", "files removed: %v (query %s)", removed, clipQ(query))
		}
	}
	for name, h0 := range snap0.hashes {
		if h1, ok := snap1.hashes[name]; ok && h1 != h0 {
			clause := "db-file-changed"
			if strings.HasSuffix(name, "-wal") {
				clause = "wal-changed"
			}
			bad(clause, "%s changed (%s -> %s) after query %s -> %s", name, h0, h1, clipQ(query), clipQ(out))
		}
	}
	// (2) logical contents unchanged
	dump1, err := dumpDB(obs)
	if err != nil {
		bad("contents-unreadable", "the trace cannot be dumped any more after query %s: %v", clipQ(query), err)
	} else if dump1 != dump0 {
		bad("contents-changed", "table dump differs after query %s -> %s: %s", clipQ(query), clipQ(out), firstDiff(dump0, dump1))
	}
	// (3) documented caps: <= 1000 rows, body <= 64 KiB, plus one summary line
	if strings.HasPrefix(out, "[") {
		first, body, _ := strings.Cut(out, "\n")
		if header, _, _ := strings.Cut(body, "\n"); len(header)+1 > daisen2.VerifDataQueryByteCap {
			bad("byte-cap-exceeded-by-column-names", "the column-name line alone is %d bytes, result body %d bytes (cap %d) for %s/%s: summary %q", len(header), len(body), daisen2.VerifDataQueryByteCap, cs.Stmt, cs.Wrap, first)
		} else if len(body) > daisen2.VerifDataQueryByteCap {
			bad("byte-cap-exceeded", "result body is %d bytes (cap %d) for %s/%s: summary %q", len(body), daisen2.VerifDataQueryByteCap, cs.Stmt, cs.Wrap, first)
		}
		if cs.Special == "size" || cs.Family == "select" {
			// none of these cases puts a newline into a cell: lines = header + rows
			lines := strings.Count(body, "\n")
			if lines-1 > daisen2.VerifDataQueryRowCap {
				bad("row-cap-exceeded", "%d data rows returned (cap %d) for %s", lines-1, daisen2.VerifDataQueryRowCap, cs.Stmt)
			}
		}
	} else if len(out) > daisen2.VerifDataQueryByteCap {
		bad("byte-cap-exceeded", "error text is %d bytes for %s", len(out), cs.Stmt)
	}
	// (4) the server's own pool still works on every pooled connection
	if p := poolProblem(pool); p != "" {
		bad("pool-unusable", "after query %s -> %s: %s", clipQ(query), clipQ(out), p)
	}
	return cs.Family + "/" + class, probs
}

// poolProblem holds every pooled connection at once (so each existing one is
// exercised) and performs the server's own kinds of work on it: a read and a
// schema write (the server builds indexes on demand).
func poolProblem(pool *sql.DB) string {
	ctx, cancel := context.WithTimeout(context.Background(), 5*time.Minute)
	defer cancel()
	n := pool.Stats().OpenConnections + 1
	var conns []*sql.Conn
	defer func() {
		for _, c := range conns {
			c.Close()
		}
	}()
	for i := 0; i < n; i++ {
		cn, err := pool.Conn(ctx)
		if err != nil {
			return fmt.Sprintf("cannot obtain pooled connection %d: %v", i, err)
		}
		conns = append(conns, cn)
	}
	for i, cn := range conns {
		var cnt int
		if err := cn.QueryRowContext(ctx, "SELECT COUNT(*) FROM trace").Scan(&cnt); err != nil {
			return fmt.Sprintf("read on pooled connection %d fails: %v", i, err)
		}
		if _, err := cn.ExecContext(ctx, fmt.Sprintf("CREATE INDEX IF NOT EXISTS verif_probe_%d ON trace(StartTime)", i)); err != nil {
			return fmt.Sprintf("index build on pooled connection %d fails: %v", i, err)
		}
	}
	return ""
}

func diffNames(a, b []string) (created, removed []string) {
	in := func(s []string, x string) bool {
		for _, y := range s {
			if y == x {
				return true
			}
		}
		return false
	}
	for _, x := range b {
		if !in(a, x) {
			created = append(created, x)
		}
	}
	for _, x := range a {
		if !in(b, x) {
			removed = append(removed, x)
		}
	}
	return
}

func clipQ(s string) string {
	s = strings.ReplaceAll(s, "\n", "\\n")
	if len(s) > 160 {
		return fmt.Sprintf("%q…(%d bytes)", s[:160], len(s))
	}
	return fmt.Sprintf("%q", s)
}

func firstDiff(a, b string) string {
	la, lb := strings.Split(a, "\n"), strings.Split(b, "\n")
	for i := 0; i < len(la) || i < len(lb); i++ {
		var x, y string
		if i < len(la) {
			x = la[i]
		}
		if i < len(lb) {
			y = lb[i]
		}
		if x != y {
			return fmt.Sprintf("line %d: %s -> %s", i, clipQ(x), clipQ(y))
		}
	}
	return "same"
}

func init() {
	lib.Register(&lib.Check{
		ID:    "C37",
		Level: "fault_enumeration",
		Rule: fmt.Sprintf("full product of %d statements (SELECT, WITH..SELECT, WITH..INSERT/UPDATE/DELETE/REPLACE..RETURNING, INSERT, UPDATE, DELETE, REPLACE, DROP, CREATE*, ALTER, writable PRAGMAs and pragma table functions, ATTACH/DETACH, VACUUM [INTO], REINDEX, ANALYZE, BEGIN/COMMIT/ROLLBACK/SAVEPOINT, file-touching SQL functions) x %d wrappers "+
			"(case, leading paren/comment/whitespace, trailing semicolons/comments, two statements, ';' in a literal, CTE prefix, nested/recursive CTE, EXPLAIN, subquery, UNION, NUL) [thorough: x every ordered pair of 14 of them], plus result-size cases (1e5-row recursive CTE with the LIMIT hidden in a literal/comment/own LIMIT, wide rows, oversized cells, zeroblob, 2000/5000 columns, long aliases, long recorded column names) and a request cancelled in mid-query [thorough: the tool's own 15 s timeout]. "+
			"Each case = fresh trace file opened by the real daisen2.NewReplayServer (writable WAL pool), one call through the real tool dispatch; oracle: sha256 of the database file and -wal unchanged, directory listing unchanged, full logical dump through an independent read-only connection unchanged, result <= 1000 rows and body <= 64 KiB after the summary line, and afterwards every pooled connection of the server can still read and build an index. Every (statement, wrapper) text is a distinct case.",
			len(c37Stmts), len(c37Wraps)),
		Sharded:     true,
		MinOutcomes: 12,
		Assumptions: []string{
			"the -shm file is compared by name only: SQLite readers update its read marks by design",
			"row counting assumes no newline inside a cell, true for every enumerated size case",
			"mid-query cancellation is triggered 300 ms after the call starts; the query it interrupts (3e6-step recursive CTE, tens of seconds) cannot finish in that time; if the cancellation were lost the case would only be slow, not failing",
		},
		Run: func(c *lib.Ctx) {
			defer lib.CleanScratch()
			lib.Cases(c, func(yield func(c37Case) bool) { c37Enumerate(c, yield) }, runC37Case)
		},
		Replay: func(c *lib.Ctx, raw json.RawMessage) []lib.Problem {
			defer lib.CleanScratch()
			return lib.ReplayCases(runC37Case)(c, raw)
		},
	})
}

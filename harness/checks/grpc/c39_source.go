package grpc

import (
	"bytes"
	"context"
	"encoding/json"
	"fmt"
	"io"
	"net/http"
	"net/http/httptest"
	"net/url"
	"os"
	"path/filepath"
	"reflect"
	"regexp"
	"sort"
	"strconv"
	"strings"
	"sync"
	"syscall"
	"time"

	"github.com/sarchlab/akita/v5/daisen2"
	"github.com/sarchlab/akita/v5/sourcefs"

	"verif/harness/lib"
)

// C39: the source tools only serve the recorded source, within bounds.

type c39Case struct {
	Group    string `json:"group"` // request | search | hostile | roundtrip
	Scenario string `json:"scenario,omitempty"`
	Tool     string `json:"tool,omitempty"` // code_read | code_ls | http-read | http-ls | http-read-raw | http-ls-raw
	Path     string `json:"path"`
	Start    int    `json:"start,omitempty"`
	End      int    `json:"end,omitempty"`
	Query    string `json:"query,omitempty"`
	Filter   string `json:"filter,omitempty"`
	Mode     string `json:"mode,omitempty"`    // hostile: open | readarchive
	Names    []int  `json:"names,omitempty"`   // roundtrip: indices into rtNames
	Content  string `json:"content,omitempty"` // roundtrip: content kind
	Thorough bool   `json:"thorough,omitempty"`
}

// ---- request-path lattice -----------------------------------------------------------------

var c39Segments = []string{"", ".", "..", "r", "a", "b", "x.go", "..\\a", "a\x00", "%2e%2e", strings.Repeat("L", 5000)}

func c39Paths(depth int) []string {
	var out []string
	var rec func(prefix []string, d int)
	rec = func(prefix []string, d int) {
		if len(prefix) > 0 {
			p := strings.Join(prefix, "/")
			out = append(out, p, "/"+p)
		}
		if d == depth {
			return
		}
		for _, s := range c39Segments {
			rec(append(append([]string{}, prefix...), s), d+1)
		}
	}
	rec(nil, 0)
	return out
}

// resolveRequest is the reference reading of a request path: escapes=true for
// absolute paths and paths that climb above the recorded tree.
func resolveRequest(p string) (resolved string, escapes bool) {
	k, ok := cleanJoin(p)
	if strings.HasPrefix(p, "/") || !ok {
		return "", true
	}
	return k, false
}

// percentDecode decodes %XX the way a query string is decoded (the lattice has no '+', '&', ';').
func percentDecode(s string) (string, bool) {
	var b strings.Builder
	for i := 0; i < len(s); i++ {
		if s[i] == '%' {
			if i+2 > len(s)-1 {
				return "", false
			}
			v, err := strconv.ParseUint(s[i+1:i+3], 16, 8)
			if err != nil {
				return "", false
			}
			b.WriteByte(byte(v))
			i += 2
			continue
		}
		b.WriteByte(s[i])
	}
	return b.String(), true
}

// ---- scenario servers, one per worker process ---------------------------------------------------

type scenarioEnv struct {
	s       scenario
	model   *fileModel
	srv     *daisen2.Server
	mux     *http.ServeMux
	crashed string // non-empty: opening this scenario kills the process (observed in a child)
}

var (
	c39EnvMu sync.Mutex
	c39Envs  = map[string]*scenarioEnv{}
)

func getScenarioEnv(name string, thorough bool) *scenarioEnv {
	c39EnvMu.Lock()
	defer c39EnvMu.Unlock()
	key := fmt.Sprintf("%s/%v", name, thorough)
	if e, ok := c39Envs[key]; ok {
		return e
	}
	s, ok := scenarioByName(name, thorough)
	if !ok {
		panic("unknown scenario " + name)
	}
	e := &scenarioEnv{s: s, model: buildModel(s)}
	c39Envs[key] = e
	// first in a child: if the real loader dies on this archive, do not die with it
	if crashed, how := sharedProbe(s, thorough); crashed {
		e.crashed = how
		return e
	}
	dir, err := os.MkdirTemp(lib.ScratchDir(), "c39-")
	if err != nil {
		panic(err)
	}
	defer os.RemoveAll(dir)
	srv, err := openScenario(s, dir)
	if err != nil {
		panic(err)
	}
	e.srv = srv
	e.mux = http.NewServeMux()
	srv.RegisterTraceAPIRoutes(e.mux)
	return e
}

// sharedProbe opens the scenario once in a child process and shares the verdict
// with the sibling worker processes through a lock file (starting this binary
// costs about a second in the sandbox, so not every worker probes every scenario).
// Well-formed scenarios are not probed.
var c39ProbeDir string

func sharedProbe(s scenario, thorough bool) (crashed bool, how string) {
	switch s.Name {
	case "normal", "empty-root", "deep-root", "two-roots", "file-5mib", "file-at-cap":
		return false, ""
	}
	if c39ProbeDir == "" {
		c39ProbeDir = filepath.Join(filepath.Dir(lib.ScratchDir()), fmt.Sprintf("verif-c39-probe-%d", os.Getppid()))
	}
	_ = os.MkdirAll(c39ProbeDir, 0o755)
	f, err := os.OpenFile(filepath.Join(c39ProbeDir, fmt.Sprintf("%s-%v.probe", s.Name, thorough)), os.O_CREATE|os.O_RDWR, 0o644)
	if err != nil {
		panic(err)
	}
	defer f.Close()
	if err := syscall.Flock(int(f.Fd()), syscall.LOCK_EX); err != nil {
		panic(err)
	}
	defer syscall.Flock(int(f.Fd()), syscall.LOCK_UN)
	if b, _ := io.ReadAll(f); len(b) > 0 {
		if string(b) == "ok" {
			return false, ""
		}
		return true, string(b)
	}
	_, crashed, how = runChild(childTask{Mode: "open", Scenario: s}, 5*time.Minute)
	verdict := "ok"
	if crashed {
		if how == "" || how == "ok" {
			how = "child died"
		}
		verdict = how
	}
	_, _ = f.WriteAt([]byte(verdict), 0)
	return crashed, how
}

// ---- independent re-implementations of the documented output annotations -----------------

func refCountLines(b []byte) int {
	if len(b) == 0 {
		return 0
	}
	n := bytes.Count(b, []byte("\n"))
	if b[len(b)-1] != '\n' {
		n++
	}
	return n
}

func refLines(b []byte) []string {
	if len(b) == 0 {
		return nil
	}
	l := strings.Split(string(b), "\n")
	if l[len(l)-1] == "" {
		l = l[:len(l)-1]
	}
	return l
}

var (
	readHeaderRe = regexp.MustCompile(`^(.*) \(lines (\d+)-(\d+) of (\d+)\):$`)
	lsHeaderRe   = regexp.MustCompile(`^(.*) — (\d+) dir\(s\), (\d+) file\(s\):$`)
	lsFileRe     = regexp.MustCompile(`^(\d+) lines, `)
	isFileRe     = regexp.MustCompile(`^(.*) is a file, not a directory\.`)
	emptyRe      = regexp.MustCompile(`^(.*) is empty \(0 lines\)\.$`)
	pastEndRe    = regexp.MustCompile(`^(.*) has (\d+) lines; start_line`)
	searchLineRe = regexp.MustCompile(`^([^:]+):(\d+): (.*)$`)
)

type verdicts struct {
	cs    c39Case
	probs []lib.Problem
}

func toolClass(t string) string {
	switch {
	case strings.HasPrefix(t, "code_"):
		return "agent-tool"
	case strings.HasPrefix(t, "http-"):
		return "http"
	}
	return t
}

func (v *verdicts) bad(clause, format string, a ...any) {
	v.probs = append(v.probs, lib.Problem{
		Key:  fmt.Sprintf("source:%s:%s:%s", clause, toolClass(v.cs.Tool), v.cs.Scenario),
		What: fmt.Sprintf("[%s %s path=%s] ", v.cs.Scenario, v.cs.Tool, clipQ(v.cs.Path)) + fmt.Sprintf(format, a...),
	})
}

// checkServedLines: the lines shown for name, starting at 1-based line `from`,
// must be the recorded lines of one recorded content of that name.
func (v *verdicts) checkServedLines(m *fileModel, name string, from int, shown []string, total int) {
	cands := m.contents[name]
	if len(m.acceptable[name]) == 0 {
		v.bad("serves-unrecorded-name", "content is served under %s, which no recorded file has", clipQ(name))
		return
	}
	for _, c := range cands {
		l := refLines(c)
		if total >= 0 && total != len(l) {
			continue
		}
		if from < 1 || from-1+len(shown) > len(l) {
			continue
		}
		if reflect.DeepEqual(shown, l[from-1:from-1+len(shown)]) || len(shown) == 0 {
			return
		}
	}
	if len(cands) == 0 {
		// only large filler files carry this name: every shown line must be filler
		for _, s := range shown {
			if strings.Trim(s, "z") != "" {
				v.bad("serves-wrong-content", "%s shows %s, the recorded file holds only filler", clipQ(name), clipQ(s))
				return
			}
		}
		return
	}
	first := ""
	if len(shown) > 0 {
		first = shown[0]
	}
	v.bad("serves-wrong-content", "%s lines %d.. (%d shown, first %s) match no recorded content of that name", clipQ(name), from, len(shown), clipQ(first))
}

func (v *verdicts) checkName(m *fileModel, resolved string, escapes bool, claimed string) {
	if escapes {
		v.bad("escaping-path-served", "the request escapes the recorded tree but was answered for %s", clipQ(claimed))
		return
	}
	if claimed != resolved {
		v.bad("serves-other-path", "the request names %s but the answer is for %s", clipQ(resolved), clipQ(claimed))
	}
}

// ---- one request case ---------------------------------------------------------------------

func runRequestCase(cs c39Case) (string, []lib.Problem) {
	env := getScenarioEnv(cs.Scenario, cs.Thorough)
	v := &verdicts{cs: cs}
	if env.crashed != "" {
		return "scenario-crashes", []lib.Problem{{Key: "source:open-crashes-or-exhausts-memory:" + cs.Scenario,
			What: fmt.Sprintf("opening scenario %s with the real server kills the process: %s", cs.Scenario, env.crashed)}}
	}
	m := env.model
	reqPath := cs.Path
	raw := strings.HasSuffix(cs.Tool, "-raw")
	if raw {
		d, ok := percentDecode(cs.Path)
		if !ok {
			return "raw-undecodable", nil
		}
		reqPath = d
	}
	resolved, escapes := resolveRequest(reqPath)

	var out string
	var status int
	msg, where := lib.CatchStack(func() {
		switch cs.Tool {
		case "code_read":
			args := map[string]any{"reason": "verif", "path": cs.Path}
			if cs.Start != 0 {
				args["start_line"] = cs.Start
			}
			if cs.End != 0 {
				args["end_line"] = cs.End
			}
			b, _ := json.Marshal(args)
			out = daisen2.VerifRunAgentTool(context.Background(), env.srv, "code_read", string(b))
		case "code_ls":
			b, _ := json.Marshal(map[string]any{"reason": "verif", "path": cs.Path})
			out = daisen2.VerifRunAgentTool(context.Background(), env.srv, "code_ls", string(b))
		default:
			route := "/api/code/read"
			if strings.HasPrefix(cs.Tool, "http-ls") {
				route = "/api/code/ls"
			}
			q := "path=" + url.QueryEscape(cs.Path)
			if raw {
				q = "path=" + cs.Path
			}
			req := httptest.NewRequest("GET", "http://daisen.test"+route, nil)
			req.URL.RawQuery = q
			rec := httptest.NewRecorder()
			env.mux.ServeHTTP(rec, req)
			status, out = rec.Code, rec.Body.String()
		}
	})
	if msg != "" {
		v.bad("panic", "panicked: %s at %s", msg, where)
		return cs.Tool + "/panic", v.probs
	}

	var outcome string
	switch cs.Tool {
	case "code_read":
		outcome = v.judgeToolRead(m, resolved, escapes, out)
	case "code_ls":
		outcome = v.judgeToolLs(m, resolved, escapes, out)
	case "http-read", "http-read-raw":
		outcome = v.judgeHTTPRead(m, resolved, escapes, status, out)
	case "http-ls", "http-ls-raw":
		outcome = v.judgeHTTPLs(m, resolved, escapes, reqPath, status, out)
	}
	pathClass := "inside"
	if escapes {
		pathClass = "escaping"
	}
	return cs.Tool + "/" + pathClass + "/" + outcome, v.probs
}

func (v *verdicts) judgeToolRead(m *fileModel, resolved string, escapes bool, out string) string {
	first, rest, _ := strings.Cut(out, "\n")
	switch {
	case strings.HasPrefix(out, "Error: "):
		return "refused"
	case strings.HasPrefix(out, "File not found: "):
		return "not-found"
	case strings.HasPrefix(out, "No simulator source is recorded"):
		return "no-source"
	}
	if mm := emptyRe.FindStringSubmatch(first); mm != nil {
		v.checkName(m, resolved, escapes, mm[1])
		v.checkServedLines(m, mm[1], 1, nil, 0)
		return "empty-file"
	}
	if mm := pastEndRe.FindStringSubmatch(first); mm != nil {
		v.checkName(m, resolved, escapes, mm[1])
		return "past-end"
	}
	mm := readHeaderRe.FindStringSubmatch(first)
	if mm == nil {
		v.bad("unrecognised-output", "code_read answered %s", clipQ(out))
		return "unrecognised"
	}
	name := mm[1]
	from, _ := strconv.Atoi(mm[2])
	total, _ := strconv.Atoi(mm[4])
	var shown []string
	for _, row := range strings.Split(strings.TrimSuffix(rest, "\n"), "\n") {
		if row == "" && rest == "" {
			break
		}
		if strings.HasPrefix(row, "[") { // footer
			continue
		}
		_, text, ok := strings.Cut(row, "\t")
		if !ok {
			v.bad("unrecognised-output", "row without line number: %s", clipQ(row))
			continue
		}
		shown = append(shown, text)
	}
	v.checkName(m, resolved, escapes, name)
	v.checkServedLines(m, name, from, shown, total)
	// documented bound of one read
	if len(out) > 24<<10+200 {
		v.bad("read-cap-exceeded", "code_read returned %d bytes (documented cap 24 KiB)", len(out))
	}
	return "served"
}

func (v *verdicts) judgeToolLs(m *fileModel, resolved string, escapes bool, out string) string {
	first, rest, _ := strings.Cut(out, "\n")
	switch {
	case strings.HasPrefix(out, "Error: "):
		return "refused"
	case strings.HasPrefix(out, "Directory not found: "):
		return "not-found"
	case strings.HasPrefix(out, "No simulator source is recorded"):
		return "no-source"
	case strings.HasPrefix(out, "Could not list "):
		return "could-not-list"
	case strings.HasPrefix(out, "Recorded module root(s)"):
		for _, l := range strings.Split(strings.TrimSuffix(rest, "\n"), "\n") {
			if r := strings.TrimSuffix(l, "/"); !m.roots[r] {
				v.bad("lists-unrecorded-root", "root listing shows %s", clipQ(r))
			}
		}
		return "root-listing"
	}
	if mm := isFileRe.FindStringSubmatch(first); mm != nil {
		v.checkName(m, resolved, escapes, mm[1])
		if len(m.acceptable[mm[1]]) == 0 {
			v.bad("serves-unrecorded-name", "code_ls says %s is a file; no recorded file has that name", clipQ(mm[1]))
		}
		return "is-file"
	}
	mm := lsHeaderRe.FindStringSubmatch(first)
	if mm == nil {
		v.bad("unrecognised-output", "code_ls answered %s", clipQ(out))
		return "unrecognised"
	}
	dir := mm[1]
	if dir == "(root)" {
		dir = "."
	}
	if dir != "." {
		v.checkName(m, resolved, escapes, dir)
	}
	kids := m.children(dir)
	for _, l := range strings.Split(strings.TrimSuffix(rest, "\n"), "\n") {
		if l == "" || strings.HasPrefix(l, "[") {
			continue
		}
		name, ann, isFile := strings.Cut(l, "\t")
		if !isFile {
			name = strings.TrimSuffix(l, "/")
		}
		if !kids[name] {
			v.bad("lists-unrecorded-name", "listing of %s shows %s, which no recorded file is or lies under", clipQ(dir), clipQ(name))
			continue
		}
		if isFile {
			full := name
			if dir != "." {
				full = dir + "/" + name
			}
			if fm := lsFileRe.FindStringSubmatch(ann); fm != nil && len(m.contents[full]) > 0 {
				n, _ := strconv.Atoi(fm[1])
				ok := false
				for _, c := range m.contents[full] {
					if refCountLines(c) == n {
						ok = true
					}
				}
				if !ok {
					v.bad("serves-wrong-content", "listing annotates %s with %d lines, no recorded content of it has that many", clipQ(full), n)
				}
			}
		}
	}
	if len(out) > 16<<10+300 {
		v.bad("ls-cap-exceeded", "code_ls returned %d bytes (documented cap 16 KiB)", len(out))
	}
	return "listing"
}

func (v *verdicts) judgeHTTPRead(m *fileModel, resolved string, escapes bool, status int, out string) string {
	if status != http.StatusOK {
		return fmt.Sprintf("status-%d", status)
	}
	var resp struct {
		Path    string `json:"path"`
		Content string `json:"content"`
		Lines   int    `json:"lines"`
	}
	if err := json.Unmarshal([]byte(out), &resp); err != nil {
		v.bad("unrecognised-output", "200 with a body that is not the documented JSON: %v", err)
		return "unrecognised"
	}
	v.checkName(m, resolved, escapes, resp.Path)
	acc := m.acceptable[resp.Path]
	if len(acc) == 0 {
		v.bad("serves-unrecorded-name", "/api/code/read serves %s, which no recorded file has", clipQ(resp.Path))
	} else if !acc[sig(hash8([]byte(resp.Content)), int64(len(resp.Content)))] {
		v.bad("serves-wrong-content", "/api/code/read serves %d bytes under %s that are not the recorded content", len(resp.Content), clipQ(resp.Path))
	}
	if len(resp.Content) > 4<<20 {
		v.bad("read-cap-exceeded", "/api/code/read returned %d bytes (documented cap 4 MiB)", len(resp.Content))
	}
	return "served"
}

func (v *verdicts) judgeHTTPLs(m *fileModel, resolved string, escapes bool, reqPath string, status int, out string) string {
	if status != http.StatusOK {
		return fmt.Sprintf("status-%d", status)
	}
	var resp struct {
		Path    string   `json:"path"`
		Roots   []string `json:"roots"`
		Entries []struct {
			Name  string `json:"name"`
			IsDir bool   `json:"is_dir"`
			Size  int64  `json:"size"`
		} `json:"entries"`
	}
	if err := json.Unmarshal([]byte(out), &resp); err != nil {
		v.bad("unrecognised-output", "200 with a body that is not the documented JSON: %v", err)
		return "unrecognised"
	}
	for _, r := range resp.Roots {
		if !m.roots[r] {
			v.bad("lists-unrecorded-root", "roots contains %s", clipQ(r))
		}
	}
	if reqPath == "" || reqPath == "." {
		for _, e := range resp.Entries {
			if !m.roots[e.Name] {
				v.bad("lists-unrecorded-root", "root listing shows %s", clipQ(e.Name))
			}
		}
		return "root-listing"
	}
	if escapes {
		if len(resp.Entries) > 0 {
			v.bad("escaping-path-served", "the request escapes the recorded tree but %d entries were listed", len(resp.Entries))
		}
		return "listing"
	}
	kids := m.children(resolved)
	for _, e := range resp.Entries {
		if !kids[e.Name] {
			v.bad("lists-unrecorded-name", "listing of %s shows %s, which no recorded file is or lies under", clipQ(resolved), clipQ(e.Name))
		}
	}
	return "listing"
}

// ---- search ---------------------------------------------------------------------------------

func runSearchCase(cs c39Case) (string, []lib.Problem) {
	env := getScenarioEnv(cs.Scenario, cs.Thorough)
	cs.Tool = "code_search"
	v := &verdicts{cs: cs}
	if env.crashed != "" {
		return "scenario-crashes", []lib.Problem{{Key: "source:open-crashes-or-exhausts-memory:" + cs.Scenario,
			What: fmt.Sprintf("opening scenario %s with the real server kills the process: %s", cs.Scenario, env.crashed)}}
	}
	m := env.model
	var out string
	b, _ := json.Marshal(map[string]any{"reason": "verif", "query": cs.Query, "path_contains": cs.Filter})
	if msg, where := lib.CatchStack(func() { out = daisen2.VerifRunAgentTool(context.Background(), env.srv, "code_search", string(b)) }); msg != "" {
		v.bad("panic", "code_search(%s, %s) panicked: %s at %s", clipQ(cs.Query), clipQ(cs.Filter), msg, where)
		return "search/panic", v.probs
	}
	switch {
	case strings.HasPrefix(out, "Error: "):
		return "search/refused", nil
	case strings.HasPrefix(out, "No matches for "):
		return "search/no-match", nil
	case strings.HasPrefix(out, "No simulator source is recorded"):
		return "search/no-source", nil
	}
	first, rest, _ := strings.Cut(out, "\n")
	if !strings.HasSuffix(first, " match(es):") {
		v.bad("unrecognised-output", "code_search answered %s", clipQ(out))
		return "search/unrecognised", v.probs
	}
	n := 0
	for _, l := range strings.Split(strings.TrimSuffix(rest, "\n"), "\n") {
		if strings.HasPrefix(l, "[truncated") || l == "" {
			continue
		}
		mm := searchLineRe.FindStringSubmatch(l)
		if mm == nil {
			v.bad("unrecognised-output", "match line %s", clipQ(l))
			continue
		}
		n++
		name, snippet := mm[1], mm[3]
		lineNo, _ := strconv.Atoi(mm[2])
		if len(m.acceptable[name]) == 0 {
			v.bad("serves-unrecorded-name", "code_search reports a match in %s, which no recorded file has", clipQ(name))
			continue
		}
		if cs.Filter != "" && !strings.Contains(name, cs.Filter) {
			v.bad("search-ignores-filter", "match in %s although path_contains is %s", clipQ(name), clipQ(cs.Filter))
		}
		ok := len(m.contents[name]) == 0
		for _, c := range m.contents[name] {
			l := refLines(c)
			if lineNo >= 1 && lineNo <= len(l) {
				want := strings.TrimSpace(l[lineNo-1])
				if len(want) > 300 {
					want = want[:300] + "…"
				}
				if want == snippet {
					ok = true
				}
			}
		}
		if !ok {
			v.bad("serves-wrong-content", "code_search shows %s:%d: %s, which is not that line of the recorded file", clipQ(name), lineNo, clipQ(snippet))
		}
	}
	if len(out) > 16<<10+200 {
		v.bad("search-cap-exceeded", "code_search returned %d bytes (documented cap 16 KiB)", len(out))
	}
	if n > 60 {
		v.bad("search-cap-exceeded", "code_search returned %d matches (documented cap 60)", n)
	}
	return "search/matches", v.probs
}

// ---- hostile archives, in a child process ----------------------------------------------------

const allocBudget = 768 * mib // cumulative allocation allowed for reading one archive = 8x the documented 96 MiB cap (a legitimate 96 MiB archive costs about 250 MiB because io.ReadAll grows its buffer geometrically)

func runHostileCase(cs c39Case) (string, []lib.Problem) {
	s, ok := scenarioByName(cs.Scenario, cs.Thorough)
	if !ok {
		panic("unknown scenario " + cs.Scenario)
	}
	cs.Tool = cs.Mode
	v := &verdicts{cs: cs}
	m := buildModel(s)
	task := childTask{Mode: cs.Mode, Scenario: s, Probe: probeNames(s)}
	if cs.Mode == "readarchive" {
		// ReadArchive sees one archive: the model is that row alone, names uncleaned
		s1 := scenario{Name: s.Name, Rows: s.Rows[:1]}
		task.Scenario = s1
	}
	rep, crashed, how := runChild(task, 10*time.Minute)
	if crashed {
		return cs.Mode + "/crashed", []lib.Problem{{Key: "source:open-crashes-or-exhausts-memory:" + cs.Scenario,
			What: fmt.Sprintf("%s of scenario %s kills the process: %s", cs.Mode, cs.Scenario, how)}}
	}
	if cs.Mode == "readarchive" {
		return v.judgeReadArchive(s, rep), v.probs
	}
	check := func(where string, files map[string]servedFile) {
		for name, f := range files {
			if m.oversized[f.Sig] {
				v.bad("oversized-entry-served", "%s: %s serves an entry larger than the documented %d-byte cap", where, clipQ(name), archiveFileCap)
				continue
			}
			acc := m.acceptable[name]
			if len(acc) == 0 {
				v.bad("serves-unrecorded-name", "%s: a file is served as %s, which no recorded regular file has (even after cleaning its name)", where, clipQ(name))
			} else if !acc[f.Sig] {
				v.bad("serves-wrong-content", "%s: %s serves content %s, not a recorded content of that name", where, clipQ(name), f.Sig)
			}
		}
	}
	check("walk", rep.Walk)
	check("direct read", rep.Direct)
	for _, r := range rep.Roots {
		if !m.roots[r] {
			v.bad("lists-unrecorded-root", "Roots contains %s", clipQ(r))
		}
	}
	if rep.TotalBytes > int64(len(s.Rows))*archiveTotalCap {
		v.bad("total-cap-exceeded", "%d bytes are held for %d archives (documented cap %d each)", rep.TotalBytes, len(s.Rows), archiveTotalCap)
	}
	outcome := "served"
	for name := range rep.Walk {
		if m.traversalKeys[name] {
			outcome = "served-incl-cleaned-traversal-names"
		}
	}
	if rep.Empty {
		outcome = "rejected"
	} else if rep.WalkErr != "" {
		outcome = "served-walk-error"
	}
	return "open/" + outcome, v.probs
}

func (v *verdicts) judgeReadArchive(s scenario, rep childReport) string {
	// model for a bare archive: name -> acceptable contents, names taken literally
	acc := map[string]map[string]bool{}
	over := map[string]bool{}
	var total int64
	for _, e := range s.Rows[0].Entries {
		if e.Type != "" {
			continue
		}
		var sg string
		if e.Bytes > 0 {
			sg = sig(fillerHash(e.Bytes), e.Bytes)
			if e.Bytes > archiveFileCap {
				over[sg] = true
			}
			total += e.Bytes
		} else {
			c := entryContent(s.Name, s.Rows[0].Root, e)
			sg = sig(hash8(c), int64(len(c)))
			total += int64(len(c))
		}
		if acc[e.Name] == nil {
			acc[e.Name] = map[string]bool{}
		}
		acc[e.Name][sg] = true
	}
	for name, f := range rep.Walk {
		if over[f.Sig] {
			v.bad("oversized-entry-served", "ReadArchive returned %s, larger than the documented %d-byte cap", clipQ(name), archiveFileCap)
		} else if !acc[name][f.Sig] {
			v.bad("serves-wrong-content", "ReadArchive returned %s with content %s, not a recorded regular entry of that name", clipQ(name), f.Sig)
		}
	}
	if rep.TotalBytes > archiveTotalCap {
		v.bad("total-cap-exceeded", "ReadArchive returned %d bytes in total (documented cap %d)", rep.TotalBytes, archiveTotalCap)
	}
	if rep.TotalAlloc > allocBudget {
		v.bad("allocation-unbounded", "ReadArchive allocated %d MiB while reading (budget %d MiB = 8x the documented total cap)", rep.TotalAlloc/mib, allocBudget/mib)
	}
	if rep.Err != "" {
		return "readarchive/rejected"
	}
	return "readarchive/accepted"
}

// ---- write -> read round trip -------------------------------------------------------------------

var rtNames = []string{
	"a.go", "go.mod", "dir/b.go", "dir/sub/c.go", "sp ace.go", "ü/ñ.go", "back\\slash.go",
	strings.Repeat("n", 100) + ".go",                        // > 100 bytes: needs more than the plain name field
	strings.Repeat("d", 90) + "/" + strings.Repeat("f", 90), // prefix/name split
	strings.Repeat("p/", 140) + "deep.go",                   // > 255 bytes: PAX
}

// rtNames2 selects the name alphabet of the subset enumeration: quick uses 7
// names that still cover every header form (plain, >100 bytes, prefix split, PAX).
func rtNames2(c *lib.Ctx) []int {
	if c.Thorough() {
		return []int{0, 1, 2, 3, 4, 5, 6, 7, 8, 9}
	}
	return []int{0, 2, 3, 5, 7, 8, 9}
}

func rtContent(kind string, i int) []byte {
	switch kind {
	case "empty":
		return []byte{}
	case "binary":
		b := make([]byte, 3000+i)
		for k := range b {
			b[k] = byte(k*7 + i)
		}
		return b
	case "big":
		return bytes.Repeat([]byte{byte('A' + i)}, mib+i)
	}
	return []byte(fmt.Sprintf("package p%d\n\n// file %d\nfunc F%d() {}\n", i, i, i))
}

func runRoundTripCase(cs c39Case) (string, []lib.Problem) {
	cs.Tool, cs.Scenario = "archive", cs.Content
	v := &verdicts{cs: cs}
	want := map[string][]byte{}
	build := func(order []int) map[string][]byte {
		m := make(map[string][]byte)
		for _, i := range order {
			m[rtNames[i]] = rtContent(cs.Content, i)
		}
		return m
	}
	for _, i := range cs.Names {
		want[rtNames[i]] = rtContent(cs.Content, i)
	}
	rev := append([]int{}, cs.Names...)
	sort.Sort(sort.Reverse(sort.IntSlice(rev)))
	var first []byte
	reps := 3
	if cs.Thorough {
		reps = 6
	}
	for rep := 0; rep < reps; rep++ {
		order := cs.Names
		if rep%2 == 1 {
			order = rev
		}
		var buf bytes.Buffer
		var err error
		if msg := lib.Catch(func() { err = sourcefs.WriteArchive(&buf, build(order)) }); msg != "" {
			v.bad("panic", "WriteArchive panicked: %s", msg)
			return "roundtrip/panic", v.probs
		}
		if err != nil {
			v.bad("write-fails", "WriteArchive of valid relative names %v fails: %v", cs.Names, err)
			return "roundtrip/write-error", v.probs
		}
		if rep == 0 {
			first = append([]byte{}, buf.Bytes()...)
		} else if !bytes.Equal(first, buf.Bytes()) {
			v.bad("write-not-deterministic", "WriteArchive produced different bytes for the same files (names %v, repetition %d)", cs.Names, rep)
			return "roundtrip/nondeterministic", v.probs
		}
	}
	var got map[string][]byte
	var err error
	if msg := lib.Catch(func() { got, err = sourcefs.ReadArchive(first) }); msg != "" {
		v.bad("panic", "ReadArchive panicked: %s", msg)
		return "roundtrip/panic", v.probs
	}
	if err != nil {
		v.bad("read-back-fails", "ReadArchive rejects what WriteArchive wrote (names %v): %v", cs.Names, err)
		return "roundtrip/read-error", v.probs
	}
	if len(got) != len(want) {
		v.bad("read-back-differs", "wrote %d files, read back %d", len(want), len(got))
	}
	for name, c := range want {
		g, ok := got[name]
		if !ok {
			v.bad("read-back-differs", "%s was written but not read back", clipQ(name))
		} else if !bytes.Equal(g, c) {
			v.bad("read-back-differs", "%s reads back with different content (%d vs %d bytes)", clipQ(name), len(g), len(c))
		}
	}
	return fmt.Sprintf("roundtrip/ok-%d-files-%s", len(want), cs.Content), v.probs
}

// ---- enumeration -------------------------------------------------------------------------------

var c39Millis = map[string]int64{}

func runC39Case(cs c39Case) (string, []lib.Problem) {
	t0 := time.Now()
	defer func() { c39Millis[cs.Group] += time.Since(t0).Milliseconds() }()
	switch cs.Group {
	case "request":
		return runRequestCase(cs)
	case "search":
		return runSearchCase(cs)
	case "hostile":
		return runHostileCase(cs)
	case "roundtrip":
		return runRoundTripCase(cs)
	}
	panic("unknown group " + cs.Group)
}

var (
	// scenarios served in-process to the request lattice
	c39RequestScenarios = []string{"normal", "empty-root", "traversal", "cross-root", "file-dir-conflict", "duplicates"}
	c39SearchQueries    = []string{"MARK", "line 1 of", "^", "x\\.go", ".*", "(", "", " ", "\x00", "[z]+", "(?i)mark", "esc|abs|bs"}
	c39SearchFilters    = []string{"", "r/", "a/b", "..", "/", "x.go", "\\", "esc"}
)

func c39Enumerate(c *lib.Ctx, yield func(c39Case) bool) {
	th := c.Thorough()
	// (1) hostile and well-formed archives through ReadArchive and through the server's loader
	for _, s := range c39Scenarios(th) {
		for _, mode := range []string{"readarchive", "open"} {
			if mode == "readarchive" && (s.Rows[0].Raw == "not-base64") {
				continue
			}
			if !yield(c39Case{Group: "hostile", Scenario: s.Name, Mode: mode, Thorough: th}) {
				return
			}
		}
	}
	// (2) write -> read round trip: every non-empty subset of the name alphabet x content kind
	kinds := []string{"text", "empty", "binary"}
	nNames := lib.Pick(c, 7, len(rtNames))
	for _, k := range kinds {
		for mask := 1; mask < 1<<nNames; mask++ {
			var names []int
			for i := 0; i < nNames; i++ {
				if mask&(1<<i) != 0 {
					names = append(names, rtNames2(c)[i])
				}
			}
			if !yield(c39Case{Group: "roundtrip", Names: names, Content: k, Thorough: th}) {
				return
			}
		}
	}
	for i := range rtNames {
		if !yield(c39Case{Group: "roundtrip", Names: []int{i, (i + 1) % len(rtNames)}, Content: "big", Thorough: th}) {
			return
		}
	}
	// (3) request-path lattice x tool x scenario
	depth := lib.Pick(c, 2, 3)
	paths := c39Paths(depth)
	paths = append(paths, "", "/", "//", "r/a/x.go", "r/a/b/x.go", "r/../r/x.go", "r/a/../x.go", "r/a/b/../../../r/x.go", "r/a/b/../../../../r/x.go",
		"./r/x.go", "r/x.go/", "r//x.go", "a/x.go", "a/b/x.go", "s/x.go", "s/../r/x.go", "r/esc.go", "esc.go", "r/abs.go", "abs.go")
	tools := []string{"code_read", "code_ls", "http-read", "http-ls"}
	for _, scn := range c39RequestScenarios {
		for _, t := range tools {
			for _, p := range paths {
				if !yield(c39Case{Group: "request", Scenario: scn, Tool: t, Path: p, Thorough: th}) {
					return
				}
			}
		}
		// the same lattice placed undecoded into the query string (so %2e%2e is decoded by the server)
		for _, t := range []string{"http-read-raw", "http-ls-raw"} {
			for _, p := range paths {
				if strings.ContainsAny(p, " \x00\\ü") || len(p) > 2000 {
					continue
				}
				if !yield(c39Case{Group: "request", Scenario: scn, Tool: t, Path: p, Thorough: th}) {
					return
				}
			}
		}
		// line windows on the 250-line file
		long := "r/a/b/x.go"
		if scn == "empty-root" {
			long = "a/b/x.go"
		}
		for _, st := range []int{0, 1, 2, 200, 250, 251, -1, 1 << 40} {
			for _, en := range []int{0, 1, 199, 250, 1000, -5} {
				if !yield(c39Case{Group: "request", Scenario: scn, Tool: "code_read", Path: long, Start: st, End: en, Thorough: th}) {
					return
				}
			}
		}
	}
	// big recorded files through the tools (caps of the readers)
	for _, scn := range lib.Pick(c, []string{"file-5mib"}, []string{"file-5mib", "file-at-cap"}) {
		for _, t := range tools {
			for _, p := range []string{"r/five.go", "r/cap.go", "r", "r/x.go"} {
				if !yield(c39Case{Group: "request", Scenario: scn, Tool: t, Path: p, Thorough: th}) {
					return
				}
			}
		}
	}
	// (4) search
	for _, scn := range append(append([]string{}, c39RequestScenarios...), "odd-names", "non-regular") {
		for _, q := range c39SearchQueries {
			for _, f := range c39SearchFilters {
				if !yield(c39Case{Group: "search", Scenario: scn, Query: q, Filter: f, Thorough: th}) {
					return
				}
			}
		}
	}
}

func init() {
	lib.Register(&lib.Check{
		ID:    "C39",
		Level: "fault_enumeration",
		Rule: fmt.Sprintf("(1) %d archive scenarios written with archive/tar directly (well-formed; traversal names ../x, a/../../x, /abs, a//b, ./a, .., backslash, %%2e%%2e; empty, '.', '../up' and absolute roots; cross-root traversal; duplicates within and across rows; file/directory conflicts; symlink/hardlink/dir/device/fifo/contiguous entries; entries of 5 MiB, exactly 8 MiB, 8 MiB+1; 13x8 MiB total; a generated 512 MiB [thorough 4 GiB] single-entry bomb; garbage, empty, truncated, non-base64 rows) each read by sourcefs.ReadArchive and opened by the real daisen2.NewReplayServer in a child process, whose crash / runaway stack / >3 GiB runtime memory is the observation; "+
			"(2) write->read round trip for every non-empty subset of 7 [thorough %d] valid relative names x {text, empty, binary} contents (+1 MiB contents), 3 [thorough 6] writes per case alternating two map insertion orders, bytes must be identical and ReadArchive must return exactly the files; "+
			"(3) request paths = every sequence of <= 2 [thorough 3] segments over {'', '.', '..', r, a, b, x.go, '..\\\\a', 'a<NUL>', '%%2e%%2e', 5000 x 'L'} with and without a leading '/', plus hand-picked paths, x {code_read, code_ls via the real tool dispatch; /api/code/read, /api/code/ls via the real mux, escaped and undecoded query} x %d in-process scenarios, plus line windows and oversized files; "+
			"(4) code_search for %d queries x %d path filters x 8 scenarios. Oracle: an independent model (lexical path cleaning; name -> set of recorded contents): every served byte/line/name/annotation must be a recorded regular file's content under its recorded (cleaned) name, nothing is served for absolute or climbing request paths, entries above 8 MiB and archives above 96 MiB are never served, ReadArchive's cumulative allocation stays under %d MiB. Each tuple is a distinct case.",
			len(c39Scenarios(false)), len(rtNames), len(c39RequestScenarios), len(c39SearchQueries), len(c39SearchFilters), allocBudget/mib),
		Sharded:     true,
		MinOutcomes: 25,
		Assumptions: []string{
			"an archive entry whose name still lies inside the recorded tree after lexical cleaning (e.g. root r + ../r/x.go, or a/../inner.go) may be served under its cleaned name; whether such an entry should rather be dropped is recorded as an outcome, not judged",
			"map-order independence of WriteArchive is exercised through two insertion orders and 3 (thorough 6) repetitions per case (Go randomises iteration per range statement), not through an instrumented map seam",
			"tar names containing NUL cannot be expressed in a tar header and are not covered on the archive side (they are on the request side)",
			"a '/' request to code_ls answers with the root listing; listing recorded roots is not treated as serving an escaping path",
		},
		Run: func(c *lib.Ctx) {
			defer lib.CleanScratch()
			defer func() {
				if c39ProbeDir != "" {
					_ = os.RemoveAll(c39ProbeDir)
				}
			}()
			lib.Cases(c, func(yield func(c39Case) bool) { c39Enumerate(c, yield) }, runC39Case)
			for g, ms := range c39Millis {
				c.Add("cpu_ms_"+g, ms)
			}
		},
		Replay: func(c *lib.Ctx, raw json.RawMessage) []lib.Problem {
			defer lib.CleanScratch()
			defer func() {
				if c39ProbeDir != "" {
					_ = os.RemoveAll(c39ProbeDir)
				}
			}()
			return lib.ReplayCases(runC39Case)(c, raw)
		},
	})
}

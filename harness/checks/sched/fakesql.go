package sched

import (
	"database/sql"
	"database/sql/driver"
	"errors"
	"fmt"
	"strings"
)

// A minimal database/sql driver that keeps tables in memory. The concurrent
// half of C35 explores thousands of schedules of the real data recorder; with
// real SQLite every schedule costs ~10 ms (and much more with 16 workers), with
// this back end ~50 us, so the recorder's own statements can be scheduling
// points. It implements exactly the statements the recorder issues while
// writing and the two transaction rules SQLite enforces on them (no nested
// BEGIN, no COMMIT without BEGIN); the SQLite-backed harnesses stay as the
// conformance run against the real database.

type fakeDB struct {
	inTx   bool
	tables map[string][][]driver.Value
	log    []string
}

var fakeDBs = map[string]*fakeDB{}

type fakeDriver struct{}

func init() { sql.Register("veriffake", fakeDriver{}) }

func newFakeDB(name string) (*sql.DB, *fakeDB) {
	f := &fakeDB{tables: map[string][][]driver.Value{}}
	fakeDBs[name] = f
	db, err := sql.Open("veriffake", name)
	if err != nil {
		panic(err)
	}
	db.SetMaxOpenConns(1)
	return db, f
}

func (fakeDriver) Open(dsn string) (driver.Conn, error) {
	f := fakeDBs[dsn]
	if f == nil {
		return nil, fmt.Errorf("veriffake: unknown database %q", dsn)
	}
	return &fakeConn{f}, nil
}

type fakeConn struct{ db *fakeDB }

func (c *fakeConn) Prepare(q string) (driver.Stmt, error) { return &fakeStmt{c.db, q}, nil }
func (c *fakeConn) Close() error                          { return nil }
func (c *fakeConn) Begin() (driver.Tx, error) {
	return nil, errors.New("veriffake: driver-level transactions are not used by the recorder")
}

type fakeStmt struct {
	db *fakeDB
	q  string
}

func (s *fakeStmt) Close() error  { return nil }
func (s *fakeStmt) NumInput() int { return -1 }
func (s *fakeStmt) Query([]driver.Value) (driver.Rows, error) {
	return nil, errors.New("veriffake: queries are not supported")
}

func (s *fakeStmt) Exec(args []driver.Value) (driver.Result, error) {
	q := strings.ToUpper(strings.TrimSpace(s.q))
	s.db.log = append(s.db.log, strings.Fields(q)[0])
	switch {
	case strings.HasPrefix(q, "BEGIN"):
		if s.db.inTx {
			return nil, errors.New("cannot start a transaction within a transaction")
		}
		s.db.inTx = true
	case strings.HasPrefix(q, "COMMIT"):
		if !s.db.inTx {
			return nil, errors.New("cannot commit - no transaction is active")
		}
		s.db.inTx = false
	case strings.HasPrefix(q, "CREATE TABLE"), strings.HasPrefix(q, "CREATE INDEX"), strings.HasPrefix(q, "CREATE UNIQUE INDEX"):
	case strings.HasPrefix(q, "INSERT INTO "):
		name := strings.Fields(strings.TrimSpace(s.q))[2]
		s.db.tables[name] = append(s.db.tables[name], append([]driver.Value(nil), args...))
	default:
		return nil, fmt.Errorf("veriffake: unsupported statement %q", s.q)
	}
	return driver.RowsAffected(1), nil
}

package sched

import (
	"fmt"
	"runtime"

	"github.com/sarchlab/akita/v5/timing"
	"github.com/sarchlab/akita/v5/vsched"

	"verif/harness/lib"
)

// C04: the parallel engine handles every event exactly once, never starts an
// event while an earlier-time event is unfinished, and within an instant never
// starts a secondary while a primary of that instant is unfinished.

type pNode struct {
	Parent int  `json:"p"`
	Sec    bool `json:"s"`
	Dt     int  `json:"d"`
}

type pEvent struct {
	timing.EventBase
	N int
}

type c04State struct {
	clock    int
	enter    []int // logical clock at handler entry (0 = never)
	exit     []int
	count    []int
	schedRet []int // logical clock when Schedule(node) returned (roots: 0)
	time     []uint64
	runDone  bool
}

type c04Handler struct {
	st    *c04State
	eng   *timing.ParallelEngine
	nodes []pNode
	kids  [][]int
}

func (h *c04Handler) Handle(e timing.Event) error {
	st := h.st
	n := e.(pEvent).N
	st.clock++
	st.enter[n] = st.clock
	st.count[n]++
	st.time[n] = uint64(e.Time())
	vsched.Logf("enter %d @%d", n, e.Time())
	vsched.Point()
	for _, k := range h.kids[n] {
		eb := timing.MakeEventBase(e.Time()+timing.VTimeInPicoSec(h.nodes[k].Dt), "h")
		eb.Secondary = h.nodes[k].Sec
		h.eng.Schedule(pEvent{EventBase: eb, N: k})
		st.clock++
		st.schedRet[k] = st.clock
		vsched.Logf("scheduled %d", k)
	}
	vsched.Point()
	st.clock++
	st.exit[n] = st.clock
	vsched.Logf("exit %d", n)
	return nil
}

func c04Harness(name string, nodes []pNode, procs int, bounds []int) *harness {
	st := &c04State{}
	kids := make([][]int, len(nodes))
	for i, n := range nodes {
		if n.Parent >= 0 {
			kids[n.Parent] = append(kids[n.Parent], i)
		}
	}
	return &harness{
		Name:   name,
		Bounds: bounds,
		Body: func() {
			timing.ResetIDGenerator()
			k := len(nodes)
			*st = c04State{enter: make([]int, k), exit: make([]int, k), count: make([]int, k), schedRet: make([]int, k), time: make([]uint64, k)}
			old := runtime.GOMAXPROCS(procs)
			eng := timing.NewParallelEngine()
			runtime.GOMAXPROCS(old)
			eng.RegisterHandler("h", &c04Handler{st: st, eng: eng, nodes: nodes, kids: kids})
			for i, n := range nodes {
				if n.Parent < 0 {
					eb := timing.MakeEventBase(timing.VTimeInPicoSec(n.Dt), "h")
					eb.Secondary = n.Sec
					eng.Schedule(pEvent{EventBase: eb, N: i})
				}
			}
			_ = eng.Run()
			st.runDone = true
			// Run must return only once nothing is left: record the clock now
			st.clock++
			vsched.JoinAll()
		},
		Check: func(x *vsched.Exec) (string, []lib.Problem) {
			var probs []lib.Problem
			bad := func(key, f string, a ...any) {
				probs = append(probs, lib.Problem{Key: "parallel:" + key, What: name + ": " + fmt.Sprintf(f, a...)})
			}
			for i := range nodes {
				if st.count[i] != 1 {
					bad("not-exactly-once", "event %d handled %d times", i, st.count[i])
				}
			}
			if len(probs) > 0 {
				return "count", probs
			}
			for a := range nodes {
				for b := range nodes {
					if a == b {
						continue
					}
					if st.time[a] < st.time[b] && st.exit[a] > st.enter[b] {
						bad("earlier-event-unfinished", "event %d (t=%d) entered before event %d (t=%d) had finished", b, st.time[b], a, st.time[a])
					}
					// a primary, b secondary, same instant
					if !nodes[a].Sec && nodes[b].Sec && st.time[a] == st.time[b] &&
						st.schedRet[a] < st.enter[b] && st.exit[a] > st.enter[b] {
						key := "secondary-before-primary-finished"
						if nodes[a].Parent >= 0 && nodes[nodes[a].Parent].Sec && st.time[nodes[a].Parent] == st.time[a] {
							// the primary was scheduled by a secondary of the same instant
							key = "secondary-started-after-same-instant-secondary-scheduled-a-primary"
							if nodes[b].Parent >= 0 && st.time[nodes[b].Parent] == st.time[b] {
								// b itself was scheduled during this instant: it was not a
								// sibling already dispatched with the scheduling secondary,
								// it belongs to a later round, which runs primaries first
								key = "secondary-scheduled-during-the-instant-started-before-a-primary-of-the-instant"
							}
						}
						bad(key, "secondary %d started at instant %d while primary %d (already scheduled) had not finished", b, st.time[b], a)
					}
				}
			}
			// Run returns only once every event has been handled
			for i := range nodes {
				if st.exit[i] == 0 {
					bad("run-returned-early", "event %d unfinished", i)
				}
			}
			order := ""
			for i := range nodes {
				order += fmt.Sprintf("%d:%d ", st.enter[i], st.exit[i])
			}
			return order, probs
		},
	}
}

func c04Programs(maxN, maxDt int, yield func([]pNode)) {
	for n := 1; n <= maxN; n++ {
		parents := make([]int, n)
		var forests func(i int)
		emitLabels := func() {
			nodes := make([]pNode, n)
			var lab func(i int)
			lab = func(i int) {
				if i == n {
					yield(append([]pNode(nil), nodes...))
					return
				}
				for _, sec := range []bool{false, true} {
					for dt := 0; dt <= maxDt; dt++ {
						nodes[i] = pNode{Parent: parents[i], Sec: sec, Dt: dt}
						lab(i + 1)
					}
				}
			}
			lab(0)
		}
		forests = func(i int) {
			if i == n {
				emitLabels()
				return
			}
			if i == 0 {
				parents[0] = -1
				forests(1)
				return
			}
			p := i - 1
			for {
				parents[i] = p
				forests(i + 1)
				if p == -1 {
					break
				}
				p = parents[p]
			}
		}
		forests(0)
	}
}

func c04Harnesses(c *lib.Ctx) []*harness {
	var hs []*harness
	add := func(nodes []pNode, procs int, bounds []int) {
		name := fmt.Sprintf("p%d", procs)
		for _, n := range nodes {
			cl := "P"
			if n.Sec {
				cl = "S"
			}
			name += fmt.Sprintf("_%d%s%d", n.Parent+1, cl, n.Dt)
		}
		hs = append(hs, c04Harness(name, nodes, procs, bounds))
	}
	// every program with <= 2 events (delays 0..1): deep bounds, both queue counts
	c04Programs(2, 1, func(n []pNode) {
		add(n, 1, []int{0, 1, 2, lib.Pick(c, 3, -1)})
		add(n, 2, []int{0, 1, 2, lib.Pick(c, 3, 4)})
	})
	// every program with exactly 3 events
	c04Programs(3, 1, func(n []pNode) {
		if len(n) < 3 {
			return
		}
		add(n, 2, []int{0, 1, lib.Pick(c, 1, 2)})
		if c.Thorough() {
			add(n, 1, []int{0, 1, 2})
			add(n, 3, []int{0, 1})
		}
	})
	if c.Thorough() {
		// a sample of structurally interesting 4-event programs: all forests, labels restricted to same-instant chains
		c04Programs(4, 0, func(n []pNode) {
			if len(n) < 4 {
				return
			}
			add(n, 2, []int{0, 1})
		})
	}
	return hs
}

func init() {
	lib.Register(&lib.Check{
		ID:    "C04",
		Level: "model_checking",
		Rule: "stateless DFS over goroutine interleavings (iterative preemption bounding) of the real ParallelEngine running every event program (ordered forest, labels primary|secondary x delay 0..1) with <= 2 events (bounds 0..3 quick, unbounded/4 thorough; queue counts 1 and 2) " +
			"and every program with 3 events (bound 1 quick, 2 thorough; thorough adds queue counts 1 and 3 and all 4-event same-instant forests at bound 1); controlled goroutines = Run loop + one per event; handlers have interior scheduling points. " +
			"Oracle per schedule: each event handled once; an event with an earlier time has exited before a later one enters; a secondary never enters while an already-scheduled primary of the same instant is unfinished; Run returns only after all events finished; no deadlock/panic.",
		Assumptions: []string{"sequentially consistent memory; scheduling points at sync/channel operations of package timing and at explicit points inside handlers"},
		Sharded:     true,
		MinOutcomes: 20,
		Run:         func(c *lib.Ctx) { runSharded(c, c04Harnesses(c)) },
		Replay:      schedReplay(c04Harnesses),
	})
}

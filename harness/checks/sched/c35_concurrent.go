package sched

import (
	"database/sql"
	"fmt"
	"sort"
	"strings"

	_ "github.com/glebarez/go-sqlite"

	"github.com/sarchlab/akita/v5/datarecording"
	"github.com/sarchlab/akita/v5/vsched"

	"verif/harness/lib"
)

// C35 (concurrent half): entries inserted from several goroutines, with the
// automatic batch flush racing against further inserts, are each persisted
// exactly once.

type recEntry struct {
	Who int
	Seq int
}

type recState struct {
	db    *sql.DB
	rows  []string
	err   string
	total int
}

var recSeq int

func recHarness(name string, threads, inserts, batch int, explicitFlush bool, bounds []int) *harness {
	st := &recState{}
	return &harness{
		Name:      name,
		Bounds:    bounds,
		Horizon:   40000,
		OwnPanics: true,
		// a schedule costs ~10 ms with SQLite underneath: only the recorder's
		// mutex operations are scheduling points here
		NoStmtPoints: true,
		Body: func() {
			*st = recState{total: threads * inserts}
			recSeq++
			db, err := sql.Open("sqlite", fmt.Sprintf("file:c35mem%d?mode=memory&cache=shared", recSeq))
			if err != nil {
				st.err = err.Error()
				return
			}
			db.SetMaxOpenConns(1)
			st.db = db
			rec := datarecording.NewDataRecorderWithDB(db)
			rec.CreateTable("t", recEntry{})
			datarecording.VerifSetBatchSize(rec, batch)
			for t := 0; t < threads; t++ {
				t := t
				vsched.Go(func() {
					for k := 0; k < inserts; k++ {
						rec.InsertData("t", recEntry{Who: t, Seq: k})
					}
					if explicitFlush && t == 0 {
						rec.Flush()
					}
				})
			}
			vsched.JoinAll()
			rec.Flush()
			rows, err := db.Query("SELECT Who, Seq FROM t")
			if err != nil {
				st.err = err.Error()
			} else {
				for rows.Next() {
					var a, b int
					_ = rows.Scan(&a, &b)
					st.rows = append(st.rows, fmt.Sprintf("%d.%d", a, b))
				}
				rows.Close()
			}
			db.Close()
		},
		Check: func(x *vsched.Exec) (string, []lib.Problem) {
			var probs []lib.Problem
			if x.Panic != "" {
				return "panic", []lib.Problem{{Key: "recorder:concurrent:panic", What: name + ": " + x.Panic}}
			}
			if st.err != "" {
				probs = append(probs, lib.Problem{Key: "recorder:concurrent:sql-error", What: name + ": " + st.err})
				return "err", probs
			}
			sort.Strings(st.rows)
			seen := map[string]int{}
			for _, r := range st.rows {
				seen[r]++
			}
			for t := 0; t < threads; t++ {
				for k := 0; k < inserts; k++ {
					key := fmt.Sprintf("%d.%d", t, k)
					switch n := seen[key]; {
					case n == 0:
						probs = append(probs, lib.Problem{Key: "recorder:concurrent:entry-lost", What: fmt.Sprintf("%s: entry %s inserted before the final Flush is not in the database (rows %v)", name, key, st.rows)})
					case n > 1:
						probs = append(probs, lib.Problem{Key: "recorder:concurrent:entry-duplicated", What: fmt.Sprintf("%s: entry %s is stored %d times (rows %v)", name, key, n, st.rows)})
					}
				}
			}
			return fmt.Sprintf("%s rows%d", name, len(st.rows)), probs
		},
	}
}

// recLocEntry has an interned location column.
type recLocEntry struct {
	Who   int
	Seq   int
	Where string `akita_data:"location"`
}

// fakeHarness is recHarness over the in-memory back end of fakesql.go, with
// every statement of InsertData / Flush / flushLocationTable / Close a
// scheduling point, so that unsynchronised accesses interleave too. With
// locations, thread t's k-th entry carries the string L<(t+k) mod 2>.
func fakeHarness(name string, threads, inserts, batch int, explicitFlush, locations bool, bounds []int) *harness {
	var fdb *fakeDB
	return &harness{
		Name:          name,
		MapDescending: strings.HasSuffix(name, "-desc"),
		Bounds:    bounds,
		Horizon:   40000,
		OwnPanics: true,
		Body: func() {
			var db *sql.DB
			db, fdb = newFakeDB(name)
			rec := datarecording.NewDataRecorderWithDB(db)
			if locations {
				rec.CreateTable("t", recLocEntry{})
			} else {
				rec.CreateTable("t", recEntry{})
			}
			datarecording.VerifSetBatchSize(rec, batch)
			for t := 0; t < threads; t++ {
				t := t
				vsched.Go(func() {
					for k := 0; k < inserts; k++ {
						if locations {
							rec.InsertData("t", recLocEntry{Who: t, Seq: k, Where: fmt.Sprintf("L%d", (t+k)%2)})
						} else {
							rec.InsertData("t", recEntry{Who: t, Seq: k})
						}
					}
					if explicitFlush && t == 0 {
						rec.Flush()
					}
				})
			}
			vsched.JoinAll()
			rec.Flush()
			db.Close()
		},
		Check: func(x *vsched.Exec) (string, []lib.Problem) {
			if x.Panic != "" {
				return "panic", []lib.Problem{{Key: "recorder:concurrent:panic", What: name + ": " + x.Panic}}
			}
			var probs []lib.Problem
			if fdb.inTx {
				probs = append(probs, lib.Problem{Key: "recorder:concurrent:transaction-left-open", What: name + ": the last transaction was never committed"})
			}
			// location dictionary: one-to-one
			byID, byStr := map[int64]string{}, map[string]int64{}
			for _, r := range fdb.tables["location"] {
				id, _ := r[0].(int64)
				str, _ := r[1].(string)
				if old, dup := byID[id]; dup {
					probs = append(probs, lib.Problem{Key: "recorder:concurrent:location-id-reused", What: fmt.Sprintf("%s: location id %d stands for %q and %q (location rows %v)", name, id, old, str, fdb.tables["location"])})
				}
				if old, dup := byStr[str]; dup {
					probs = append(probs, lib.Problem{Key: "recorder:concurrent:location-interned-twice", What: fmt.Sprintf("%s: location %q has ids %d and %d (location rows %v)", name, str, old, id, fdb.tables["location"])})
				}
				byID[id], byStr[str] = str, id
			}
			seen := map[string]int{}
			for _, r := range fdb.tables["t"] {
				who, _ := r[0].(int64)
				seq, _ := r[1].(int64)
				seen[fmt.Sprintf("%d.%d", who, seq)]++
				if locations {
					id, _ := r[2].(int64)
					want := fmt.Sprintf("L%d", (who+seq)%2)
					if got, ok := byID[id]; !ok || got != want {
						probs = append(probs, lib.Problem{Key: "recorder:concurrent:location-value-changed", What: fmt.Sprintf("%s: entry %d.%d was inserted with location %q and is stored with id %d = %q (location rows %v)", name, who, seq, want, id, got, fdb.tables["location"])})
					}
				}
			}
			for t := 0; t < threads; t++ {
				for k := 0; k < inserts; k++ {
					key := fmt.Sprintf("%d.%d", t, k)
					switch n := seen[key]; {
					case n == 0:
						probs = append(probs, lib.Problem{Key: "recorder:concurrent:entry-lost", What: fmt.Sprintf("%s: entry %s inserted before the final Flush is not in the database (rows %v)", name, key, fdb.tables["t"])})
					case n > 1:
						probs = append(probs, lib.Problem{Key: "recorder:concurrent:entry-duplicated", What: fmt.Sprintf("%s: entry %s is stored %d times (rows %v)", name, key, n, fdb.tables["t"])})
					}
				}
			}
			tx := 0
			for _, l := range fdb.log {
				if l == "BEGIN" {
					tx++
				}
			}
			return fmt.Sprintf("%s rows%d tx%d loc%d", name, len(fdb.tables["t"]), tx, len(fdb.tables["location"])), probs
		},
	}
}

func c35Harnesses(c *lib.Ctx) []*harness {
	d := lib.Pick(c, 2, 3)
	return []*harness{
		fakeHarness("stmt-2x1-batch2", 2, 1, 2, false, false, []int{0, 1, d}),
		fakeHarness("stmt-2x2-batch2", 2, 2, 2, false, false, []int{0, 1, d}),
		fakeHarness("stmt-2x2-batch3", 2, 2, 3, false, false, []int{0, 1, d}),
		fakeHarness("stmt-2x1-batch100-flush", 2, 1, 100, true, false, []int{0, 1, d}),
		fakeHarness("stmt-2x2-batch100-flush", 2, 2, 100, true, false, []int{0, 1, d}),
		fakeHarness("stmt-3x1-batch2", 3, 1, 2, false, false, []int{0, 1, 2}),
		fakeHarness("stmt-loc-2x2-batch2", 2, 2, 2, false, true, []int{0, 1, d}),
		fakeHarness("stmt-loc-2x2-batch100-flush", 2, 2, 100, true, true, []int{0, 1, d}),
		// the recorder ranges over its table map: the other iteration order
		fakeHarness("stmt-loc-2x2-batch2-desc", 2, 2, 2, false, true, []int{0, 1, d}),
		fakeHarness("stmt-loc-2x1-batch100-flush-desc", 2, 1, 100, true, true, []int{0, 1, d}),
		recHarness("2x1-batch2", 2, 1, 2, false, []int{0, 1, 2, -1}),
		recHarness("2x2-batch2", 2, 2, 2, false, []int{0, 1, d}),
		recHarness("2x2-batch3", 2, 2, 3, false, []int{0, 1, d}),
		recHarness("2x1-batch100-flush", 2, 1, 100, true, []int{0, 1, 2, -1}),
		recHarness("2x2-batch100-flush", 2, 2, 100, true, []int{0, 1, d}),
		recHarness("3x1-batch2", 3, 1, 2, false, []int{0, 1, d}),
	}
}

func init() {
	lib.Register(&lib.Check{
		ID:    "C35",
		Level: "model_checking",
		Rule: "concurrent half (the sequential half is run first by bin/vcheck and its coverage is nested under first_half): stateless DFS over goroutine interleavings (iterative preemption bounds 0,1,2; 3 in thorough) of 2-3 goroutines x 1-2 InsertData calls on one real data recorder, batch size 2/3 (automatic flush racing with inserts, verif hook VerifSetBatchSize) or an explicit Flush from one goroutine, followed by a final Flush. Two harness families: (a) 'stmt-*' over an in-memory database/sql back end (fakesql.go: the statements the recorder issues, SQLite's two transaction rules), where every statement of InsertData/Flush/flushLocationTable/Close and every mutex operation is a scheduling point (so unsynchronised accesses interleave), with and without an interned location column, the recorder's table map ranged in ascending or ('-desc') descending order; (b) the same programs over real in-memory SQLite with scheduling points at the mutex operations only (bounds 0,1,2 and unbounded for the 2x1 harnesses), read back with database/sql. Oracle per schedule: every inserted entry is stored exactly once, its location id resolves to the inserted string, the location dictionary is one-to-one, the last transaction is committed; no panic, no SQL error, no deadlock.",
		Assumptions: []string{"database/sql (and, in family b, the SQLite driver) run uncontrolled underneath: they complete synchronously for the calling goroutine", "family (a) replaces SQLite by an in-memory driver that accepts what the recorder issues; family (b) is the conformance run of the same programs against real SQLite", "sequentially consistent memory: word-level data races are outside the exploration"},
		Sharded:     true,
		MaxWorkers:  14,
		MinOutcomes: 3,
		Run:         func(c *lib.Ctx) { runSharded(c, c35Harnesses(c)) },
		Replay:      schedReplay(c35Harnesses),
	})
}

package sched

import (
	"database/sql"
	"fmt"
	"sort"

	_ "github.com/glebarez/go-sqlite"

	"github.com/sarchlab/akita/v5/datarecording"
	"github.com/sarchlab/akita/v5/vsched"

	"verif/harness/lib"
)

// C35 (concurrent half): entries inserted from several goroutines, with the
// automatic batch flush racing against further inserts, are each persisted
// exactly once.

type recEntry struct {
	Who int
	Seq int
}

type recState struct {
	db    *sql.DB
	rows  []string
	err   string
	total int
}

var recSeq int

func recHarness(name string, threads, inserts, batch int, explicitFlush bool, bounds []int) *harness {
	st := &recState{}
	return &harness{
		Name:      name,
		Bounds:    bounds,
		Horizon:   40000,
		OwnPanics: true,
		Body: func() {
			*st = recState{total: threads * inserts}
			recSeq++
			db, err := sql.Open("sqlite", fmt.Sprintf("file:c35mem%d?mode=memory&cache=shared", recSeq))
			if err != nil {
				st.err = err.Error()
				return
			}
			db.SetMaxOpenConns(1)
			st.db = db
			rec := datarecording.NewDataRecorderWithDB(db)
			rec.CreateTable("t", recEntry{})
			datarecording.VerifSetBatchSize(rec, batch)
			for t := 0; t < threads; t++ {
				t := t
				vsched.Go(func() {
					for k := 0; k < inserts; k++ {
						rec.InsertData("t", recEntry{Who: t, Seq: k})
					}
					if explicitFlush && t == 0 {
						rec.Flush()
					}
				})
			}
			vsched.JoinAll()
			rec.Flush()
			rows, err := db.Query("SELECT Who, Seq FROM t")
			if err != nil {
				st.err = err.Error()
			} else {
				for rows.Next() {
					var a, b int
					_ = rows.Scan(&a, &b)
					st.rows = append(st.rows, fmt.Sprintf("%d.%d", a, b))
				}
				rows.Close()
			}
			db.Close()
		},
		Check: func(x *vsched.Exec) (string, []lib.Problem) {
			var probs []lib.Problem
			if x.Panic != "" {
				return "panic", []lib.Problem{{Key: "recorder:concurrent:panic", What: name + ": " + x.Panic}}
			}
			if st.err != "" {
				probs = append(probs, lib.Problem{Key: "recorder:concurrent:sql-error", What: name + ": " + st.err})
				return "err", probs
			}
			sort.Strings(st.rows)
			seen := map[string]int{}
			for _, r := range st.rows {
				seen[r]++
			}
			for t := 0; t < threads; t++ {
				for k := 0; k < inserts; k++ {
					key := fmt.Sprintf("%d.%d", t, k)
					switch n := seen[key]; {
					case n == 0:
						probs = append(probs, lib.Problem{Key: "recorder:concurrent:entry-lost", What: fmt.Sprintf("%s: entry %s inserted before the final Flush is not in the database (rows %v)", name, key, st.rows)})
					case n > 1:
						probs = append(probs, lib.Problem{Key: "recorder:concurrent:entry-duplicated", What: fmt.Sprintf("%s: entry %s is stored %d times (rows %v)", name, key, n, st.rows)})
					}
				}
			}
			return fmt.Sprintf("%s rows%d", name, len(st.rows)), probs
		},
	}
}

func c35Harnesses(c *lib.Ctx) []*harness {
	d := lib.Pick(c, 2, 3)
	return []*harness{
		recHarness("2x1-batch2", 2, 1, 2, false, []int{0, 1, 2, -1}),
		recHarness("2x2-batch2", 2, 2, 2, false, []int{0, 1, d}),
		recHarness("2x2-batch3", 2, 2, 3, false, []int{0, 1, d}),
		recHarness("2x1-batch100-flush", 2, 1, 100, true, []int{0, 1, 2, -1}),
		recHarness("2x2-batch100-flush", 2, 2, 100, true, []int{0, 1, d}),
		recHarness("3x1-batch2", 3, 1, 2, false, []int{0, 1, d}),
	}
}

func init() {
	lib.Register(&lib.Check{
		ID:    "C35",
		Level: "model_checking",
		Rule: "concurrent half (the sequential half is run first by bin/vcheck and its coverage is nested under first_half): stateless DFS over goroutine interleavings (iterative preemption bounds 0,1,2; unbounded for the 2x1 harnesses; 3 in thorough) of 2-3 goroutines x 1-2 InsertData calls on one real data recorder over an in-memory SQLite database, batch size 2/3 (automatic flush racing with inserts, verif hook VerifSetBatchSize) or an explicit Flush from one goroutine, followed by a final Flush and a read-back with database/sql. Oracle per schedule: every inserted entry is stored exactly once; no panic, no SQL error, no deadlock.",
		Assumptions: []string{"scheduling points at the recorder's mutex operations; database/sql and the SQLite driver run uncontrolled underneath (they complete synchronously for the calling goroutine)"},
		Sharded:     true,
		MaxWorkers:  6,
		MinOutcomes: 3,
		Run:         func(c *lib.Ctx) { runSharded(c, c35Harnesses(c)) },
		Replay:      schedReplay(c35Harnesses),
	})
}

package sched

import (
	"bytes"
	"encoding/json"
	"fmt"
	"io"

	"github.com/sarchlab/akita/v5/timing"
	"github.com/sarchlab/akita/v5/vsched"

	"verif/harness/lib"
)

// C41: generated IDs are unique under concurrent use (all interleavings of a
// small harness with statement-level scheduling points inside
// timing/idgenerator.go), and the sequential counter is reproducible across
// checkpoint save/restore.

type idHarnessState struct {
	ids [][]uint64
}

func idHarness(name string, threads, gens int, parallel, firstUse bool, bounds []int) *harness {
	st := &idHarnessState{}
	return &harness{
		Name:   name,
		Bounds: bounds,
		Body: func() {
			timing.ResetIDGenerator()
			if parallel {
				timing.UseParallelIDGenerator()
			} else if !firstUse {
				timing.GetIDGenerator()
			}
			st.ids = make([][]uint64, threads)
			for t := 0; t < threads; t++ {
				t := t
				vsched.Go(func() {
					for k := 0; k < gens; k++ {
						st.ids[t] = append(st.ids[t], timing.GetIDGenerator().Generate())
					}
				})
			}
			vsched.JoinAll()
		},
		Check: func(x *vsched.Exec) (string, []lib.Problem) {
			var probs []lib.Problem
			seen := map[uint64]bool{}
			n := 0
			for t := range st.ids {
				for _, id := range st.ids[t] {
					n++
					if id == 0 {
						probs = append(probs, lib.Problem{Key: name + ":zero-id", What: fmt.Sprintf("thread %d received ID 0 (ids %v)", t, st.ids)})
					}
					if seen[id] {
						probs = append(probs, lib.Problem{Key: name + ":duplicate-id", What: fmt.Sprintf("ID %d handed out twice (ids %v)", id, st.ids)})
					}
					seen[id] = true
				}
			}
			if n != threads*gens {
				probs = append(probs, lib.Problem{Key: name + ":missing", What: fmt.Sprintf("%d IDs generated, want %d", n, threads*gens)})
			}
			return fmt.Sprint(st.ids), probs
		},
	}
}

func c41Harnesses(c *lib.Ctx) []*harness {
	deep := lib.Pick(c, 3, 4)
	return []*harness{
		idHarness("seq-2x2", 2, 2, false, false, []int{0, 1, 2, -1}),
		idHarness("seq-2x2-firstuse", 2, 2, false, true, []int{0, 1, 2, lib.Pick(c, 4, -1)}),
		idHarness("par-2x2", 2, 2, true, false, []int{0, 1, 2, -1}),
		idHarness("seq-3x1-firstuse", 3, 1, false, true, []int{0, 1, 2, lib.Pick(c, 3, 4)}),
		idHarness("seq-3x2", 3, 2, false, false, []int{0, 1, 2, deep}),
		idHarness("par-3x2", 3, 2, true, false, []int{0, 1, 2, deep}),
	}
}

type ckpt interface {
	SaveCheckpoint(w io.Writer) error
	LoadCheckpoint(r io.Reader) error
}

// c41Seq: BFS over histories of gen / save / load-into-a-reset-generator.
func c41SeqExec(hist []string) (string, bool, []lib.Problem) {
	timing.ResetIDGenerator()
	var probs []lib.Problem
	var snaps [][]byte
	var snapCount []uint64
	count := uint64(0) // IDs handed out in the logical sequence
	bad := func(key, f string, a ...any) {
		probs = append(probs, lib.Problem{Key: "idseq:" + key, What: fmt.Sprintf("%v: ", hist) + fmt.Sprintf(f, a...)})
	}
	for _, op := range hist {
		switch op {
		case "gen":
			id := timing.GetIDGenerator().Generate()
			count++
			if id != count {
				bad("sequence", "Generate()=%d, the sequential sequence requires %d", id, count)
			}
		case "save":
			g, ok := timing.GetIDGenerator().(ckpt)
			if !ok {
				bad("not-checkpointable", "sequential generator has no checkpoint methods")
				break
			}
			var buf bytes.Buffer
			if err := g.SaveCheckpoint(&buf); err != nil {
				bad("save-error", "%v", err)
			}
			snaps = append(snaps, buf.Bytes())
			snapCount = append(snapCount, count)
		case "load-last", "load-first", "rollback-last", "rollback-first":
			if len(snaps) == 0 {
				break
			}
			k := len(snaps) - 1
			if op == "load-first" || op == "rollback-first" {
				k = 0
			}
			if op == "load-last" || op == "load-first" {
				timing.ResetIDGenerator() // "rebuilt simulation": a fresh generator
			} // rollback-*: into the live generator, whatever it has handed out since
			g := timing.GetIDGenerator().(ckpt)
			if err := g.LoadCheckpoint(bytes.NewReader(snaps[k])); err != nil {
				bad("load-error", "%v", err)
			}
			count = snapCount[k]
		}
	}
	// the state key includes what the live generator would save now, so that
	// histories are only merged when the implementation's own state agrees
	live := "?"
	if g, ok := timing.GetIDGenerator().(ckpt); ok {
		var buf bytes.Buffer
		if g.SaveCheckpoint(&buf) == nil {
			live = buf.String()
		}
	}
	return fmt.Sprintf("n%d snaps%v live=%s", count, snapCount, live), false, probs
}

func init() {
	lib.Register(&lib.Check{
		ID:    "C41",
		Level: "model_checking",
		Rule: "(a) stateless DFS over all goroutine interleavings (iterative preemption bounds 0,1,2,then unbounded or 3/4) of harnesses {2 threads x 2 Generate, 3 x 1, 3 x 2} x {sequential, parallel generator} x {generator pre-created, first use racing}, " +
			"with a scheduling point before every statement of timing/idgenerator.go and at every atomic/mutex operation; oracle per schedule: all IDs non-zero and pairwise distinct. " +
			"(b) explicit-state BFS over histories of {gen, save, load the last / first checkpoint into a reset generator, load it into the live generator (rollback)} to depth 7/9: every ID equals its position in the logical sequence (so every run and every restore continues the exact sequence 1,2,3,...). " +
			"states = complete schedules + BFS states.",
		Assumptions: []string{
			"sequentially consistent memory (the cooperative scheduler does not model weak memory orderings)",
			"interleavings are explored at synchronisation operations and at statement boundaries of idgenerator.go",
		},
		MinOutcomes: 6,
		Sharded:     true,
		MaxWorkers:  7,
		Run: func(c *lib.Ctx) {
			for i, h := range c41Harnesses(c) {
				if c.Mine(int64(i + 1)) {
					runHarness(c, h)
				}
			}
			if !c.Mine(0) {
				return
			}
			lib.BFS(c, lib.BFSConfig[string]{
				Ops:      func([]string) []string { return []string{"gen", "save", "load-last", "load-first", "rollback-last", "rollback-first"} },
				Exec:     func(h []string) (string, bool, []lib.Problem) { return c41SeqExec(h) },
				MaxDepth: lib.Pick(c, 7, 9),
			})
			timing.ResetIDGenerator()
		},
		Replay: func(c *lib.Ctx, raw json.RawMessage) []lib.Problem {
			var sc schedCase
			if json.Unmarshal(raw, &sc) == nil && sc.Harness != "" {
				for _, h := range c41Harnesses(c) {
					if h.Name == sc.Harness {
						return replayOne(h, sc.Choices)
					}
				}
				c.InternalError("unknown harness %q", sc.Harness)
				return nil
			}
			var hist []string
			if err := json.Unmarshal(raw, &hist); err != nil {
				c.InternalError("bad replay case: %v", err)
				return nil
			}
			_, _, p := c41SeqExec(hist)
			return p
		},
	})
}

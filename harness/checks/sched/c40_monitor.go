package sched

import (
	"fmt"
	"net/http"
	"net/url"
	"runtime"
	"strings"

	"github.com/sarchlab/akita/v5/monitoring2"
	"github.com/sarchlab/akita/v5/timing"
	"github.com/sarchlab/akita/v5/vsched"

	"verif/harness/lib"
)

// C40: live-monitor requests never touch simulation state while an event
// handler is executing, and the monitored run finishes like an unmonitored one.

type monState struct {
	running  int
	handled  []int
	runDone  bool
	during   map[string]int // endpoint -> accesses/response writes while a handler was executing
	statuses []int
}

var monSt *monState

// monComp is the monitored "simulation state": handlers mutate it, the
// monitor inspects it (reflection) and ticks it.
type monComp struct {
	CompName string
	Counter  int
	Ticks    int
}

func (c *monComp) Name() string { return c.CompName }

// TickLater is what /api/tick calls: it writes simulation state.
func (c *monComp) TickLater() {
	if monSt.running > 0 {
		monSt.during["tick"]++
	}
	vsched.Point()
	c.Ticks++
}

type monEvent struct {
	timing.EventBase
	N int
}

type monHandler struct{ comp *monComp }

func (h *monHandler) Handle(e timing.Event) error {
	monSt.running++
	vsched.Logf("handler enter")
	vsched.Point()
	h.comp.Counter++
	monSt.handled[e.(monEvent).N]++
	vsched.Point()
	monSt.running--
	vsched.Logf("handler exit")
	return nil
}

// monWriter is the instrumented ResponseWriter: every write of a response is
// an observation point.
type monWriter struct {
	endpoint string
	hdr      http.Header
	status   int
	body     strings.Builder
}

func (w *monWriter) Header() http.Header { return w.hdr }
func (w *monWriter) WriteHeader(s int)    { w.status = s }
func (w *monWriter) Write(b []byte) (int, error) {
	if monSt.running > 0 {
		monSt.during[w.endpoint]++
	}
	vsched.Point()
	w.body.Write(b)
	return len(b), nil
}

var monPaths = map[string]string{
	"pause":     "/api/pause",
	"continue":  "/api/continue",
	"state":     "/api/engine/state",
	"tick":      "/api/tick/Comp",
	"component": "/api/component/Comp",
	"field":     `/api/field/{"comp_name":"Comp","field_name":"Counter"}`,
	"buffers":   "/api/hangdetector/buffers",
	"progress":  "/api/progress",
}

var monEndpoints = []string{"pause", "continue", "state", "tick", "component", "field", "buffers", "progress"}

func monHarness(name string, parallel bool, times []uint64, reqs []string, bounds []int) *harness {
	return monHarness2(name, parallel, times, reqs, nil, bounds)
}

// monHarness2 additionally issues reqs2 from a second http goroutine (the real
// server runs every connection's handler in its own goroutine).
func monHarness2(name string, parallel bool, times []uint64, reqs, reqs2 []string, bounds []int) *harness {
	st := &monState{}
	var comp *monComp
	return &harness{
		Name:    name,
		Bounds:  bounds,
		Horizon: 40000,
		Body: func() {
			timing.ResetIDGenerator()
			*st = monState{handled: make([]int, len(times)), during: map[string]int{}}
			monSt = st
			var eng timing.Engine
			if parallel {
				old := runtime.GOMAXPROCS(1)
				eng = timing.NewParallelEngine()
				runtime.GOMAXPROCS(old)
			} else {
				eng = timing.NewSerialEngine()
			}
			comp = &monComp{CompName: "Comp"}
			eng.(timing.HandlerRegistrar).RegisterHandler("h", &monHandler{comp})
			for i, t := range times {
				eng.Schedule(monEvent{EventBase: timing.MakeEventBase(timing.VTimeInPicoSec(t), "h"), N: i})
			}
			mon := monitoring2.NewMonitor()
			mon.RegisterEngine(eng)
			mon.RegisterComponent(comp)
			mux := mon.VerifLiveMux()
			vsched.Go(func() {
				vsched.SetName("runner")
				_ = eng.Run()
				st.runDone = true
			})
			paused := false
			do := func(ep string) {
				w := &monWriter{endpoint: ep, hdr: http.Header{}, status: 200}
				r := &http.Request{Method: "GET", URL: &url.URL{Path: monPaths[ep]}, Header: http.Header{}}
				vsched.Logf("request %s", ep)
				mux.ServeHTTP(w, r)
				st.statuses = append(st.statuses, w.status)
				if ep == "pause" {
					paused = true
				}
				if ep == "continue" {
					paused = false
				}
			}
			if reqs2 == nil {
				vsched.Go(func() {
					vsched.SetName("http")
					for _, ep := range reqs {
						do(ep)
					}
					if paused {
						do("continue") // "once it is left running"
					}
				})
				vsched.JoinAll()
				return
			}
			// two clients; whichever order their pause/continue requests were
			// served in, the simulation is left running at the end
			httpDone := 0
			for i, rs := range [][]string{reqs, reqs2} {
				rs := rs
				i := i
				vsched.Go(func() {
					vsched.SetName(fmt.Sprintf("http%d", i+1))
					for _, ep := range rs {
						do(ep)
					}
					httpDone++
					if httpDone == 2 {
						do("continue")
					}
				})
			}
			vsched.JoinAll()
		},
		Check: func(x *vsched.Exec) (string, []lib.Problem) {
			var probs []lib.Problem
			engName := "serial"
			if parallel {
				engName = "parallel"
			}
			for _, ep := range []string{"tick", "component", "field"} {
				if n := st.during[ep]; n > 0 {
					probs = append(probs, lib.Problem{Key: fmt.Sprintf("monitor:%s:%s-touches-state-during-event-handling", engName, ep),
						What: fmt.Sprintf("%s: request sequence %v: the %s request accessed simulation state / produced its response %d time(s) while an event handler was executing", name, reqs, ep, n)})
				}
			}
			if !st.runDone {
				probs = append(probs, lib.Problem{Key: "monitor:" + engName + ":run-did-not-finish", What: fmt.Sprintf("%s: requests %v: Run never returned", name, reqs)})
			}
			for i, n := range st.handled {
				if n != 1 {
					probs = append(probs, lib.Problem{Key: "monitor:" + engName + ":event-not-handled-once", What: fmt.Sprintf("%s: requests %v: event %d handled %d times", name, reqs, i, n)})
				}
			}
			if comp.Counter != len(times) {
				probs = append(probs, lib.Problem{Key: "monitor:" + engName + ":final-state-differs", What: fmt.Sprintf("%s: requests %v: final Counter=%d, an unmonitored run gives %d", name, reqs, comp.Counter, len(times))})
			}
			for i, s := range st.statuses {
				if s >= 500 {
					probs = append(probs, lib.Problem{Key: "monitor:" + engName + ":request-failed", What: fmt.Sprintf("%s: request #%d of %v answered with status %d", name, i, reqs, s)})
				}
			}
			return fmt.Sprintf("%v d%d", reqs, len(st.during)), probs
		},
	}
}

func c40Harnesses(c *lib.Ctx) []*harness {
	var hs []*harness
	for _, parallel := range []bool{false, true} {
		eng := "serial"
		if parallel {
			eng = "parallel"
		}
		times := []uint64{1, 2}
		for _, a := range monEndpoints {
			hs = append(hs, monHarness(fmt.Sprintf("%s-%s", eng, a), parallel, times, []string{a}, []int{0, 1, 2, lib.Pick(c, 2, 3)}))
		}
		for _, a := range monEndpoints {
			for _, b := range monEndpoints {
				hs = append(hs, monHarness(fmt.Sprintf("%s-%s-%s", eng, a, b), parallel, times, []string{a, b}, []int{0, 1, lib.Pick(c, 1, 2)}))
			}
		}
		// two concurrent clients, one request each, three preemptions
		conc := lib.Pick(c, []string{"tick", "component", "pause"}, []string{"tick", "component", "field", "pause", "continue"})
		if !parallel || c.Thorough() {
			for _, a := range conc {
				for _, b := range conc {
					// quick: the third preemption only where the second client writes
					// simulation state (tick); thorough: everywhere
					bounds := []int{0, 1, 2, 3}
					if !c.Thorough() && b != "tick" {
						bounds = []int{0, 1, 2}
					}
					hs = append(hs, monHarness2(fmt.Sprintf("%s-%s||%s", eng, a, b), parallel, lib.Pick(c, []uint64{1}, times), []string{a}, []string{b}, bounds))
				}
			}
		}
		if c.Thorough() {
			for _, a := range []string{"tick", "component", "field", "pause"} {
				hs = append(hs, monHarness(fmt.Sprintf("%s-3ev-%s", eng, a), parallel, []uint64{1, 1, 2}, []string{a}, []int{0, 1, 2, 3}))
			}
		}
	}
	return hs
}

func init() {
	lib.Register(&lib.Check{
		ID:    "C40",
		Level: "model_checking",
		Rule: "stateless DFS over goroutine interleavings (iterative preemption bounding) of: a runner goroutine executing Run over 2 events (3 in thorough) whose handlers mutate a component, and an http goroutine issuing, through the real monitor mux and handlers (verif hook VerifLiveMux, instrumented ResponseWriter, no sockets), every sequence of 1 request (bounds 0..2, thorough 3) and every sequence of 2 requests (bounds 0..1, thorough 2) from {pause, continue, state, tick, component, field, buffers, progress}, followed by a final continue when left paused; and two http goroutines issuing one request each concurrently (every ordered pair over {tick, component, pause}, one event, bounds 0..2 and bound 3 where the second client is tick, SerialEngine; thorough: over {tick, component, field, pause, continue}, two events, bounds 0..3, on both engines), followed by a final continue; on SerialEngine and ParallelEngine. " +
			"Oracle per schedule: the tick request's state write and every response write of component/field inspection happen while no event handler is between enter and exit; Run returns; every event handled exactly once; final component state equals the unmonitored run's; no deadlock/panic/5xx.",
		Assumptions: []string{
			"sequentially consistent memory; scheduling points at sync/atomic operations of timing and monitoring2, at handler-interior points and at every response write",
			"buffers/progress/state requests are only judged by the run-completes clause: they read port sizes under the port's own lock and monitor-owned data",
			"plain data races are not modelled by the cooperative scheduler",
		},
		Sharded:     true,
		MinOutcomes: 10,
		Run:         func(c *lib.Ctx) { runSharded(c, c40Harnesses(c)) },
		Replay:      schedReplay(c40Harnesses),
	})
}

// Package sched holds the checks that need the scheduler overlay (E1).
package sched

import (
	"fmt"

	"github.com/sarchlab/akita/v5/vmap"
	"github.com/sarchlab/akita/v5/vsched"

	"verif/harness/lib"
)

// schedCase identifies one explored execution: which harness and which choice
// list. It is what a replay file stores.
type schedCase struct {
	Harness string `json:"harness"`
	Choices []int  `json:"choices"`
}

// harness is a tiny closed concurrent program plus its per-execution oracle.
type harness struct {
	Name string
	// Body runs as controlled thread 0. It must reset all state it touches.
	Body func()
	// Check inspects the state left by Body after one execution.
	Check func(x *vsched.Exec) (outcome string, probs []lib.Problem)
	// Bounds: preemption bounds to run iteratively; -1 = unbounded.
	Bounds  []int
	Horizon int
	// OwnPanics: the harness's Check classifies panics itself.
	OwnPanics bool
	// NoStmtPoints: statement-level points (instr -points) are no-ops in this
	// harness; only synchronisation operations are scheduling points.
	NoStmtPoints bool
	// MapDescending: instrumented map ranges (instr -maporder, sched variant:
	// the data recorder) iterate in descending instead of ascending key order.
	MapDescending bool
}

func applyHarnessSeams(h *harness) {
	vsched.StmtPointsOff = h.NoStmtPoints
	vmap.Base = vmap.Ascending
	if h.MapDescending {
		vmap.Base = vmap.Descending
	}
}

// runHarness explores h under each bound in turn and records results in c.
func runHarness(c *lib.Ctx, h *harness) {
	for _, b := range h.Bounds {
		if c.NumViolations() > 0 {
			return
		}
		execs := int64(0)
		applyHarnessSeams(h)
		res := vsched.Explore(vsched.Options{MaxPreemptions: b, Horizon: h.Horizon, Stop: c.Expired}, h.Body, func(x *vsched.Exec) bool {
			execs++
			probs := stdProblems(h, x)
			out := "aborted"
			if len(probs) == 0 {
				var p []lib.Problem
				out, p = h.Check(x)
				probs = append(probs, p...)
			}
			c.Outcome(h.Name + ":" + out)
			if execs == 2 || execs%5003 == 0 {
				c.Sample(map[string]any{"harness": h.Name, "preemption_bound": b, "schedule_choices": append([]int{}, x.Choices...), "choice_points": len(x.Points), "outcome": out})
			}
			if len(probs) > 0 {
				cs := schedCase{Harness: h.Name, Choices: append([]int{}, x.Choices...)}
				lib.ConfirmAndRecord(c, cs, probs, func() []lib.Problem { return replayOne(h, cs.Choices) })
				return c.NumViolations() < 8
			}
			return true
		})
		c.Add("states", res.Executions) // each complete schedule is a distinct explored path
		c.Add("transitions", res.Transitions)
		c.Add("traces_validated", res.Executions)
		c.Add("evaluations", res.Executions)
		c.Max("max_choice_points", int64(res.MaxPoints))
		bs := fmt.Sprint(b)
		if b < 0 {
			bs = "unbounded"
		}
		if res.Capped != "" {
			c.Inexhaustive("%s: bound %s stopped after %d executions: %s", h.Name, bs, res.Executions, res.Capped)
			return
		}
		c.Note("%s: preemption bound %s completed: %d schedules, bound cut alternatives: %v", h.Name, bs, res.Executions, res.BoundReached)
		if !res.BoundReached {
			c.Note("%s: all interleavings explored (no alternative was cut at bound %s)", h.Name, bs)
			return
		}
	}
}

func stdProblems(h *harness, x *vsched.Exec) []lib.Problem {
	var probs []lib.Problem
	if x.Diverged != "" {
		// a replay divergence is an internal error of the harness, never a violation
		return []lib.Problem{{Key: "INTERNAL:divergence", What: x.Diverged}}
	}
	if x.Deadlock != "" {
		probs = append(probs, lib.Problem{Key: h.Name + ":deadlock", What: "deadlock: " + x.Deadlock})
	}
	if x.Panic != "" && !h.OwnPanics {
		probs = append(probs, lib.Problem{Key: h.Name + ":panic:" + x.PanicAt, What: "panic: " + x.Panic + " at " + x.PanicAt})
	}
	if x.Horizon {
		probs = append(probs, lib.Problem{Key: h.Name + ":livelock", What: fmt.Sprintf("step horizon hit after %d steps (livelock or spin)", x.Steps)})
	}
	return probs
}

// TraceReplay makes replayOne print the schedule it executed.
var TraceReplay = false

func replayOne(h *harness, choices []int) []lib.Problem {
	vsched.TraceOn = TraceReplay
	applyHarnessSeams(h)
	x := vsched.Run(choices, horizonOf(h), h.Body)
	vsched.TraceOn = false
	if TraceReplay {
		for _, l := range x.Log {
			fmt.Println("   ", l)
		}
	}
	probs := stdProblems(h, x)
	if len(probs) == 0 {
		_, p := h.Check(x)
		probs = p
	}
	return probs
}

func horizonOf(h *harness) int {
	if h.Horizon > 0 {
		return h.Horizon
	}
	return 20000
}


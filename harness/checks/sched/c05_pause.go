package sched

import (
	"encoding/json"
	"fmt"
	"runtime"

	"github.com/sarchlab/akita/v5/timing"
	"github.com/sarchlab/akita/v5/vsched"

	"verif/harness/lib"
)

// C05: once Pause returns no handler is executing and none starts until
// Continue; after Continue the run still handles every event.

type pauseEvent struct {
	timing.EventBase
	N int
}

type pauseState struct {
	running   int   // handlers currently between enter and exit
	started   int   // handlers entered so far
	handled   []int // per event: times handled
	runDone   bool
	runErr    error
	atReturn  []int // `running` sampled when each Pause returned
	startedIn []int // handlers that entered between a Pause return and its Continue
	// windows counts pausers whose Pause has returned while no Continue has
	// been called (by anyone) since; inWindow counts handlers entering then.
	windows  int
	inWindow int
	// contCalls counts Continue invocations. A Pause call during which some
	// other thread invoked Continue has been overtaken: "until Continue is
	// called" already happened, so it carries no obligation.
	contCalls   int
	contReturns int
	overtaken   int
}

// doContinue wraps Continue so that the oracle knows when a Continue call is
// in flight (invoked, not yet returned): such a call may take effect at any
// moment, so it closes every pause window that overlaps it.
func (st *pauseState) doContinue(eng timing.Engine) {
	st.windows = 0
	st.contCalls++
	vsched.Logf("calling Continue")
	eng.Continue()
	st.contReturns++
}

// doPause calls Pause and opens a pause window unless a Continue call
// overlapped the Pause call ("until Continue is called" already happened).
func (st *pauseState) doPause(eng timing.Engine) {
	c0, r0 := st.contCalls, st.contReturns
	eng.Pause()
	vsched.Logf("Pause returned, running=%d", st.running)
	if st.contCalls == c0 && st.contReturns == r0 && st.contCalls == st.contReturns {
		st.atReturn = append(st.atReturn, st.running)
		st.windows++
	} else {
		st.overtaken++
	}
}

type pauseHandler struct{ st *pauseState }

func (h *pauseHandler) Handle(e timing.Event) error {
	st := h.st
	st.running++
	st.started++
	vsched.Logf("handler enter")
	if st.windows > 0 {
		st.inWindow++
	}
	vsched.Point()
	st.handled[e.(pauseEvent).N]++
	vsched.Point()
	st.running--
	vsched.Logf("handler exit")
	return nil
}

// pauseHarness: thread 0 spawns the runner (A) and `pausers` pausing threads,
// each doing `rounds` Pause/observe/Continue rounds.
func pauseHarness(name string, parallel bool, procs int, times []uint64, pausers, rounds int, pauseBeforeRun bool, bounds []int) *harness {
	st := &pauseState{}
	return &harness{
		Name:   name,
		Bounds: bounds,
		Body: func() {
			timing.ResetIDGenerator()
			*st = pauseState{handled: make([]int, len(times))}
			var eng timing.Engine
			if parallel {
				old := runtime.GOMAXPROCS(procs)
				eng = timing.NewParallelEngine()
				runtime.GOMAXPROCS(old)
			} else {
				eng = timing.NewSerialEngine()
			}
			eng.(timing.HandlerRegistrar).RegisterHandler("h", &pauseHandler{st})
			for i, t := range times {
				eng.Schedule(pauseEvent{EventBase: timing.MakeEventBase(timing.VTimeInPicoSec(t), "h"), N: i})
			}
			pauser := func() {
				for r := 0; r < rounds; r++ {
					st.doPause(eng)
					vsched.Point()
					vsched.Point()
					st.doContinue(eng)
				}
			}
			if pauseBeforeRun {
				// the pause is requested before Run starts; Continue comes from another thread later
				st.doPause(eng)
				vsched.Go(func() {
					vsched.SetName("runner")
					st.runErr = eng.Run()
					st.runDone = true
				})
				vsched.Point()
				vsched.Point()
				st.doContinue(eng)
			} else {
				vsched.Go(func() {
					vsched.SetName("runner")
					st.runErr = eng.Run()
					st.runDone = true
				})
			}
			for p := 0; p < pausers; p++ {
				vsched.Go(func() {
					vsched.SetName("pauser")
					pauser()
				})
			}
			vsched.JoinAll()
		},
		Check: func(x *vsched.Exec) (string, []lib.Problem) {
			var probs []lib.Problem
			engName := "serial"
			if parallel {
				engName = "parallel"
			}
			for i, r := range st.atReturn {
				if r != 0 {
					probs = append(probs, lib.Problem{Key: engName + ":handler-executing-when-pause-returned",
						What: fmt.Sprintf("%s: Pause #%d returned while %d handler(s) were executing", name, i, r)})
				}
			}
			if st.inWindow != 0 {
				probs = append(probs, lib.Problem{Key: engName + ":handler-started-while-paused",
					What: fmt.Sprintf("%s: %d handler(s) started after a Pause had returned and before any Continue was called", name, st.inWindow)})
			}
			if !st.runDone {
				probs = append(probs, lib.Problem{Key: engName + ":run-did-not-finish", What: name + ": Run never returned after Continue"})
			}
			for i, n := range st.handled {
				if n != 1 {
					probs = append(probs, lib.Problem{Key: engName + ":event-not-handled-once", What: fmt.Sprintf("%s: event %d handled %d times", name, i, n)})
				}
			}
			return fmt.Sprintf("%v/%d/%d/o%d", st.atReturn, st.inWindow, st.started, st.overtaken), probs
		},
	}
}

func c05Harnesses(c *lib.Ctx) []*harness {
	t := c.Thorough()
	unb := func(quick int) []int { return []int{0, 1, 2, lib.Pick(c, quick, -1)} }
	hs := []*harness{
		pauseHarness("serial-2ev-1pause", false, 1, []uint64{1, 2}, 1, 1, false, []int{0, 1, 2, -1}),
		pauseHarness("serial-3ev-1pause", false, 1, []uint64{1, 1, 2}, 1, 1, false, []int{0, 1, 2, -1}),
		pauseHarness("serial-2ev-2rounds", false, 1, []uint64{1, 2}, 1, 2, false, unb(4)),
		pauseHarness("serial-2ev-pause-before-run", false, 1, []uint64{1, 2}, 0, 0, true, []int{0, 1, 2, -1}),
		pauseHarness("serial-2ev-2pausers", false, 1, []uint64{1, 2}, 2, 1, false, unb(3)),
		pauseHarness("parallel1-2ev-1pause", true, 1, []uint64{1, 2}, 1, 1, false, unb(3)),
		pauseHarness("parallel2-2ev-1pause", true, 2, []uint64{1, 1}, 1, 1, false, unb(3)),
		pauseHarness("parallel2-3ev-1pause", true, 2, []uint64{1, 1, 2}, 1, 1, false, []int{0, 1, 2, lib.Pick(c, 2, 3)}),
		pauseHarness("parallel1-2ev-2rounds", true, 1, []uint64{1, 2}, 1, 2, false, []int{0, 1, 2, lib.Pick(c, 2, 3)}),
		pauseHarness("parallel1-2ev-pause-before-run", true, 1, []uint64{1, 2}, 0, 0, true, unb(3)),
	}
	if t {
		hs = append(hs,
			pauseHarness("parallel2-2ev-2pausers", true, 2, []uint64{1, 2}, 2, 1, false, []int{0, 1, 2, 3}),
			pauseHarness("serial-3ev-2pausers", false, 1, []uint64{1, 2, 2}, 2, 1, false, []int{0, 1, 2, 3, 4}),
		)
	}
	return hs
}

func schedReplay(hs func(c *lib.Ctx) []*harness) func(c *lib.Ctx, raw json.RawMessage) []lib.Problem {
	return func(c *lib.Ctx, raw json.RawMessage) []lib.Problem {
		var sc schedCase
		if err := json.Unmarshal(raw, &sc); err != nil {
			c.InternalError("bad replay case: %v", err)
			return nil
		}
		for _, h := range hs(c) {
			if h.Name == sc.Harness {
				TraceReplay = true
				defer func() { TraceReplay = false }()
				return replayOne(h, sc.Choices)
			}
		}
		c.InternalError("unknown harness %q", sc.Harness)
		return nil
	}
}

func runSharded(c *lib.Ctx, hs []*harness) {
	for i, h := range hs {
		if c.Mine(int64(i)) {
			runHarness(c, h)
		}
	}
}

func init() {
	lib.Register(&lib.Check{
		ID:    "C05",
		Level: "model_checking",
		Rule: "stateless DFS over goroutine interleavings (iterative preemption bounds 0,1,2, then unbounded where feasible, else 3) of harnesses: runner thread executing Run over 2-3 events whose handlers have interior scheduling points, " +
			"plus 1-2 pauser threads doing Pause; sample handlers-in-flight; 2 points; count handlers started; Continue (1-2 rounds, and Pause issued before Run starts), on the real SerialEngine and ParallelEngine (GOMAXPROCS 1 and 2). " +
			"Oracle per schedule: nothing executing when Pause returns; nothing starts before Continue; Run returns; every event handled exactly once; no deadlock.",
		Assumptions: []string{"sequentially consistent memory; scheduling points at sync/atomic/channel operations and at explicit points inside handlers"},
		Sharded:     true,
		MaxWorkers:  12,
		MinOutcomes: 3,
		Run:         func(c *lib.Ctx) { runSharded(c, c05Harnesses(c)) },
		Replay:      schedReplay(c05Harnesses),
	})
}

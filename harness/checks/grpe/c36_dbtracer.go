package grpe

import (
	"encoding/json"
	"fmt"
	"reflect"
	"sort"
	"strings"
	"sync"

	"github.com/sarchlab/akita/v5/timing"
	"github.com/sarchlab/akita/v5/tracing"

	"verif/harness/lib"
)

// C36: the real tracing.DBTracer over an in-memory recording DataRecorder and a
// settable clock, against the statement's iff.

// ---- fakes -----------------------------------------------------------------

type c36Clock struct{ now timing.VTimeInPicoSec }

func (c *c36Clock) CurrentTime() timing.VTimeInPicoSec { return c.now }

// c36Recorder implements datarecording.DataRecorder in memory. Every inserted
// entry is rendered field by field ("Name=value ...") via reflection, because
// the tracer's table entry types are unexported.
type c36Recorder struct {
	mu      sync.Mutex
	created map[string]bool
	rows    map[string][]string
	flushes int
	errs    []string
}

func newC36Recorder() *c36Recorder {
	return &c36Recorder{created: map[string]bool{}, rows: map[string][]string{}}
}

func c36Render(entry any) string {
	v := reflect.ValueOf(entry)
	if v.Kind() != reflect.Struct {
		return fmt.Sprintf("<%T %v>", entry, entry)
	}
	parts := make([]string, 0, v.NumField())
	for i := 0; i < v.NumField(); i++ {
		f := v.Field(i)
		var s string
		switch f.Kind() {
		case reflect.Uint, reflect.Uint64, reflect.Uint32:
			s = fmt.Sprint(f.Uint())
		case reflect.Int, reflect.Int64, reflect.Int32:
			s = fmt.Sprint(f.Int())
		case reflect.Float64, reflect.Float32:
			s = fmt.Sprint(f.Float())
		case reflect.String:
			s = f.String()
		default:
			s = fmt.Sprintf("?%s", f.Kind())
		}
		parts = append(parts, v.Type().Field(i).Name+"="+s)
	}
	return strings.Join(parts, " ")
}

func (r *c36Recorder) CreateTable(name string, sample any) {
	r.mu.Lock()
	defer r.mu.Unlock()
	if r.created[name] {
		r.errs = append(r.errs, "table "+name+" created twice")
	}
	r.created[name] = true
}

func (r *c36Recorder) InsertData(name string, entry any) {
	r.mu.Lock()
	defer r.mu.Unlock()
	if !r.created[name] {
		r.errs = append(r.errs, "insert into table "+name+" that was never created")
	}
	r.rows[name] = append(r.rows[name], c36Render(entry))
}

func (r *c36Recorder) ListTables() []string {
	r.mu.Lock()
	defer r.mu.Unlock()
	var out []string
	for k := range r.created {
		out = append(out, k)
	}
	sort.Strings(out)
	return out
}

func (r *c36Recorder) Flush()       { r.mu.Lock(); r.flushes++; r.mu.Unlock() }
func (r *c36Recorder) Close() error { return nil }

// ---- model -----------------------------------------------------------------

type c36Op struct {
	Op string `json:"op"` // start end tag ms on off adv
	ID int    `json:"id,omitempty"`
}

type c36Tag struct {
	ID   uint64
	What string
	Time int
}

type c36Ms struct {
	ID   uint64
	Kind tracing.MilestoneKind
	What string
	Time int
}

type c36Task struct {
	Status int // 0 never started, 1 running, 2 ended
	Start  int
	Why    string // "" = not to be recorded; else why it ran while tracing was on
	Tags   []c36Tag
	Ms     []c36Ms
}

type c36Model struct {
	Clock    int
	Tracing  bool
	WinStart int
	T        [3]c36Task // index 1,2
}

var c36MsKinds = []tracing.MilestoneKind{tracing.MilestoneKindQueue, tracing.MilestoneKindData, tracing.MilestoneKindHardwareResource}

func c36Parent(id int) uint64 {
	if id == 2 {
		return 1 // task 2 is a child of task 1
	}
	return 77
}

// want is what one step must add to the tables.
type c36Want struct {
	trace    []string
	tags     []string
	segments []string
	// milestones: for the ended task, per instant, the candidate rows (exactly
	// one of them must be recorded)
	msCand map[int][]string
	why    string
}

func (m *c36Model) enabled() []c36Op {
	var ops []c36Op
	for id := 1; id <= 2; id++ {
		if m.T[id].Status == 0 {
			ops = append(ops, c36Op{Op: "start", ID: id})
		}
	}
	if m.Tracing {
		ops = append(ops, c36Op{Op: "off"})
	} else {
		ops = append(ops, c36Op{Op: "on"})
	}
	for id := 1; id <= 2; id++ {
		if m.T[id].Status == 1 {
			ops = append(ops, c36Op{Op: "end", ID: id})
		}
	}
	ops = append(ops, c36Op{Op: "adv"})
	for id := 1; id <= 2; id++ {
		// also before the task starts: the tracer keeps what it is told about
		// a task it has not seen start yet and records it with the task
		if m.T[id].Status == 1 || (m.T[id].Status == 0 && len(m.T[id].Tags)+len(m.T[id].Ms) < 2) {
			ops = append(ops, c36Op{Op: "tag", ID: id}, c36Op{Op: "ms", ID: id})
		}
	}
	return ops
}

func (m *c36Model) legal(op c36Op) bool {
	for _, o := range m.enabled() {
		if o == op {
			return true
		}
	}
	return false
}

func (m *c36Model) nextTag(id int) c36Tag {
	k := len(m.T[id].Tags)
	return c36Tag{ID: uint64(1000*id + k), What: fmt.Sprintf("tag%c", 'a'+k%2), Time: m.Clock}
}

func (m *c36Model) nextMs(id int) c36Ms {
	k := len(m.T[id].Ms)
	return c36Ms{ID: uint64(2000*id + k), Kind: c36MsKinds[k%len(c36MsKinds)], What: fmt.Sprintf("ms%d", k), Time: m.Clock}
}

func (m *c36Model) apply(op c36Op) c36Want {
	var w c36Want
	switch op.Op {
	case "start":
		t := &m.T[op.ID]
		t.Status, t.Start = 1, m.Clock
		if m.Tracing {
			t.Why = "started-while-tracing"
		}
	case "end":
		t := &m.T[op.ID]
		t.Status = 2
		if t.Why != "" {
			w.why = t.Why
			w.trace = append(w.trace, fmt.Sprintf("ID=%d ParentID=%d Kind=kind%d What=what%d Location=loc%d StartTime=%d EndTime=%d",
				op.ID, c36Parent(op.ID), op.ID, op.ID, op.ID, t.Start, m.Clock))
			for _, g := range t.Tags {
				w.tags = append(w.tags, fmt.Sprintf("ID=%d TaskID=%d Time=%d What=%s", g.ID, op.ID, g.Time, g.What))
			}
			w.msCand = map[int][]string{}
			for _, s := range t.Ms {
				w.msCand[s.Time] = append(w.msCand[s.Time], fmt.Sprintf("ID=%d TaskID=%d Time=%d Kind=%s What=%s", s.ID, op.ID, s.Time, s.Kind, s.What))
			}
		}
		t.Tags, t.Ms = nil, nil
	case "tag":
		m.T[op.ID].Tags = append(m.T[op.ID].Tags, m.nextTag(op.ID))
	case "ms":
		m.T[op.ID].Ms = append(m.T[op.ID].Ms, m.nextMs(op.ID))
	case "on":
		m.Tracing, m.WinStart = true, m.Clock
		for id := 1; id <= 2; id++ {
			if m.T[id].Status == 1 && m.T[id].Why == "" {
				m.T[id].Why = "running-at-starttracing"
			}
		}
	case "off":
		m.Tracing = false
		w.segments = append(w.segments, fmt.Sprintf("StartTime=%d EndTime=%d", m.WinStart, m.Clock))
	case "adv":
		m.Clock++
	case "terminate":
		if m.Tracing {
			m.Tracing = false
			w.segments = append(w.segments, fmt.Sprintf("StartTime=%d EndTime=%d", m.WinStart, m.Clock))
		}
	}
	return w
}

// key is the live state: everything that can influence a later step. Rows that
// are already recorded are compared step by step (deltas), never again, and
// task IDs are not reused, so they are not part of the key.
func (m *c36Model) key() string {
	var sb strings.Builder
	fmt.Fprintf(&sb, "c%d tr%v", m.Clock, m.Tracing)
	if m.Tracing {
		fmt.Fprintf(&sb, " ws%d", m.WinStart)
	}
	for id := 1; id <= 2; id++ {
		t := m.T[id]
		fmt.Fprintf(&sb, " | %d", t.Status)
		if t.Status == 1 {
			fmt.Fprintf(&sb, " s%d %s g%v m%v", t.Start, t.Why, t.Tags, t.Ms)
		} else if t.Status == 0 && len(t.Tags)+len(t.Ms) > 0 {
			fmt.Fprintf(&sb, " early g%v m%v", t.Tags, t.Ms)
		}
	}
	return sb.String()
}

// ---- driver ----------------------------------------------------------------

func c36DoReal(tr *tracing.DBTracer, clk *c36Clock, m *c36Model, op c36Op) string {
	return lib.Catch(func() {
		now := timing.VTimeInPicoSec(m.Clock)
		switch op.Op {
		case "start":
			tr.StartTask(tracing.TaskStart{ID: uint64(op.ID), ParentID: c36Parent(op.ID),
				Kind: fmt.Sprintf("kind%d", op.ID), What: fmt.Sprintf("what%d", op.ID), Location: fmt.Sprintf("loc%d", op.ID), Time: now})
		case "end":
			tr.EndTask(tracing.TaskEnd{ID: uint64(op.ID), Time: now})
		case "tag":
			g := m.nextTag(op.ID)
			tr.AddTaskTag(tracing.TaskTag{ID: g.ID, TaskID: uint64(op.ID), What: g.What, Time: now})
		case "ms":
			s := m.nextMs(op.ID)
			tr.AddMilestone(tracing.Milestone{ID: s.ID, TaskID: uint64(op.ID), Time: now, Kind: s.Kind, What: s.What})
		case "on":
			tr.StartTracing()
		case "off":
			tr.StopTracing()
		case "adv":
			clk.now++
		case "terminate":
			tr.Terminate()
		}
	})
}

func c36Diff(got, want []string) (extra, missing []string) {
	cnt := map[string]int{}
	for _, w := range want {
		cnt[w]++
	}
	for _, g := range got {
		if cnt[g] > 0 {
			cnt[g]--
		} else {
			extra = append(extra, g)
		}
	}
	for w, n := range cnt {
		for ; n > 0; n-- {
			missing = append(missing, w)
		}
	}
	sort.Strings(missing)
	return
}

func c36Exec(hist []c36Op) (string, bool, []lib.Problem) {
	key, probs, _ := c36ExecFull(hist)
	return key, false, probs
}

func c36ExecFull(hist []c36Op) (string, []lib.Problem, string) {
	rec := newC36Recorder()
	clk := &c36Clock{}
	var tr *tracing.DBTracer
	var probs []lib.Problem
	if msg := lib.Catch(func() { tr = tracing.NewDBTracer(clk, rec) }); msg != "" {
		return "", []lib.Problem{{Key: "panic:new", What: "NewDBTracer panicked: " + msg}}, ""
	}
	m := &c36Model{}
	seen := map[string]int{} // rows consumed so far per table
	tables := []string{"trace", "tag", "milestone", "daisen$segments"}

	step := func(i int, op c36Op) bool {
		bad := func(key, format string, a ...any) {
			probs = append(probs, lib.Problem{Key: key, What: fmt.Sprintf("step %d (%s %d) of %s: ", i, op.Op, op.ID, c36ShowHist(hist)) + fmt.Sprintf(format, a...)})
		}
		if msg := c36DoReal(tr, clk, m, op); msg != "" {
			bad("panic:on-"+op.Op, "panicked: %s", msg)
			return false
		}
		w := m.apply(op)
		delta := map[string][]string{}
		rec.mu.Lock()
		for _, tb := range tables {
			delta[tb] = append([]string(nil), rec.rows[tb][seen[tb]:]...)
			seen[tb] = len(rec.rows[tb])
		}
		nOther := 0
		for tb := range rec.rows {
			if tb != "trace" && tb != "tag" && tb != "milestone" && tb != "daisen$segments" {
				nOther++
			}
		}
		errs := append([]string(nil), rec.errs...)
		rec.mu.Unlock()
		if len(errs) > 0 {
			bad("recorder-misuse", "%v", errs)
		}
		if nOther > 0 {
			bad("unknown-table", "rows were inserted into a table the statement does not know")
		}

		// trace table
		extra, missing := c36Diff(delta["trace"], w.trace)
		switch {
		case len(extra) > 0 && len(missing) > 0:
			bad("trace:wrong-fields", "recorded %q, the task is %q", extra, missing)
		case len(missing) > 0:
			bad("trace:missing:"+w.why, "task %d ended (it %s) but no trace row was recorded; want %q", op.ID, w.why, missing)
		case len(extra) > 0:
			bad("trace:unexpected:after-"+op.Op, "trace row %q recorded, but no task that ran while tracing was on ended at this step", extra)
		}
		if (len(missing) > 0) != (len(extra) > 0) {
			// the task row itself is missing or unexpected: its tags/milestones
			// go with it and are not reported a second time
			w.tags, w.msCand = nil, nil
			delta["tag"], delta["milestone"] = nil, nil
		}
		// tags
		extra, missing = c36Diff(delta["tag"], w.tags)
		if len(missing) > 0 {
			bad("tag:missing", "tags %q of the recorded task were not recorded (got %q)", missing, delta["tag"])
		}
		if len(extra) > 0 {
			bad("tag:unexpected:after-"+op.Op, "tag rows %q recorded; want %q", extra, w.tags)
		}
		// milestones: exactly one candidate per instant
		gotMs := append([]string(nil), delta["milestone"]...)
		for at, cands := range w.msCand {
			hit := 0
			for _, c := range cands {
				for k := 0; k < len(gotMs); k++ {
					if gotMs[k] == c {
						hit++
						gotMs = append(gotMs[:k], gotMs[k+1:]...)
						k--
					}
				}
			}
			if hit == 0 {
				bad("milestone:instant-missing", "no milestone of task %d at instant %d was recorded (candidates %q, got %q)", op.ID, at, cands, delta["milestone"])
			} else if hit > 1 {
				bad("milestone:instant-repeated", "%d milestones of task %d at instant %d were recorded (got %q)", hit, op.ID, at, delta["milestone"])
			}
		}
		if len(gotMs) > 0 {
			bad("milestone:unexpected:after-"+op.Op, "milestone rows %q recorded that belong to no recorded task/instant", gotMs)
		}
		// segments
		extra, missing = c36Diff(delta["daisen$segments"], w.segments)
		switch {
		case len(extra) > 0 && len(missing) > 0:
			bad("segment:wrong-bounds:after-"+op.Op, "segment %q recorded, the window was %q", extra, missing)
		case len(missing) > 0:
			bad("segment:missing:after-"+op.Op, "window %q was not recorded as a segment", missing)
		case len(extra) > 0:
			bad("segment:unexpected:after-"+op.Op, "segment %q recorded but no window closed", extra)
		}
		return len(probs) == 0
	}

	for i, op := range hist {
		if !m.legal(op) {
			return "", []lib.Problem{{Key: "internal:illegal-op", What: fmt.Sprintf("op %v not enabled at step %d", op, i)}}, ""
		}
		if !step(i, op) {
			return "", probs, ""
		}
	}
	key := m.key()
	// Every history ends with Terminate: tasks still running are not recorded,
	// an open window is closed as a segment.
	step(len(hist), c36Op{Op: "terminate"})
	rec.mu.Lock()
	out := fmt.Sprintf("t%d g%d m%d s%d", len(rec.rows["trace"]), len(rec.rows["tag"]), len(rec.rows["milestone"]), len(rec.rows["daisen$segments"]))
	rec.mu.Unlock()
	return key, probs, out
}

func c36ShowHist(h []c36Op) string {
	var parts []string
	for _, o := range h {
		if o.ID != 0 {
			parts = append(parts, fmt.Sprintf("%s%d", o.Op, o.ID))
		} else {
			parts = append(parts, o.Op)
		}
	}
	return "[" + strings.Join(parts, " ") + "] +terminate"
}

// c36Probe runs a fixed call sequence that lies outside the statement's
// quantifier and only reports what the real tracer did (as an evidence note).
func c36Probe(c *lib.Ctx, name string, f func(tr *tracing.DBTracer, clk *c36Clock)) {
	rec := newC36Recorder()
	clk := &c36Clock{}
	tr := tracing.NewDBTracer(clk, rec)
	msg := lib.Catch(func() { f(tr, clk); tr.Terminate() })
	c.Note("outside the statement (not judged) — %s: panic=%q trace=%q segments=%q", name, msg, rec.rows["trace"], rec.rows["daisen$segments"])
}

func init() {
	lib.Register(&lib.Check{
		ID:    "C36",
		Level: "model_checking",
		Rule: "explicit-state BFS over histories of {StartTask(id), EndTask(id), AddTaskTag(id), AddMilestone(id) at the current instant, StartTracing, StopTracing, advance clock by 1} for task IDs {1,2} (task 2 is a child of task 1) to depth 7 (quick) / 10 (thorough), " +
			"each history followed by Terminate, on the real DBTracer over an in-memory recording DataRecorder and a settable TimeTeller. Guards: an ID is started at most once, ended only while running, tagged/milestoned while running or (at most twice) before it starts, StartTracing only while off, StopTracing only while on. " +
			"After every call the rows newly inserted into trace/tag/milestone/daisen$segments are compared with the model: a trace row (all seven fields) exactly when an ending task was running at some call point while tracing was on; its tags all once; exactly one of its milestones per instant; one segment [start,stop] per window incl. the one closed by Terminate; nothing else. " +
			"state = clock, tracing flag, window start, per task status/start/marked/tags/milestones.",
		MinOutcomes: 8,
		Assumptions: []string{
			"task events of one task come in their natural order (start, then tags/milestones, then end); tags or milestones naming a task that is not running, StartTracing while on and StopTracing while off are outside the statement and only probed (see notes)",
			"'running while tracing was on' is judged in call order (the tracer has no other notion); event Time fields equal the clock",
			"which of several same-instant milestones is kept is not fixed by the statement: any one is accepted",
			"'recorded' = handed to DataRecorder.InsertData; persistence of inserted entries is C35",
		},
		Run: func(c *lib.Ctx) {
			var omu sync.Mutex
			outs := map[string]int64{}
			lib.BFS(c, lib.BFSConfig[c36Op]{
				Ops: func(hist []c36Op) []c36Op {
					m := &c36Model{}
					for _, o := range hist {
						m.apply(o)
					}
					return m.enabled()
				},
				Exec: func(hist []c36Op) (string, bool, []lib.Problem) {
					k, p, out := c36ExecFull(hist)
					if out != "" {
						omu.Lock()
						outs[out]++
						omu.Unlock()
					}
					return k, false, p
				},
				MaxDepth: lib.Pick(c, 7, 10),
				Workers:  8,
			})
			for o := range outs {
				c.Outcome(o)
			}
			c36Probe(c, "tag names task 1 before it starts, a whole window passes, then task 1 starts and ends with tracing off", func(tr *tracing.DBTracer, clk *c36Clock) {
				tr.AddTaskTag(tracing.TaskTag{ID: 1000, TaskID: 1, What: "taga", Time: 0})
				tr.StartTracing()
				clk.now++
				tr.StopTracing()
				tr.StartTask(tracing.TaskStart{ID: 1, ParentID: 77, Kind: "kind1", What: "what1", Location: "loc1", Time: clk.now})
				clk.now++
				tr.EndTask(tracing.TaskEnd{ID: 1, Time: clk.now})
			})
			c36Probe(c, "StopTracing at time 2 although tracing was never started", func(tr *tracing.DBTracer, clk *c36Clock) {
				clk.now = 2
				tr.StopTracing()
			})
			c36Probe(c, "StartTracing at 0, StartTracing again at 3, StopTracing at 5", func(tr *tracing.DBTracer, clk *c36Clock) {
				tr.StartTracing()
				clk.now = 3
				tr.StartTracing()
				clk.now = 5
				tr.StopTracing()
			})
		},
		Replay: func(c *lib.Ctx, raw json.RawMessage) []lib.Problem {
			var h []c36Op
			if err := json.Unmarshal(raw, &h); err != nil {
				c.InternalError("bad replay: %v", err)
				return nil
			}
			_, _, p := c36Exec(h)
			return p
		},
	})
}

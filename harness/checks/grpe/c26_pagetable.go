package grpe

import (
	"bytes"
	"encoding/json"
	"fmt"
	"io"
	"strings"
	"sync"

	"github.com/sarchlab/akita/v5/mem/vm"

	"verif/harness/lib"
)

// C26: vm.PageTable against a Go map keyed by (PID, page-aligned vaddr).

const (
	c26PageSize = 4096
	c26FrameP   = 0x10000
	c26FrameQ   = 0x20000
	c26FrameR   = 0x30000 // never mapped
	c26Repeats  = 64
)

type c26Op struct {
	Op    string `json:"op"` // insert update remove ckpt
	PID   int    `json:"pid,omitempty"`
	VPage int    `json:"vp,omitempty"` // 0 or 1 (vaddr = VPage*4096)
	Frame string `json:"f,omitempty"`  // "P" or "Q"
}

func (o c26Op) String() string {
	if o.Op == "ckpt" || o.Op == "save" || o.Op == "rollback" {
		return o.Op
	}
	if o.Op == "remove" {
		return fmt.Sprintf("remove(%d,%d)", o.PID, o.VPage)
	}
	return fmt.Sprintf("%s(%d,%d,%s)", o.Op, o.PID, o.VPage, o.Frame)
}

type c26Key struct {
	pid vm.PID
	va  uint64
}

type c26Ckpt interface {
	SaveCheckpoint(w io.Writer) error
	LoadCheckpoint(r io.Reader) error
}

func c26Frame(f string) uint64 {
	if f == "Q" {
		return c26FrameQ
	}
	return c26FrameP
}

func c26Page(o c26Op) vm.Page {
	p := vm.Page{PID: vm.PID(o.PID), VAddr: uint64(o.VPage) * c26PageSize, PAddr: c26Frame(o.Frame), PageSize: c26PageSize, Valid: true, DeviceID: 1}
	if o.Op == "update" {
		p.DeviceID = 7
		p.IsPinned = true
	}
	return p
}

var c26AllOps = func() []c26Op {
	var ops []c26Op
	for _, kind := range []string{"insert", "remove", "update"} {
		for pid := 1; pid <= 3; pid++ {
			for vp := 0; vp <= 1; vp++ {
				if kind == "remove" {
					ops = append(ops, c26Op{Op: kind, PID: pid, VPage: vp})
					continue
				}
				for _, f := range []string{"P", "Q"} {
					ops = append(ops, c26Op{Op: kind, PID: pid, VPage: vp, Frame: f})
				}
			}
		}
		if kind == "insert" {
			ops = append(ops, c26Op{Op: "ckpt"}, c26Op{Op: "save"}, c26Op{Op: "rollback"})
		}
	}
	return ops
}()

// c26Model is the reference: a map plus, per process, the insertion order of
// its keys (only used for the state key: the implementation keeps a list).
type c26Model struct {
	pages map[c26Key]vm.Page
	order map[vm.PID][]uint64
}

func (m *c26Model) holders(frame uint64) (pages []vm.Page, pids map[vm.PID]bool) {
	pids = map[vm.PID]bool{}
	for _, p := range m.pages {
		if p.PAddr == frame {
			pages = append(pages, p)
			pids[p.PID] = true
		}
	}
	return
}

func (m *c26Model) key() string {
	var sb strings.Builder
	for pid := vm.PID(1); pid <= 3; pid++ {
		fmt.Fprintf(&sb, "|")
		for _, va := range m.order[pid] {
			p := m.pages[c26Key{pid, va}]
			fmt.Fprintf(&sb, "%d:%x:%d ", va/c26PageSize, p.PAddr, p.DeviceID)
		}
	}
	return sb.String()
}

type c26Result struct {
	key    string
	probs  []lib.Problem // deterministic clauses
	nd     []lib.Problem // order-dependence clause (bounded repetition)
	shared bool
	rl     map[uint64]string // final ReverseLookup answers for frames held by exactly one process
	out    string
}

// c26Run replays hist on a fresh page table. observeAll: look everything up
// after every step (else only after the last one).
func c26Run(hist []c26Op, observeAll bool) c26Result {
	var res c26Result
	pt := vm.NewPageTable(12)
	m := &c26Model{pages: map[c26Key]vm.Page{}, order: map[vm.PID][]uint64{}}
	panics, ckpts := 0, 0
	var kept []byte
	var keptModel *c26Model

	observe := func(step int, after string) {
		bad := func(clause, format string, a ...any) {
			res.probs = append(res.probs, lib.Problem{Key: clause + ":after-" + after,
				What: fmt.Sprintf("history %v, after step %d: ", hist, step) + fmt.Sprintf(format, a...)})
		}
		for pid := vm.PID(1); pid <= 3; pid++ {
			for _, q := range []struct {
				addr  uint64
				class string
			}{{0, "aligned"}, {1, "unaligned"}, {4095, "unaligned"}, {4096, "aligned"}, {4097, "unaligned"}, {8191, "unaligned"}, {8192, "unmapped"}} {
				var got vm.Page
				var ok bool
				if msg := lib.Catch(func() { got, ok = pt.Find(pid, q.addr) }); msg != "" {
					bad("find:panic:"+q.class, "Find(%d,%#x) panicked: %s", pid, q.addr, msg)
					continue
				}
				want, exists := m.pages[c26Key{pid, q.addr / c26PageSize * c26PageSize}]
				switch {
				case exists && !ok:
					bad("find:missing:"+q.class, "Find(%d,%#x) found nothing, the map holds %+v", pid, q.addr, want)
				case !exists && ok:
					bad("find:phantom:"+q.class, "Find(%d,%#x) returned %+v, the map holds nothing there", pid, q.addr, got)
				case exists && got != want:
					bad("find:wrong-page:"+q.class, "Find(%d,%#x) returned %+v, the map holds %+v", pid, q.addr, got, want)
				}
			}
		}
		for _, frame := range []uint64{c26FrameP, c26FrameQ, c26FrameR} {
			holders, pids := m.holders(frame)
			var first vm.Page
			var firstOK bool
			differs := false
			n := 1
			if len(pids) > 1 {
				n = c26Repeats
				res.shared = true
			}
			for k := 0; k < n; k++ {
				var got vm.Page
				var ok bool
				if msg := lib.Catch(func() { got, ok = pt.ReverseLookup(frame) }); msg != "" {
					bad("reverselookup:panic", "ReverseLookup(%#x) panicked: %s", frame, msg)
					break
				}
				if k == 0 {
					first, firstOK = got, ok
				} else if got != first || ok != firstOK {
					if !differs {
						res.nd = append(res.nd, lib.Problem{Key: "reverselookup:not-a-function-of-history:frame-shared-across-processes",
							What: fmt.Sprintf("history %v: on one and the same page table, with no call in between, ReverseLookup(%#x) returned %+v and then (call %d) %+v", hist, frame, first, k+1, got)})
					}
					differs = true
				}
				switch {
				case len(holders) > 0 && !ok:
					bad("reverselookup:missing", "ReverseLookup(%#x) found nothing, pages %+v have that frame", frame, holders)
				case len(holders) == 0 && ok:
					bad("reverselookup:phantom", "ReverseLookup(%#x) returned %+v, no page has that frame", frame, got)
				case ok:
					member := false
					for _, h := range holders {
						if h == got {
							member = true
						}
					}
					if !member {
						bad("reverselookup:wrong-page", "ReverseLookup(%#x) returned %+v, which is none of the mapped pages %+v", frame, got, holders)
					}
				}
				if len(res.probs) > 0 {
					break
				}
			}
		}
	}

	// answers of ReverseLookup for frames that live in exactly one process
	stable := func() map[uint64]string {
		out := map[uint64]string{}
		for _, frame := range []uint64{c26FrameP, c26FrameQ} {
			_, pids := m.holders(frame)
			if len(pids) != 1 {
				continue
			}
			lib.Catch(func() {
				p, ok := pt.ReverseLookup(frame)
				out[frame] = fmt.Sprintf("%+v %v", p, ok)
			})
		}
		return out
	}

	for i, op := range hist {
		bad := func(clause, format string, a ...any) {
			res.probs = append(res.probs, lib.Problem{Key: clause, What: fmt.Sprintf("history %v, step %d %v: ", hist, i, op) + fmt.Sprintf(format, a...)})
		}
		k := c26Key{vm.PID(op.PID), uint64(op.VPage) * c26PageSize}
		_, exists := m.pages[k]
		after := op.Op
		switch op.Op {
		case "insert":
			msg := lib.Catch(func() { pt.Insert(c26Page(op)) })
			if exists {
				after = "insert-existing-refused"
				panics++
				if msg == "" {
					bad("insert:existing-accepted", "Insert of an already mapped (pid,vaddr) did not panic")
				}
			} else {
				if msg != "" {
					bad("insert:new-refused", "Insert of a new page panicked: %s", msg)
				}
				m.pages[k] = c26Page(op)
				m.order[k.pid] = append(m.order[k.pid], k.va)
			}
		case "update":
			msg := lib.Catch(func() { pt.Update(c26Page(op)) })
			if !exists {
				after = "update-missing-refused"
				panics++
				if msg == "" {
					bad("update:missing-accepted", "Update of an unmapped (pid,vaddr) did not panic")
				}
			} else {
				if msg != "" {
					bad("update:existing-refused", "Update of a mapped page panicked: %s", msg)
				}
				m.pages[k] = c26Page(op)
			}
		case "remove":
			msg := lib.Catch(func() { pt.Remove(k.pid, k.va) })
			if !exists {
				after = "remove-missing-refused"
				panics++
				if msg == "" {
					bad("remove:missing-accepted", "Remove of an unmapped (pid,vaddr) did not panic")
				}
			} else {
				if msg != "" {
					bad("remove:existing-refused", "Remove of a mapped page panicked: %s", msg)
				}
				delete(m.pages, k)
				o := m.order[k.pid]
				for j, va := range o {
					if va == k.va {
						m.order[k.pid] = append(append([]uint64{}, o[:j]...), o[j+1:]...)
						break
					}
				}
			}
		case "save":
			// keep a checkpoint and the reference's contents for a rollback
			var buf bytes.Buffer
			var err error
			msg := lib.Catch(func() { err = pt.(c26Ckpt).SaveCheckpoint(&buf) })
			if msg != "" || err != nil {
				bad("checkpoint:save-failed", "SaveCheckpoint: panic=%q err=%v", msg, err)
				break
			}
			kept = buf.Bytes()
			keptModel = &c26Model{pages: map[c26Key]vm.Page{}, order: map[vm.PID][]uint64{}}
			for k, v := range m.pages {
				keptModel.pages[k] = v
			}
			for k, v := range m.order {
				keptModel.order[k] = append([]uint64(nil), v...)
			}
		case "rollback":
			// load the kept checkpoint into the LIVE table, whatever it holds by now
			if kept == nil {
				break
			}
			ckpts++
			var err error
			msg := lib.Catch(func() { err = pt.(c26Ckpt).LoadCheckpoint(bytes.NewReader(kept)) })
			if msg != "" || err != nil {
				bad("checkpoint:load-failed", "LoadCheckpoint into the live table: panic=%q err=%v", msg, err)
				break
			}
			m = &c26Model{pages: map[c26Key]vm.Page{}, order: map[vm.PID][]uint64{}}
			for k, v := range keptModel.pages {
				m.pages[k] = v
			}
			for k, v := range keptModel.order {
				m.order[k] = append([]uint64(nil), v...)
			}
		case "ckpt":
			ckpts++
			before := stable()
			var buf bytes.Buffer
			var err error
			msg := lib.Catch(func() { err = pt.(c26Ckpt).SaveCheckpoint(&buf) })
			if msg != "" || err != nil {
				bad("checkpoint:save-failed", "SaveCheckpoint: panic=%q err=%v", msg, err)
				break
			}
			np := vm.NewPageTable(12)
			msg = lib.Catch(func() { err = np.(c26Ckpt).LoadCheckpoint(&buf) })
			if msg != "" || err != nil {
				bad("checkpoint:load-failed", "LoadCheckpoint: panic=%q err=%v", msg, err)
				break
			}
			pt = np
			after2 := stable()
			for f, b := range before {
				if after2[f] != b {
					bad("checkpoint:reverselookup-changed", "ReverseLookup(%#x) answered %s before save/load and %s after", f, b, after2[f])
				}
			}
		}
		if len(res.probs) == 0 && (observeAll || i == len(hist)-1) {
			observe(i, after)
		}
		if len(res.probs) > 0 {
			return res
		}
	}
	if len(hist) == 0 {
		observe(-1, "new")
	}
	res.key = m.key()
	if keptModel != nil {
		res.key += " kept:" + keptModel.key()
	}
	res.rl = stable()
	res.out = fmt.Sprintf("pages%d panics%d ckpt%d shared%v", len(m.pages), panics, ckpts, res.shared)
	return res
}

func c26ExecFull(hist []c26Op) c26Result {
	a := c26Run(hist, true)
	if len(a.probs) > 0 {
		return a
	}
	b := c26Run(hist, false)
	if len(b.probs) > 0 {
		b.nd = append(b.nd, a.nd...)
		return b
	}
	// same operations, with and without lookups in between: the answers of a
	// deterministic lookup must agree
	for f, x := range a.rl {
		if y := b.rl[f]; y != x {
			a.probs = append(a.probs, lib.Problem{Key: "reverselookup:depends-on-earlier-lookups",
				What: fmt.Sprintf("history %v: ReverseLookup(%#x) answers %s when every step is followed by lookups and %s when it is not", hist, f, x, y)})
		}
	}
	a.nd = append(a.nd, b.nd...)
	return a
}

func init() {
	lib.Register(&lib.Check{
		ID:    "C26",
		Level: "model_checking",
		Rule: "explicit-state BFS over histories of {Insert, Update, Remove} x PID {1,2,3} x vaddr {0,4096} x frame {P,Q} (frames shared across processes) checkpoint save/load into a fresh table, keeping a checkpoint and loading the kept checkpoint into the LIVE table, to depth 6 (quick) / 8 (thorough; without the keep/rollback operations the space closed at 68921 states, depth 12) on the real vm.PageTable; " +
			"each history is replayed twice on fresh tables (lookups after every step / only at the end). Lookups = Find for every PID at addresses {0,1,4095,4096,4097,8191,8192} and ReverseLookup of P, Q and an unmapped frame, compared with a Go map; " +
			"Insert of a mapped key, Update/Remove of an unmapped key must panic and leave every lookup unchanged; ReverseLookup must return some mapped page with that frame iff one exists, the same one before and after save/load and with/without intermediate lookups when one process holds the frame. " +
			"Order-dependence clause: whenever a frame is held by >= 2 processes ReverseLookup is called 64 times in a row on the same table and all answers must be identical. state = per process, the list of (vpage, frame, inserted|updated) in insertion order.",
		MinOutcomes: 10,
		Assumptions: []string{
			"inserted pages are page-aligned and 4 KiB; Remove/Update are called with aligned addresses (only Find is specified to accept any address inside the page)",
			"the map-order clause is a bounded repetition (64 calls per state with a shared frame): a difference is a true positive, agreement is not a proof; the map-order engine (E4, C03) decides it exhaustively",
		},
		Run: func(c *lib.Ctx) {
			var mu sync.Mutex
			outs := map[string]bool{}
			sharedStates, ndStates := int64(0), int64(0)
			lib.BFS(c, lib.BFSConfig[c26Op]{
				Ops: func(hist []c26Op) []c26Op { return c26AllOps },
				Exec: func(hist []c26Op) (string, bool, []lib.Problem) {
					r := c26ExecFull(hist)
					mu.Lock()
					if r.out != "" {
						outs[r.out] = true
					}
					if r.shared {
						sharedStates++
					}
					if len(r.nd) > 0 {
						ndStates++
					}
					mu.Unlock()
					// The order-dependence clause is recorded directly (the 64 calls
					// on one object are their own confirmation) so that the search
					// still expands below states with a shared frame.
					for _, p := range r.nd[:min(len(r.nd), 1)] {
						c.Violate(p, hist)
					}
					return r.key, false, r.probs
				},
				MaxDepth: lib.Pick(c, 6, 8), // 13 closed the space before the keep/rollback operations squared it
				Workers:  8,
			})
			for o := range outs {
				c.Outcome(o)
			}
			c.Add("executions_with_shared_frame", sharedStates)
			c.Add("executions_with_differing_reverse_lookups", ndStates)
			c.Note("order-dependence clause: bounded repetition (%d consecutive ReverseLookup calls per state in which >= 2 processes hold the frame); %d of %d such executions produced two different answers. A difference is a true positive; the map-order engine E4 (C03) decides the clause exhaustively.", c26Repeats, ndStates, sharedStates)
		},
		Replay: func(c *lib.Ctx, raw json.RawMessage) []lib.Problem {
			var h []c26Op
			if err := json.Unmarshal(raw, &h); err != nil {
				c.InternalError("bad replay: %v", err)
				return nil
			}
			r := c26ExecFull(h)
			return append(r.probs, r.nd...)
		},
	})
}

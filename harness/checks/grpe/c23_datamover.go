package grpe

import (
	"fmt"

	"github.com/sarchlab/akita/v5/hooking"
	"github.com/sarchlab/akita/v5/mem"
	"github.com/sarchlab/akita/v5/mem/datamover"
	"github.com/sarchlab/akita/v5/mem/datamoverprotocol"
	"github.com/sarchlab/akita/v5/mem/idealmemcontroller"
	"github.com/sarchlab/akita/v5/messaging"
	"github.com/sarchlab/akita/v5/modeling"
	"github.com/sarchlab/akita/v5/noc/directconnection"
	"github.com/sarchlab/akita/v5/timing"

	"verif/harness/lib"
)

// C23: the real data mover between two real ideal memory controllers over a
// real direct connection on a serial engine; one small simulation per case.

const (
	c23MemSize = 4096
	c23Base    = 256  // start of the 4-chunk address window
	c23FarBase = 2048 // a second, disjoint window (same-side moves)
)

type c23Move struct {
	SrcSide string `json:"ss"`
	DstSide string `json:"ds"`
	Src     uint64 `json:"src"`
	Dst     uint64 `json:"dst"`
	Size    uint64 `json:"size"`
}

type c23Case struct {
	InG   uint64    `json:"in"`  // inside byte granularity
	OutG  uint64    `json:"out"` // outside byte granularity
	Buf   uint64    `json:"buf"` // data mover buffer size
	Lat   int       `json:"lat"` // memory latency in cycles
	Moves []c23Move `json:"moves"`
	// Unaligned: the (single) move has a source or destination address that is
	// not aligned to its side's granularity; the documented reaction is a panic.
	Unaligned bool `json:"unaligned,omitempty"`
}

func c23Gran(cs c23Case, side string) uint64 {
	if side == "inside" {
		return cs.InG
	}
	return cs.OutG
}

func c23Fill(side string, i int) byte {
	if side == "inside" {
		return byte(i*7+3) | 1
	}
	return byte(i*13+5) &^ 1 // inside bytes are odd, outside bytes are even: they differ everywhere
}

// c23AckHook snapshots both memories at the moment the data mover sends an
// acknowledgement on its Top port.
type c23AckHook struct {
	storage map[string]*mem.Storage
	snaps   []map[string][]byte
	rspTo   []uint64
}

func (h *c23AckHook) Func(ctx hooking.HookCtx) {
	if ctx.Pos != messaging.HookPosPortMsgSend {
		return
	}
	m, ok := ctx.Item.(datamoverprotocol.DataMoveResponse)
	if !ok {
		return
	}
	snap := map[string][]byte{}
	for side, st := range h.storage {
		b, _ := st.Read(0, c23MemSize)
		snap[side] = b
	}
	h.snaps = append(h.snaps, snap)
	h.rspTo = append(h.rspTo, m.RspTo)
}

type c23Sys struct {
	engine  *timing.SerialEngine
	dm      *datamover.Comp
	storage map[string]*mem.Storage
	agent   messaging.Port
}

func c23Build(cs c23Case) *c23Sys {
	s := &c23Sys{storage: map[string]*mem.Storage{}}
	s.engine = timing.NewSerialEngine()
	s.agent = messaging.NewPort(nil, 8, 8, "Agent.Top")

	memSpec := idealmemcontroller.DefaultSpec()
	memSpec.Latency = cs.Lat
	memSpec.Width = 1
	memSpec.CacheLineSize = 64
	mems := map[string]*idealmemcontroller.Comp{}
	for _, side := range []string{"inside", "outside"} {
		st := mem.NewStorage(c23MemSize)
		init := make([]byte, c23MemSize)
		for i := range init {
			init[i] = c23Fill(side, i)
		}
		if err := st.Write(0, init); err != nil {
			panic(err)
		}
		s.storage[side] = st
		name := map[string]string{"inside": "InsideMem", "outside": "OutsideMem"}[side]
		m := idealmemcontroller.MakeBuilder().
			WithRegistrar(modeling.NewStandaloneRegistrar(s.engine)).
			WithSpec(memSpec).
			WithResources(idealmemcontroller.Resources{Storage: st}).
			Build(name)
		m.AssignPort("Top", messaging.NewPort(m, 16, 16, name+".Top"))
		m.AssignPort("Control", messaging.NewPort(m, 2, 2, name+".Control"))
		mems[side] = m
	}

	spec := datamover.DefaultSpec()
	spec.BufferSize = cs.Buf
	spec.InsideByteGranularity = cs.InG
	spec.OutsideByteGranularity = cs.OutG
	reg := modeling.NewStandaloneRegistrar(s.engine)
	s.dm = datamover.MakeBuilder().
		WithRegistrar(reg).
		WithSpec(spec).
		WithResources(datamover.Resources{
			InsideMapper:  &mem.SinglePortMapper{Port: mems["inside"].GetPortByName("Top").AsRemote()},
			OutsideMapper: &mem.SinglePortMapper{Port: mems["outside"].GetPortByName("Top").AsRemote()},
		}).
		Build("DataMover")
	for _, name := range []string{"Top", "Inside", "Outside", "Control"} {
		p := modeling.MakePortBuilder().WithRegistrar(reg).WithComponent(s.dm).
			WithSpec(modeling.PortSpec{BufSize: 8}).Build(name)
		s.dm.AssignPort(name, p)
	}
	conn := directconnection.MakeBuilder().
		WithRegistrar(modeling.NewStandaloneRegistrar(s.engine)).
		Build("Conn")
	conn.PlugIn(s.agent)
	conn.PlugIn(s.dm.GetPortByName("Top"))
	conn.PlugIn(s.dm.GetPortByName("Inside"))
	conn.PlugIn(s.dm.GetPortByName("Outside"))
	conn.PlugIn(mems["inside"].GetPortByName("Top"))
	conn.PlugIn(mems["outside"].GetPortByName("Top"))
	return s
}

func c23Overlap(m c23Move) bool {
	return m.SrcSide == m.DstSide && m.Src < m.Dst+m.Size && m.Dst < m.Src+m.Size
}

func c23Run(cs c23Case) (string, []lib.Problem) {
	timing.ResetIDGenerator()
	var probs []lib.Problem
	bad := func(key, format string, a ...any) {
		probs = append(probs, lib.Problem{Key: key, What: fmt.Sprintf("case %+v: ", cs) + fmt.Sprintf(format, a...)})
	}
	var s *c23Sys
	if msg := lib.Catch(func() { s = c23Build(cs) }); msg != "" {
		bad("internal:build-panic", "building the system panicked: %s", msg)
		return "build-panic", probs
	}

	// reference: apply the moves one after the other to a copy of the memories;
	// refs[k] is what both memories must hold when move k is acknowledged
	cur := map[string][]byte{}
	for side, st := range s.storage {
		b, _ := st.Read(0, c23MemSize)
		cur[side] = b
	}
	var refs []map[string][]byte
	class := ""
	for _, m := range cs.Moves {
		snap := append([]byte(nil), cur[m.SrcSide][m.Src:m.Src+m.Size]...)
		copy(cur[m.DstSide][m.Dst:], snap)
		refs = append(refs, map[string][]byte{"inside": append([]byte(nil), cur["inside"]...), "outside": append([]byte(nil), cur["outside"]...)})
		if m.Size%c23Gran(cs, m.DstSide) != 0 {
			class = ":size-not-multiple-of-dst-granularity"
		} else if m.Size%c23Gran(cs, m.SrcSide) != 0 && class == "" {
			class = ":size-not-multiple-of-src-granularity"
		}
	}
	for _, m := range cs.Moves {
		if c23Overlap(m) {
			class += ":overlapping-src-dst"
			break
		}
	}
	hook := &c23AckHook{storage: s.storage}
	s.dm.GetPortByName("Top").AcceptHook(hook)

	var ids []uint64
	top := s.dm.GetPortByName("Top")
	for _, m := range cs.Moves {
		req := datamoverprotocol.DataMoveRequest{SrcAddress: m.Src, DstAddress: m.Dst, ByteSize: m.Size,
			SrcSide: datamoverprotocol.DataMovePort(m.SrcSide), DstSide: datamoverprotocol.DataMovePort(m.DstSide)}
		req.ID = timing.GetIDGenerator().Generate()
		req.Src = s.agent.AsRemote()
		req.Dst = top.AsRemote()
		req.TrafficClass = "datamoverprotocol.DataMoveRequest"
		ids = append(ids, req.ID)
		top.Deliver(req)
	}

	// 200 000 cycles at 1 GHz: three orders of magnitude more than any case needs
	msg := lib.Catch(func() {
		if err := s.engine.RunUntil(timing.VTimeInPicoSec(200_000_000)); err != nil {
			bad("internal:engine-error", "RunUntil returned %v", err)
		}
	})

	if cs.Unaligned {
		if msg == "" {
			bad("align:unaligned-address-accepted", "a move with an address not aligned to its side's granularity did not panic")
		}
		return "unaligned-panic", probs
	}
	if msg != "" {
		bad("panic:run"+class, "the simulation panicked: %s", msg)
		return "panic", probs
	}

	// acknowledgements
	var acks []uint64
	for {
		m := s.agent.RetrieveIncoming()
		if m == nil {
			break
		}
		if _, ok := m.(datamoverprotocol.DataMoveResponse); !ok {
			bad("ack:not-a-response", "the requester received %T", m)
			continue
		}
		acks = append(acks, m.Meta().RspTo)
	}
	ackOK := len(acks) == len(ids)
	switch {
	case len(acks) < len(ids):
		bad("ack:missing"+class, "%d move(s) requested, %d acknowledged (RspTo %v, request IDs %v) after 200000 cycles", len(ids), len(acks), acks, ids)
	case len(acks) > len(ids):
		bad("ack:too-many"+class, "%d move(s) requested, %d acknowledgements (RspTo %v)", len(ids), len(acks), acks)
	default:
		for i := range ids {
			if acks[i] != ids[i] {
				ackOK = false
				bad("ack:wrong-order-or-id"+class, "acknowledgements carry RspTo %v, the requests in arrival order were %v", acks, ids)
				break
			}
		}
	}

	// memories, judged at the moment of each acknowledgement ("when a data mover
	// acknowledges a move, ..."; moves are served one at a time, so at the k-th
	// acknowledgement exactly the first k moves have happened)
	compare := func(got, want map[string][]byte, k int, when string) {
		for _, side := range []string{"inside", "outside"} {
			m := cs.Moves[k]
			firstIn, firstOut := -1, -1
			for i := range got[side] {
				if got[side][i] == want[side][i] {
					continue
				}
				if m.DstSide == side && uint64(i) >= m.Dst && uint64(i) < m.Dst+m.Size {
					if firstIn < 0 {
						firstIn = i
					}
				} else if firstOut < 0 {
					firstOut = i
				}
			}
			if firstIn >= 0 {
				bad("copy:destination-wrong"+when+class, "move #%d: %s memory byte %d (inside its destination range) is %#x, the source held %#x when the move was requested", k, side, firstIn, got[side][firstIn], want[side][firstIn])
			}
			if firstOut >= 0 {
				bad("copy:byte-outside-destination-changed"+when+class, "move #%d: %s memory byte %d (outside its destination range) is %#x, it was %#x before the move", k, side, firstOut, got[side][firstOut], want[side][firstOut])
			}
		}
	}
	if ackOK {
		if len(hook.snaps) != len(ids) {
			bad("internal:hook-missed-ack", "%d acknowledgements received but %d seen by the send hook", len(ids), len(hook.snaps))
		} else {
			for k := range ids {
				compare(hook.snaps[k], refs[k], k, "")
			}
			if len(probs) == 0 {
				final := map[string][]byte{}
				for side, st := range s.storage {
					b, _ := st.Read(0, c23MemSize)
					final[side] = b
				}
				compare(final, refs[len(refs)-1], len(ids)-1, ":after-last-acknowledgement")
			}
		}
	}

	out := fmt.Sprintf("g%d/%d n%d", cs.InG, cs.OutG, len(cs.Moves))
	for _, m := range cs.Moves {
		out += fmt.Sprintf(" %c%c", m.SrcSide[0], m.DstSide[0])
	}
	if len(probs) > 0 {
		out += " bad"
	}
	return out, probs
}

var c23Sides = [][2]string{{"outside", "inside"}, {"inside", "outside"}, {"inside", "inside"}, {"outside", "outside"}}

func c23Sizes(c *lib.Ctx, maxG uint64) []uint64 {
	var out []uint64
	if maxG <= 8 || c.Thorough() {
		for s := uint64(1); s <= 2*maxG; s++ {
			out = append(out, s)
		}
		return out
	}
	return []uint64{16, 32, 48, 64, 80, 96, 112, 128, 1, 15, 17, 63, 65, 127}
}

func c23Enum(c *lib.Ctx, yield func(c23Case) bool) {
	grans := [][2]uint64{{4, 4}, {4, 8}, {8, 4}, {64, 16}}
	lats := lib.Pick(c, []int{2}, []int{1, 5})
	for _, g := range grans {
		maxG := max(g[0], g[1])
		bufs := lib.Pick(c, []uint64{maxG, 2048}, []uint64{maxG, 2 * maxG, 3 * maxG, 2048})
		base := c23Case{InG: g[0], OutG: g[1]}
		// (1) one move: every aligned address pair of the 4-chunk window, every size
		for _, lat := range lats {
			for _, buf := range bufs {
				for _, sd := range c23Sides {
					dstBases := []uint64{c23Base}
					if sd[0] == sd[1] {
						dstBases = []uint64{c23FarBase, c23Base}
					}
					for _, db := range dstBases {
						for _, size := range c23Sizes(c, maxG) {
							for i := uint64(0); i < 4; i++ {
								for j := uint64(0); j < 4; j++ {
									cs := base
									cs.Buf, cs.Lat = buf, lat
									cs.Moves = []c23Move{{SrcSide: sd[0], DstSide: sd[1],
										Src: c23Base + i*c23Gran(base, sd[0]), Dst: db + j*c23Gran(base, sd[1]), Size: size}}
									if !yield(cs) {
										return
									}
								}
							}
						}
					}
				}
			}
		}
		// (2) two queued moves over a smaller lattice (sizes the destination
		// granularity divides; the second may read what the first writes)
		var lattice []c23Move
		for _, sd := range c23Sides {
			for _, size := range []uint64{maxG, 2 * maxG} {
				for i := uint64(0); i < 2; i++ {
					for j := uint64(0); j < 2; j++ {
						db := uint64(c23Base)
						if sd[0] == sd[1] {
							db = c23FarBase
						}
						lattice = append(lattice, c23Move{SrcSide: sd[0], DstSide: sd[1],
							Src: c23Base + i*maxG, Dst: db + j*maxG, Size: size})
					}
				}
			}
		}
		// a move whose source is the far window, so that it can read what an
		// earlier same-side move wrote there
		for _, sd := range c23Sides {
			lattice = append(lattice, c23Move{SrcSide: sd[0], DstSide: sd[1], Src: c23FarBase, Dst: c23Base + 4*maxG, Size: maxG})
		}
		for _, buf := range []uint64{maxG, 2048} {
			for _, a := range lattice {
				for _, b := range lattice {
					cs := base
					cs.Buf, cs.Lat = buf, lats[0]
					cs.Moves = []c23Move{a, b}
					if !yield(cs) {
						return
					}
				}
			}
		}
		// (3) unaligned addresses: documented panic
		for _, sd := range c23Sides {
			for which := 0; which < 2; which++ {
				side := sd[which]
				gr := c23Gran(base, side)
				for _, off := range []uint64{1, gr / 2, gr - 1} {
					cs := base
					cs.Buf, cs.Lat, cs.Unaligned = 2048, lats[0], true
					m := c23Move{SrcSide: sd[0], DstSide: sd[1], Src: c23Base, Dst: c23FarBase, Size: 2 * maxG}
					if which == 0 {
						m.Src += off
					} else {
						m.Dst += off
					}
					cs.Moves = []c23Move{m}
					if !yield(cs) {
						return
					}
				}
			}
		}
	}
}

func init() {
	lib.Register(&lib.Check{
		ID:    "C23",
		Level: "exploration",
		Rule: "one small simulation per case: real datamover.Comp between two real ideal memory controllers (4 KiB storages pre-filled with position-dependent, side-dependent bytes) over a real direct connection on a serial engine. " +
			"Granularities (inside,outside) in {(4,4),(4,8),(8,4),(64,16)} x buffer size {max granularity, 2048} (thorough: also 2x, 3x) x memory latency {2} (thorough {1,5}) x source/destination side in {inside,outside}^2 x " +
			"(1) one move: every granularity-aligned source and destination address of a 4-chunk window (same-side moves: a disjoint and the same window, so overlapping ranges occur) x every size 1..2*max granularity (quick, (64,16): 14 boundary sizes); " +
			"(2) two moves queued back to back from a 36-move lattice (the second may read what the first wrote); (3) addresses not aligned to their side's granularity, which must panic. " +
			"Oracle: exactly one acknowledgement per move, in arrival order with RspTo = request ID; at the moment the mover sends the k-th acknowledgement (port send hook) and again at the end, both memories byte for byte equal the reference (first k moves applied one after the other to a snapshot): destination range = source bytes at request time, every other byte of both memories unchanged. Each case is distinct.",
		Sharded:     true,
		MinOutcomes: 10,
		Assumptions: []string{
			"the buffer size is at least the larger granularity (a smaller buffer can never assemble one destination chunk; the builder accepts it but it is not a usable configuration)",
			"all addresses lie inside the storages; memory controllers answer in order with a fixed latency (completion reordering below the mover is not explored here)",
			"memory contents are only judged when every move was acknowledged, because the statement conditions on the acknowledgement",
		},
		Run: func(c *lib.Ctx) {
			lib.Cases(c, func(yield func(c23Case) bool) { c23Enum(c, yield) }, c23Run)
		},
		Replay: lib.ReplayCases(c23Run),
	})
}

package grpe

import "verif/harness/lib"

// C03Scenarios yields a deterministic subset of the C23 (data mover) cases as
// opaque scenario runs, for the determinism check C03.
func C03Scenarios(c *lib.Ctx, yield func(name string, run func()) bool) {
	stride := 307
	if c.Thorough() {
		stride = 11
	}
	i := 0
	c23Enum(c, func(cs c23Case) bool {
		i++
		if i%stride != 0 {
			return true
		}
		cc := cs
		return yield("datamover", func() { c23Run(cc) })
	})
}

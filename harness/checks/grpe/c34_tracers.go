package grpe

import (
	"fmt"
	"sort"
	"strings"

	"github.com/sarchlab/akita/v5/timing"
	"github.com/sarchlab/akita/v5/tracing"

	"verif/harness/lib"
)

// C34: the aggregate tracers (total time, average time, busy time, tag count)
// against arithmetic on the event stream itself.

// c34Ev is one event of a stream. K: "s" start, "e" end, "t" tag.
// T is the task index (the task's ID is 101+T); T == -1 on a tag means a task
// ID that was never started.
type c34Ev struct {
	K   string `json:"k"`
	T   int    `json:"t"`
	At  int    `json:"at"`
	Tag string `json:"tag,omitempty"`
}

type c34Case struct {
	Acc  []bool  `json:"acc"`  // per started task: does the filter accept it
	Ev   []c34Ev `json:"ev"`   // time-ordered
	Term int     `json:"term"` // -1: no TerminateAllTasks; else its time (>= last event)
}

const c34NeverStartedID = 999

func c34TaskID(i int) uint64 {
	if i < 0 {
		return c34NeverStartedID
	}
	return uint64(101 + i)
}

func c34Union(iv [][2]int) int {
	sort.Slice(iv, func(a, b int) bool { return iv[a][0] < iv[b][0] })
	total := 0
	haveCur := false
	var lo, hi int
	for _, x := range iv {
		if !haveCur {
			lo, hi, haveCur = x[0], x[1], true
			continue
		}
		if x[0] <= hi {
			if x[1] > hi {
				hi = x[1]
			}
			continue
		}
		total += hi - lo
		lo, hi = x[0], x[1]
	}
	if haveCur {
		total += hi - lo
	}
	return total
}

func c34Run(cs c34Case) (string, []lib.Problem) {
	filter := func(t tracing.TaskStart) bool { return t.Kind == "acc" }
	tot := tracing.NewTotalTimeTracer(filter)
	avg := tracing.NewAverageTimeTracer(filter)
	busy := tracing.NewBusyTimeTracer(filter)
	tag := tracing.NewTagCountTracer(filter)
	tracers := []tracing.Tracer{tot, avg, busy, tag}
	names := []string{"total", "average", "busy", "tagcount"}

	var probs []lib.Problem
	bad := func(key, format string, a ...any) {
		probs = append(probs, lib.Problem{Key: key, What: fmt.Sprintf(format, a...) + " :: stream " + c34Show(cs)})
	}

	n := len(cs.Acc)
	start := make([]int, n)
	end := make([]int, n)
	for i := range start {
		start[i], end[i] = -1, -1
	}
	tagCount := map[string]uint64{}
	taskWith := map[string]map[int]bool{}
	nextTagID := uint64(5000)
	last := 0

	for _, ev := range cs.Ev {
		last = ev.At
		at := timing.VTimeInPicoSec(ev.At)
		for ti, tr := range tracers {
			var msg string
			switch ev.K {
			case "s":
				kind := "rej"
				if cs.Acc[ev.T] {
					kind = "acc"
				}
				ts := tracing.TaskStart{ID: c34TaskID(ev.T), ParentID: 1, Kind: kind, What: "w", Location: "loc", Time: at}
				msg = lib.Catch(func() { tr.StartTask(ts) })
			case "e":
				msg = lib.Catch(func() { tr.EndTask(tracing.TaskEnd{ID: c34TaskID(ev.T), Time: at}) })
			case "t":
				tg := tracing.TaskTag{ID: nextTagID, TaskID: c34TaskID(ev.T), What: ev.Tag, Time: at}
				msg = lib.Catch(func() { tr.AddTaskTag(tg) })
			}
			if msg != "" {
				bad("panic:"+names[ti]+":on-"+ev.K, "%s tracer panicked: %s", names[ti], msg)
				return "panic", probs
			}
		}
		switch ev.K {
		case "s":
			start[ev.T] = ev.At
		case "e":
			end[ev.T] = ev.At
		case "t":
			nextTagID++
			tagCount[ev.Tag]++
			if ev.T >= 0 && cs.Acc[ev.T] {
				if taskWith[ev.Tag] == nil {
					taskWith[ev.Tag] = map[int]bool{}
				}
				taskWith[ev.Tag][ev.T] = true
			}
		}
	}

	// reference statistics
	sum, cnt, unended := 0, 0, 0
	var iv [][2]int
	for i := 0; i < n; i++ {
		if !cs.Acc[i] || start[i] < 0 {
			continue
		}
		if end[i] >= 0 {
			sum += end[i] - start[i]
			cnt++
			iv = append(iv, [2]int{start[i], end[i]})
		} else {
			unended++
			if cs.Term >= 0 {
				iv = append(iv, [2]int{start[i], cs.Term})
			}
		}
	}

	if got := int(tot.TotalTime()); got != sum {
		bad("total:sum", "TotalTime()=%d, sum of the %d accepted ended tasks' durations is %d", got, cnt, sum)
	}
	if got := int(avg.TotalCount()); got != cnt {
		bad("average:count", "TotalCount()=%d, %d accepted tasks ended", got, cnt)
	}
	if cnt > 0 {
		if got, want := int(avg.AverageTime()), sum/cnt; got != want {
			dir := "below"
			if got > want {
				dir = "above"
			}
			bad("average:floor-mean:"+dir, "AverageTime()=%d, floor(%d/%d)=%d", got, sum, cnt, want)
		}
	}

	mode := ""
	if cs.Term >= 0 {
		msg := lib.Catch(func() { busy.TerminateAllTasks(timing.VTimeInPicoSec(cs.Term)) })
		if msg != "" {
			bad("panic:busy:on-terminate", "TerminateAllTasks(%d) panicked: %s", cs.Term, msg)
			return "panic", probs
		}
		mode = "after-terminate"
	} else if unended == 0 {
		mode = "all-ended"
	}
	union := -1
	if mode != "" {
		union = c34Union(iv)
		if got := int(busy.BusyTime()); got != union {
			dir := "undercount"
			if got > union {
				dir = "overcount"
			}
			bad("busy:union-"+dir+":"+mode, "BusyTime()=%d, the union of intervals %v has length %d", got, iv, union)
		}
	}

	// tag counter
	gotNames := map[string]bool{}
	for _, nm := range tag.GetTagNames() {
		gotNames[nm] = true
	}
	for _, nm := range []string{"a", "b", "never"} {
		if gotNames[nm] != (tagCount[nm] > 0) {
			bad("tagcount:names", "GetTagNames() lists %q: %v, recorded %d times", nm, gotNames[nm], tagCount[nm])
		}
		if got := tag.GetTagCount(nm); got != tagCount[nm] {
			bad("tagcount:tags", "GetTagCount(%q)=%d, %d tags of that name were recorded", nm, got, tagCount[nm])
		}
		if got, want := tag.GetTaskCount(nm), uint64(len(taskWith[nm])); got != want {
			bad("tagcount:tasks", "GetTaskCount(%q)=%d, %d distinct tracked tasks carried it", nm, got, want)
		}
	}
	_ = last

	ntags := 0
	for _, v := range tagCount {
		ntags += int(v)
	}
	return fmt.Sprintf("n%d c%d sum%d union%d tags%d tt%d", n, cnt, sum, union, ntags, len(taskWith["a"])+len(taskWith["b"])), probs
}

func c34Show(cs c34Case) string {
	var sb strings.Builder
	for i, ev := range cs.Ev {
		if i > 0 {
			sb.WriteByte(' ')
		}
		switch ev.K {
		case "s":
			a := "+"
			if !cs.Acc[ev.T] {
				a = "-"
			}
			fmt.Fprintf(&sb, "start%d%s@%d", ev.T, a, ev.At)
		case "e":
			fmt.Fprintf(&sb, "end%d@%d", ev.T, ev.At)
		case "t":
			fmt.Fprintf(&sb, "tag%d:%s@%d", ev.T, ev.Tag, ev.At)
		}
	}
	if cs.Term >= 0 {
		fmt.Fprintf(&sb, " terminate@%d", cs.Term)
	}
	return sb.String()
}

// c34Enum yields every time-ordered stream with at most maxTasks tasks (started
// in index order: task IDs are labels, so this loses nothing), times 0..maxTime,
// at most maxTags tags over names {a,b} put on a running task or on a task ID
// that was never started, every accept/reject pattern of the filter, and every
// TerminateAllTasks time >= the last event. Only streams with >= minTags tags
// are yielded (so that the tag family does not repeat the untagged family). Every prefix is a stream too, so
// tasks still running at the end are covered.
func c34Enum(maxTasks, maxTime, minTags, maxTags int, yield func(c34Case) bool) bool {
	var ev []c34Ev
	running := []int{}
	var rec func(started, now, tags int) bool
	emit := func(started, now int) bool {
		for mask := 0; mask < 1<<started; mask++ {
			acc := make([]bool, started)
			for i := range acc {
				acc[i] = mask>>i&1 == 1
			}
			base := c34Case{Acc: acc, Ev: append([]c34Ev(nil), ev...)}
			if len(running) == 0 {
				base.Term = -1
				if !yield(base) {
					return false
				}
			}
			for t := now; t <= maxTime; t++ {
				cs := base
				cs.Term = t
				if !yield(cs) {
					return false
				}
				if len(running) == 0 {
					break // terminate with nothing running: one time is enough
				}
			}
		}
		return true
	}
	rec = func(started, now, tags int) bool {
		if len(ev) > 0 && tags >= minTags && !emit(started, now) {
			return false
		}
		for t := now; t <= maxTime; t++ {
			if started < maxTasks {
				ev = append(ev, c34Ev{K: "s", T: started, At: t})
				running = append(running, started)
				ok := rec(started+1, t, tags)
				running = running[:len(running)-1]
				ev = ev[:len(ev)-1]
				if !ok {
					return false
				}
			}
			for k := 0; k < len(running); k++ {
				id := running[k]
				saved := append([]int(nil), running...)
				running = append(append([]int{}, running[:k]...), running[k+1:]...)
				ev = append(ev, c34Ev{K: "e", T: id, At: t})
				ok := rec(started, t, tags)
				ev = ev[:len(ev)-1]
				running = saved
				if !ok {
					return false
				}
			}
			if tags < maxTags {
				targets := append([]int{}, running...)
				targets = append(targets, -1)
				for _, tg := range targets {
					for _, nm := range []string{"a", "b"} {
						ev = append(ev, c34Ev{K: "t", T: tg, At: t, Tag: nm})
						ok := rec(started, t, tags+1)
						ev = ev[:len(ev)-1]
						if !ok {
							return false
						}
					}
				}
			}
		}
		return true
	}
	return rec(0, 0, 0)
}

func init() {
	lib.Register(&lib.Check{
		ID:    "C34",
		Level: "exploration",
		Rule: "every time-ordered stream (and every prefix of one, so tasks may still be running) of StartTask/EndTask events of <= N tasks (quick 3, thorough 4) with times 0..5 " +
			"(nested, chained, overlapping, disjoint, adjacent, zero-length all arise), x every accept/reject pattern of the task filter, x {no TerminateAllTasks (only when nothing runs), TerminateAllTasks(t) for every t in last..5}; " +
			"plus the tag family: streams of <= M tasks (quick 2, thorough 3) over times {0,1} with <= 3 AddTaskTag events over names {a,b} on any running task (accepted or rejected) or on a never-started task ID. " +
			"Each stream is fed to real Total/Average/Busy/TagCount tracers; oracle: sum of ended accepted durations, floor(sum/count), |union of accepted intervals| (unended ones closed at the terminate time; compared only when all ended or after TerminateAllTasks), " +
			"tags recorded per name, distinct accepted-and-running tasks per name. Tasks are started in index order (IDs are labels). Each (stream, filter pattern, terminate time) is a distinct case.",
		Sharded:     true,
		MinOutcomes: 20,
		Assumptions: []string{
			"task IDs are never reused within a stream; tags are never added to a task after its end (whether such a task is still 'tracked' is not fixed by the statement)",
			"the running value of BusyTime() while an accepted task is still open is not compared (the tracer documents lazy collapsing); it is compared once all tasks ended or after TerminateAllTasks",
			"AverageTime() is not compared when no accepted task has ended (0/0)",
		},
		Run: func(c *lib.Ctx) {
			lib.Cases(c, func(yield func(c34Case) bool) {
				if !c34Enum(lib.Pick(c, 3, 4), 5, 0, 0, yield) {
					return
				}
				c34Enum(lib.Pick(c, 2, 3), 1, 1, 3, yield)
			}, c34Run)
		},
		Replay: lib.ReplayCases(c34Run),
	})
}

package grpe

import (
	"database/sql"
	"encoding/json"
	"fmt"
	"math"
	"os"
	"path/filepath"
	"reflect"
	"sort"
	"strconv"
	"strings"

	"github.com/sarchlab/akita/v5/datarecording"

	"verif/harness/lib"
)

// C35 (sequential half): the real SQLite data recorder; every entry inserted
// before Close must be in the file exactly once with unchanged values.

var c35Kinds = []reflect.Kind{
	reflect.Int64, reflect.String, reflect.Bool, reflect.Uint64, reflect.Float64,
	reflect.Int, reflect.Int8, reflect.Int16, reflect.Int32,
	reflect.Uint, reflect.Uint8, reflect.Uint16, reflect.Uint32,
	reflect.Float32, reflect.Complex64, reflect.Complex128,
}

var c35Types = map[reflect.Kind]reflect.Type{
	reflect.Bool: reflect.TypeOf(false), reflect.Int: reflect.TypeOf(int(0)), reflect.Int8: reflect.TypeOf(int8(0)),
	reflect.Int16: reflect.TypeOf(int16(0)), reflect.Int32: reflect.TypeOf(int32(0)), reflect.Int64: reflect.TypeOf(int64(0)),
	reflect.Uint: reflect.TypeOf(uint(0)), reflect.Uint8: reflect.TypeOf(uint8(0)), reflect.Uint16: reflect.TypeOf(uint16(0)),
	reflect.Uint32: reflect.TypeOf(uint32(0)), reflect.Uint64: reflect.TypeOf(uint64(0)),
	reflect.Float32: reflect.TypeOf(float32(0)), reflect.Float64: reflect.TypeOf(float64(0)),
	reflect.Complex64: reflect.TypeOf(complex64(0)), reflect.Complex128: reflect.TypeOf(complex128(0)),
	reflect.String: reflect.TypeOf(""),
}

var c35Strings = []string{"plain", "", "it's a \"quoted\"; -- '); DROP TABLE ta;", "ünï©ödé 漢字 🙂", "nul\x00inside"}

// c35Set stores the v-th lattice value of its kind into f and returns the
// canonical rendering a faithful database must give back.
func c35Set(f reflect.Value, v int) string {
	v = ((v % 5) + 5) % 5
	switch f.Kind() {
	case reflect.Bool:
		b := v%2 == 1
		f.SetBool(b)
		if b {
			return "1"
		}
		return "0"
	case reflect.Int, reflect.Int8, reflect.Int16, reflect.Int32, reflect.Int64:
		bits := f.Type().Bits()
		minV, maxV := int64(-1)<<(bits-1), int64(1)<<(bits-1)-1
		x := []int64{1, 0, minV, maxV, -1}[v]
		f.SetInt(x)
		return strconv.FormatInt(x, 10)
	case reflect.Uint, reflect.Uint8, reflect.Uint16, reflect.Uint32, reflect.Uint64:
		bits := f.Type().Bits()
		maxV := uint64(math.MaxUint64)
		if bits < 64 {
			maxV = uint64(1)<<bits - 1
		}
		x := []uint64{1, 0, maxV, maxV/2 + 1, maxV / 2}[v]
		f.SetUint(x)
		return strconv.FormatUint(x, 10)
	case reflect.Float32:
		x := []float32{1.5, 0, -math.MaxFloat32, math.SmallestNonzeroFloat32, -0.1}[v]
		f.SetFloat(float64(x))
		return strconv.FormatFloat(float64(x), 'g', -1, 64)
	case reflect.Float64:
		x := []float64{1.5, 0, -math.MaxFloat64, math.SmallestNonzeroFloat64, -0.1}[v]
		f.SetFloat(x)
		return strconv.FormatFloat(x, 'g', -1, 64)
	case reflect.Complex64, reflect.Complex128:
		x := []complex128{complex(1, 2), 0, complex(-1.5, 0), complex(0, 1), complex(3, -4)}[v]
		f.SetComplex(x)
		return fmt.Sprintf("c:%v", f.Complex())
	case reflect.String:
		f.SetString(c35Strings[v])
		return "s:" + c35Strings[v]
	}
	panic("c35: kind")
}

// c35Canon renders a value scanned from the database.
func c35Canon(x any) string {
	switch t := x.(type) {
	case nil:
		return "NULL"
	case int64:
		return strconv.FormatInt(t, 10)
	case float64:
		return strconv.FormatFloat(t, 'g', -1, 64)
	case bool:
		if t {
			return "1"
		}
		return "0"
	case string:
		return "s:" + t
	case []byte:
		return "s:" + string(t)
	}
	return fmt.Sprintf("?%T:%v", x, x)
}

type c35Field struct {
	Kind string `json:"k"`             // reflect.Kind name
	Tag  string `json:"tag,omitempty"` // "", "ignore", "location"
}

type c35Case struct {
	Fields []c35Field `json:"fields"` // shape of table ta
	TwoTab bool       `json:"two,omitempty"`
	Batch  int        `json:"batch"` // 0 = the recorder's default
	Hist   string     `json:"hist"`  // a = insert into ta, b = insert into tb, f = Flush; Close follows
	V0     int        `json:"v0"`    // the i-th insert uses lattice value (i+V0) mod 5
}

func c35KindByName(n string) reflect.Kind {
	for _, k := range c35Kinds {
		if k.String() == n {
			return k
		}
	}
	panic("c35: unknown kind " + n)
}

func c35Struct(fields []c35Field) reflect.Type {
	var sf []reflect.StructField
	for i, f := range fields {
		s := reflect.StructField{Name: fmt.Sprintf("F%d", i), Type: c35Types[c35KindByName(f.Kind)]}
		if f.Tag != "" {
			s.Tag = reflect.StructTag(`akita_data:"` + f.Tag + `"`)
		}
		sf = append(sf, s)
	}
	return reflect.StructOf(sf)
}

var c35TbFields = []c35Field{{Kind: "int64"}, {Kind: "string", Tag: "location"}}

var c35Seq int

// c35PanicKey names a panic of the recorder by its cause, not by where the
// flush that hit it happened to run (InsertData at the batch size, Flush, Close).
func c35PanicKey(msg string) string {
	switch {
	case strings.Contains(msg, "unsupported type complex64"):
		return "store-panic:allowed-kind-not-storable:complex64"
	case strings.Contains(msg, "unsupported type complex128"):
		return "store-panic:allowed-kind-not-storable:complex128"
	case strings.Contains(msg, "uint64 values with high bit set"):
		return "store-panic:uint64-above-maxint64"
	case strings.Contains(msg, "location.ID"):
		return "location:id-reused:index-build-panic"
	case strings.Contains(msg, "unsupported type"):
		return "store-panic:allowed-kind-not-storable:other"
	}
	return "store-panic:other"
}

func c35Run(cs c35Case) (string, []lib.Problem) {
	var probs []lib.Problem
	bad := func(key, format string, a ...any) {
		probs = append(probs, lib.Problem{Key: key, What: fmt.Sprintf("case %+v: ", cs) + fmt.Sprintf(format, a...)})
	}
	kindsOf := func(fs []c35Field) string {
		var ks []string
		for _, f := range fs {
			if f.Tag != "ignore" {
				ks = append(ks, f.Kind)
			}
		}
		return strings.Join(ks, ",")
	}
	c35Seq++
	base := filepath.Join(lib.ScratchDir(), fmt.Sprintf("c35-%d", c35Seq))
	file := base + ".sqlite3"
	defer os.Remove(file)

	shapes := map[string][]c35Field{"ta": cs.Fields}
	if cs.TwoTab {
		shapes["tb"] = c35TbFields
	}
	types := map[string]reflect.Type{}
	for n, fs := range shapes {
		types[n] = c35Struct(fs)
	}

	var rec datarecording.DataRecorder
	closed := false
	defer func() {
		// After a failure the recorder's own Close may panic again before it
		// reaches the database handle: close the embedded *sql.DB directly so
		// that no file descriptor outlives the case.
		if rec != nil && !closed {
			lib.Catch(func() {
				v := reflect.ValueOf(rec)
				if v.Kind() == reflect.Ptr {
					v = v.Elem()
				}
				if f := v.FieldByName("DB"); f.IsValid() && f.CanInterface() {
					if db, ok := f.Interface().(*sql.DB); ok && db != nil {
						_ = db.Close()
					}
				}
			})
		}
	}()
	stage := "create"
	if msg := lib.Catch(func() {
		rec = datarecording.NewDataRecorder(base)
		if cs.Batch > 0 {
			datarecording.VerifSetBatchSize(rec, cs.Batch)
		}
		for _, n := range []string{"ta", "tb"} {
			if t, ok := types[n]; ok {
				rec.CreateTable(n, reflect.New(t).Elem().Interface())
			}
		}
	}); msg != "" {
		hasComplex := strings.Contains(kindsOf(cs.Fields), "complex")
		if hasComplex && strings.Contains(msg, "entry is invalid") {
			// CreateTable refuses the shape up front: then complex is simply not
			// an allowed field kind and the statement says nothing about it.
			return "shape-rejected-at-create", nil
		}
		bad("create-panic:kinds="+kindsOf(cs.Fields), "%s panicked: %s", stage, msg)
		return "panic-create", probs
	}

	// expected rows (canonical, non-ignored columns; location columns by string)
	want := map[string][]string{}
	locs := map[string]bool{}
	nIns := 0
	for i, op := range cs.Hist {
		var msg string
		switch op {
		case 'a', 'b':
			tab := map[rune]string{'a': "ta", 'b': "tb"}[op]
			fs := shapes[tab]
			e := reflect.New(types[tab]).Elem()
			var cols []string
			for k, f := range fs {
				c := c35Set(e.Field(k), nIns+cs.V0+k)
				if f.Tag == "ignore" {
					continue
				}
				if f.Tag == "location" {
					locs[e.Field(k).String()] = true
				}
				cols = append(cols, c)
			}
			nIns++
			want[tab] = append(want[tab], strings.Join(cols, " | "))
			stage = "insert"
			msg = lib.Catch(func() { rec.InsertData(tab, e.Interface()) })
		case 'f':
			stage = "flush"
			msg = lib.Catch(func() { rec.Flush() })
		}
		if msg != "" {
			bad(c35PanicKey(msg), "step %d (%c): %s panicked: %s", i, op, stage, msg)
			return "panic-" + stage, probs
		}
	}
	var cerr error
	if msg := lib.Catch(func() { cerr = rec.Close() }); msg != "" || cerr != nil {
		bad(c35PanicKey(msg), "Close: panic=%q err=%v", msg, cerr)
		return "panic-close", probs
	}
	closed = true

	// read back with database/sql and the driver akita registers
	db, err := sql.Open("sqlite", file)
	if err != nil {
		bad("internal:open", "%v", err)
		return "open-failed", probs
	}
	defer db.Close()

	locByID := map[int64]string{}
	if len(locs) > 0 || c35HasLoc(shapes) {
		rows, err := db.Query("SELECT ID, Locale FROM location")
		if err != nil {
			if len(locs) > 0 {
				bad("location:table-unreadable", "%v", err)
			}
		} else {
			seenStr := map[string]bool{}
			for rows.Next() {
				var id int64
				var s any
				if err := rows.Scan(&id, &s); err != nil {
					bad("internal:scan-location", "%v", err)
					break
				}
				str := strings.TrimPrefix(c35Canon(s), "s:")
				if _, dup := locByID[id]; dup {
					bad("location:id-reused", "location ID %d appears twice", id)
				}
				if seenStr[str] {
					bad("location:string-interned-twice", "location string %q has two IDs", str)
				}
				seenStr[str] = true
				locByID[id] = str
			}
			rows.Close()
			for s := range locs {
				if !seenStr[s] {
					bad("location:string-missing", "location string %q is in no row of the location table (%v)", s, locByID)
				}
			}
			for s := range seenStr {
				if !locs[s] {
					bad("location:phantom-string", "location table holds %q, which no entry used", s)
				}
			}
		}
	}

	total := 0
	for _, tab := range []string{"ta", "tb"} {
		fs, ok := shapes[tab]
		if !ok {
			continue
		}
		var stored []c35Field
		for _, f := range fs {
			if f.Tag != "ignore" {
				stored = append(stored, f)
			}
		}
		rows, err := db.Query("SELECT * FROM " + tab)
		if err != nil {
			bad("table:unreadable", "table %s: %v", tab, err)
			continue
		}
		cols, _ := rows.Columns()
		if len(cols) != len(stored) {
			bad("table:column-count", "table %s has columns %v, the entry type has %d non-ignored fields", tab, cols, len(stored))
		}
		var got []string
		for rows.Next() {
			vals := make([]any, len(cols))
			ptrs := make([]any, len(cols))
			for i := range vals {
				ptrs[i] = &vals[i]
			}
			if err := rows.Scan(ptrs...); err != nil {
				bad("internal:scan", "%v", err)
				break
			}
			var parts []string
			for i, v := range vals {
				c := c35Canon(v)
				if i < len(stored) && strings.HasPrefix(stored[i].Kind, "uint") && strings.HasPrefix(c, "s:") {
					// an unsigned number kept as its exact decimal text (SQLite
					// integers are signed 64-bit) still denotes the same number
					if _, err := strconv.ParseUint(c[2:], 10, 64); err == nil {
						c = c[2:]
					}
				}
				if i < len(stored) && stored[i].Tag == "location" {
					id, isInt := v.(int64)
					if s, ok := locByID[id]; isInt && ok {
						c = "s:" + s
					} else {
						c = fmt.Sprintf("unresolved-location-id:%v", v)
					}
				}
				parts = append(parts, c)
			}
			got = append(got, strings.Join(parts, " | "))
		}
		rows.Close()
		total += len(got)

		extra, missing := c36Diff(got, want[tab])
		sort.Strings(extra)
		switch {
		case len(got) < len(want[tab]):
			bad("rows:lost", "table %s holds %d rows, %d entries were inserted; missing %q", tab, len(got), len(want[tab]), missing)
		case len(got) > len(want[tab]):
			bad("rows:duplicated", "table %s holds %d rows, %d entries were inserted; extra %q", tab, len(got), len(want[tab]), extra)
		case len(extra) > 0:
			// same number of rows, different content: name the kinds whose column changed
			changed := map[string]bool{}
			for _, e := range extra {
				ep := strings.Split(e, " | ")
				best := -1
				var bestDiff []int
				for _, m := range missing {
					mp := strings.Split(m, " | ")
					if len(mp) != len(ep) {
						continue
					}
					var d []int
					for i := range ep {
						if ep[i] != mp[i] {
							d = append(d, i)
						}
					}
					if best < 0 || len(d) < best {
						best, bestDiff = len(d), d
					}
				}
				for _, i := range bestDiff {
					if i < len(stored) {
						k := stored[i].Kind
						if stored[i].Tag == "location" {
							k = "location"
						}
						changed[k] = true
					}
				}
			}
			var ks []string
			for k := range changed {
				ks = append(ks, k)
			}
			sort.Strings(ks)
			bad("value:changed:"+strings.Join(ks, ","), "table %s: stored rows %q, inserted %q", tab, extra, missing)
		}
	}
	return fmt.Sprintf("f%d rows%d loc%d batch%d", len(cs.Fields), total, len(locByID), cs.Batch), probs
}

func c35HasLoc(shapes map[string][]c35Field) bool {
	for _, fs := range shapes {
		for _, f := range fs {
			if f.Tag == "location" {
				return true
			}
		}
	}
	return false
}

// c35TagVariants: no tags; the string field interned as a location; the last
// field ignored (if another one remains); both.
func c35TagVariants(kinds []reflect.Kind) [][]c35Field {
	plain := make([]c35Field, len(kinds))
	strIdx := -1
	for i, k := range kinds {
		plain[i] = c35Field{Kind: k.String()}
		if k == reflect.String {
			strIdx = i
		}
	}
	out := [][]c35Field{plain}
	with := func(base []c35Field, i int, tag string) []c35Field {
		c := append([]c35Field(nil), base...)
		c[i].Tag = tag
		return c
	}
	if strIdx >= 0 {
		out = append(out, with(plain, strIdx, "location"))
	}
	if len(kinds) >= 2 {
		last := len(kinds) - 1
		out = append(out, with(plain, last, "ignore"))
		if strIdx >= 0 && strIdx != last {
			out = append(out, with(with(plain, strIdx, "location"), last, "ignore"))
		}
	}
	return out
}

func c35Hists(alphabet string, maxLen int) []string {
	out := []string{""}
	level := []string{""}
	for l := 1; l <= maxLen; l++ {
		var next []string
		for _, h := range level {
			for _, a := range alphabet {
				next = append(next, h+string(a))
			}
		}
		out = append(out, next...)
		level = next
	}
	return out
}

func c35Enum(c *lib.Ctx, yield func(c35Case) bool) {
	// (V) every lattice value of every kind on its own
	for _, k := range c35Kinds {
		for _, fs := range c35TagVariants([]reflect.Kind{k}) {
			for v := 0; v < 5; v++ {
				if !yield(c35Case{Fields: fs, Hist: "a", V0: v}) {
					return
				}
			}
		}
	}
	// (S) every subset of kinds x tag variants x batch size x insert/flush history
	// (3-field subsets: thorough only, histories of <= 3 operations)
	batches := lib.Pick(c, []int{2}, []int{1, 2, 3})
	histsFor := map[int][]string{
		1: c35Hists("af", lib.Pick(c, 3, 5)),
		2: lib.Pick(c, append(c35Hists("af", 2), "aaa", "aaf", "afa"), c35Hists("af", 4)),
		3: c35Hists("af", 3),
	}
	maxFields := lib.Pick(c, 2, 3)
	// A kind whose single boundary value already cannot be stored is reported by
	// family (V) and by the 1- and 2-field shapes; repeating that failure in
	// every 3-field shape would only multiply the same violation (and the 5x
	// confirmation re-runs), so such kinds are left out of the 3-field shapes.
	broken := map[reflect.Kind]bool{}
	if maxFields >= 3 {
		for _, k := range c35Kinds {
			for v := 0; v < 5 && !broken[k]; v++ {
				if _, p := c35Run(c35Case{Fields: []c35Field{{Kind: k.String()}}, Hist: "a", V0: v}); len(p) > 0 {
					broken[k] = true
				}
			}
		}
		if len(broken) > 0 {
			var ks []string
			for _, k := range c35Kinds {
				if broken[k] {
					ks = append(ks, k.String())
				}
			}
			c.Note("3-field shapes leave out the kinds %v: a single value of each already fails (reported under family V and the 1-/2-field shapes)", ks)
		}
	}
	var subsets [][]reflect.Kind
	var rec func(start int, cur []reflect.Kind)
	rec = func(start int, cur []reflect.Kind) {
		if len(cur) > 0 {
			subsets = append(subsets, append([]reflect.Kind(nil), cur...))
		}
		if len(cur) == maxFields {
			return
		}
		for i := start; i < len(c35Kinds); i++ {
			rec(i+1, append(cur, c35Kinds[i]))
		}
	}
	rec(0, nil)
	for _, sub := range subsets {
		if len(sub) == 3 {
			skip := false
			for _, k := range sub {
				skip = skip || broken[k]
			}
			if skip {
				continue
			}
		}
		for _, fs := range c35TagVariants(sub) {
			for _, b := range batches {
				for _, h := range histsFor[len(sub)] {
					if !yield(c35Case{Fields: fs, Batch: b, Hist: h}) {
						return
					}
				}
			}
		}
	}
	// (H) two tables sharing the location table: every history over
	// {insert ta, insert tb, flush} for a few shapes and every batch size
	shapes := [][]c35Field{
		{{Kind: "int64"}},
		{{Kind: "string", Tag: "location"}},
		{{Kind: "string"}, {Kind: "uint8"}},
		{{Kind: "bool"}, {Kind: "string", Tag: "location"}, {Kind: "float64", Tag: "ignore"}},
	}
	for _, fs := range shapes {
		for _, b := range lib.Pick(c, []int{1, 2, 0}, []int{1, 2, 3, 0}) {
			for _, h := range c35Hists("abf", lib.Pick(c, 3, 5)) {
				if !yield(c35Case{Fields: fs, TwoTab: true, Batch: b, Hist: h, V0: len(h)}) {
					return
				}
			}
		}
	}
}

func init() {
	lib.Register(&lib.Check{
		ID:    "C35",
		Level: "exploration",
		Rule: "sequential half. Real datarecording.NewDataRecorder writing a SQLite file on tmpfs; entry types built with reflect.StructOf. " +
			"(V) each of the 16 allowed field kinds x each of 5 boundary values (0, +-1, min/max of the kind, float extremes; strings: empty, quotes+SQL, unicode, embedded NUL), string also as interned location; " +
			"(S) every subset of <= 2 distinct kinds x tag variants {none, string as location, last field ignored, both} x batch size {2} (thorough {1,2,3}, via the verif hook VerifSetBatchSize) x every history of <= 3 for one kind and {every history of <= 2, aaa, aaf, afa} for two kinds (thorough: <= 5 and <= 4) of {a = insert, f = Flush}; thorough also every 3-kind subset (kinds whose single value already fails left out, see notes) x histories of <= 3; " +
			"(H) two tables sharing the location table: 4 shapes x batch size {1,2,default} (thorough {1,2,3,default}) x every history of <= 3 (thorough 5) {insert ta, insert tb, Flush}. Every history ends with Close; the i-th insert uses the (i+offset)-th lattice value of each field. " +
			"Oracle: the file is reopened with database/sql (same driver): per table the multiset of rows (non-ignored columns, numbers compared by value, location IDs resolved through the location table) equals the multiset of inserted entries; location table: IDs distinct, strings distinct, exactly the strings used; no panic. Each case is distinct.",
		Sharded:     true,
		MinOutcomes: 10,
		Assumptions: []string{
			"concurrent inserts (the other half of C35) are explored by the scheduler engine, not here",
			"NaN and infinities are not in the value lattice; 'unique'/'index' tags (they only add indices at Close) are not used",
			"an entry counts as unchanged if the SQL value read back denotes the same number / the same byte string (bool as 0/1)",
		},
		Run: func(c *lib.Ctx) {
			defer lib.CleanScratch()
			lib.Cases(c, func(yield func(c35Case) bool) { c35Enum(c, yield) }, c35Run)
		},
		Replay: func(c *lib.Ctx, raw json.RawMessage) []lib.Problem {
			defer lib.CleanScratch()
			return lib.ReplayCases(c35Run)(c, raw)
		},
	})
}

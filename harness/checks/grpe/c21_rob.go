package grpe

import (
	"bytes"
	"encoding/json"
	"fmt"
	"strings"

	"github.com/sarchlab/akita/v5/hooking"
	"github.com/sarchlab/akita/v5/mem/memprotocol"
	"github.com/sarchlab/akita/v5/mem/rob"
	"github.com/sarchlab/akita/v5/messaging"
	"github.com/sarchlab/akita/v5/modeling"
	"github.com/sarchlab/akita/v5/timing"

	"verif/harness/lib"
)

// C21: the real reorder buffer with real ports; the requester above and the
// lower unit below are played by the driver, whose completion order is a
// choice point.

type c21Cfg struct {
	Buf    int `json:"buf"`
	Width  int `json:"width"`
	TopCap int `json:"top"`
	BotCap int `json:"bot"`
	MaxReq int `json:"maxreq"`
	// Engine: the ROB is driven by its engine (the "tick" op runs the engine
	// until no event is left, so the ROB ticks only when a port woke it up and
	// only while its ticks report progress) instead of being ticked by hand.
	Engine bool `json:"engine,omitempty"`
}

// c21Op: "cfg" (first op only), "issueR", "issueW", "tick", "pull" (the lower
// unit takes everything the ROB has sent down), "recv" (the requester takes
// everything the ROB has sent up), "done" (the lower unit completes its I-th
// outstanding request).
type c21Op struct {
	Op  string  `json:"op"`
	I   int     `json:"i,omitempty"`
	Cfg *c21Cfg `json:"cfg,omitempty"`
}

func (o c21Op) String() string {
	switch o.Op {
	case "cfg":
		return fmt.Sprintf("cfg%+v", *o.Cfg)
	case "done":
		return fmt.Sprintf("done%d", o.I)
	}
	return o.Op
}

type c21Conn struct{ hooking.HookableBase }

func (c *c21Conn) Name() string                     { return "C21Conn" }
func (c *c21Conn) PlugIn(port messaging.Port)       { port.SetConnection(c) }
func (c *c21Conn) Unplug(_ messaging.Port)          {}
func (c *c21Conn) NotifyAvailable(_ messaging.Port) {}
func (c *c21Conn) NotifySend()                      {}

type c21Req struct {
	read bool
	id   uint64
	src  messaging.RemotePort
	addr uint64
}

type c21Shadow struct {
	k    int // index of the issued request it mirrors
	id   uint64
	read bool
}

const c21BottomUnit = messaging.RemotePort("LowerUnit")

// the lower unit's result for the request at addr
func c21Payload(addr uint64) []byte {
	return []byte{0xD0, byte(addr >> 8), byte(addr>>8) ^ 0x5A, 0x0D}
}

func c21Exec(hist []c21Op) (string, bool, []lib.Problem) {
	key, term, probs, _ := c21ExecFull(hist)
	return key, term, probs
}

func c21ExecFull(hist []c21Op) (key string, terminal bool, probs []lib.Problem, outcome string) {
	if len(hist) == 0 {
		return "init", false, nil, ""
	}
	if hist[0].Op != "cfg" || hist[0].Cfg == nil {
		return "", true, []lib.Problem{{Key: "internal:no-config", What: "history does not start with a configuration"}}, ""
	}
	cfg := *hist[0].Cfg
	timing.ResetIDGenerator()

	engine := timing.NewSerialEngine()
	reg := modeling.NewStandaloneRegistrar(engine)
	spec := rob.DefaultSpec()
	spec.BufferSize = cfg.Buf
	spec.NumReqPerCycle = cfg.Width
	spec.BottomUnit = c21BottomUnit
	var comp *rob.Comp
	var top, bottom messaging.Port
	bad := func(step int, key, format string, a ...any) {
		probs = append(probs, lib.Problem{Key: key, What: fmt.Sprintf("%v, step %d: ", hist, step) + fmt.Sprintf(format, a...)})
	}
	if msg := lib.Catch(func() {
		comp = rob.MakeBuilder().WithRegistrar(reg).WithSpec(spec).Build("Rob")
		assign := func(name string, size int) messaging.Port {
			p := modeling.MakePortBuilder().WithRegistrar(reg).WithComponent(comp).
				WithSpec(modeling.PortSpec{BufSize: size}).Build(name)
			comp.AssignPort(name, p)
			(&c21Conn{}).PlugIn(p)
			return p
		}
		top = assign("Top", cfg.TopCap)
		bottom = assign("Bottom", cfg.BotCap)
		assign("Control", 1)
	}); msg != "" {
		bad(0, "internal:build-panic", "building the ROB panicked: %s", msg)
		return "", true, probs, ""
	}

	var issued []c21Req
	forwarded := map[int]bool{}
	var outstanding []c21Shadow // at the lower unit, in arrival order
	var delivered []int         // k of every completion delivered to the Bottom port, in order
	received := 0
	answered := map[int]bool{}
	var doneOrder []int

	for step := 1; step < len(hist); step++ {
		op := hist[step]
		switch op.Op {
		case "issueR", "issueW":
			if len(issued) >= cfg.MaxReq || !top.CanDeliver() {
				return "disabled", true, nil, ""
			}
			k := len(issued)
			r := c21Req{read: op.Op == "issueR", id: timing.GetIDGenerator().Generate(),
				src: messaging.RemotePort(fmt.Sprintf("Agent%c", 'A'+k%2)), addr: uint64(0x100 * (k + 1))}
			issued = append(issued, r)
			var m messaging.Msg
			if r.read {
				q := memprotocol.ReadReq{Address: r.addr, AccessByteSize: 4}
				q.ID, q.Src, q.Dst, q.TrafficBytes, q.TrafficClass = r.id, r.src, top.AsRemote(), 12, "memprotocol.ReadReq"
				m = q
			} else {
				q := memprotocol.WriteReq{Address: r.addr, Data: []byte{byte(k + 1), 0xEE, 0xEE, byte(k + 1)}}
				q.ID, q.Src, q.Dst, q.TrafficBytes, q.TrafficClass = r.id, r.src, top.AsRemote(), 16, "memprotocol.WriteReq"
				m = q
			}
			if msg := lib.Catch(func() { top.Deliver(m) }); msg != "" {
				bad(step, "panic:deliver-top", "Deliver on the Top port panicked: %s", msg)
			}
		case "tick":
			if cfg.Engine {
				if msg := lib.Catch(func() { _ = engine.Run() }); msg != "" {
					bad(step, "panic:tick", "running the engine panicked: %s", msg)
				}
				break
			}
			if msg := lib.Catch(func() { comp.Tick() }); msg != "" {
				bad(step, "panic:tick", "Tick panicked: %s", msg)
			}
		case "pull":
			n := 0
			for {
				m := bottom.RetrieveOutgoing()
				if m == nil {
					break
				}
				n++
				var addr uint64
				var read bool
				switch q := m.(type) {
				case memprotocol.ReadReq:
					addr, read = q.Address, true
				case memprotocol.WriteReq:
					addr, read = q.Address, false
				default:
					bad(step, "forward:not-a-request", "the ROB sent %T down", m)
					continue
				}
				k := int(addr/0x100) - 1
				if addr%0x100 != 0 || k < 0 || k >= len(issued) || issued[k].read != read || forwarded[k] {
					bad(step, "forward:unknown-request", "the ROB sent down a %T for address %#x, which mirrors no issued, not yet forwarded request", m, addr)
					continue
				}
				if m.Meta().Dst != c21BottomUnit {
					bad(step, "forward:wrong-dst", "shadow request for #%d goes to %q, the lower unit is %q", k, m.Meta().Dst, c21BottomUnit)
				}
				forwarded[k] = true
				outstanding = append(outstanding, c21Shadow{k: k, id: m.Meta().ID, read: read})
			}
			if n == 0 {
				return "disabled", true, nil, ""
			}
		case "done":
			if op.I >= len(outstanding) || !bottom.CanDeliver() {
				return "disabled", true, nil, ""
			}
			sh := outstanding[op.I]
			outstanding = append(append([]c21Shadow{}, outstanding[:op.I]...), outstanding[op.I+1:]...)
			var m messaging.Msg
			if sh.read {
				r := memprotocol.DataReadyRsp{Data: c21Payload(issued[sh.k].addr)}
				r.ID, r.Src, r.Dst, r.RspTo, r.TrafficBytes, r.TrafficClass = timing.GetIDGenerator().Generate(), c21BottomUnit, bottom.AsRemote(), sh.id, 8, "memprotocol.DataReadyRsp"
				m = r
			} else {
				r := memprotocol.WriteDoneRsp{}
				r.ID, r.Src, r.Dst, r.RspTo, r.TrafficBytes, r.TrafficClass = timing.GetIDGenerator().Generate(), c21BottomUnit, bottom.AsRemote(), sh.id, 4, "memprotocol.WriteDoneRsp"
				m = r
			}
			if msg := lib.Catch(func() { bottom.Deliver(m) }); msg != "" {
				bad(step, "panic:deliver-bottom", "Deliver on the Bottom port panicked: %s", msg)
			}
			delivered = append(delivered, sh.k)
			doneOrder = append(doneOrder, sh.k)
		case "recv":
			n := 0
			for {
				m := top.RetrieveOutgoing()
				if m == nil {
					break
				}
				n++
				received++
				k := 0 // the oldest accepted request that is still unanswered
				for k < len(issued) && answered[k] {
					k++
				}
				named := -1
				for j, r := range issued {
					if r.id == m.Meta().RspTo {
						named = j
					}
				}
				switch {
				case named < 0 && k >= len(issued):
					bad(step, "response:unexpected-extra", "response %T RspTo=%d arrived although all %d requests were already answered", m, m.Meta().RspTo, len(issued))
					continue
				case named < 0:
					bad(step, "response:rspto-names-no-request", "a response has RspTo=%d; the requests' IDs are %v", m.Meta().RspTo, c21IDs(issued))
					continue
				case answered[named]:
					bad(step, "response:duplicate", "request #%d was answered a second time", named)
					continue
				case named != k:
					answered[named] = true
					bad(step, "order:released-out-of-acceptance-order", "a response answers request #%d, but request #%d was accepted earlier and is still unanswered (lower unit completed in order %v)", named, k, doneOrder)
					continue
				}
				answered[k] = true
				want := issued[k]
				if m.Meta().Dst != want.src {
					bad(step, "response:wrong-dst", "response to request #%d goes to %q, the requester was %q", k, m.Meta().Dst, want.src)
				}
				switch r := m.(type) {
				case memprotocol.DataReadyRsp:
					if !want.read {
						bad(step, "response:wrong-kind", "write #%d was answered with a DataReadyRsp", k)
					} else if !bytes.Equal(r.Data, c21Payload(want.addr)) {
						bad(step, "response:wrong-payload", "read #%d was answered with data %x, the lower unit returned %x for it (lower unit completed in order %v)", k, r.Data, c21Payload(want.addr), doneOrder)
					}
				case memprotocol.WriteDoneRsp:
					if want.read {
						bad(step, "response:wrong-kind", "read #%d was answered with a WriteDoneRsp", k)
					}
				default:
					bad(step, "response:not-a-response", "the ROB sent %T up", m)
				}
			}
			if n == 0 {
				return "disabled", true, nil, ""
			}
		default:
			return "", true, []lib.Problem{{Key: "internal:bad-op", What: "unknown op " + op.Op}}, ""
		}
		if len(probs) > 0 {
			return "", true, probs, ""
		}
	}

	// Canonical key (de-duplication only). IDs are renamed to request indices;
	// buffer contents follow from FIFO order and the counts. The ROB's
	// transaction table is read from its exported State.
	idx := map[uint64]int{}
	for k, r := range issued {
		idx[r.id] = k
	}
	var sb strings.Builder
	fmt.Fprintf(&sb, "%+v|", cfg)
	for _, r := range issued {
		if r.read {
			sb.WriteByte('R')
		} else {
			sb.WriteByte('W')
		}
	}
	fmt.Fprintf(&sb, "|ti%d|", top.NumIncoming())
	for _, t := range comp.State.Transactions {
		k, ok := idx[t.ReqFromTopID]
		if !ok {
			k = -1
		}
		fmt.Fprintf(&sb, "%d:%v,", k, t.HasRsp)
	}
	fmt.Fprintf(&sb, "|bo%d|", bottom.NumOutgoing())
	for _, s := range outstanding {
		fmt.Fprintf(&sb, "%d,", s.k)
	}
	nbi := bottom.NumIncoming()
	if nbi > len(delivered) {
		nbi = len(delivered)
	}
	fmt.Fprintf(&sb, "|bi%v|to%d|rx%d", delivered[len(delivered)-nbi:], top.NumOutgoing(), received)
	// heads of the two outgoing buffers (their contents are produced by the ROB)
	if m := top.PeekOutgoing(); m != nil {
		k, ok := idx[m.Meta().RspTo]
		if !ok {
			k = -1
		}
		data := []byte(nil)
		if r, isData := m.(memprotocol.DataReadyRsp); isData {
			data = r.Data
		}
		fmt.Fprintf(&sb, "|th%d:%T:%s:%x", k, m, m.Meta().Dst, data)
	}
	if m := bottom.PeekOutgoing(); m != nil {
		if q, ok := m.(memprotocol.AccessReq); ok {
			fmt.Fprintf(&sb, "|bh%T:%x:%s", m, q.GetAddress(), m.Meta().Dst)
		}
	}
	outcome = fmt.Sprintf("n%d rx%d done%v", len(issued), received, doneOrder)
	key = sb.String()
	if cfg.Engine {
		// "answers requests": from here on the lower unit completes whatever it
		// is handed (oldest first), both neighbours take what they are sent and
		// the engine runs to quiescence in between; every accepted request must
		// then have been answered. (The instance is discarded afterwards.)
		outcome = "engine " + outcome
		got := map[uint64]bool{}
		msg := lib.Catch(func() {
			for round := 0; round < 6*cfg.MaxReq+12; round++ {
				_ = engine.Run()
				for m := bottom.RetrieveOutgoing(); m != nil; m = bottom.RetrieveOutgoing() {
					_, isRead := m.(memprotocol.ReadReq)
					q, _ := m.(memprotocol.AccessReq)
					k := -1
					if q != nil {
						k = int(q.GetAddress()/0x100) - 1
					}
					outstanding = append(outstanding, c21Shadow{k: k, id: m.Meta().ID, read: isRead})
				}
				if len(outstanding) > 0 && bottom.CanDeliver() {
					sh := outstanding[0]
					outstanding = outstanding[1:]
					var m messaging.Msg
					if sh.read {
						var data []byte
						if sh.k >= 0 && sh.k < len(issued) {
							data = c21Payload(issued[sh.k].addr)
						}
						r := memprotocol.DataReadyRsp{Data: data}
						r.ID, r.Src, r.Dst, r.RspTo, r.TrafficBytes, r.TrafficClass = timing.GetIDGenerator().Generate(), c21BottomUnit, bottom.AsRemote(), sh.id, 8, "memprotocol.DataReadyRsp"
						m = r
					} else {
						r := memprotocol.WriteDoneRsp{}
						r.ID, r.Src, r.Dst, r.RspTo, r.TrafficBytes, r.TrafficClass = timing.GetIDGenerator().Generate(), c21BottomUnit, bottom.AsRemote(), sh.id, 4, "memprotocol.WriteDoneRsp"
						m = r
					}
					bottom.Deliver(m)
				}
				for m := top.RetrieveOutgoing(); m != nil; m = top.RetrieveOutgoing() {
					got[m.Meta().RspTo] = true
				}
			}
		})
		if msg != "" {
			bad(len(hist)-1, "panic:drain", "the engine-driven drain phase panicked: %s", msg)
		}
		for k, r := range issued {
			if !answered[k] && !got[r.id] {
				bad(len(hist)-1, "liveness:accepted-request-never-answered", "engine-driven ROB: request #%d was accepted and, although afterwards the lower unit completed everything it was handed and both neighbours kept taking messages, it was never answered (lower unit had completed in order %v before the drain)", k, doneOrder)
				break
			}
		}
		if len(probs) > 0 {
			return "", true, probs, ""
		}
	}
	return key, false, nil, outcome
}

func c21IDs(rs []c21Req) []uint64 {
	var out []uint64
	for _, r := range rs {
		out = append(out, r.id)
	}
	return out
}

func c21Configs(c *lib.Ctx) []c21Cfg {
	var out []c21Cfg
	maxReq := lib.Pick(c, 3, 5)
	for _, buf := range []int{1, 2, 4} {
		for _, width := range []int{1, 2} {
			for _, topCap := range []int{1, 2} {
				for _, botCap := range []int{1, 2} {
					out = append(out, c21Cfg{Buf: buf, Width: width, TopCap: topCap, BotCap: botCap, MaxReq: maxReq})
					if buf >= 2 {
						out = append(out, c21Cfg{Buf: buf, Width: width, TopCap: topCap, BotCap: botCap, MaxReq: maxReq, Engine: true})
					}
				}
			}
		}
	}
	return out
}

func init() {
	alphabet := []c21Op{{Op: "issueR"}, {Op: "issueW"}, {Op: "tick"}, {Op: "pull"}, {Op: "done", I: 0}, {Op: "recv"}, {Op: "done", I: 1}, {Op: "done", I: 2}, {Op: "done", I: 3}, {Op: "done", I: 4}}
	lib.Register(&lib.Check{
		ID:    "C21",
		Level: "model_checking",
		Rule: "for every configuration buffer size {1,2,4} x requests per cycle {1,2} x Top port capacity {1,2} x Bottom port capacity {1,2} x {ticked by hand; for buffer sizes >= 2 also engine-driven: 'Tick' runs the ROB's serial engine until no event is left, so the ROB only ticks when a port notification woke it and while its ticks report progress}: explicit-state BFS to depth 20 (quick, <= 3 requests) / until the state space closes (thorough, <= 5 requests; cap 60) over " +
			"{issue read, issue write (when the Top port can take it), Tick, lower unit pulls all forwarded requests, lower unit completes its i-th outstanding request (any order; when the Bottom port can take it), requester receives all responses} " +
			"on the real rob.Comp with real ports; every request has its own address, requester (alternating between two) and ID, and the lower unit's read data is a function of the address it was asked for. " +
			"Oracle at every receive: the k-th response answers the k-th accepted request (RspTo = its ID), goes to its requester, has its kind and, for reads, the lower unit's data for that request; no extra or duplicate response; no panic; engine-driven configurations additionally end every history with a drain phase (lower unit completes oldest-first whatever it is handed, neighbours take everything, engine runs to quiescence in between) after which every accepted request must have been answered. " +
			"state = configuration, request kinds, Top/Bottom/transaction-table occupancy with has-response flags, lower unit's outstanding list, delivered-but-unparsed completions, responses received (IDs renamed to request indices).",
		Sharded:     true,
		MinOutcomes: 10,
		Assumptions: []string{
			"acceptance order = order of delivery to the single Top port (its incoming buffer is FIFO, covered by C11/C14)",
			"no control commands are sent (Pause/Drain/Reset are C17/C18/C19); no tracer is attached",
			"Tick is called directly, as the repository's own tests do; when the ROB would be scheduled is C09/C12",
		},
		Run: func(c *lib.Ctx) {
			outs := map[string]bool{}
			for i, cfg := range c21Configs(c) {
				if !c.Mine(int64(i)) {
					continue
				}
				cfg := cfg
				lib.BFS(c, lib.BFSConfig[c21Op]{
					Ops: func(hist []c21Op) []c21Op {
						if len(hist) == 0 {
							return []c21Op{{Op: "cfg", Cfg: &cfg}}
						}
						return alphabet
					},
					Exec: func(hist []c21Op) (string, bool, []lib.Problem) {
						k, t, p, out := c21ExecFull(hist)
						if out != "" {
							outs[out] = true
						}
						return k, t, p
					},
					MaxDepth: lib.Pick(c, 21, 61), // +1 for the configuration op
					Workers:  1,                   // the ID generator is process-global
				})
			}
			for o := range outs {
				c.Outcome(o)
			}
		},
		Replay: func(c *lib.Ctx, raw json.RawMessage) []lib.Problem {
			var h []c21Op
			if err := json.Unmarshal(raw, &h); err != nil {
				c.InternalError("bad replay: %v", err)
				return nil
			}
			_, _, p := c21Exec(h)
			return p
		},
	})
}

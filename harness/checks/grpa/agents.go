package grpa

import (
	"fmt"
	"io"
	"reflect"

	"github.com/sarchlab/akita/v5/hooking"
	"github.com/sarchlab/akita/v5/mem"
	"github.com/sarchlab/akita/v5/mem/acceptancetests/memaccessagent"
	"github.com/sarchlab/akita/v5/mem/cache/writeback"
	"github.com/sarchlab/akita/v5/mem/cache/writethroughcache"
	"github.com/sarchlab/akita/v5/mem/datamover"
	"github.com/sarchlab/akita/v5/mem/dram"
	"github.com/sarchlab/akita/v5/mem/idealmemcontroller"
	"github.com/sarchlab/akita/v5/mem/rob"
	"github.com/sarchlab/akita/v5/mem/simplebankedmemory"
	"github.com/sarchlab/akita/v5/mem/vm"
	"github.com/sarchlab/akita/v5/mem/vm/addresstranslator"
	"github.com/sarchlab/akita/v5/mem/vm/gmmu"
	"github.com/sarchlab/akita/v5/mem/vm/mmu"
	"github.com/sarchlab/akita/v5/mem/vm/mmuCache"
	"github.com/sarchlab/akita/v5/mem/vm/tlb"
	"github.com/sarchlab/akita/v5/messaging"
	"github.com/sarchlab/akita/v5/modeling"
	"github.com/sarchlab/akita/v5/noc/networking/routing"
	"github.com/sarchlab/akita/v5/noc/networking/switching/endpoint"
	"github.com/sarchlab/akita/v5/noc/networking/switching/switches"
	"github.com/sarchlab/akita/v5/timing"
)

// Standalone builds of the library components, following the recipes of the
// repository's own control_contract_test.go files (small specs, standalone
// registrar, one stub connection per port). Shared by C08 (state round trip)
// and C18 (control protocol).

// agentComp is what every built component offers.
type agentComp interface {
	messaging.Component
	Tick() bool
	SaveCheckpoint(w io.Writer) error
	LoadCheckpoint(r io.Reader) error
}

// stubConn is the connection plugged into every port: it only counts.
type stubConn struct {
	hooking.HookableBase
	sends, avails int
}

func (c *stubConn) Name() string                   { return "StubConn" }
func (c *stubConn) PlugIn(port messaging.Port)     { port.SetConnection(c) }
func (c *stubConn) Unplug(messaging.Port)          {}
func (c *stubConn) NotifyAvailable(messaging.Port) {}
func (c *stubConn) NotifySend()                    {}

type agentInst struct {
	Name   string
	Engine *timing.SerialEngine
	Comp   agentComp
	Ports  map[string]messaging.Port
	// PageTable is set for agents that translate through one.
	PageTable vm.PageTable
	Storage   *mem.Storage
}

// State returns the addressable State field of the component.
func (a *agentInst) State() reflect.Value {
	return reflect.ValueOf(a.Comp).Elem().FieldByName("State")
}

type agentDef struct {
	Name string
	// Control tells whether the component is a memory agent speaking the
	// control protocol (C18).
	Control bool
	Build   func() *agentInst
}

func newInst(name string) (*agentInst, modeling.Registrar) {
	eng := timing.NewSerialEngine()
	return &agentInst{Name: name, Engine: eng, Ports: map[string]messaging.Port{}}, modeling.NewStandaloneRegistrar(eng)
}

func (a *agentInst) finish(reg modeling.Registrar, comp agentComp, ports map[string]int, order []string) *agentInst {
	a.Comp = comp
	for _, name := range order {
		p := modeling.MakePortBuilder().
			WithRegistrar(reg).
			WithComponent(comp).
			WithSpec(modeling.PortSpec{BufSize: ports[name]}).
			Build(name)
		comp.AssignPort(name, p)
		(&stubConn{}).PlugIn(p)
		a.Ports[name] = p
	}
	return a
}

const agentPageSize = 4096

func smallPageTable() vm.PageTable {
	pt := vm.NewPageTable(12)
	for pid := vm.PID(1); pid <= 2; pid++ {
		for i := uint64(0); i < 4; i++ {
			pt.Insert(vm.Page{
				PID: pid, VAddr: i * agentPageSize, PAddr: (uint64(pid)*16 + i) * agentPageSize,
				PageSize: agentPageSize, Valid: true, DeviceID: 1,
			})
		}
	}
	return pt
}

var agentDefs = []agentDef{
	{"idealmemcontroller", true, func() *agentInst {
		a, reg := newInst("idealmemcontroller")
		a.Storage = mem.NewStorage(1 * mem.MB)
		spec := idealmemcontroller.DefaultSpec()
		spec.Width = 1
		spec.Latency = 3
		spec.CacheLineSize = 64
		comp := idealmemcontroller.MakeBuilder().WithRegistrar(reg).
			WithResources(idealmemcontroller.Resources{Storage: a.Storage}).
			WithSpec(spec).Build("MemCtrl")
		return a.finish(reg, comp, map[string]int{"Top": 4, "Control": 2}, []string{"Top", "Control"})
	}},
	{"simplebankedmemory", true, func() *agentInst {
		a, reg := newInst("simplebankedmemory")
		a.Storage = mem.NewStorage(1 * mem.MB)
		// short pipeline: dispatch, one pipeline stage, post-pipeline buffer,
		// response -- every stage is reachable within three ticks
		spec := simplebankedmemory.DefaultSpec()
		spec.NumBanks = 2
		spec.BankPipelineDepth = 1
		spec.StageLatency = 1
		spec.PostPipelineBufSize = 1
		spec.Capacity = 1 * mem.MB
		comp := simplebankedmemory.MakeBuilder().WithRegistrar(reg).WithSpec(spec).
			WithResources(simplebankedmemory.Resources{Storage: a.Storage}).
			Build("BankedMem")
		return a.finish(reg, comp, map[string]int{"Top": 4, "Control": 2}, []string{"Top", "Control"})
	}},
	{"tlb", true, func() *agentInst {
		a, reg := newInst("tlb")
		spec := tlb.DefaultSpec()
		spec.NumWays = 2
		spec.MSHRSize = 2
		spec.Latency = 2
		spec.NumReqPerCycle = 2
		comp := tlb.MakeBuilder().WithRegistrar(reg).WithSpec(spec).
			WithResources(tlb.Resources{
				TranslationProviderMapper: &mem.SinglePortMapper{Port: messaging.RemotePort("MMU")},
			}).Build("TLB")
		return a.finish(reg, comp, map[string]int{"Top": 4, "Bottom": 4, "Control": 2}, []string{"Top", "Bottom", "Control"})
	}},
	{"mmu", true, func() *agentInst {
		a, reg := newInst("mmu")
		a.PageTable = smallPageTable()
		mspec := mmu.DefaultSpec()
		mspec.Latency = 2
		comp := mmu.MakeBuilder().WithRegistrar(reg).
			WithSpec(mspec).
			WithResources(mmu.Resources{PageTable: a.PageTable}).
			Build("MMU")
		return a.finish(reg, comp, map[string]int{"Top": 4, "Control": 2}, []string{"Top", "Control"})
	}},
	{"rob", true, func() *agentInst {
		a, reg := newInst("rob")
		spec := rob.DefaultSpec()
		spec.BottomUnit = messaging.RemotePort("BottomUnit")
		comp := rob.MakeBuilder().WithRegistrar(reg).WithSpec(spec).Build("ROB")
		return a.finish(reg, comp, map[string]int{"Top": 4, "Bottom": 4, "Control": 2}, []string{"Top", "Bottom", "Control"})
	}},
	{"datamover", true, func() *agentInst {
		a, reg := newInst("datamover")
		spec := datamover.DefaultSpec()
		spec.BufferSize = 64
		spec.InsideByteGranularity = 8
		spec.OutsideByteGranularity = 8
		comp := datamover.MakeBuilder().WithRegistrar(reg).WithSpec(spec).
			WithResources(datamover.Resources{
				InsideMapper:  &mem.SinglePortMapper{Port: messaging.RemotePort("InsideMem")},
				OutsideMapper: &mem.SinglePortMapper{Port: messaging.RemotePort("OutsideMem")},
			}).Build("DataMover")
		return a.finish(reg, comp, map[string]int{"Top": 4, "Inside": 4, "Outside": 4, "Control": 2},
			[]string{"Top", "Inside", "Outside", "Control"})
	}},
	{"writeback", true, func() *agentInst {
		a, reg := newInst("writeback")
		a.Storage = mem.NewStorage(1 * mem.MB)
		spec := writeback.DefaultSpec()
		spec.TotalByteSize = 4 * 64 * 2
		spec.NumBanks = 1
		spec.NumMSHREntry = 4
		spec.NumReqPerCycle = 1
		spec.WayAssociativity = 2
		spec.Log2BlockSize = 6
		spec.BankLatency = 1
		spec.DirLatency = 1
		comp := writeback.MakeBuilder().WithRegistrar(reg).WithSpec(spec).
			WithResources(writeback.Resources{
				Storage:             a.Storage,
				AddressToPortMapper: &mem.SinglePortMapper{Port: messaging.RemotePort("LowerCache")},
			}).Build("L1Cache")
		return a.finish(reg, comp, map[string]int{"Top": 4, "Bottom": 4, "Control": 2}, []string{"Top", "Bottom", "Control"})
	}},
	{"writethroughcache", true, func() *agentInst {
		a, reg := newInst("writethroughcache")
		a.Storage = mem.NewStorage(1 * mem.MB)
		spec := writethroughcache.DefaultSpec()
		spec.TotalByteSize = 4 * 64 * 2
		spec.NumBanks = 1
		spec.NumMSHREntry = 4
		spec.NumReqPerCycle = 1
		spec.WayAssociativity = 2
		spec.Log2BlockSize = 6
		spec.BankLatency = 1
		spec.DirLatency = 1
		comp := writethroughcache.MakeBuilder().WithRegistrar(reg).WithSpec(spec).
			WithResources(writethroughcache.Resources{
				Storage:       a.Storage,
				AddressMapper: &mem.SinglePortMapper{Port: messaging.RemotePort("LowerCache")},
			}).Build("L1Cache")
		return a.finish(reg, comp, map[string]int{"Top": 4, "Bottom": 4, "Control": 2}, []string{"Top", "Bottom", "Control"})
	}},
	{"dram", true, func() *agentInst {
		a, reg := newInst("dram")
		a.Storage = mem.NewStorage(1 * mem.MB)
		// DDR3-like device with short timing so that activate / read / data
		// return fit into a handful of ticks
		spec := dram.DefaultSpec()
		spec.TCL, spec.TCWL, spec.TRCD, spec.TRP, spec.TRAS = 2, 1, 2, 2, 4
		spec.TRCDRD, spec.TRCDWR, spec.TRTP, spec.TWR = 2, 2, 1, 2
		spec.TCCDL, spec.TCCDS, spec.TRRDL, spec.TRRDS, spec.TWTRL, spec.TWTRS = 1, 1, 1, 1, 1, 1
		spec.TransactionQueueSize, spec.CommandQueueCapacity = 4, 2
		comp := dram.MakeBuilder().WithRegistrar(reg).WithSpec(spec).
			WithResources(dram.Resources{Storage: a.Storage}).Build("DRAM")
		return a.finish(reg, comp, map[string]int{"Top": 4, "Control": 2}, []string{"Top", "Control"})
	}},
	{"gmmu", true, func() *agentInst {
		a, reg := newInst("gmmu")
		// PID 1 lives on this device, PID 2 on device 2 (fetched through Bottom)
		a.PageTable = vm.NewPageTable(12)
		for pid := vm.PID(1); pid <= 2; pid++ {
			for i := uint64(0); i < 4; i++ {
				a.PageTable.Insert(vm.Page{PID: pid, VAddr: i * agentPageSize, PAddr: (uint64(pid)*16 + i) * agentPageSize,
					PageSize: agentPageSize, Valid: true, DeviceID: uint64(pid)})
			}
		}
		spec := gmmu.DefaultSpec()
		spec.DeviceID = 1
		spec.Latency = 1
		spec.LowModule = messaging.RemotePort("LowModule")
		comp := gmmu.MakeBuilder().WithRegistrar(reg).WithSpec(spec).
			WithResources(gmmu.Resources{PageTable: a.PageTable}).Build("GMMU")
		return a.finish(reg, comp, map[string]int{"Top": 4, "Bottom": 4, "Control": 2}, []string{"Top", "Bottom", "Control"})
	}},
	{"addresstranslator", true, func() *agentInst {
		a, reg := newInst("addresstranslator")
		spec := addresstranslator.DefaultSpec()
		spec.Log2PageSize = 12
		spec.Freq = 1
		comp := addresstranslator.MakeBuilder().WithRegistrar(reg).WithSpec(spec).
			WithResources(addresstranslator.Resources{
				MemProviderMapper:         &mem.SinglePortMapper{Port: messaging.RemotePort("MemPort")},
				TranslationProviderMapper: &mem.SinglePortMapper{Port: messaging.RemotePort("TranslationProvider")},
			}).Build("AddressTranslator")
		return a.finish(reg, comp, map[string]int{"Top": 4, "Bottom": 4, "Translation": 4, "Control": 2},
			[]string{"Top", "Bottom", "Translation", "Control"})
	}},
	{"mmuCache", true, func() *agentInst {
		a, reg := newInst("mmuCache")
		spec := mmuCache.DefaultSpec()
		spec.NumBlocks = 1
		spec.NumLevels = 5
		spec.PageSize = 4096
		spec.Log2PageSize = 12
		spec.NumReqPerCycle = 4
		spec.LatencyPerLevel = 1
		comp := mmuCache.MakeBuilder().WithRegistrar(reg).WithSpec(spec).
			WithResources(mmuCache.Resources{
				LowModulePort: messaging.RemotePort("LowModule"),
				UpModulePort:  messaging.RemotePort("UpModule"),
			}).Build("MMUCache")
		return a.finish(reg, comp, map[string]int{"Top": 4, "Bottom": 4, "Control": 2}, []string{"Top", "Bottom", "Control"})
	}},
	{"switch", false, func() *agentInst {
		a, reg := newInst("switch")
		comp := switches.MakeBuilder().WithRegistrar(reg).
			WithResources(switches.Resources{RoutingTable: routing.NewTable()}).
			Build("Switch")
		a.finish(reg, comp, nil, nil)
		// two switch ports (each with its port complex of buffers and a
		// pipeline) toward two stub peers
		for i := 0; i < 2; i++ {
			peerOwner := &c11Comp{PortOwnerBase: messaging.NewPortOwnerBase()}
			peer := messaging.NewPort(peerOwner, 2, 2, fmt.Sprintf("Peer%d.Port", i))
			p := switches.MakeSwitchPortAdder(comp).WithRegistrar(reg).WithRemotePort(peer).
				WithBufferSize(2).WithLatency(2).Add()
			(&stubConn{}).PlugIn(p)
			a.Ports[fmt.Sprintf("Port[%d]", i)] = p
		}
		return a
	}},
	{"endpoint", false, func() *agentInst {
		a, reg := newInst("endpoint")
		spec := endpoint.DefaultSpec()
		comp := endpoint.MakeBuilder().WithRegistrar(reg).WithSpec(spec).Build("EndPoint")
		return a.finish(reg, comp, map[string]int{"NetworkPort": 4}, []string{"NetworkPort"})
	}},
	{"memaccessagent", false, func() *agentInst {
		a, reg := newInst("memaccessagent")
		comp := memaccessagent.MakeBuilder().WithRegistrar(reg).Build("Agent")
		return a.finish(reg, comp, map[string]int{"Mem": 4}, []string{"Mem"})
	}},
}

func agentByName(name string) *agentDef {
	for i := range agentDefs {
		if agentDefs[i].Name == name {
			return &agentDefs[i]
		}
	}
	return nil
}

package grpa

import (
	"encoding/json"
	"fmt"
	"math"
	"reflect"
	"strings"

	"github.com/sarchlab/akita/v5/mem/vm/lruset"
)

// Reflection-built value lattices (C08): every settable location ("leaf") of a
// value gets a small set of boundary "moves" away from its base value; the
// enumerated values are the base with at most k leaves moved.

type latMove struct {
	Name  string
	Apply func(dst reflect.Value)
}

type latLeaf struct {
	Path  string // type-level path without indices, e.g. "MsgMeta.ID" or "Banks[].Pipeline"
	Where string // instance path with indices, unique within one value
	Get   func(root reflect.Value) reflect.Value
	Moves []latMove
}

const latMaxDepth = 4

// latBoundary returns the non-base boundary values of a type.
func latBoundary(t reflect.Type, depth int) []reflect.Value {
	mk := func(vals ...any) []reflect.Value {
		out := make([]reflect.Value, 0, len(vals))
		for _, v := range vals {
			out = append(out, reflect.ValueOf(v).Convert(t))
		}
		return out
	}
	switch t.Kind() {
	case reflect.Bool:
		return mk(true)
	case reflect.Int, reflect.Int64:
		return mk(int64(1), int64(-1), int64(math.MinInt64), int64(math.MaxInt64))
	case reflect.Int32:
		return mk(int32(1), int32(-1), int32(math.MinInt32), int32(math.MaxInt32))
	case reflect.Int16:
		return mk(int16(1), int16(-1), int16(math.MinInt16), int16(math.MaxInt16))
	case reflect.Int8:
		return mk(int8(1), int8(-1), int8(math.MinInt8), int8(math.MaxInt8))
	case reflect.Uint, reflect.Uint64, reflect.Uintptr:
		return mk(uint64(1), uint64(math.MaxUint64), uint64(1<<53+1))
	case reflect.Uint32:
		return mk(uint32(1), uint32(math.MaxUint32))
	case reflect.Uint16:
		return mk(uint16(1), uint16(math.MaxUint16))
	case reflect.Uint8:
		return mk(uint8(1), uint8(math.MaxUint8))
	case reflect.Float64:
		return mk(1.5, -2.25, math.MaxFloat64, math.SmallestNonzeroFloat64)
	case reflect.Float32:
		return mk(float32(1.5), float32(-2.25), float32(math.MaxFloat32), float32(math.SmallestNonzeroFloat32))
	case reflect.String:
		return mk("a", "\"\\/", "é世界", "\x00", "<&> ")
	case reflect.Slice:
		empty := reflect.MakeSlice(t, 0, 0)
		if depth >= latMaxDepth {
			return []reflect.Value{empty}
		}
		zero := latNew(t.Elem())
		rich := latRich(t.Elem(), depth+1)
		one0 := reflect.Append(reflect.MakeSlice(t, 0, 1), zero)
		one1 := reflect.Append(reflect.MakeSlice(t, 0, 1), rich)
		two := reflect.Append(reflect.MakeSlice(t, 0, 2), latRichAlt(t.Elem(), depth+1), zero)
		return []reflect.Value{empty, one0, one1, two}
	case reflect.Array:
		if depth >= latMaxDepth {
			return nil
		}
		return []reflect.Value{latRich(t, depth)}
	case reflect.Map:
		empty := reflect.MakeMap(t)
		if depth >= latMaxDepth {
			return []reflect.Value{empty}
		}
		one := reflect.MakeMap(t)
		one.SetMapIndex(latRich(t.Key(), depth+1), latRich(t.Elem(), depth+1))
		return []reflect.Value{empty, one}
	case reflect.Ptr:
		if depth >= latMaxDepth {
			return nil
		}
		p0 := reflect.New(t.Elem())
		p0.Elem().Set(latNew(t.Elem()))
		p1 := reflect.New(t.Elem())
		p1.Elem().Set(latRich(t.Elem(), depth+1))
		return []reflect.Value{p0, p1}
	case reflect.Struct:
		if depth >= latMaxDepth {
			return nil
		}
		return []reflect.Value{latRich(t, depth)}
	case reflect.Interface:
		if t.NumMethod() == 0 {
			return mk("x")
		}
	}
	return nil
}

var latSetType = reflect.TypeOf(lruset.Set{})

// latSetWays is the way count of the LRU sets inside synthesised elements.
const latSetWays = 2

// latNew returns the base value of t used wherever the lattice synthesises a
// value from scratch: the zero value, except that every lruset.Set inside it
// (through structs and arrays) is built by lruset.NewSet. A zero lruset.Set{}
// is a value the package never produces, so it is not part of the lattice.
func latNew(t reflect.Type) reflect.Value {
	v := reflect.New(t).Elem()
	latInitSets(v)
	return v
}

func latInitSets(v reflect.Value) {
	switch v.Kind() {
	case reflect.Struct:
		if v.Type() == latSetType {
			if v.CanSet() {
				v.Set(reflect.ValueOf(lruset.NewSet(latSetWays)))
			}
			return
		}
		for i := 0; i < v.NumField(); i++ {
			if v.Type().Field(i).PkgPath == "" {
				latInitSets(v.Field(i))
			}
		}
	case reflect.Array:
		for i := 0; i < v.Len(); i++ {
			latInitSets(v.Index(i))
		}
	}
}

// latRich returns a value of t with every reachable exported location set to
// its first boundary value.
func latRich(t reflect.Type, depth int) reflect.Value {
	v := latNew(t)
	if depth > latMaxDepth {
		return v
	}
	switch t.Kind() {
	case reflect.Struct:
		for i := 0; i < t.NumField(); i++ {
			if t.Field(i).PkgPath != "" {
				continue
			}
			v.Field(i).Set(latRich(t.Field(i).Type, depth+1))
		}
	case reflect.Array:
		for i := 0; i < t.Len(); i++ {
			v.Index(i).Set(latRich(t.Elem(), depth+1))
		}
	case reflect.Slice:
		if b := latBoundary(t, depth); len(b) >= 3 {
			v.Set(b[2])
		}
	default:
		if b := latBoundary(t, depth); len(b) > 0 {
			v.Set(b[0])
		}
	}
	return v
}

// latRichAlt is like latRich but prefers the last boundary value of scalars,
// so two-element slices hold two different non-zero elements.
func latRichAlt(t reflect.Type, depth int) reflect.Value {
	switch t.Kind() {
	case reflect.Struct, reflect.Array, reflect.Slice, reflect.Map, reflect.Ptr, reflect.Interface:
		return latRich(t, depth)
	}
	v := latNew(t)
	if b := latBoundary(t, depth); len(b) > 0 {
		v.Set(b[len(b)-1])
	}
	return v
}

// latElemVariants returns, for a struct element type, the zero element with
// every single location moved (one level of nesting only).
func latElemVariants(et reflect.Type, nest int) (names []string, vals []reflect.Value) {
	if et.Kind() != reflect.Struct || nest > 1 {
		return nil, nil
	}
	probe := latNew(et)
	for _, l := range latCollectN(probe, nil, nest+1) {
		for _, m := range l.Moves {
			e := latNew(et)
			m.Apply(l.Get(e))
			names = append(names, strings.TrimPrefix(l.Where, et.Name())+"="+m.Name)
			vals = append(vals, e)
		}
	}
	return names, vals
}

func latSetMoves(t reflect.Type) []latMove { return latSetMovesN(t, 0) }

func latSetMovesN(t reflect.Type, nest int) []latMove {
	var moves []latMove
	for _, b := range latBoundary(t, 0) {
		b := b
		moves = append(moves, latMove{Name: latValueName(b), Apply: func(dst reflect.Value) { dst.Set(b) }})
	}
	switch t.Kind() {
	case reflect.Slice:
		names, vals := latElemVariants(t.Elem(), nest)
		for i := range vals {
			s := reflect.Append(reflect.MakeSlice(t, 0, 1), vals[i])
			moves = append(moves, latMove{Name: "elem" + names[i], Apply: func(dst reflect.Value) { dst.Set(s) }})
		}
	case reflect.Map:
		names, vals := latElemVariants(t.Elem(), nest)
		for i := range vals {
			m := reflect.MakeMap(t)
			m.SetMapIndex(latRich(t.Key(), 1), vals[i])
			moves = append(moves, latMove{Name: "elem" + names[i], Apply: func(dst reflect.Value) { dst.Set(m) }})
		}
	}
	// disambiguate equal names
	seen := map[string]int{}
	for i := range moves {
		seen[moves[i].Name]++
		if n := seen[moves[i].Name]; n > 1 {
			moves[i].Name = fmt.Sprintf("%s#%d", moves[i].Name, n)
		}
	}
	return moves
}

func latValueName(v reflect.Value) string {
	switch v.Kind() {
	case reflect.Slice:
		if v.Len() == 0 {
			return "empty"
		}
		return fmt.Sprintf("len%d:%s", v.Len(), latShort(v))
	case reflect.Map:
		return fmt.Sprintf("map%d", v.Len())
	case reflect.Ptr:
		return "ptr:" + latShort(v.Elem())
	case reflect.Struct, reflect.Array:
		return "rich"
	case reflect.String:
		return fmt.Sprintf("%q", v.String())
	}
	return latShort(v)
}

func latShort(v reflect.Value) string {
	s := fmt.Sprintf("%v", v.Interface())
	if len(s) > 24 {
		s = s[:24] + "…"
	}
	return s
}

// latSpecial recognises the encapsulated containers (all state unexported)
// and returns moves that drive them through their own methods.
func latSpecial(v reflect.Value, nest int) ([]latMove, bool) {
	t := v.Type()
	if t.Kind() != reflect.Struct || !v.CanAddr() {
		return nil, false
	}
	const qpkg = "github.com/sarchlab/akita/v5/queueing"
	call := func(dst reflect.Value, name string, args ...reflect.Value) []reflect.Value {
		return dst.Addr().MethodByName(name).Call(args)
	}
	switch {
	case t.PkgPath() == qpkg && strings.HasPrefix(t.Name(), "Buffer["):
		pm, ok := reflect.PointerTo(t).MethodByName("PushTyped")
		if !ok {
			return nil, false
		}
		et := pm.Type.In(1)
		room := func(dst reflect.Value) bool { return call(dst, "CanPush")[0].Bool() }
		var extra []latMove
		names, vals := latElemVariants(et, nest)
		for i := range vals {
			e := vals[i]
			extra = append(extra, latMove{"push-elem" + names[i], func(dst reflect.Value) {
				if room(dst) {
					call(dst, "PushTyped", e)
				}
			}})
		}
		return append([]latMove{
			{"push1", func(dst reflect.Value) {
				if room(dst) {
					call(dst, "PushTyped", latRich(et, 1))
				}
			}},
			{"push3", func(dst reflect.Value) {
				for i := 0; i < 3 && room(dst); i++ {
					e := latRich(et, 1)
					if i == 1 {
						e = latNew(et)
					}
					call(dst, "PushTyped", e)
				}
			}},
			{"pushpop", func(dst reflect.Value) {
				if room(dst) {
					call(dst, "PushTyped", latRich(et, 1))
					call(dst, "Pop")
				}
			}},
		}, extra...), true
	case t.PkgPath() == qpkg && strings.HasPrefix(t.Name(), "Pipeline["):
		am, ok := reflect.PointerTo(t).MethodByName("Accept")
		tm, ok2 := reflect.PointerTo(t).MethodByName("Tick")
		if !ok || !ok2 {
			return nil, false
		}
		et := am.Type.In(1)
		sinkT := tm.Type.In(1)
		can := func(dst reflect.Value) bool { return call(dst, "CanAccept")[0].Bool() }
		stages := func(dst reflect.Value) int {
			var g struct {
				N int `json:"num_stages"`
			}
			b, err := json.Marshal(dst.Addr().Interface())
			if err != nil || json.Unmarshal(b, &g) != nil {
				return 0
			}
			return g.N
		}
		var extra []latMove
		names, vals := latElemVariants(et, nest)
		for i := range vals {
			e := vals[i]
			extra = append(extra, latMove{"accept-elem" + names[i], func(dst reflect.Value) {
				if can(dst) {
					call(dst, "Accept", e)
				}
			}})
		}
		return append([]latMove{
			{"accept", func(dst reflect.Value) {
				if can(dst) {
					call(dst, "Accept", latRich(et, 1))
				}
			}},
			{"acceptdelay2", func(dst reflect.Value) {
				if can(dst) {
					call(dst, "AcceptWithDelay", latRich(et, 1), reflect.ValueOf(2))
				}
			}},
			{"accept-tick-accept", func(dst reflect.Value) {
				if !can(dst) {
					return
				}
				call(dst, "Accept", latRich(et, 1))
				if stages(dst) >= 2 {
					// the first tick only advances stage 0 -> 1 and never
					// touches the sink
					call(dst, "Tick", reflect.Zero(sinkT))
					if can(dst) {
						call(dst, "Accept", latNew(et))
					}
				}
			}},
		}, extra...), true
	case t == reflect.TypeOf(lruset.Set{}):
		return []latMove{
			{"bind", func(dst reflect.Value) {
				s := dst.Addr().Interface().(*lruset.Set)
				s.UpdateKey(0, "", "k\"1")
			}},
			{"evict", func(dst reflect.Value) {
				dst.Addr().Interface().(*lruset.Set).Evict()
			}},
			{"evict-visit-bind", func(dst reflect.Value) {
				s := dst.Addr().Interface().(*lruset.Set)
				if w, ok := s.Evict(); ok {
					s.Visit(w)
					s.UpdateKey(w, "", lruset.KeyString(1, math.MaxUint64))
				}
			}},
		}, true
	}
	return nil, false
}

// latCollect walks an addressable value and lists its leaves. unsupported
// collects the paths of locations the lattice cannot move.
func latCollect(root reflect.Value, unsupported map[string]bool) []latLeaf {
	return latCollectN(root, unsupported, 0)
}

func latCollectN(root reflect.Value, unsupported map[string]bool, nest int) []latLeaf {
	var out []latLeaf
	var walk func(v reflect.Value, path, where string, get func(reflect.Value) reflect.Value, depth int)
	walk = func(v reflect.Value, path, where string, get func(reflect.Value) reflect.Value, depth int) {
		if depth > 8 {
			return
		}
		if moves, ok := latSpecial(v, nest); ok {
			for i := range moves {
				// a container that was never constructed (zero value inside a
				// synthesized element) may refuse to be driven: then the move
				// is a no-op
				f := moves[i].Apply
				moves[i].Apply = func(dst reflect.Value) {
					defer func() { _ = recover() }()
					f(dst)
				}
			}
			out = append(out, latLeaf{Path: path, Where: where, Get: get, Moves: moves})
			return
		}
		t := v.Type()
		switch t.Kind() {
		case reflect.Struct:
			exported := 0
			for i := 0; i < t.NumField(); i++ {
				f := t.Field(i)
				if f.PkgPath != "" {
					continue
				}
				exported++
				i := i
				walk(v.Field(i), path+"."+f.Name, where+"."+f.Name,
					func(r reflect.Value) reflect.Value { return get(r).Field(i) }, depth+1)
			}
			if exported == 0 && t.NumField() > 0 && unsupported != nil {
				unsupported[path+" ("+t.String()+": no exported fields)"] = true
			}
			return
		case reflect.Slice:
			if n := v.Len(); n > 0 {
				idx := []int{0}
				if n > 1 {
					idx = append(idx, n-1)
				}
				for _, k := range idx {
					k := k
					walk(v.Index(k), path+"[]", fmt.Sprintf("%s[%d]", where, k),
						func(r reflect.Value) reflect.Value { return get(r).Index(k) }, depth+1)
				}
			}
		case reflect.Ptr:
			if !v.IsNil() {
				walk(v.Elem(), path+"*", where+"*",
					func(r reflect.Value) reflect.Value { return get(r).Elem() }, depth+1)
			}
		}
		moves := latSetMovesN(t, nest)
		if len(moves) == 0 {
			if unsupported != nil {
				unsupported[path+" ("+t.String()+")"] = true
			}
			return
		}
		out = append(out, latLeaf{Path: path, Where: where, Get: get, Moves: moves})
	}
	walk(root, root.Type().Name(), root.Type().Name(), func(r reflect.Value) reflect.Value { return r }, 0)
	return out
}

// latPick names one move of one leaf (JSON-serialisable, for replay).
type latPick struct {
	Where string `json:"at"`
	Move  string `json:"move"`
}

// latEnum yields every set of at most k picks on pairwise independent leaves
// (no leaf lies inside another picked leaf), simplest first.
func latEnum(leaves []latLeaf, k int, yield func([]latPick) bool) bool {
	if !yield(nil) {
		return false
	}
	for i, a := range leaves {
		for _, ma := range a.Moves {
			if !yield([]latPick{{a.Where, ma.Name}}) {
				return false
			}
		}
		_ = i
	}
	if k < 2 {
		return true
	}
	for i, a := range leaves {
		for j := i + 1; j < len(leaves); j++ {
			b := leaves[j]
			if latInside(a.Where, b.Where) || latInside(b.Where, a.Where) {
				continue
			}
			for _, ma := range a.Moves {
				for _, mb := range b.Moves {
					if latNested(ma.Name) && latNested(mb.Name) {
						continue // pairs of two element-level deviations are beyond the bound
					}
					if !yield([]latPick{{a.Where, ma.Name}, {b.Where, mb.Name}}) {
						return false
					}
				}
			}
		}
	}
	return true
}

func latNested(move string) bool {
	return strings.HasPrefix(move, "elem") || strings.HasPrefix(move, "push-elem") || strings.HasPrefix(move, "accept-elem")
}

func latInside(outer, inner string) bool {
	if !strings.HasPrefix(inner, outer) || len(inner) == len(outer) {
		return inner == outer
	}
	switch inner[len(outer)] {
	case '.', '[', '*':
		return true
	}
	return false
}

// latApply applies picks to root (addressable). It reports picks that do not
// exist (replay of a stale case).
func latApply(root reflect.Value, leaves []latLeaf, picks []latPick) error {
	for _, p := range picks {
		found := false
		for _, l := range leaves {
			if l.Where != p.Where {
				continue
			}
			for _, m := range l.Moves {
				if m.Name == p.Move {
					m.Apply(l.Get(root))
					found = true
				}
			}
		}
		if !found {
			return fmt.Errorf("no leaf/move %s := %s", p.Where, p.Move)
		}
	}
	return nil
}

// ---------------------------------------------------------------------------
// Structural comparison that separates nil-vs-empty from real differences.

type valDiff struct {
	Class  string // nil-vs-empty | value-changed | type-changed | excluded-field
	Path   string // type-level path without indices
	Detail string
}

func deepDiff(want, got reflect.Value, root string) []valDiff {
	var out []valDiff
	add := func(class, path, format string, a ...any) {
		if len(out) < 16 {
			out = append(out, valDiff{class, path, fmt.Sprintf(format, a...)})
		}
	}
	var walk func(a, b reflect.Value, path string, excluded string, depth int)
	walk = func(a, b reflect.Value, path string, excluded string, depth int) {
		cls := func(c string) string {
			if excluded != "" {
				return "excluded-field"
			}
			return c
		}
		add := func(class, p, format string, a ...any) {
			if excluded != "" {
				p = excluded
			}
			add(class, p, format, a...)
		}
		if depth > 40 {
			return
		}
		if !a.IsValid() || !b.IsValid() {
			if a.IsValid() != b.IsValid() {
				add(cls("value-changed"), path, "one side is nil")
			}
			return
		}
		if a.Type() != b.Type() {
			add(cls("type-changed"), path, "type %s became %s", a.Type(), b.Type())
			return
		}
		switch a.Kind() {
		case reflect.Interface:
			if a.IsNil() || b.IsNil() {
				if a.IsNil() != b.IsNil() {
					add(cls("value-changed"), path, "interface %s became %s", latDescribe(a), latDescribe(b))
				}
				return
			}
			walk(a.Elem(), b.Elem(), path, excluded, depth+1)
		case reflect.Ptr:
			if a.IsNil() || b.IsNil() {
				if a.IsNil() != b.IsNil() {
					add(cls("value-changed"), path, "pointer nil=%v became nil=%v", a.IsNil(), b.IsNil())
				}
				return
			}
			walk(a.Elem(), b.Elem(), path+"*", excluded, depth+1)
		case reflect.Slice:
			if a.Len() == 0 && b.Len() == 0 {
				if a.IsNil() != b.IsNil() {
					add(cls("nil-vs-empty"), path, "slice nil=%v became nil=%v", a.IsNil(), b.IsNil())
				}
				return
			}
			if a.Len() != b.Len() {
				add(cls("value-changed"), path, "slice length %d became %d", a.Len(), b.Len())
				return
			}
			for i := 0; i < a.Len(); i++ {
				walk(a.Index(i), b.Index(i), path+"[]", excluded, depth+1)
			}
		case reflect.Array:
			for i := 0; i < a.Len(); i++ {
				walk(a.Index(i), b.Index(i), path+"[]", excluded, depth+1)
			}
		case reflect.Map:
			if a.Len() == 0 && b.Len() == 0 {
				if a.IsNil() != b.IsNil() {
					add(cls("nil-vs-empty"), path, "map nil=%v became nil=%v", a.IsNil(), b.IsNil())
				}
				return
			}
			if a.Len() != b.Len() {
				add(cls("value-changed"), path, "map size %d became %d", a.Len(), b.Len())
				return
			}
			for _, k := range a.MapKeys() {
				bv := b.MapIndex(k)
				if !bv.IsValid() {
					add(cls("value-changed"), path, "map key %v disappeared", k)
					continue
				}
				walk(a.MapIndex(k), bv, path+"{}", excluded, depth+1)
			}
		case reflect.Struct:
			t := a.Type()
			for i := 0; i < t.NumField(); i++ {
				f := t.Field(i)
				ex := excluded
				if ex == "" && strings.Split(f.Tag.Get("json"), ",")[0] == "-" {
					ex = shortType(t) + "." + f.Name
				}
				walk(a.Field(i), b.Field(i), path+"."+f.Name, ex, depth+1)
			}
		case reflect.Func, reflect.Chan, reflect.UnsafePointer:
			if a.IsNil() != b.IsNil() {
				add(cls("value-changed"), path, "%s nil=%v became nil=%v", a.Kind(), a.IsNil(), b.IsNil())
			}
		case reflect.Bool:
			if a.Bool() != b.Bool() {
				add(cls("value-changed"), path, "%v became %v", a.Bool(), b.Bool())
			}
		case reflect.Int, reflect.Int8, reflect.Int16, reflect.Int32, reflect.Int64:
			if a.Int() != b.Int() {
				add(cls("value-changed"), path, "%d became %d", a.Int(), b.Int())
			}
		case reflect.Uint, reflect.Uint8, reflect.Uint16, reflect.Uint32, reflect.Uint64, reflect.Uintptr:
			if a.Uint() != b.Uint() {
				add(cls("value-changed"), path, "%d became %d", a.Uint(), b.Uint())
			}
		case reflect.Float32, reflect.Float64:
			if a.Float() != b.Float() {
				add(cls("value-changed"), path, "%v became %v", a.Float(), b.Float())
			}
		case reflect.Complex64, reflect.Complex128:
			if a.Complex() != b.Complex() {
				add(cls("value-changed"), path, "%v became %v", a.Complex(), b.Complex())
			}
		case reflect.String:
			if a.String() != b.String() {
				add(cls("value-changed"), path, "%q became %q", a.String(), b.String())
			}
		}
	}
	walk(want, got, root, "", 0)
	return out
}

func latDescribe(v reflect.Value) string {
	if !v.IsValid() || ((v.Kind() == reflect.Interface || v.Kind() == reflect.Ptr) && v.IsNil()) {
		return "nil"
	}
	if v.Kind() == reflect.Interface {
		v = v.Elem()
	}
	if v.CanInterface() {
		return fmt.Sprintf("%s(%v)", v.Type(), v.Interface())
	}
	return v.Type().String()
}

// shortType strips the module prefix from a type tag.
func shortType(t reflect.Type) string {
	s := t.PkgPath()
	s = strings.TrimPrefix(s, "github.com/sarchlab/akita/v5/")
	if s == "" {
		return t.String()
	}
	return s + "." + t.Name()
}

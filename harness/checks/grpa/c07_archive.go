package grpa

import (
	"archive/tar"
	"bufio"
	"bytes"
	"compress/gzip"
	"encoding/binary"
	"encoding/json"
	"fmt"
	"io"
	"log"
	"net/url"
	"os"
	"os/exec"
	"path/filepath"
	"reflect"
	"sort"
	"strings"
	"sync"
	"syscall"
	"time"

	"github.com/sarchlab/akita/v5/timing"

	"verif/harness/lib"
	"verif/harness/simx"
)

// C07: checkpoint archives are canonical, mismatches are rejected, malformed
// archives never panic or exhaust memory.

type c07Fault struct {
	Level   string `json:"level"` // stream-trunc | stream-sub | entry | payload-trunc | payload-sub | crafted
	Entity  string `json:"entity,omitempty"`
	Pos     int    `json:"pos,omitempty"`
	Val     int    `json:"val,omitempty"`     // substitution variant 0..2
	Variant string `json:"variant,omitempty"` // entry / crafted variant
}

type c07Case struct {
	Part string `json:"part"` // a | b | c
	// part a: Chain == nil means the C07 assembly (Full selects the variant)
	Chain *simx.ChainCfg `json:"chain,omitempty"`
	Ops   []simx.MemOp   `json:"ops,omitempty"`
	Full  bool           `json:"full,omitempty"`
	Cut   int            `json:"cut,omitempty"`
	// part b
	Mut c07Mut `json:"mut,omitempty"`
	// part c
	Fault *c07Fault `json:"fault,omitempty"`
}

const c07BuildID = "verif-c07"

func c07Path(tag string) string {
	return filepath.Join(lib.ScratchDir(), fmt.Sprintf("c07-%s-%d.tar.gz", tag, os.Getpid()))
}

// ---------------------------------------------------------------------------
// reference archive reader / writer (independent of package simulation)

type c07Entry struct {
	Name string
	Type byte
	Link string
	Data []byte
}

// c07Parse is the strict reference reader: one gzip member read to its end
// (so length and checksum are verified) with nothing after it, holding a tar
// stream that parses to its end-of-archive marker.
func c07Parse(data []byte) ([]c07Entry, error) {
	br := bytes.NewReader(data)
	gz, err := gzip.NewReader(br)
	if err != nil {
		return nil, err
	}
	gz.Multistream(false)
	raw, err := io.ReadAll(gz)
	if err != nil {
		return nil, err
	}
	if br.Len() != 0 {
		return nil, fmt.Errorf("%d bytes after the gzip member", br.Len())
	}
	tr := tar.NewReader(bytes.NewReader(raw))
	var out []c07Entry
	for {
		h, err := tr.Next()
		if err == io.EOF {
			break
		}
		if err != nil {
			return nil, err
		}
		d, err := io.ReadAll(tr)
		if err != nil {
			return nil, err
		}
		out = append(out, c07Entry{Name: h.Name, Type: h.Typeflag, Link: h.Linkname, Data: d})
	}
	return out, nil
}

// c07Pack writes entries the way the archive writer does (tar.gz, zero mtimes).
func c07Pack(entries []c07Entry) []byte {
	var buf bytes.Buffer
	gz := gzip.NewWriter(&buf)
	gz.ModTime = time.Unix(0, 0)
	tw := tar.NewWriter(gz)
	for _, e := range entries {
		h := &tar.Header{Name: e.Name, Mode: 0o600, Size: int64(len(e.Data)), ModTime: time.Unix(0, 0), Typeflag: e.Type, Linkname: e.Link}
		if e.Type == tar.TypeDir || e.Type == tar.TypeSymlink {
			h.Size = 0
		}
		if err := tw.WriteHeader(h); err != nil {
			panic(err)
		}
		if h.Size > 0 {
			if _, err := tw.Write(e.Data); err != nil {
				panic(err)
			}
		}
	}
	_ = tw.Close()
	_ = gz.Close()
	return buf.Bytes()
}

func c07EntityPath(name string) string { return "entities/" + url.PathEscape(name) }

// ---------------------------------------------------------------------------
// base archives

type c07Base struct {
	full     bool
	cut      uint64
	data     []byte
	entries  []c07Entry
	specs    map[string]any
	handlers map[string]bool
	stateTy  map[string]reflect.Type
}

var (
	c07BaseMu sync.Mutex
	c07Bases  = map[bool]*c07Base{}
)

func (b *c07Base) payload(entity string) []byte {
	for _, e := range b.entries {
		if e.Name == c07EntityPath(entity) {
			return e.Data
		}
	}
	return nil
}

// c07GetBase saves the assembly at the first cut time at which a port holds a
// message and the memory controller has a transaction in flight.
func c07GetBase(full bool) *c07Base {
	c07BaseMu.Lock()
	defer c07BaseMu.Unlock()
	if b, ok := c07Bases[full]; ok {
		return b
	}
	path := c07Path("base")
	defer os.Remove(path)
	var chosen *c07Base
	for _, t := range c07CutTimes(full) {
		rig := c07RunTo(full, t)
		err := rig.Env.Sim.SaveCheckpoint(path, c07BuildID)
		b := &c07Base{full: full, cut: t, specs: rig.Specs, handlers: map[string]bool{}, stateTy: map[string]reflect.Type{}}
		for _, c := range rig.Env.Components() {
			b.handlers[c.Name()] = true
			v := reflect.ValueOf(c)
			if v.Kind() == reflect.Ptr && v.Elem().Kind() == reflect.Struct {
				if f := v.Elem().FieldByName("State"); f.IsValid() {
					b.stateTy[c.Name()] = f.Type()
				}
			}
		}
		rig.Env.Close()
		if err != nil {
			panic("c07: cannot save the base archive: " + err.Error())
		}
		data, _ := os.ReadFile(path)
		entries, perr := c07Parse(data)
		if perr != nil {
			panic("c07: the reference reader rejects a freshly saved archive: " + perr.Error())
		}
		b.data, b.entries = data, entries
		memPayload := string(b.payload("Mem"))
		busyPort := false
		for _, e := range entries {
			if strings.Contains(e.Name, "Mem.Top") || strings.Contains(e.Name, "Driver.Mem") {
				if strings.Contains(string(e.Data), `"type"`) {
					busyPort = true
				}
			}
		}
		if chosen == nil {
			chosen = b
		}
		if busyPort && strings.Contains(memPayload, `"req_id"`) {
			chosen = b
			break
		}
	}
	c07Bases[full] = chosen
	return chosen
}

// ---------------------------------------------------------------------------
// load / re-save helpers

type c07Result struct {
	probs []lib.Problem
}

func (r *c07Result) bad(key, format string, a ...any) {
	r.probs = append(r.probs, lib.Problem{Key: "c07:" + key, What: fmt.Sprintf(format, a...)})
}

// c07Load loads data into rig; it returns the error and a panic description.
func c07Load(rig *c07Rig, data []byte, buildID string) (error, string) {
	path := c07Path("load")
	defer os.Remove(path)
	if err := os.WriteFile(path, data, 0o600); err != nil {
		panic(err)
	}
	var lerr error
	msg, where := lib.CatchStack(func() { lerr = rig.Env.Sim.LoadCheckpoint(path, buildID) })
	if msg != "" {
		return nil, msg + " at " + where
	}
	return lerr, ""
}

func c07Resave(rig *c07Rig) ([]byte, string) {
	path := c07Path("resave")
	defer os.Remove(path)
	var err error
	if msg, where := lib.CatchStack(func() { err = rig.Env.Sim.SaveCheckpoint(path, c07BuildID) }); msg != "" {
		return nil, "panic: " + msg + " at " + where
	}
	if err != nil {
		return nil, err.Error()
	}
	data, _ := os.ReadFile(path)
	return data, ""
}

func c07FirstDiff(a, b []byte) string {
	ea, err1 := c07Parse(a)
	eb, err2 := c07Parse(b)
	if err1 != nil || err2 != nil {
		return fmt.Sprintf("(unparsable: %v %v)", err1, err2)
	}
	if len(ea) != len(eb) {
		return fmt.Sprintf("%d vs %d entries", len(ea), len(eb))
	}
	for i := range ea {
		if ea[i].Name != eb[i].Name {
			return fmt.Sprintf("entry %d is %q vs %q", i, ea[i].Name, eb[i].Name)
		}
		if !bytes.Equal(ea[i].Data, eb[i].Data) {
			x, y := ea[i].Data, eb[i].Data
			k := 0
			for k < len(x) && k < len(y) && x[k] == y[k] {
				k++
			}
			lo := k - 40
			if lo < 0 {
				lo = 0
			}
			cut := func(z []byte) string {
				hi := k + 40
				if hi > len(z) {
					hi = len(z)
				}
				if lo > len(z) {
					return ""
				}
				return string(z[lo:hi])
			}
			return fmt.Sprintf("entity %s differs at byte %d: …%q… vs …%q…", ea[i].Name, k, cut(x), cut(y))
		}
	}
	return "same entries, different container bytes"
}

// ---------------------------------------------------------------------------
// part (a): idempotence

func c07RunA(cs c07Case) (string, []lib.Problem) {
	res := &c07Result{}
	sig := "c07-small"
	if cs.Full {
		sig = "c07-full"
	}
	type built struct {
		env    *simx.Env
		driver *simx.Driver
	}
	build := func() built {
		if cs.Chain != nil {
			cfg := *cs.Chain
			cfg.Full = true
			ch := simx.BuildChain(cfg, append([]simx.MemOp{}, cs.Ops...))
			return built{ch.Env, ch.Driver}
		}
		r := c07Build(cs.Full, c07Mut{})
		return built{r.Env, r.Driver}
	}
	if cs.Chain != nil {
		sig = fmt.Sprintf("%v+%s", cs.Chain.Stages, cs.Chain.Memory)
	}
	// reference run for the cut times
	ref := build()
	tr := ref.env.TraceEvents()
	ref.driver.TickLater()
	if msg := ref.env.Run(400000); msg != "" {
		ref.env.Close()
		return "ref-failed", []lib.Problem{{Key: "c07:a:reference-run-failed:" + sig, What: msg}}
	}
	ref.env.Close()
	var times []uint64
	for _, e := range tr.Events {
		if len(times) == 0 || times[len(times)-1] != e.Time {
			times = append(times, e.Time)
		}
	}
	if cs.Cut >= len(times) {
		return "no-such-cut", nil
	}
	t := times[cs.Cut]
	p1, p2 := c07Path("a1"), c07Path("a2")
	defer os.Remove(p1)
	defer os.Remove(p2)
	src := build()
	src.driver.TickLater()
	if pm := lib.Catch(func() { _ = src.env.Eng.RunUntil(timing.VTimeInPicoSec(t)) }); pm != "" {
		src.env.Close()
		return "source-panic", []lib.Problem{{Key: "c07:a:source-run-panic:" + sig, What: pm}}
	}
	err := src.env.Sim.SaveCheckpoint(p1, c07BuildID)
	src.env.Close()
	if err != nil {
		res.bad("a:save-failed:"+sig, "cut #%d (t=%d): %v", cs.Cut, t, err)
		return "save-failed", res.probs
	}
	dst := build()
	defer dst.env.Close()
	var lerr error
	if pm := lib.Catch(func() { lerr = dst.env.Sim.LoadCheckpoint(p1, c07BuildID) }); pm != "" || lerr != nil {
		res.bad("a:load-failed:"+sig, "cut #%d (t=%d): loading a checkpoint just saved into the identical rebuild: %v %s", cs.Cut, t, lerr, pm)
		return "load-failed", res.probs
	}
	if pm := lib.Catch(func() { err = dst.env.Sim.SaveCheckpoint(p2, c07BuildID) }); pm != "" || err != nil {
		res.bad("a:resave-failed:"+sig, "cut #%d (t=%d): %v %s", cs.Cut, t, err, pm)
		return "resave-failed", res.probs
	}
	a, _ := os.ReadFile(p1)
	b, _ := os.ReadFile(p2)
	if !bytes.Equal(a, b) {
		res.bad("a:resaved-archive-differs:"+sig, "%s cut #%d (t=%d): save -> load into the rebuild -> save gives a different archive: %s", sig, cs.Cut, t, c07FirstDiff(a, b))
	}
	return fmt.Sprintf("a %s cut%d size%d", sig, cs.Cut, len(a)/256), res.probs
}

// ---------------------------------------------------------------------------
// part (b): mismatch matrix

func c07Mutations() []c07Mut {
	base := c07GetBase(true)
	var out []c07Mut
	names := make([]string, 0, len(base.specs))
	for n := range base.specs {
		names = append(names, n)
	}
	sort.Strings(names)
	for _, n := range names {
		out = append(out, c07SpecFields(n, base.specs[n])...)
	}
	for _, p := range []string{"Mem.Top", "Mem.Control", "TLB.Top", "TLB.Bottom", "TLB.Control", "MMU.Top", "MMU.Control", "Driver.Mem"} {
		out = append(out, c07Mut{Kind: "portcap", Entity: p, Delta: 1}, c07Mut{Kind: "portcap", Entity: p, Delta: -1})
	}
	for _, s := range []string{"Mem.Storage", "Aux.Storage"} {
		out = append(out,
			c07Mut{Kind: "storage-cap", Entity: s, Delta: 1}, c07Mut{Kind: "storage-cap", Entity: s, Delta: -1},
			c07Mut{Kind: "storage-unit", Entity: s, Delta: 1}, c07Mut{Kind: "storage-unit", Entity: s, Delta: -1})
	}
	out = append(out,
		c07Mut{Kind: "pagesize", Entity: "PT", Delta: 1}, c07Mut{Kind: "pagesize", Entity: "PT", Delta: -1},
		c07Mut{Kind: "buildid"},
		c07Mut{Kind: "remove", Entity: "Aux.Storage"}, c07Mut{Kind: "remove", Entity: "PT"}, c07Mut{Kind: "remove", Entity: "TLB"}, c07Mut{Kind: "remove", Entity: "TLB.Control"},
		c07Mut{Kind: "add", Entity: "Extra.Storage"}, c07Mut{Kind: "add", Entity: "MMU.Extra"}, c07Mut{Kind: "add", Entity: "Mem2"},
		c07Mut{Kind: "rename", Entity: "Aux.Storage"}, c07Mut{Kind: "rename", Entity: "PT"}, c07Mut{Kind: "rename", Entity: "TLB"},
	)
	return out
}

func c07RunB(cs c07Case) (string, []lib.Problem) {
	res := &c07Result{}
	base := c07GetBase(true)
	mut := cs.Mut
	var rig *c07Rig
	if msg := lib.Catch(func() { rig = c07Build(true, mut) }); msg != "" {
		return "b unbuildable " + mut.Kind, nil // the builders reject this configuration
	}
	defer rig.Env.Close()
	class := mut.Kind
	where := mut.Entity
	expectErr := mut.Kind != ""
	if mut.Kind == "spec" {
		where = mut.Entity + "." + mut.Field
		if reflect.DeepEqual(rig.Specs[mut.Entity], base.specs[mut.Entity]) {
			expectErr = false // the builder overrides this field: the rebuilt configuration is unchanged
			class = "spec-ineffective"
		}
	}
	buildID := c07BuildID
	if mut.Kind == "buildid" {
		buildID = c07BuildID + "-other"
	}
	lerr, pm := c07Load(rig, base.data, buildID)
	switch {
	case pm != "":
		res.bad("b:panic:"+class+":"+where, "rebuilt with [%s]: LoadCheckpoint panicked: %s", mut, pm)
	case expectErr && lerr == nil:
		res.bad("b:mismatch-accepted:"+class+":"+where, "rebuilt with [%s]: LoadCheckpoint of the archive of the unmutated assembly returned no error", mut)
	case !expectErr && lerr != nil:
		res.bad("b:identical-rebuild-refused:"+class+":"+where, "rebuilt with [%s] (effective configuration unchanged): LoadCheckpoint failed: %v", mut, lerr)
	case !expectErr:
		again, msg := c07Resave(rig)
		if msg != "" {
			res.bad("b:resave-failed:"+class, "rebuilt with [%s]: %s", mut, msg)
		} else if !bytes.Equal(again, base.data) {
			res.bad("b:resaved-archive-differs:"+class, "rebuilt with [%s]: %s", mut, c07FirstDiff(base.data, again))
		}
	}
	outcome := "error"
	if lerr == nil {
		outcome = "loaded"
	}
	return fmt.Sprintf("b %s %s %s", class, where, outcome), res.probs
}

// ---------------------------------------------------------------------------
// part (c): malformed archives

var c07SubMasks = []byte{0x01, 0x80, 0xFF}

// the entities whose decoded payloads are faulted byte by byte
var c07PayloadEntities = []string{"Engine", "IDGenerator", "Mem.Top", "Mem"}

func c07Kind(entity string) string {
	switch entity {
	case "Engine":
		return "engine"
	case "IDGenerator":
		return "idgenerator"
	case "Mem.Storage":
		return "storage"
	case "Conn", "Mem", "Driver":
		return "component"
	}
	return "port"
}

// c07Node is a JSON value with the member order and duplicates preserved.
type c07Node struct {
	kind  byte // o, a, s, n, b, z
	keys  []string
	vals  []*c07Node
	elems []*c07Node
	text  string
}

func c07ParseJSON(data []byte) (*c07Node, error) {
	dec := json.NewDecoder(bytes.NewReader(data))
	dec.UseNumber()
	var value func() (*c07Node, error)
	value = func() (*c07Node, error) {
		tok, err := dec.Token()
		if err != nil {
			return nil, err
		}
		switch t := tok.(type) {
		case json.Delim:
			switch t {
			case '{':
				n := &c07Node{kind: 'o'}
				for dec.More() {
					k, err := dec.Token()
					if err != nil {
						return nil, err
					}
					v, err := value()
					if err != nil {
						return nil, err
					}
					n.keys = append(n.keys, k.(string))
					n.vals = append(n.vals, v)
				}
				_, err := dec.Token()
				return n, err
			case '[':
				n := &c07Node{kind: 'a'}
				for dec.More() {
					v, err := value()
					if err != nil {
						return nil, err
					}
					n.elems = append(n.elems, v)
				}
				_, err := dec.Token()
				return n, err
			}
			return nil, fmt.Errorf("unexpected delimiter %v", t)
		case string:
			return &c07Node{kind: 's', text: t}, nil
		case json.Number:
			return &c07Node{kind: 'n', text: string(t)}, nil
		case bool:
			return &c07Node{kind: 'b', text: fmt.Sprint(t)}, nil
		case nil:
			return &c07Node{kind: 'z'}, nil
		}
		return nil, fmt.Errorf("unexpected token %v", tok)
	}
	return value()
}

func (n *c07Node) get(path ...string) *c07Node {
	for _, p := range path {
		if n == nil || n.kind != 'o' {
			return nil
		}
		var next *c07Node
		for i, k := range n.keys {
			if k == p {
				next = n.vals[i]
			}
		}
		n = next
	}
	return n
}

type c07Change struct {
	path     string // e.g. .incoming.elements[].type
	from, to string
}

// c07Diff walks the original and the faulted tree in parallel. shape is
// "unknown-member" when an object carries a member name the original object
// does not have (beyond letter case, which encoding/json ignores), "other" when
// the trees differ in a way this judge does not decide (duplicate members,
// different lengths or kinds), "" otherwise; changes lists the scalar changes.
func c07Diff(o, m *c07Node, path string, changes *[]c07Change) string {
	if o.kind != m.kind {
		return "other"
	}
	switch o.kind {
	case 'o':
		seen := map[string]bool{}
		for _, k := range m.keys {
			if seen[strings.ToLower(k)] {
				return "other" // duplicate member
			}
			seen[strings.ToLower(k)] = true
		}
		if len(o.keys) != len(m.keys) {
			return "other"
		}
		for i, k := range o.keys {
			if !strings.EqualFold(k, m.keys[i]) {
				return "unknown-member"
			}
			if r := c07Diff(o.vals[i], m.vals[i], path+"."+k, changes); r != "" {
				return r
			}
		}
	case 'a':
		if len(o.elems) != len(m.elems) {
			return "other"
		}
		for i := range o.elems {
			if r := c07Diff(o.elems[i], m.elems[i], path+"[]", changes); r != "" {
				return r
			}
		}
	default:
		if o.text != m.text {
			*changes = append(*changes, c07Change{path, o.text, m.text})
		}
	}
	return ""
}

func c07TypeByFullTag(tag string, events bool) reflect.Type {
	types := c08MsgTypes()
	if events {
		types = c08EventTypes()
	}
	for _, t := range types {
		if t.PkgPath()+"."+t.Name() == tag {
			return t
		}
	}
	return nil
}

// c07Judge decides what the statement demands for a faulted JSON payload:
// ("malformed", class): an error; ("same", ""): success and an identical
// re-save; ("variant", ""): nothing beyond no panic and a working re-save.
// The schema is taken from the original payload itself (every member is always
// written), so the judge cannot drift from the implementation's DTOs.
func c07Judge(base *c07Base, entity string, orig, mutated []byte) (string, string) {
	if !json.Valid(mutated) {
		var first json.RawMessage
		if json.NewDecoder(bytes.NewReader(mutated)).Decode(&first) == nil {
			return "malformed", "trailing-bytes"
		}
		return "malformed", "invalid-json"
	}
	var co, cm bytes.Buffer
	_ = json.Compact(&co, orig)
	_ = json.Compact(&cm, mutated)
	if bytes.Equal(co.Bytes(), cm.Bytes()) {
		return "same", ""
	}
	to, err1 := c07ParseJSON(orig)
	tm, err2 := c07ParseJSON(mutated)
	if err1 != nil || err2 != nil {
		return "variant", ""
	}
	var changes []c07Change
	switch c07Diff(to, tm, "", &changes) {
	case "unknown-member":
		return "malformed", "unknown-member"
	case "other":
		return "variant", ""
	}
	for _, ch := range changes {
		switch kind := c07Kind(entity); {
		case kind == "component" && ch.path == ".spec_hash":
			return "malformed", "spec-hash"
		case kind == "port" && (ch.path == ".incoming.capacity" || ch.path == ".outgoing.capacity"):
			return "malformed", "capacity"
		case kind == "port" && strings.HasSuffix(ch.path, ".elements[].type"):
			if c07TypeByFullTag(ch.to, false) == nil {
				return "malformed", "unknown-type"
			}
		case kind == "engine" && strings.HasSuffix(ch.path, "[].type"):
			if c07TypeByFullTag(ch.to, true) == nil {
				return "malformed", "unknown-type"
			}
		case kind == "engine" && strings.HasSuffix(ch.path, "[].payload.handler_id"):
			if !base.handlers[ch.to] {
				return "malformed", "unknown-handler"
			}
		case kind == "idgenerator" && ch.path == ".kind":
			return "malformed", "generator-kind"
		}
	}
	return "variant", ""
}

func (b *c07Base) withPayload(entity string, data []byte) []byte {
	entries := make([]c07Entry, len(b.entries))
	copy(entries, b.entries)
	for i := range entries {
		if entries[i].Name == c07EntityPath(entity) {
			entries[i].Data = data
		}
	}
	return c07Pack(entries)
}

func c07StorageHeader(capacity, unit, count uint64) []byte {
	buf := make([]byte, 24)
	binary.LittleEndian.PutUint64(buf[0:], capacity)
	binary.LittleEndian.PutUint64(buf[8:], unit)
	binary.LittleEndian.PutUint64(buf[16:], count)
	return buf
}

// c07Crafted returns the hand-crafted archive and what is demanded of it.
func c07Crafted(base *c07Base, f c07Fault) (data []byte, expect, class string, ok bool) {
	setJSON := func(entity string, edit func(m map[string]any)) []byte {
		var m map[string]any
		dec := json.NewDecoder(bytes.NewReader(base.payload(entity)))
		dec.UseNumber()
		if err := dec.Decode(&m); err != nil {
			panic(err)
		}
		edit(m)
		out, _ := json.Marshal(m)
		return base.withPayload(entity, append(out, '\n'))
	}
	elems := func(raw any) []any {
		var l []any
		b, _ := json.Marshal(raw)
		dec := json.NewDecoder(bytes.NewReader(b))
		dec.UseNumber()
		_ = dec.Decode(&l)
		return l
	}
	readReq := map[string]any{"type": "github.com/sarchlab/akita/v5/mem/memprotocol.ReadReq",
		"payload": map[string]any{"ID": 7, "Src": "Driver.Mem", "Dst": "Mem.Top", "Address": 64, "AccessByteSize": 4, "PID": 1}}
	firstEvent := func(m map[string]any) (string, []any) {
		for _, q := range []string{"primary", "secondary"} {
			if l := elems(m[q]); len(l) > 0 {
				return q, l
			}
		}
		return "", nil
	}
	switch f.Variant {
	case "port-more-messages-than-capacity":
		return setJSON("Mem.Top", func(m map[string]any) {
			in := m["incoming"].(map[string]any)
			var l []any
			for i := 0; i <= c07PortBuf; i++ {
				l = append(l, readReq)
			}
			in["elements"] = l
		}), "error", "more-messages-than-capacity", true
	case "port-unknown-message-type":
		return setJSON("Mem.Top", func(m map[string]any) {
			in := m["incoming"].(map[string]any)
			in["elements"] = []any{map[string]any{"type": "nowhere.Msg", "payload": map[string]any{}}}
		}), "error", "unknown-type", true
	case "engine-unknown-handler", "engine-unknown-event-type", "engine-event-before-engine-time":
		found := false
		data := setJSON("Engine", func(m map[string]any) {
			q, l := firstEvent(m)
			if q == "" {
				return
			}
			found = true
			ev := l[0].(map[string]any)
			switch f.Variant {
			case "engine-unknown-handler":
				ev["payload"].(map[string]any)["handler_id"] = "Nobody"
			case "engine-unknown-event-type":
				ev["type"] = "nowhere.Event"
			case "engine-event-before-engine-time":
				m["time"] = json.Number("99999999999")
			}
			m[q] = l
		})
		return data, "error", strings.TrimPrefix(f.Variant, "engine-"), found
	case "storage-count-2^40", "storage-count-2^63", "storage-count-2^64-1":
		n := map[string]uint64{"storage-count-2^40": 1 << 40, "storage-count-2^63": 1 << 63, "storage-count-2^64-1": ^uint64(0)}[f.Variant]
		return base.withPayload("Mem.Storage", c07StorageHeader(c07MemCap, c07MemUnit, n)), "error", "storage-unit-count", true
	case "port-capacity-negative":
		return setJSON("Mem.Top", func(m map[string]any) { m["incoming"].(map[string]any)["capacity"] = -1 }), "error", "capacity", true
	case "port-capacity-huge":
		return setJSON("Mem.Top", func(m map[string]any) {
			m["incoming"].(map[string]any)["capacity"] = json.Number("9223372036854775808")
		}), "error", "number-out-of-range", true
	case "idgen-next-negative":
		return setJSON("IDGenerator", func(m map[string]any) { m["next_id"] = -1 }), "error", "number-out-of-range", true
	case "idgen-next-2^64":
		return setJSON("IDGenerator", func(m map[string]any) { m["next_id"] = json.Number("18446744073709551616") }), "error", "number-out-of-range", true
	case "idgen-next-float":
		return setJSON("IDGenerator", func(m map[string]any) { m["next_id"] = json.Number("1e400") }), "error", "number-out-of-range", true
	case "engine-time-negative":
		return setJSON("Engine", func(m map[string]any) { m["time"] = -1 }), "error", "number-out-of-range", true
	case "component-next-tick-negative":
		return setJSON("Mem", func(m map[string]any) { m["scheduler"].(map[string]any)["next_tick_time"] = -1 }), "error", "number-out-of-range", true
	case "component-state-null":
		return setJSON("Mem", func(m map[string]any) { m["state"] = nil }), "any", "nested-null", true
	case "port-elements-null":
		return setJSON("Mem.Top", func(m map[string]any) { m["incoming"].(map[string]any)["elements"] = nil }), "any", "nested-null", true
	case "engine-queues-null":
		return setJSON("Engine", func(m map[string]any) { m["primary"] = nil; m["secondary"] = nil }), "any", "nested-null", true
	}
	if f.Variant == "harness-selftest-allocate" && os.Getenv("VERIF_C07_SELFTEST") != "" {
		// dev knob: proves that the address-space limit of the child works
		big := make([]byte, 16<<30)
		for i := 0; i < len(big); i += 4096 {
			big[i] = 1
		}
		return base.data, "same", fmt.Sprint(len(big)), true
	}
	if strings.HasPrefix(f.Variant, "null:") {
		return base.withPayload(f.Entity, []byte("null\n")), "error", "null-payload", true
	}
	if strings.HasPrefix(f.Variant, "empty:") {
		return base.withPayload(f.Entity, nil), "error", "empty-payload", true
	}
	return nil, "", "", false
}

var c07CraftedVariants = []string{
	"port-more-messages-than-capacity", "port-unknown-message-type", "engine-unknown-handler", "engine-unknown-event-type",
	"engine-event-before-engine-time", "storage-count-2^40", "storage-count-2^63", "storage-count-2^64-1",
	"port-capacity-negative", "port-capacity-huge", "idgen-next-negative", "idgen-next-2^64", "idgen-next-float",
	"engine-time-negative", "component-next-tick-negative", "component-state-null", "port-elements-null", "engine-queues-null",
}

// c07RunFault executes one malformed-archive case (inside the memory-limited
// child process).
func c07RunFault(f c07Fault) (string, []lib.Problem) {
	res := &c07Result{}
	base := c07GetBase(false)
	kind := c07Kind(f.Entity)
	var data []byte
	expect, class := "error", f.Level
	switch f.Level {
	case "stream-trunc":
		data = base.data[:f.Pos]
		class = "truncated-archive:inside"
		if f.Pos >= len(base.data)-8 {
			class = "truncated-archive:only-gzip-trailer-missing"
		}
	case "stream-sub":
		data = append([]byte{}, base.data...)
		data[f.Pos] ^= c07SubMasks[f.Val]
		region := "deflate-body"
		if f.Pos < 10 {
			region = "gzip-header"
		} else if f.Pos >= len(base.data)-8 {
			region = "gzip-trailer"
		}
		class = "corrupt-stream:" + region
		if entries, err := c07Parse(data); err == nil {
			expect = "any"
			if reflect.DeepEqual(entries, base.entries) {
				expect = "same-if-loaded"
			}
		}
	case "entry":
		entries := append([]c07Entry{}, base.entries...)
		i := f.Pos
		e := entries[i]
		switch f.Variant {
		case "identity":
			expect = "same"
		case "drop":
			entries = append(entries[:i:i], entries[i+1:]...)
		case "duplicate":
			entries = append(entries[:i+1:i+1], append([]c07Entry{e}, entries[i+1:]...)...)
		case "rename-bad-escape":
			e.Name = "entities/%zz"
			entries[i] = e
		case "rename-non-entity":
			e.Name = "stray.txt"
			entries[i] = e
		case "rename-other":
			e.Name = e.Name + "X"
			entries[i] = e
		case "retype-dir":
			e.Type = tar.TypeDir
			entries[i] = e
		case "retype-symlink":
			e.Type, e.Link = tar.TypeSymlink, "build_id"
			entries[i] = e
		default:
			return "bad-case", []lib.Problem{{Key: "c07:bad-case", What: "unknown entry variant " + f.Variant}}
		}
		class = "entry-" + f.Variant
		data = c07Pack(entries)
	case "payload-trunc":
		orig := base.payload(f.Entity)
		data = base.withPayload(f.Entity, orig[:f.Pos])
		class = "truncated-payload:" + kind
		if kind != "storage" && f.Pos == len(orig)-1 && orig[len(orig)-1] == '\n' {
			expect = "same-content" // only the final newline is missing
		}
	case "payload-sub":
		orig := base.payload(f.Entity)
		mutated := append([]byte{}, orig...)
		mutated[f.Pos] ^= c07SubMasks[f.Val]
		data = base.withPayload(f.Entity, mutated)
		verdict, cl := c07Judge(base, f.Entity, orig, mutated)
		switch verdict {
		case "malformed":
			class = "payload-" + cl + ":" + kind
		case "same":
			expect, class = "same", "payload-insignificant:"+kind
		default:
			expect, class = "any", "payload-variant:"+kind
		}
	case "crafted":
		var ok bool
		var cl string
		data, expect, cl, ok = c07Crafted(base, f)
		if !ok {
			return "c crafted " + f.Variant + " not-applicable", nil
		}
		switch {
		case f.Entity != "":
		case strings.HasPrefix(f.Variant, "port-"):
			kind = "port"
		case strings.HasPrefix(f.Variant, "engine-"):
			kind = "engine"
		case strings.HasPrefix(f.Variant, "idgen-"):
			kind = "idgenerator"
		case strings.HasPrefix(f.Variant, "storage-"):
			kind = "storage"
		case strings.HasPrefix(f.Variant, "component-"):
			kind = "component"
		}
		class = "crafted-" + cl + ":" + kind
	default:
		return "bad-case", []lib.Problem{{Key: "c07:bad-case", What: "unknown fault level " + f.Level}}
	}

	rig := c07Build(false, c07Mut{})
	defer rig.Env.Close()
	lerr, pm := c07Load(rig, data, c07BuildID)
	desc := fmt.Sprintf("%s %s pos=%d val=%d %s", f.Level, f.Entity, f.Pos, f.Val, f.Variant)
	if f.Level == "payload-sub" {
		orig := base.payload(f.Entity)
		lo, hi := f.Pos-24, f.Pos+24
		if lo < 0 {
			lo = 0
		}
		if hi > len(orig) {
			hi = len(orig)
		}
		mutated := append([]byte{}, orig[lo:hi]...)
		mutated[f.Pos-lo] ^= c07SubMasks[f.Val]
		desc += fmt.Sprintf(" (…%q… became …%q…)", orig[lo:hi], mutated)
	}
	outcome := "error"
	switch {
	case pm != "":
		outcome = "panic"
		res.bad("c:panic:"+class, "%s: LoadCheckpoint panicked: %s", desc, pm)
	case lerr == nil:
		outcome = "loaded"
		if expect == "error" {
			res.bad("c:malformed-accepted:"+class, "%s: LoadCheckpoint returned no error", desc)
			break
		}
		again, msg := c07Resave(rig)
		if msg != "" {
			res.bad("c:resave-failed:"+class, "%s: the archive loaded, but saving again failed: %s", desc, msg)
		} else if (expect == "same" || expect == "same-if-loaded") && !bytes.Equal(again, base.data) {
			res.bad("c:resaved-archive-differs:"+class, "%s: %s", desc, c07FirstDiff(base.data, again))
		}
	default:
		if expect == "same" || expect == "same-content" {
			res.bad("c:valid-archive-refused:"+class, "%s: LoadCheckpoint failed: %v", desc, lerr)
		}
	}
	return fmt.Sprintf("c %s %s", class, outcome), res.probs
}

// ---------------------------------------------------------------------------
// the memory-limited child process that executes part (c) cases

const c07ChildEnv = "VERIF_C07_CHILD"
const c07MemLimit = 6 << 30

type c07Reply struct {
	Outcome string        `json:"outcome"`
	Probs   []lib.Problem `json:"probs"`
}

func init() {
	if os.Getenv(c07ChildEnv) == "" {
		return
	}
	log.SetOutput(io.Discard)
	lim := syscall.Rlimit{Cur: c07MemLimit, Max: c07MemLimit}
	if err := syscall.Setrlimit(syscall.RLIMIT_AS, &lim); err != nil {
		fmt.Fprintln(os.Stderr, "c07 child: cannot set RLIMIT_AS:", err)
		os.Exit(3)
	}
	in := bufio.NewReaderSize(os.Stdin, 1<<20)
	out := bufio.NewWriter(os.Stdout)
	for {
		line, err := in.ReadBytes('\n')
		if len(line) > 0 {
			var f c07Fault
			rep := c07Reply{}
			if e := json.Unmarshal(line, &f); e != nil {
				rep.Outcome = "bad-case"
				rep.Probs = []lib.Problem{{Key: "c07:bad-case", What: e.Error()}}
			} else {
				rep.Outcome, rep.Probs = c07RunFault(f)
			}
			b, _ := json.Marshal(rep)
			out.Write(b)
			out.WriteByte('\n')
			out.Flush()
		}
		if err != nil {
			break
		}
	}
	lib.CleanScratch()
	os.Exit(0)
}

type c07Child struct {
	cmd    *exec.Cmd
	stdin  io.WriteCloser
	lines  chan []byte
	stderr *bytes.Buffer
}

var c07Proc *c07Child

func c07Spawn() (*c07Child, error) {
	self, err := os.Executable()
	if err != nil {
		return nil, err
	}
	cmd := exec.Command(self, "C07")
	cmd.Env = append(os.Environ(), c07ChildEnv+"=1", "GOMAXPROCS=2")
	stdin, err := cmd.StdinPipe()
	if err != nil {
		return nil, err
	}
	stdout, err := cmd.StdoutPipe()
	if err != nil {
		return nil, err
	}
	ch := &c07Child{cmd: cmd, stdin: stdin, lines: make(chan []byte, 1), stderr: &bytes.Buffer{}}
	cmd.Stderr = ch.stderr
	if err := cmd.Start(); err != nil {
		return nil, err
	}
	go func() {
		r := bufio.NewReaderSize(stdout, 1<<20)
		for {
			line, err := r.ReadBytes('\n')
			if len(line) > 0 {
				ch.lines <- line
			}
			if err != nil {
				close(ch.lines)
				return
			}
		}
	}()
	return ch, nil
}

func (ch *c07Child) kill() {
	_ = ch.stdin.Close()
	_ = ch.cmd.Process.Kill()
	_ = ch.cmd.Wait()
}

// c07Stop ends the child server (end of the run).
func c07Stop() {
	if c07Proc != nil {
		_ = c07Proc.stdin.Close()
		done := make(chan struct{})
		go func() { _ = c07Proc.cmd.Wait(); close(done) }()
		select {
		case <-done:
		case <-time.After(5 * time.Second):
			_ = c07Proc.cmd.Process.Kill()
		}
		c07Proc = nil
	}
}

// c07RunC sends the case to the child; a child that dies or hangs on it is
// the violation (memory exhaustion, fatal runtime error, endless loop).
func c07RunC(cs c07Case) (string, []lib.Problem) {
	f := *cs.Fault
	if c07Proc == nil {
		p, err := c07Spawn()
		if err != nil {
			return "harness-error", []lib.Problem{{Key: "c07:harness:cannot-spawn-child", What: err.Error()}}
		}
		c07Proc = p
	}
	b, _ := json.Marshal(f)
	if _, err := c07Proc.stdin.Write(append(b, '\n')); err != nil {
		c07Proc.kill()
		c07Proc = nil
		return "harness-error", []lib.Problem{{Key: "c07:harness:child-pipe", What: err.Error()}}
	}
	class := f.Level
	if f.Level == "crafted" {
		class = "crafted-" + f.Variant
	}
	select {
	case line, ok := <-c07Proc.lines:
		if !ok {
			tail := c07Proc.stderr.String()
			if len(tail) > 600 {
				tail = tail[:600]
			}
			c07Proc.kill()
			c07Proc = nil
			return "c " + class + " process-died", []lib.Problem{{Key: "c07:c:process-killed:" + class,
				What: fmt.Sprintf("%s %s pos=%d val=%d %s: the process loading the archive (address-space limit %d GiB) died: %s", f.Level, f.Entity, f.Pos, f.Val, f.Variant, c07MemLimit>>30, strings.TrimSpace(tail))}}
		}
		var rep c07Reply
		if err := json.Unmarshal(line, &rep); err != nil {
			return "harness-error", []lib.Problem{{Key: "c07:harness:bad-reply", What: err.Error()}}
		}
		return rep.Outcome, rep.Probs
	case <-time.After(5 * time.Minute):
		c07Proc.kill()
		c07Proc = nil
		return "c " + class + " hung", []lib.Problem{{Key: "c07:c:process-hung:" + class,
			What: fmt.Sprintf("%s %s pos=%d val=%d %s: LoadCheckpoint did not return within 5 min", f.Level, f.Entity, f.Pos, f.Val, f.Variant)}}
	}
}

// ---------------------------------------------------------------------------

func c07Run(cs c07Case) (string, []lib.Problem) {
	switch cs.Part {
	case "a":
		return c07RunA(cs)
	case "b":
		return c07RunB(cs)
	case "c":
		if cs.Fault == nil {
			break
		}
		return c07RunC(cs)
	}
	return "bad-case", []lib.Problem{{Key: "c07:bad-case", What: "unknown part " + cs.Part}}
}

func c07Enum(c *lib.Ctx, yield func(c07Case) bool) {
	// (a) idempotence
	type asm struct {
		chain *simx.ChainCfg
		full  bool
	}
	lines := simx.SameSetLines(2)
	ops := []simx.MemOp{
		{Write: true, Addr: lines[0], Size: simx.LineSize, Data: bytes.Repeat([]byte{0xA5}, simx.LineSize)},
		{Addr: lines[1], Size: 4},
		{Write: true, Addr: lines[1] + 8, Size: 4, Data: []byte{1, 2, 3, 4}},
		{Addr: lines[0], Size: simx.LineSize},
	}
	asms := []asm{{nil, false}, {nil, true}}
	chains := []simx.ChainCfg{
		{Stages: []string{"wb"}, Memory: "ideal", NumMem: 1, PortBuf: 4, Lat: 1, MSHR: 2, Eager: true},
		{Stages: []string{"rob", "wt-through"}, Memory: "banked2", NumMem: 1, PortBuf: 2, Lat: 1, MSHR: 2, Eager: true},
		{Stages: []string{}, Memory: "dram-DDR4-open", NumMem: 1, PortBuf: 4, Lat: 1, MSHR: 1, Eager: true},
	}
	if c.Thorough() {
		chains = append(chains,
			simx.ChainCfg{Stages: []string{"wt-around"}, Memory: "ideal", NumMem: 1, PortBuf: 1, Lat: 0, MSHR: 1, Eager: false},
			simx.ChainCfg{Stages: []string{"wt-evict", "wb"}, Memory: "banked1", NumMem: 2, PortBuf: 2, Lat: 2, MSHR: 1, Eager: true},
			simx.ChainCfg{Stages: []string{"wb"}, Memory: "dram-HBM2", NumMem: 1, PortBuf: 4, Lat: 1, MSHR: 2, Eager: true})
	}
	for i := range chains {
		asms = append(asms, asm{&chains[i], false})
	}
	stride, maxCuts := lib.Pick(c, 5, 1), lib.Pick(c, 60, 400)
	for _, a := range asms {
		for cut := 0; cut < maxCuts; cut += stride {
			cs := c07Case{Part: "a", Chain: a.chain, Full: a.full, Cut: cut}
			if a.chain != nil {
				cs.Ops = ops
			}
			if !yield(cs) {
				return
			}
		}
	}
	// (b) mismatch matrix
	if !yield(c07Case{Part: "b"}) {
		return
	}
	for _, m := range c07Mutations() {
		if !yield(c07Case{Part: "b", Mut: m}) {
			return
		}
	}
	// (c) malformed archives
	base := c07GetBase(false)
	y := func(f c07Fault) bool { return yield(c07Case{Part: "c", Fault: &f}) }
	for _, v := range c07CraftedVariants {
		if !y(c07Fault{Level: "crafted", Variant: v}) {
			return
		}
	}
	for _, e := range base.entries {
		if e.Name == "build_id" {
			continue
		}
		name, _ := url.PathUnescape(strings.TrimPrefix(e.Name, "entities/"))
		if !y(c07Fault{Level: "crafted", Entity: name, Variant: "null:" + name}) || !y(c07Fault{Level: "crafted", Entity: name, Variant: "empty:" + name}) {
			return
		}
	}
	for i := range base.entries {
		for _, v := range []string{"identity", "drop", "duplicate", "rename-bad-escape", "rename-non-entity", "rename-other", "retype-dir", "retype-symlink"} {
			if v == "identity" && i > 0 {
				continue
			}
			if !y(c07Fault{Level: "entry", Pos: i, Variant: v}) {
				return
			}
		}
	}
	for n := 0; n < len(base.data); n++ {
		if !y(c07Fault{Level: "stream-trunc", Pos: n}) {
			return
		}
	}
	for _, ent := range append(append([]string{}, c07PayloadEntities...), "Mem.Storage") {
		p := base.payload(ent)
		for n := 0; n < len(p); n++ {
			if ent == "Mem.Storage" && n > 48 && n%61 != 0 {
				continue // binary payload: every point of the header and first unit address, then a stride
			}
			if !y(c07Fault{Level: "payload-trunc", Entity: ent, Pos: n}) {
				return
			}
		}
	}
	for _, ent := range c07PayloadEntities {
		p := base.payload(ent)
		for n := 0; n < len(p); n++ {
			for v := range c07SubMasks {
				if !y(c07Fault{Level: "payload-sub", Entity: ent, Pos: n, Val: v}) {
					return
				}
			}
		}
	}
	if len(base.data) <= 2048 || c.Thorough() {
		for n := 0; n < len(base.data); n++ {
			for v := range c07SubMasks {
				if !y(c07Fault{Level: "stream-sub", Pos: n, Val: v}) {
					return
				}
			}
		}
	} else {
		c.Note("compressed base archive is %d bytes (> 2 KiB): byte substitutions of the compressed stream only in the thorough tier", len(base.data))
	}
	if c.Shard == 0 {
		c.Add("base_archive_bytes", int64(len(base.data)))
		c.Add("base_archive_entries", int64(len(base.entries)))
	}
}

func init() {
	lib.Register(&lib.Check{
		ID:    "C07",
		Level: "fault_enumeration",
		Rule: "(a) save -> load into the identical rebuild -> save again must give a byte-identical archive, at every 5th (quick) / every (thorough) distinct event time of the C07 assembly (small: driver + ideal memory + connection; full: + TLB, MMU, page tables, extra storage) and of 3 (quick) / 6 (thorough) memory chains of the C06 catalogue inside a real Simulation. " +
			"(b) the archive of the full assembly is loaded into every single-point mutation of the rebuilt configuration: by reflection every numeric Spec field +1/-1, every string changed, every bool flipped of every component; every port capacity +1/-1; storage capacity and unit +1/-1; page-table page size; build ID; entities removed / added / renamed. A mutation the builder overrides (effective Spec unchanged) must load and re-save identically; every other must return an error; never a panic. " +
			"(c) from the archive of the small assembly: every truncation point and every single-byte substitution (xor 0x01, 0x80, 0xFF) of the compressed stream; every tar entry dropped / duplicated / renamed (bad escape, non-entity path, other name) / retyped (dir, symlink); every truncation point and byte substitution of the decoded payloads of the engine, the ID generator, a port holding a message and a component (plus truncations of the storage payload), re-packed into a valid tar.gz; hand-crafted payloads (over-full port, unknown handler / message type / event type, event before engine time, storage unit counts 2^40, 2^63, 2^64-1, negative / out-of-range numbers, null and empty payloads of every entity). Each is loaded into a fresh rebuild inside a child process with a 6 GiB address-space limit. " +
			"Oracle: never a panic, never a killed or hung process; an error whenever a strict reference reader (gzip member read to its end; payload judged against the original payload: invalid JSON, trailing bytes, a member name the original does not have, a changed spec hash / capacity / generator kind, an unregistered type, an unknown handler) says the archive is not a well-formed checkpoint of the rebuild; an archive that loads must re-save, byte-identically when its logical content equals the original. Each (part, assembly/cut | mutation | fault) is a distinct case.",
		Sharded:     true,
		MinOutcomes: 20,
		Assumptions: []string{
			"simulations are built with the no-op data recorder (verif hook VerifBuildWithRecorder) and tracing off",
			"well-formedness of a faulted JSON payload is judged conservatively and without mirrors of akita's DTOs (the member names of the original payload are the schema): invalid JSON, trailing bytes, a renamed member, a different spec hash / capacity / generator kind, an unregistered message or event type, an unknown handler => an error is demanded; every other still-parseable variant (changed digit or string, duplicate member, different length) only must not panic and must re-save",
			"a builder that panics on a mutated Spec makes that mutation unbuildable; it is counted as an outcome, not a violation",
			"event-driven components are not part of the assemblies (no library component uses them)",
		},
		Run: func(c *lib.Ctx) {
			lib.Cases(c, func(y func(c07Case) bool) { c07Enum(c, y) }, c07Run)
			c07Stop()
			lib.CleanScratch()
		},
		Replay: func(c *lib.Ctx, raw json.RawMessage) []lib.Problem {
			defer c07Stop()
			defer lib.CleanScratch()
			return lib.ReplayCases(c07Run)(c, raw)
		},
	})
}

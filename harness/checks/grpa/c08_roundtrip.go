package grpa

import (
	"bytes"
	"fmt"
	"io"
	"os"
	"reflect"
	"sort"
	"strings"

	"github.com/sarchlab/akita/v5/mem/datamoverprotocol"
	"github.com/sarchlab/akita/v5/mem/memcontrolprotocol"
	"github.com/sarchlab/akita/v5/mem/memprotocol"
	"github.com/sarchlab/akita/v5/mem/vm/vmprotocol"
	"github.com/sarchlab/akita/v5/messaging"
	"github.com/sarchlab/akita/v5/modeling"
	"github.com/sarchlab/akita/v5/noc/acceptance"
	"github.com/sarchlab/akita/v5/noc/packetization"
	"github.com/sarchlab/akita/v5/timing"

	"verif/harness/lib"
)

// C08: runtime values survive the checkpoint encoding unchanged.
//   port   : a message value -> Deliver/Send into a real port -> SaveCheckpoint
//            -> LoadCheckpoint into a fresh identical port -> Retrieve
//   engine : an event value -> Schedule -> SaveCheckpoint -> LoadCheckpoint
//            into a fresh engine -> Run dispatches it to a handler
//   state  : a component State value -> component SaveCheckpoint ->
//            LoadCheckpoint into a fresh build -> State and SaveCheckpoint bytes

type c08Case struct {
	Seam  string    `json:"seam"` // port | engine | state
	Type  string    `json:"type"` // message/event type tag, or component name
	Picks []latPick `json:"picks,omitempty"`
}

type checkpointable interface {
	SaveCheckpoint(w io.Writer) error
	LoadCheckpoint(r io.Reader) error
}

var c08Protocols = []*messaging.Protocol{
	memprotocol.Protocol, memcontrolprotocol.Protocol, vmprotocol.Protocol,
	datamoverprotocol.Protocol, packetization.Protocol, acceptance.Protocol,
}

func c08MsgTypes() []reflect.Type {
	var ts []reflect.Type
	seen := map[reflect.Type]bool{}
	for _, p := range c08Protocols {
		for _, m := range p.Messages() {
			if t := reflect.TypeOf(m); !seen[t] {
				seen[t] = true
				ts = append(ts, t)
			}
		}
	}
	return ts
}

// c08EventTypes are the event types the library registers with
// timing.RegisterEvent (timing/eventcodec.go, modeling/eventcodec.go).
func c08EventTypes() []reflect.Type {
	return []reflect.Type{
		reflect.TypeOf(timing.EventBase{}),
		reflect.TypeOf(modeling.TickEvent{}),
		reflect.TypeOf(modeling.TimerFiredEvent{}),
	}
}

func c08TypeByTag(ts []reflect.Type, tag string) reflect.Type {
	for _, t := range ts {
		if shortType(t) == tag {
			return t
		}
	}
	return nil
}

type c08Result struct {
	probs   []lib.Problem
	classes map[string]bool
}

func (r *c08Result) bad(class, seam, where, format string, a ...any) {
	r.probs = append(r.probs, lib.Problem{
		Key:  fmt.Sprintf("%s:%s:%s", class, seam, where),
		What: fmt.Sprintf(format, a...),
	})
	if r.classes == nil {
		r.classes = map[string]bool{}
	}
	r.classes[class] = true
}

// compare reports the differences between an original and a restored value.
func (r *c08Result) compare(seam, pkg string, want, got any, cs c08Case) {
	wv, gv := reflect.ValueOf(want), reflect.ValueOf(got)
	if !gv.IsValid() {
		r.bad("value-lost", seam, pkg+"."+wv.Type().Name(), "%s: nothing came back for %+v", c08Describe(cs), want)
		return
	}
	if wv.Type() != gv.Type() {
		r.bad("type-changed", seam, pkg+"."+wv.Type().Name(), "%s: concrete type %s came back as %s", c08Describe(cs), wv.Type(), gv.Type())
		return
	}
	diffs := deepDiff(wv, gv, wv.Type().Name())
	for _, d := range diffs {
		if d.Class == "excluded-field" {
			// keyed by the declaring type so the same json:"-" field is one
			// finding wherever the value is embedded
			r.probs = append(r.probs, lib.Problem{Key: "excluded-field:" + d.Path,
				What: fmt.Sprintf("%s: field %s carries json:\"-\" and is dropped: %s", c08Describe(cs), d.Path, d.Detail)})
			if r.classes == nil {
				r.classes = map[string]bool{}
			}
			r.classes[d.Class] = true
			continue
		}
		r.bad(d.Class, seam, pkg+"."+d.Path, "%s: %s: %s", c08Describe(cs), d.Path, d.Detail)
	}
	if eq := reflect.DeepEqual(want, got); eq != (len(diffs) == 0) {
		r.bad("value-changed", seam, pkg+"."+wv.Type().Name(), "%s: reflect.DeepEqual=%v but the structural comparison found %d differences (%+v vs %+v)", c08Describe(cs), eq, len(diffs), want, got)
	}
}

func c08Describe(cs c08Case) string {
	var sb strings.Builder
	fmt.Fprintf(&sb, "%s %s", cs.Seam, cs.Type)
	if len(cs.Picks) == 0 {
		sb.WriteString(" (base value)")
	}
	for _, p := range cs.Picks {
		fmt.Fprintf(&sb, " [%s := %s]", p.Where, p.Move)
	}
	return sb.String()
}

func pkgOf(t reflect.Type) string {
	return strings.TrimPrefix(t.PkgPath(), "github.com/sarchlab/akita/v5/")
}

// ---------------------------------------------------------------------------
// port seam

const c08PortName = "Owner.Port"

func c08NewPort() (messaging.Port, checkpointable) {
	comp := &c11Comp{PortOwnerBase: messaging.NewPortOwnerBase()}
	conn := &c11Conn{}
	port := messaging.NewPort(comp, 2, 2, c08PortName)
	port.SetConnection(conn)
	comp.port, conn.port = port, port
	cp, _ := port.(checkpointable)
	return port, cp
}

func c08RunPort(cs c08Case) (string, []lib.Problem) {
	res := &c08Result{}
	types := c08MsgTypes()
	t := c08TypeByTag(types, cs.Type)
	if t == nil {
		return "bad-case", []lib.Problem{{Key: "c08:bad-case", What: "unknown message type " + cs.Type}}
	}
	v := reflect.New(t).Elem()
	leaves := latCollect(v, nil)
	if err := latApply(v, leaves, cs.Picks); err != nil {
		return "bad-case", []lib.Problem{{Key: "c08:bad-case", What: err.Error()}}
	}
	// a second, fixed message of another type behind it in the incoming buffer
	var other reflect.Value
	for i, x := range types {
		if x == t {
			other = reflect.New(types[(i+1)%len(types)]).Elem()
		}
	}
	other.FieldByName("MsgMeta").FieldByName("ID").SetUint(7)
	// the outgoing copy must satisfy Send's preconditions
	outv := reflect.New(t).Elem()
	outv.Set(v)
	meta := outv.FieldByName("MsgMeta")
	meta.FieldByName("Src").SetString(c08PortName)
	if d := meta.FieldByName("Dst").String(); d == "" || d == c08PortName {
		meta.FieldByName("Dst").SetString("Other.Port")
	}
	in1, in2, out1 := v.Interface().(messaging.Msg), other.Interface().(messaging.Msg), outv.Interface().(messaging.Msg)

	pkg := pkgOf(t)
	where := pkg + "." + t.Name()
	a, acp := c08NewPort()
	b, bcp := c08NewPort()
	if acp == nil || bcp == nil {
		res.bad("no-checkpoint-support", "port", "messaging.Port", "the port built by messaging.NewPort offers no SaveCheckpoint/LoadCheckpoint")
		return "no-support", res.probs
	}
	if msg := lib.Catch(func() { a.Deliver(in1); a.Deliver(in2); a.Send(out1) }); msg != "" {
		res.bad("deliver-panic", "port", where, "%s: placing the messages into the port panicked: %s", c08Describe(cs), msg)
		return "panic", res.probs
	}
	var buf bytes.Buffer
	var err error
	if msg := lib.Catch(func() { err = acp.SaveCheckpoint(&buf) }); msg != "" || err != nil {
		res.bad("save-failed", "port", where, "%s: port SaveCheckpoint: %v %s", c08Describe(cs), err, msg)
		return "save-failed", res.probs
	}
	if msg := lib.Catch(func() { err = bcp.LoadCheckpoint(&buf) }); msg != "" || err != nil {
		res.bad("load-failed", "port", where, "%s: port LoadCheckpoint of the checkpoint just saved: %v %s", c08Describe(cs), err, msg)
		return "load-failed", res.probs
	}
	if b.NumIncoming() != 2 || b.NumOutgoing() != 1 {
		res.bad("value-lost", "port", where, "%s: restored port holds %d incoming / %d outgoing messages, want 2 / 1", c08Describe(cs), b.NumIncoming(), b.NumOutgoing())
		return "lost", res.probs
	}
	res.compare("port", pkg, in1, b.RetrieveIncoming(), cs)
	res.compare("port", pkgOf(other.Type()), in2, b.RetrieveIncoming(), cs)
	res.compare("port", pkg, out1, b.RetrieveOutgoing(), cs)
	return c08Outcome(cs, leaves, res), res.probs
}

// ---------------------------------------------------------------------------
// engine seam

type c08Handler struct{ got *[]timing.Event }

func (h c08Handler) Handle(e timing.Event) error {
	*h.got = append(*h.got, e)
	return nil
}

func c08HandlerNames() []string {
	names := []string{""}
	for _, b := range latBoundary(reflect.TypeOf(""), 0) {
		names = append(names, b.String())
	}
	return names
}

func c08RunEngine(cs c08Case) (string, []lib.Problem) {
	res := &c08Result{}
	t := c08TypeByTag(c08EventTypes(), cs.Type)
	if t == nil {
		return "bad-case", []lib.Problem{{Key: "c08:bad-case", What: "unknown event type " + cs.Type}}
	}
	v := reflect.New(t).Elem()
	leaves := latCollect(v, nil)
	if err := latApply(v, leaves, cs.Picks); err != nil {
		return "bad-case", []lib.Problem{{Key: "c08:bad-case", What: err.Error()}}
	}
	evt := v.Interface().(timing.Event)
	pkg := pkgOf(t)
	where := pkg + "." + t.Name()

	var got []timing.Event
	a, b := timing.NewSerialEngine(), timing.NewSerialEngine()
	for _, n := range c08HandlerNames() {
		a.RegisterHandler(n, c08Handler{&got})
		b.RegisterHandler(n, c08Handler{&got})
	}
	if msg := lib.Catch(func() { a.Schedule(evt) }); msg != "" {
		res.bad("schedule-panic", "engine", where, "%s: Schedule panicked: %s", c08Describe(cs), msg)
		return "panic", res.probs
	}
	var buf bytes.Buffer
	var err error
	if msg := lib.Catch(func() { err = a.SaveCheckpoint(&buf) }); msg != "" || err != nil {
		res.bad("save-failed", "engine", where, "%s: engine SaveCheckpoint: %v %s", c08Describe(cs), err, msg)
		return "save-failed", res.probs
	}
	if msg := lib.Catch(func() { err = b.LoadCheckpoint(&buf) }); msg != "" || err != nil {
		res.bad("load-failed", "engine", where, "%s: engine LoadCheckpoint of the checkpoint just saved: %v %s", c08Describe(cs), err, msg)
		return "load-failed", res.probs
	}
	if msg := lib.Catch(func() { err = b.Run() }); msg != "" || err != nil {
		res.bad("run-failed", "engine", where, "%s: Run of the restored engine: %v %s", c08Describe(cs), err, msg)
		return "run-failed", res.probs
	}
	if len(got) != 1 {
		res.bad("value-lost", "engine", where, "%s: the restored engine dispatched %d events, want 1", c08Describe(cs), len(got))
		return "lost", res.probs
	}
	res.compare("engine", pkg, evt, got[0], cs)
	return c08Outcome(cs, leaves, res), res.probs
}

// ---------------------------------------------------------------------------
// component State seam

func c08RunState(cs c08Case) (string, []lib.Problem) {
	res := &c08Result{}
	def := agentByName(cs.Type)
	if def == nil {
		return "bad-case", []lib.Problem{{Key: "c08:bad-case", What: "unknown component " + cs.Type}}
	}
	timing.ResetIDGenerator()
	var a, b *agentInst
	if msg := lib.Catch(func() { a, b = def.Build(), def.Build() }); msg != "" {
		return "bad-case", []lib.Problem{{Key: "c08:build-panic:" + cs.Type, What: "building " + cs.Type + " panicked: " + msg}}
	}
	st := a.State()
	leaves := latCollect(st, nil)
	pkg := pkgOf(st.Type())
	where := pkg + "." + st.Type().Name()
	var aerr error
	if msg := lib.Catch(func() { aerr = latApply(st, leaves, cs.Picks) }); msg != "" {
		return "bad-case", []lib.Problem{{Key: "c08:move-panic:" + cs.Type, What: c08Describe(cs) + ": applying the moves panicked: " + msg}}
	}
	if aerr != nil {
		return "bad-case", []lib.Problem{{Key: "c08:bad-case", What: aerr.Error()}}
	}
	var buf bytes.Buffer
	var err error
	if msg := lib.Catch(func() { err = a.Comp.SaveCheckpoint(&buf) }); msg != "" || err != nil {
		res.bad("save-failed", "state", where, "%s: component SaveCheckpoint: %v %s", c08Describe(cs), err, msg)
		return "save-failed", res.probs
	}
	saved := append([]byte(nil), buf.Bytes()...)
	if msg := lib.Catch(func() { err = b.Comp.LoadCheckpoint(&buf) }); msg != "" || err != nil {
		res.bad("load-failed", "state", where, "%s: component LoadCheckpoint of the checkpoint just saved into a fresh build: %v %s", c08Describe(cs), err, msg)
		return "load-failed", res.probs
	}
	res.compare("state", pkg, a.State().Interface(), b.State().Interface(), cs)
	var buf2 bytes.Buffer
	if msg := lib.Catch(func() { err = b.Comp.SaveCheckpoint(&buf2) }); msg != "" || err != nil {
		res.bad("save-failed", "state", where, "%s: SaveCheckpoint of the restored component: %v %s", c08Describe(cs), err, msg)
	} else if !bytes.Equal(saved, buf2.Bytes()) && len(res.probs) == 0 {
		res.bad("resave-differs", "state", where, "%s: the restored component saves different bytes although its State compares equal:\n first: %.300s\nsecond: %.300s", c08Describe(cs), saved, buf2.Bytes())
	}
	return c08Outcome(cs, leaves, res), res.probs
}

// ---------------------------------------------------------------------------

func c08Outcome(cs c08Case, leaves []latLeaf, res *c08Result) string {
	var paths []string
	for _, p := range cs.Picks {
		for _, l := range leaves {
			if l.Where == p.Where {
				paths = append(paths, l.Path)
			}
		}
	}
	result := "equal"
	if len(res.classes) > 0 {
		var cl []string
		for c := range res.classes {
			cl = append(cl, c)
		}
		sort.Strings(cl)
		result = strings.Join(cl, "+")
	}
	return fmt.Sprintf("%s %s %v %s", cs.Seam, cs.Type, paths, result)
}

func c08Run(cs c08Case) (string, []lib.Problem) {
	switch cs.Seam {
	case "port":
		return c08RunPort(cs)
	case "engine":
		return c08RunEngine(cs)
	case "state":
		return c08RunState(cs)
	}
	return "bad-case", []lib.Problem{{Key: "c08:bad-case", What: "unknown seam " + cs.Seam}}
}

func c08Enum(c *lib.Ctx, yield0 func(c08Case) bool) {
	unsupported := map[string]bool{}
	dry := os.Getenv("VERIF_C08_DRY") != "" // dev knob: only count the cases
	yield := func(cs c08Case) bool {
		if c.Shard == 0 {
			c.Add("cases_"+cs.Seam+"_"+cs.Type, 1)
		}
		if dry {
			return true
		}
		return yield0(cs)
	}
	for _, t := range c08MsgTypes() {
		v := reflect.New(t).Elem()
		leaves := latCollect(v, unsupported)
		if !latEnum(leaves, 2, func(p []latPick) bool {
			return yield(c08Case{Seam: "port", Type: shortType(t), Picks: p})
		}) {
			return
		}
	}
	for _, t := range c08EventTypes() {
		v := reflect.New(t).Elem()
		leaves := latCollect(v, unsupported)
		if !latEnum(leaves, 2, func(p []latPick) bool {
			return yield(c08Case{Seam: "engine", Type: shortType(t), Picks: p})
		}) {
			return
		}
	}
	for _, def := range agentDefs {
		var inst *agentInst
		if msg := lib.Catch(func() { inst = def.Build() }); msg != "" {
			c.InternalError("cannot build %s standalone: %s", def.Name, msg)
			continue
		}
		u := map[string]bool{}
		leaves := latCollect(inst.State(), u)
		for k := range u {
			unsupported[def.Name+": "+k] = true
		}
		if c.Shard == 0 {
			c.Add("state_leaves_"+def.Name, int64(len(leaves)))
		}
		if !latEnum(leaves, lib.Pick(c, 1, 2), func(p []latPick) bool {
			return yield(c08Case{Seam: "state", Type: def.Name, Picks: p})
		}) {
			return
		}
	}
	if c.Shard == 0 {
		var us []string
		for k := range unsupported {
			us = append(us, k)
		}
		sort.Strings(us)
		for _, k := range us {
			c.Note("location not moved by the lattice: %s", k)
		}
	}
}

func init() {
	lib.Register(&lib.Check{
		ID:    "C08",
		Level: "exploration",
		Rule: "(i) every message type of Protocol.Messages() of the mem, mem.control, vm, datamover, packetization and noc.acceptance protocols and the three event types registered with timing.RegisterEvent, each over a reflection-built lattice: the zero value with every single exported location and every pair of independent locations moved through its boundary set " +
			"(ints {1,-1,min,max}, uints {1,max,2^53+1}, strings {a, quote/backslash, multi-byte, NUL, <&>}, slices {empty,[zero],[rich],[alt,zero]}, bools, any {\"x\"}); messages go Deliver/Send -> port SaveCheckpoint -> LoadCheckpoint into a fresh identical port -> Retrieve (with a second message of another type behind them), events go Schedule -> engine SaveCheckpoint -> LoadCheckpoint into a fresh engine -> Run -> handler. " +
			"(ii) every library component built standalone (12 memory agents, switch, endpoint, memaccessagent): its freshly built State with every single location moved (thorough: every pair), locations found by walking the State value (first/last element of populated slices; Buffers, Pipelines and LRU sets are driven through their own methods), component SaveCheckpoint -> LoadCheckpoint into a fresh build -> State compared, SaveCheckpoint bytes compared. " +
			"Oracle: same concrete type and reflect.DeepEqual; differences are located by a structural walk and keyed by class (nil-vs-empty / value-changed / type-changed / excluded-field for json:\"-\" fields) and type-level path. Each (seam, type, set of moves) is a distinct case.",
		Sharded:     true,
		MinOutcomes: 100,
		Assumptions: []string{
			"strings are valid UTF-8 (encoding/json replaces invalid bytes) and floats are finite (JSON has no NaN/Inf)",
			"the event types are the three registered in timing/eventcodec.go and modeling/eventcodec.go; the registry offers no enumeration outside tests",
			"outgoing messages carry Src = the port and a non-empty Dst, as Send demands; all other locations of the outgoing copy follow the lattice",
			"State values are reached by reflection pokes on a fresh standalone build, not by workloads (states harvested from runs are the business of C06)",
			"locations of interface types with methods, funcs and channels are not moved (listed in the evidence notes)",
		},
		Run: func(c *lib.Ctx) {
			lib.Cases(c, func(yield func(c08Case) bool) { c08Enum(c, yield) }, c08Run)
		},
		Replay: lib.ReplayCases(c08Run),
	})
}

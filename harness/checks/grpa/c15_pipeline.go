package grpa

import (
	"encoding/json"
	"fmt"
	"sort"
	"strings"

	"github.com/sarchlab/akita/v5/queueing"

	"verif/harness/lib"
)

// C15: queueing.Pipeline conserves items, respects lanes, is FIFO when one
// lane wide, has latency stages+delay under an always-free sink and never
// strands an item.

type c15Op struct {
	W  int    `json:"w,omitempty"` // only on the first op: width (lanes)
	S  int    `json:"s,omitempty"` // only on the first op: number of stages
	Op string `json:"op"`          // cfg | accept | acceptd | tick | tick1 | stall | json
	D  int    `json:"d,omitempty"` // acceptd: the dwell delay
}

const c15MaxDelay = 2

// c15Sink is the sink stub. room < 0: always room; otherwise the number of
// items it still takes during the current tick. Like queueing.Buffer it
// panics when pushed into without room.
type c15Sink struct {
	room int
	got  []int
}

func (s *c15Sink) CanPush() bool { return s.room != 0 }
func (s *c15Sink) PushTyped(v int) {
	if s.room == 0 {
		panic("sink overflow: PushTyped without room")
	}
	if s.room > 0 {
		s.room--
	}
	s.got = append(s.got, v)
}

// c15Item is what the reference ledger knows about an accepted item.
type c15Item struct {
	acceptTick int // number of ticks that had happened when it was accepted
	delay      int
	left       bool
}

func c15Ops(w int) []c15Op {
	ops := []c15Op{{Op: "accept"}, {Op: "tick"}, {Op: "stall"}}
	if w > 1 {
		ops = append(ops, c15Op{Op: "tick1"}) // sink takes exactly one item this tick
	}
	for d := 1; d <= c15MaxDelay; d++ {
		ops = append(ops, c15Op{Op: "acceptd", D: d})
	}
	ops = append(ops, c15Op{Op: "acceptd", D: 0}, c15Op{Op: "json"}, c15Op{Op: "json", D: 1})
	return ops
}

func c15Exec(hist []c15Op, outcome func(string)) (string, bool, []lib.Problem) {
	if len(hist) == 0 {
		return "init", false, nil
	}
	W, S := hist[0].W, hist[0].S
	pl := queueing.NewPipeline[int](W, S)
	p := &pl
	sink := &c15Sink{}

	// reference ledger
	items := map[int]*c15Item{}
	nextID := 1
	ticks := 0
	alwaysRoom := true // every tick so far found a sink with unlimited room

	var probs []lib.Problem
	curOp := "cfg"
	itemClass := func(it *c15Item) string {
		c := "multi-stage"
		if S == 1 {
			c = "one-stage"
		}
		if it != nil && it.delay > 0 {
			return c + "-delayed"
		}
		return c + "-delay0"
	}
	bad := func(clause, class, format string, a ...any) {
		probs = append(probs, lib.Problem{
			Key:  fmt.Sprintf("pipeline:%s:%s", clause, class),
			What: fmt.Sprintf("width=%d stages=%d after %d ticks (%s): ", W, S, ticks, curOp) + fmt.Sprintf(format, a...),
		})
	}
	inFlight := func() []int {
		var ids []int
		for id, it := range items {
			if !it.left {
				ids = append(ids, id)
			}
		}
		sort.Ints(ids)
		return ids
	}
	// snapshot checks conservation and lane exclusivity on Stages().
	snapshot := func() []queueing.PipelineStage[int] {
		st := p.Stages()
		seenSlot := map[[2]int]int{}
		seenItem := map[int]int{}
		for _, r := range st {
			slot := [2]int{r.Lane, r.Stage}
			if other, dup := seenSlot[slot]; dup {
				bad("shared-lane-stage", "after-"+curOp, "items %d and %d both occupy lane %d of stage %d: %+v", other, r.Item, r.Lane, r.Stage, st)
			}
			seenSlot[slot] = r.Item
			seenItem[r.Item]++
		}
		for _, id := range inFlight() {
			switch n := seenItem[id]; {
			case n == 0:
				bad("item-lost", itemClass(items[id]), "item %d (accepted at tick %d, delay %d) neither left nor is in Stages() %+v", id, items[id].acceptTick, items[id].delay, st)
			case n > 1:
				bad("item-duplicated", itemClass(items[id]), "item %d occurs %d times in Stages() %+v", id, n, st)
			}
			delete(seenItem, id)
		}
		for id := range seenItem {
			bad("item-reappeared", itemClass(items[id]), "item %d is in Stages() although it already left (or was never accepted): %+v", id, st)
		}
		return st
	}
	tick := func(room int) (emitted int) {
		sink.room = room
		sink.got = sink.got[:0]
		if room >= 0 {
			alwaysRoom = false
		}
		oldest := inFlight()
		if msg := lib.Catch(func() { p.Tick(sink) }); msg != "" {
			bad("tick-panic", "after-"+curOp, "Tick panicked: %s", msg)
			return 0
		}
		ticks++
		for k, id := range sink.got {
			it := items[id]
			if it == nil || it.left {
				bad("left-twice", itemClass(it), "item %d was pushed into the sink although it is not in flight", id)
				continue
			}
			it.left = true
			if W == 1 && (k >= len(oldest) || oldest[k] != id) {
				bad("fifo", itemClass(it), "one-lane pipeline emitted item %d while older item(s) %v were still inside", id, oldest)
			}
			if alwaysRoom && ticks-it.acceptTick != S+it.delay {
				bad("latency", itemClass(it), "sink always had room, item %d (delay %d) left %d ticks after acceptance, want stages+delay=%d", id, it.delay, ticks-it.acceptTick, S+it.delay)
			}
		}
		if alwaysRoom {
			for _, id := range inFlight() {
				it := items[id]
				if ticks-it.acceptTick >= S+it.delay {
					bad("latency", itemClass(it), "sink always had room, item %d (delay %d) is still inside %d ticks after acceptance, want stages+delay=%d", id, it.delay, ticks-it.acceptTick, S+it.delay)
				}
			}
		}
		return len(sink.got)
	}

	for i, op := range hist {
		curOp = op.Op
		class := op.Op
		switch op.Op {
		case "cfg":
		case "accept", "acceptd":
			// the accept pattern is bounded by free lanes: enabled only while
			// the pipeline says so and stage 0 visibly has a free lane
			occupied := 0
			for _, r := range p.Stages() {
				if r.Stage == 0 {
					occupied++
				}
			}
			if !p.CanAccept() || occupied >= W {
				if outcome != nil && i == len(hist)-1 {
					outcome(fmt.Sprintf("%s-disabled w%d s%d", op.Op, W, S))
				}
				return "disabled", true, nil
			}
			id := nextID
			nextID++
			items[id] = &c15Item{acceptTick: ticks, delay: op.D}
			var msg string
			if op.Op == "accept" {
				msg = lib.Catch(func() { p.Accept(id) })
			} else {
				msg = lib.Catch(func() { p.AcceptWithDelay(id, op.D) })
				class = fmt.Sprintf("acceptd%d", op.D)
			}
			if msg != "" {
				bad("accept-panic", "after-"+curOp, "accepting with a free lane panicked: %s", msg)
			}
		case "fill":
			// scale family: accept until the pipeline refuses or stage 0 is
			// visibly full, with dwell delays 0,1,2,0,1,2,...
			for n := 0; n <= W; n++ {
				occupied := 0
				for _, r := range p.Stages() {
					if r.Stage == 0 {
						occupied++
					}
				}
				if !p.CanAccept() || occupied >= W {
					break
				}
				id := nextID
				nextID++
				d := id % (c15MaxDelay + 1)
				items[id] = &c15Item{acceptTick: ticks, delay: d}
				if msg := lib.Catch(func() { p.AcceptWithDelay(id, d) }); msg != "" {
					bad("accept-panic", "after-"+curOp, "accepting with a free lane panicked: %s", msg)
				}
			}
		case "tick":
			class = fmt.Sprintf("tick-emit%d", tick(-1))
		case "tick1":
			class = fmt.Sprintf("tick1-emit%d", tick(1))
		case "stall":
			class = fmt.Sprintf("stall-emit%d", tick(0))
		case "json":
			data, err := json.Marshal(p)
			if err != nil {
				bad("json-marshal", "after-json", "%v", err)
				break
			}
			np := new(queueing.Pipeline[int])
			if op.D == 1 {
				// decode into a pipeline that has been used (and still holds
				// items of its own) instead of a fresh one
				used := queueing.NewPipeline[int](W+1, S+1)
				for k := 0; k < W+1; k++ {
					used.AcceptWithDelay(9000+k, k%2)
				}
				used.Tick(&c15Sink{room: -1})
				np = &used
			}
			if err := json.Unmarshal(data, np); err != nil {
				bad("json-unmarshal", "after-json", "%v", err)
				break
			}
			p = np
		default:
			return "", true, []lib.Problem{{Key: "pipeline:bad-op", What: "unknown op " + op.Op}}
		}
		if len(probs) == 0 {
			snapshot()
		}
		if len(probs) > 0 {
			return "", true, probs
		}
		if outcome != nil && i == len(hist)-1 {
			outcome(fmt.Sprintf("%s w%d s%d inflight%d room%v", class, W, S, len(inFlight()), alwaysRoom))
		}
	}

	// canonical state key, taken before the drain phase: the occupancy records
	// in slice order with items renamed by acceptance rank, plus what the
	// latency oracle still needs while the sink has always had room.
	st := p.Stages()
	rank := map[int]int{}
	for k, id := range inFlight() {
		rank[id] = k
	}
	var sb strings.Builder
	fmt.Fprintf(&sb, "w%d s%d room%v", W, S, alwaysRoom)
	for _, r := range st {
		fmt.Fprintf(&sb, " [l%d s%d c%d #%d", r.Lane, r.Stage, r.CycleLeft, rank[r.Item])
		if it := items[r.Item]; alwaysRoom && it != nil {
			fmt.Fprintf(&sb, " age%d d%d", ticks-it.acceptTick, it.delay)
		}
		sb.WriteString("]")
	}
	key := sb.String()

	// drain phase: the sink has room on every tick
	curOp = "drain"
	drainTicks := S + c15MaxDelay + len(hist) + 2
	for k := 0; k < drainTicks && len(probs) == 0; k++ {
		tick(-1)
		if len(probs) == 0 {
			snapshot()
		}
	}
	if len(probs) == 0 {
		for _, id := range inFlight() {
			it := items[id]
			bad("never-leaves", itemClass(it), "item %d (accepted at tick %d with delay %d) is still inside after %d further ticks with a free sink: %+v", id, it.acceptTick, it.delay, drainTicks, p.Stages())
		}
		if n := len(p.Stages()); n != 0 && len(probs) == 0 {
			bad("not-empty-after-drain", "after-drain", "Stages() still holds %d records after the drain phase", n)
		}
	}
	if len(probs) > 0 {
		return "", true, probs
	}
	return key, false, nil
}

func init() {
	lib.Register(&lib.Check{
		ID:    "C15",
		Level: "model_checking",
		Rule: "explicit-state BFS over histories of {Accept, AcceptWithDelay(0|1|2) (both only while a lane is free), Tick(sink has room), Tick(sink takes exactly one item; width>1), Tick(sink full), JSON round trip into a fresh pipeline, JSON round trip into a used pipeline of another shape} on the real queueing.Pipeline[int] for width {1,2,3} x stages {1,2,3}, plus a scale family on (width,stages) in {(16,1),(17,2),(20,8),(33,5),(3,50)} [thorough +(17,1),(40,1),(64,3),(129,1)]: every sequence of 5 rounds {fill every free lane with dwell delays 0,1,2,..; tick kind in {free sink, one item, full sink}} with a JSON round trip after round 2, " +
			"8 (quick) / 12 (thorough) steps, each history followed by a drain phase of stages+2+steps+2 ticks with a free sink. A ledger of accepted items is the reference: after every step Stages() must hold exactly the in-flight items once each with no two sharing (lane, stage); every pushed item must be in flight; " +
			"one-lane pipelines emit oldest-first; while every tick so far had a free sink each item leaves exactly stages+delay ticks after acceptance; after the drain phase everything has left. state = (width, stages, occupancy records in slice order with items ranked by acceptance, ages/delays while the sink was always free)",
		MinOutcomes: 100,
		Assumptions: []string{
			"stage count 0 is excluded: components bypass the pipeline when its depth is 0",
			"items are accepted only while CanAccept() holds and Stages() shows a free lane at stage 0 (the statement bounds the accept pattern by free lanes)",
			"the sink stub panics when pushed into without room, like queueing.Buffer; any panic of Tick is reported",
			"the exact-latency clause is checked in histories in which every tick so far (and the drain phase) had a free sink",
			"the JSON round trip is an operation of the alphabet (DESIGN.md §4 C15): the pipeline is replaced by its decoded copy and must keep satisfying the same clauses",
		},
		Run: func(c *lib.Ctx) {
			lib.BFS(c, lib.BFSConfig[c15Op]{
				Ops: func(hist []c15Op) []c15Op {
					if len(hist) == 0 {
						var first []c15Op
						for s := 1; s <= 3; s++ {
							for w := 1; w <= 3; w++ {
								first = append(first, c15Op{W: w, S: s, Op: "cfg"})
							}
						}
						return first
					}
					return c15Ops(hist[0].W)
				},
				Exec: func(h []c15Op) (string, bool, []lib.Problem) {
					return c15Exec(h, c.Outcome)
				},
				MaxDepth: 1 + lib.Pick(c, 8, 12),
				Workers:  8,
			})
			// scale family: wide and deep pipelines (the implementation has
			// separate paths for more than 16 lanes and more than 128
			// stage-lane slots), every sequence of 5 rounds {fill, tick kind}
			// with a JSON round trip after the second round
			type ws struct{ w, s int }
			if c.Mine(0) {
				c.Add("bfs_plus_cases", 1)
			}
			lib.Cases(c, func(yield func([]c15Op) bool) {
				for _, cfg := range lib.Pick(c, []ws{{16, 1}, {17, 2}, {20, 8}, {33, 5}, {3, 50}}, []ws{{16, 1}, {17, 1}, {17, 2}, {20, 8}, {33, 5}, {3, 50}, {40, 1}, {64, 3}, {129, 1}}) {
					kinds := []string{"tick", "tick1", "stall"}
					idx := make([]int, 5)
					for {
						h := []c15Op{{W: cfg.w, S: cfg.s, Op: "cfg"}}
						for r, k := range idx {
							h = append(h, c15Op{Op: "fill"}, c15Op{Op: kinds[k]})
							if r == 1 {
								h = append(h, c15Op{Op: "json"})
							}
						}
						if !yield(h) {
							return
						}
						q := len(idx) - 1
						for q >= 0 {
							idx[q]++
							if idx[q] < len(kinds) {
								break
							}
							idx[q] = 0
							q--
						}
						if q < 0 {
							break
						}
					}
				}
			}, func(h []c15Op) (string, []lib.Problem) {
				key, _, probs := c15Exec(h, nil)
				if len(probs) > 0 {
					return "violation", probs
				}
				return fmt.Sprintf("scale w%d s%d %d-slots", h[0].W, h[0].S, strings.Count(key, "[")), nil
			})
		},
		Replay: func(c *lib.Ctx, raw json.RawMessage) []lib.Problem {
			var h []c15Op
			if err := json.Unmarshal(raw, &h); err != nil {
				c.InternalError("bad replay: %v", err)
				return nil
			}
			_, _, p := c15Exec(h, nil)
			return p
		},
	})
}

package grpa

import (
	"encoding/json"
	"fmt"
	"sort"
	"strings"

	"github.com/sarchlab/akita/v5/mem/vm/lruset"

	"verif/harness/lib"
)

// C28: lruset.Set against the model of the statement: a key->way map plus a
// recency list of ways (least recent first).

type c28Op struct {
	Ways int    `json:"ways,omitempty"` // only on the first op: number of ways
	Op   string `json:"op"`             // evict | visit | remove | update | json | jsonvalue | lookup
	Way  int    `json:"way,omitempty"`
	Key  string `json:"key,omitempty"` // remove: the key; update: the new key
	Old  string `json:"old,omitempty"` // update: the old key
}

var c28Keys = []string{"a", "b", "c"}

// c28Model is the reference model.
type c28Model struct {
	bind    map[string]int // key -> way last bound to it
	recency []int          // ways still in the recency list, least recent first
}

func (m *c28Model) visit(w int) {
	for i, x := range m.recency {
		if x == w {
			m.recency = append(m.recency[:i:i], m.recency[i+1:]...)
			break
		}
	}
	m.recency = append(m.recency, w)
}

func (m *c28Model) key(ways int) string {
	var sb strings.Builder
	fmt.Fprintf(&sb, "w%d", ways)
	ks := make([]string, 0, len(m.bind))
	for k := range m.bind {
		ks = append(ks, k)
	}
	sort.Strings(ks)
	for _, k := range ks {
		fmt.Fprintf(&sb, " %s=%d", k, m.bind[k])
	}
	fmt.Fprintf(&sb, " lru%v", m.recency)
	return sb.String()
}

func c28Ops(ways int) []c28Op {
	ops := []c28Op{{Op: "evict"}}
	for w := 0; w < ways; w++ {
		ops = append(ops, c28Op{Op: "visit", Way: w})
	}
	for _, k := range c28Keys {
		ops = append(ops, c28Op{Op: "remove", Key: k})
	}
	for w := 0; w < ways; w++ {
		for _, old := range c28Keys {
			for _, nk := range c28Keys {
				ops = append(ops, c28Op{Op: "update", Way: w, Old: old, Key: nk})
			}
		}
	}
	ops = append(ops, c28Op{Op: "json"}, c28Op{Op: "jsonvalue"})
	return ops
}

func c28Exec(hist []c28Op, outcome func(string)) (string, bool, []lib.Problem) {
	if len(hist) == 0 {
		return "init", false, nil
	}
	ways := hist[0].Ways
	set := lruset.NewSet(ways)
	s := &set
	m := &c28Model{bind: map[string]int{}}
	for w := 0; w < ways; w++ {
		m.recency = append(m.recency, w) // all ways start in the list, way 0 least recent
	}

	var probs []lib.Problem
	bad := func(step int, clause, format string, a ...any) {
		probs = append(probs, lib.Problem{
			Key:  fmt.Sprintf("lruset:%s:after-%s", clause, hist[step].Op),
			What: fmt.Sprintf("ways=%d step %d (%+v): ", ways, step, hist[step]) + fmt.Sprintf(format, a...),
		})
	}
	lookups := func(step int, clause string, t *lruset.Set) {
		for _, k := range c28Keys {
			w, ok := t.Lookup(k)
			mw, mok := m.bind[k]
			if ok != mok {
				bad(step, clause+"-found", "Lookup(%q) found=%v, model says %v", k, ok, mok)
			} else if ok && w != mw {
				bad(step, clause+"-way", "Lookup(%q)=way %d, the key was last bound to way %d", k, w, mw)
			}
		}
	}
	// drain evicts everything from t (destructive) and compares the order with
	// the model's recency list.
	drain := func(step int, clause string, t *lruset.Set) {
		var got []int
		for i := 0; i <= ways+1; i++ {
			w, ok := t.Evict()
			if !ok {
				break
			}
			got = append(got, w)
		}
		if fmt.Sprint(got) != fmt.Sprint(m.recency) {
			bad(step, clause, "evicting everything returns ways %v, model recency list (least recent first) is %v", got, m.recency)
		}
	}
	reserialized := false
	clone := func(step int, t *lruset.Set) *lruset.Set {
		data, err := json.Marshal(t)
		if err != nil {
			bad(step, "json-marshal", "%v", err)
			return nil
		}
		// exploration aid, not an oracle: when the copy does not serialize to the
		// same text the implementation's hidden state has changed, so the state
		// reached must not be merged with the one before the round trip
		n := new(lruset.Set)
		defer func() {
			if again, err := json.Marshal(n); err == nil && string(again) != string(data) {
				reserialized = true
			}
		}()
		if step%2 == 1 {
			// every other time: decode into a set that has been used (other
			// size, keys bound, recency changed) instead of a fresh one
			u := lruset.NewSet(5)
			u.UpdateKey(0, "", "stale-a")
			u.UpdateKey(3, "", "stale-b")
			u.Visit(3)
			n = &u
		}
		if err := json.Unmarshal(data, n); err != nil {
			bad(step, "json-unmarshal", "%v", err)
			return nil
		}
		return n
	}

	for i, op := range hist {
		class := op.Op
		var panicked string
		switch op.Op {
		case "lookup":
			// first op only; lookups run after every step anyway
		case "evict":
			var w int
			var ok bool
			panicked = lib.Catch(func() { w, ok = s.Evict() })
			if len(m.recency) == 0 {
				class = "evict-empty"
				if panicked == "" && ok {
					bad(i, "evict-from-empty", "Evict()=(%d,true) although no way is left in the recency list", w)
				}
			} else {
				want := m.recency[0]
				m.recency = m.recency[1:]
				if panicked == "" && !ok {
					bad(i, "evict-refused", "Evict() found nothing, model would evict way %d", want)
				} else if panicked == "" && w != want {
					bad(i, "evict-order", "Evict()=way %d, the least recently visited way in the list is %d", w, want)
				}
			}
		case "visit":
			panicked = lib.Catch(func() { s.Visit(op.Way) })
			m.visit(op.Way)
		case "remove":
			if _, ok := m.bind[op.Key]; !ok {
				class = "remove-absent"
			}
			panicked = lib.Catch(func() { s.Remove(op.Key) })
			delete(m.bind, op.Key)
		case "update":
			switch _, ok := m.bind[op.Old]; {
			case op.Old == op.Key:
				class = "update-samekey"
			case !ok:
				class = "update-oldabsent"
			}
			panicked = lib.Catch(func() { s.UpdateKey(op.Way, op.Old, op.Key) })
			delete(m.bind, op.Old)
			m.bind[op.Key] = op.Way
		case "json":
			var n *lruset.Set
			panicked = lib.Catch(func() { n = clone(i, s) })
			if n != nil {
				s = n
			}
		case "jsonvalue":
			// a Set held by value inside a state struct
			type holder struct {
				LRU lruset.Set `json:"lru"`
			}
			panicked = lib.Catch(func() {
				data, err := json.Marshal(holder{LRU: *s})
				if err != nil {
					bad(i, "json-marshal", "%v", err)
					return
				}
				var h holder
				if err := json.Unmarshal(data, &h); err != nil {
					bad(i, "json-unmarshal", "%v", err)
					return
				}
				s = &h.LRU
			})
		default:
			return "", true, []lib.Problem{{Key: "lruset:bad-op", What: "unknown op " + op.Op}}
		}
		if panicked != "" {
			bad(i, "panic", "panicked: %s", panicked)
		}
		if len(probs) == 0 {
			lookups(i, "lookup", s)
		}
		if len(probs) > 0 {
			return "", true, probs
		}
		if outcome != nil && i == len(hist)-1 {
			outcome(fmt.Sprintf("%s ways=%d bound=%d listed=%d", class, ways, len(m.bind), len(m.recency)))
		}
	}

	// End of the history: the recency order is only observable destructively,
	// so it is probed once here, on a JSON copy first and then on the object
	// itself (every Exec works on a fresh object).
	last := len(hist) - 1
	if msg := lib.Catch(func() {
		if n := clone(last, s); n != nil {
			lookups(last, "json-lookup", n)
			drain(last, "json-recency-order", n)
		}
		drain(last, "recency-order", s)
		lookups(last, "lookup-after-drain", s)
	}); msg != "" {
		bad(last, "panic", "final probe panicked: %s", msg)
	}
	if len(probs) > 0 {
		return "", true, probs
	}
	k := m.key(ways)
	if reserialized {
		k += " json-text-changed-by-a-round-trip"
	}
	return k, false, nil
}

func init() {
	lib.Register(&lib.Check{
		ID:    "C28",
		Level: "model_checking",
		Rule: "explicit-state BFS over histories of {Evict, Visit(way), Remove(key), UpdateKey(way, old, new), JSON round trip by pointer, JSON round trip as a value field} on the real lruset.Set for way counts {1,2,3} and keys {a,b,c}; " +
			"every transition replays the history on a fresh set in lock-step with the model of the statement (key->way map + recency list), compares every Evict result and Lookup of all three keys after every step, " +
			"and at the end of each history evicts everything (on a JSON copy and on the set itself) to compare the complete recency order; state = (ways, key bindings, recency list)",
		MinOutcomes: 30,
		Assumptions: []string{
			"way arguments are in range (Visit/UpdateKey with an out-of-range way is outside the statement)",
			"on a lookup miss only found=false is demanded, the returned way is ignored",
		},
		Run: func(c *lib.Ctx) {
			lib.BFS(c, lib.BFSConfig[c28Op]{
				Ops: func(hist []c28Op) []c28Op {
					if len(hist) == 0 {
						return []c28Op{{Ways: 1, Op: "lookup"}, {Ways: 2, Op: "lookup"}, {Ways: 3, Op: "lookup"}}
					}
					return c28Ops(hist[0].Ways)
				},
				Exec: func(h []c28Op) (string, bool, []lib.Problem) {
					return c28Exec(h, c.Outcome)
				},
				MaxDepth: lib.Pick(c, 7, 30),
				Workers:  8,
			})
		},
		Replay: func(c *lib.Ctx, raw json.RawMessage) []lib.Problem {
			var h []c28Op
			if err := json.Unmarshal(raw, &h); err != nil {
				c.InternalError("bad replay: %v", err)
				return nil
			}
			_, _, p := c28Exec(h, nil)
			return p
		},
	})
}

// Package grpa holds the checks of group A: C11 (ports), C15 (pipelines),
// C20 (storage) and C28 (LRU sets).
package grpa

import (
	"encoding/json"
	"fmt"

	"github.com/sarchlab/akita/v5/hooking"
	"github.com/sarchlab/akita/v5/messaging"

	"verif/harness/lib"
)

// C11: a messaging port is a pair of bounded FIFO buffers with exactly four
// edge-triggered notifications.

type c11Op struct {
	In  int    `json:"in,omitempty"`  // only on the first op: incoming capacity
	Out int    `json:"out,omitempty"` // only on the first op: outgoing capacity
	Op  string `json:"op"`
}

var c11Alphabet = []string{"deliver", "send", "retrievein", "retrieveout", "query"}

// c11Comp is the stub owner: it only counts notifications. It must not call
// back into the port (the port may hold its lock while notifying).
type c11Comp struct {
	hooking.HookableBase
	*messaging.PortOwnerBase
	port       messaging.Port
	recv, free int
	badArg     string
}

func (c *c11Comp) Name() string { return "Owner" }
func (c *c11Comp) NotifyRecv(p messaging.Port) {
	c.recv++
	if p != c.port {
		c.badArg = "NotifyRecv was called with a port other than the notifying port"
	}
}
func (c *c11Comp) NotifyPortFree(p messaging.Port) {
	c.free++
	if p != c.port {
		c.badArg = "NotifyPortFree was called with a port other than the notifying port"
	}
}

// c11Conn is the stub connection.
type c11Conn struct {
	hooking.HookableBase
	port        messaging.Port
	avail, send int
	badArg      string
}

func (c *c11Conn) Name() string          { return "Conn" }
func (c *c11Conn) PlugIn(messaging.Port) {}
func (c *c11Conn) Unplug(messaging.Port) {}
func (c *c11Conn) NotifySend()           { c.send++ }
func (c *c11Conn) NotifyAvailable(p messaging.Port) {
	c.avail++
	if p != c.port {
		c.badArg = "NotifyAvailable was called with a port other than the notifying port"
	}
}

const c11PortName = "Owner.Port"

func c11Exec(hist []c11Op, outcome func(string)) (string, bool, []lib.Problem) {
	if len(hist) == 0 {
		return "init", false, nil
	}
	inCap, outCap := hist[0].In, hist[0].Out
	comp := &c11Comp{PortOwnerBase: messaging.NewPortOwnerBase()}
	conn := &c11Conn{}
	port := messaging.NewPort(comp, inCap, outCap, c11PortName)
	port.SetConnection(conn)
	comp.port, conn.port = port, port

	// reference model: two bounded lists and four expected counters
	var in, out []messaging.Msg
	nDeliver, nSend := 0, 0
	var expRecv, expFree, expAvail, expSend int

	var probs []lib.Problem
	bad := func(step int, clause, format string, a ...any) {
		probs = append(probs, lib.Problem{
			Key:  fmt.Sprintf("port:%s:after-%s", clause, hist[step].Op),
			What: fmt.Sprintf("caps in=%d out=%d step %d (%s): ", inCap, outCap, step, hist[step].Op) + fmt.Sprintf(format, a...),
		})
	}
	front := func(l []messaging.Msg) messaging.Msg {
		if len(l) == 0 {
			return nil
		}
		return l[0]
	}
	counter := func(step int, name string, got, want int) {
		if got < want {
			bad(step, "notify-"+name+"-missing", "%s was called %d times in total, the edge conditions of the history say %d", name, got, want)
		} else if got > want {
			bad(step, "notify-"+name+"-spurious", "%s was called %d times in total, the edge conditions of the history say %d", name, got, want)
		}
	}
	observe := func(step int) {
		if n := port.NumIncoming(); n != len(in) {
			bad(step, "num-incoming", "NumIncoming()=%d, model holds %d", n, len(in))
		}
		if n := port.NumOutgoing(); n != len(out) {
			bad(step, "num-outgoing", "NumOutgoing()=%d, model holds %d", n, len(out))
		}
		if port.NumIncoming() > inCap {
			bad(step, "incoming-over-capacity", "NumIncoming()=%d exceeds capacity %d", port.NumIncoming(), inCap)
		}
		if port.NumOutgoing() > outCap {
			bad(step, "outgoing-over-capacity", "NumOutgoing()=%d exceeds capacity %d", port.NumOutgoing(), outCap)
		}
		if g := port.CanDeliver(); g != (len(in) < inCap) {
			bad(step, "candeliver", "CanDeliver()=%v with %d/%d incoming", g, len(in), inCap)
		}
		if g := port.CanSend(); g != (len(out) < outCap) {
			bad(step, "cansend", "CanSend()=%v with %d/%d outgoing", g, len(out), outCap)
		}
		if g := port.PeekIncoming(); g != front(in) {
			bad(step, "peek-incoming", "PeekIncoming()=%v want %v", g, front(in))
		}
		if g := port.PeekOutgoing(); g != front(out) {
			bad(step, "peek-outgoing", "PeekOutgoing()=%v want %v", g, front(out))
		}
		counter(step, "NotifyRecv", comp.recv, expRecv)
		counter(step, "NotifyPortFree", comp.free, expFree)
		counter(step, "NotifyAvailable", conn.avail, expAvail)
		counter(step, "NotifySend", conn.send, expSend)
		if comp.badArg != "" {
			bad(step, "notify-argument", "%s", comp.badArg)
		}
		if conn.badArg != "" {
			bad(step, "notify-argument", "%s", conn.badArg)
		}
	}

	for i, op := range hist {
		before := [4]int{expRecv, expFree, expAvail, expSend}
		class := "ok"
		switch op.Op {
		case "deliver":
			msg := messaging.MsgMeta{ID: uint64(100 + nDeliver%4), Src: "Other.Port", Dst: c11PortName}
			nDeliver++
			panicked := lib.Catch(func() { port.Deliver(msg) })
			if len(in) >= inCap {
				// documented panic; state (checked by observe) must be unchanged
				class = "full-panic"
				if panicked == "" {
					bad(i, "deliver-full-accepted", "Deliver into a full incoming buffer (%d/%d) did not panic", len(in), inCap)
				}
			} else {
				if panicked != "" {
					bad(i, "deliver-refused", "Deliver with room (%d/%d) panicked: %s", len(in), inCap, panicked)
				}
				if len(in) == 0 {
					expRecv++ // empty incoming buffer received a message
				}
				in = append(in, messaging.Msg(msg))
			}
		case "send":
			msg := messaging.MsgMeta{ID: uint64(200 + nSend%4), Src: c11PortName, Dst: "Other.Port"}
			nSend++
			panicked := lib.Catch(func() { port.Send(msg) })
			if len(out) >= outCap {
				class = "full-panic"
				if panicked == "" {
					bad(i, "send-full-accepted", "Send into a full outgoing buffer (%d/%d) did not panic", len(out), outCap)
				}
			} else {
				if panicked != "" {
					bad(i, "send-refused", "Send with room (%d/%d) panicked: %s", len(out), outCap, panicked)
				}
				if len(out) == 0 {
					expSend++ // empty outgoing buffer received a message
				}
				out = append(out, messaging.Msg(msg))
			}
		case "retrievein":
			want := front(in)
			if len(in) == 0 {
				class = "empty"
			}
			if len(in) > 0 {
				if len(in) == inCap {
					expAvail++ // full incoming buffer freed a slot
				}
				in = in[1:]
			}
			var got messaging.Msg
			if p := lib.Catch(func() { got = port.RetrieveIncoming() }); p != "" {
				bad(i, "retrieve-incoming-panic", "RetrieveIncoming panicked: %s", p)
			} else if got != want {
				bad(i, "retrieve-incoming-order", "RetrieveIncoming()=%v want %v", got, want)
			}
		case "retrieveout":
			want := front(out)
			if len(out) == 0 {
				class = "empty"
			}
			if len(out) > 0 {
				if len(out) == outCap {
					expFree++ // full outgoing buffer freed a slot
				}
				out = out[1:]
			}
			var got messaging.Msg
			if p := lib.Catch(func() { got = port.RetrieveOutgoing() }); p != "" {
				bad(i, "retrieve-outgoing-panic", "RetrieveOutgoing panicked: %s", p)
			} else if got != want {
				bad(i, "retrieve-outgoing-order", "RetrieveOutgoing()=%v want %v", got, want)
			}
		case "query":
			// the queries themselves run in observe; as an operation this
			// enumerates histories with repeated queries between operations
		default:
			return "", true, []lib.Problem{{Key: "port:bad-op", What: "unknown op " + op.Op}}
		}
		observe(i)
		if len(probs) > 0 {
			return "", true, probs
		}
		if outcome != nil && i == len(hist)-1 {
			if before != [4]int{expRecv, expFree, expAvail, expSend} {
				class += "+notified"
			}
			outcome(fmt.Sprintf("%s:%s in%d/%d out%d/%d", op.Op, class, len(in), inCap, len(out), outCap))
		}
	}
	return fmt.Sprintf("%d/%d in%d@%d out%d@%d", inCap, outCap, len(in), nDeliver%4, len(out), nSend%4), false, nil
}

func init() {
	lib.Register(&lib.Check{
		ID:    "C11",
		Level: "model_checking",
		Rule: "explicit-state BFS over histories of {deliver, send, retrieve-incoming, retrieve-outgoing, query} on the real messaging port (NewPort) for capacities (in,out) in {1,2,3}^2 with a stub owner component and a stub connection that count notifications; " +
			"Deliver/Send on a full buffer are enumerated too (must panic, state unchanged). After every step NumIncoming/NumOutgoing/CanSend/CanDeliver/PeekIncoming/PeekOutgoing, every returned message and the four cumulative notification counters are compared with two bounded Go lists and the four edge conditions of the statement; " +
			"state = (capacities, buffer lengths, message tag counters mod 4)",
		MinOutcomes: 100,
		Assumptions: []string{
			"messages are messaging.MsgMeta values with tags cycling mod 4 (all messages inside one buffer are distinct for capacities <= 3)",
			"stub callbacks only count (the port may hold its lock while notifying); port hooks are not attached",
			"single goroutine; the port-level NotifyAvailable() pass-through is outside the statement and not exercised",
		},
		Run: func(c *lib.Ctx) {
			lib.BFS(c, lib.BFSConfig[c11Op]{
				Ops: func(hist []c11Op) []c11Op {
					if len(hist) == 0 {
						var first []c11Op
						for in := 1; in <= 3; in++ {
							for out := 1; out <= 3; out++ {
								first = append(first, c11Op{In: in, Out: out, Op: "query"})
							}
						}
						return first
					}
					ops := make([]c11Op, 0, len(c11Alphabet))
					for _, o := range c11Alphabet {
						ops = append(ops, c11Op{Op: o})
					}
					return ops
				},
				Exec: func(h []c11Op) (string, bool, []lib.Problem) {
					return c11Exec(h, c.Outcome)
				},
				MaxDepth: lib.Pick(c, 10, 40),
				Workers:  8,
			})
		},
		Replay: func(c *lib.Ctx, raw json.RawMessage) []lib.Problem {
			var h []c11Op
			if err := json.Unmarshal(raw, &h); err != nil {
				c.InternalError("bad replay: %v", err)
				return nil
			}
			_, _, p := c11Exec(h, nil)
			return p
		},
	})
}

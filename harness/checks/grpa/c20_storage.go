package grpa

import (
	"bytes"
	"encoding/json"
	"fmt"
	"math"
	"sort"
	"strings"

	"github.com/sarchlab/akita/v5/mem"

	"verif/harness/lib"
)

// C20: mem.Storage against a sparse byte map with a capacity.

type c20Op struct {
	Cap  uint64 `json:"cap,omitempty"`  // only on the first op
	Unit uint64 `json:"unit,omitempty"` // only on the first op
	Op   string `json:"op"`             // cfg | read | write | ckpt
	Addr uint64 `json:"addr,omitempty"`
	Len  uint64 `json:"len,omitempty"`
}

const c20Top = math.MaxUint64

var (
	c20Caps  = []uint64{1, 7, 8, 16, 4096, 8192, c20Top}
	c20Units = []uint64{1, 4, 8, 4096}
)

func c20Uniq(v []uint64) []uint64 {
	sort.Slice(v, func(i, j int) bool { return v[i] < v[j] })
	out := v[:0]
	for i, x := range v {
		if i == 0 || x != v[i-1] {
			out = append(out, x)
		}
	}
	return out
}

// c20Addrs is the boundary lattice of DESIGN.md §4 C20 for one configuration.
func c20Addrs(capacity, unit uint64) []uint64 {
	a := []uint64{0, unit - 1, unit, unit + 1, capacity - 1, capacity, 1 << 63, c20Top - 1, c20Top}
	if capacity >= 2 {
		a = append(a, capacity-2)
	}
	if capacity < c20Top {
		a = append(a, capacity+1)
	}
	return c20Uniq(a)
}

func c20Lens(unit uint64) []uint64 {
	return c20Uniq([]uint64{0, 1, 2, 3, unit, unit + 1})
}

func c20Ops(capacity, unit uint64) []c20Op {
	var ops []c20Op
	for _, kind := range []string{"read", "write"} {
		for _, a := range c20Addrs(capacity, unit) {
			for _, l := range c20Lens(unit) {
				ops = append(ops, c20Op{Op: kind, Addr: a, Len: l})
			}
		}
	}
	return append(ops, c20Op{Op: "ckpt"})
}

// c20Classify says what the statement demands of an access of n bytes at addr:
// "ok" (must succeed), "free" (touches no address, at or beyond the capacity:
// either result is accepted) or the reason why it must fail.
func c20Classify(capacity, addr, n uint64) string {
	if n == 0 {
		if addr < capacity {
			return "ok"
		}
		return "free"
	}
	last := addr + (n - 1)
	switch {
	case last < addr:
		return "wrapping" // the range runs past 2^64-1 and wraps to address 0
	case addr >= capacity && last == c20Top:
		return "ending-at-address-space-top" // addr+len overflows to exactly 0
	case addr == capacity:
		return "at-capacity"
	case addr > capacity:
		return "beyond-capacity"
	case last >= capacity:
		if last == c20Top {
			return "crossing-capacity-to-address-space-top"
		}
		return "crossing-capacity"
	}
	return "ok"
}

func c20Data(step int, n uint64) []byte {
	d := make([]byte, n)
	for j := range d {
		d[j] = byte(0x10*step + 1 + j%15)
	}
	return d
}

type c20Span struct{ lo, n uint64 }

// c20Touched returns the parts of [addr, addr+n) (mod 2^64) below the capacity.
func c20Touched(capacity, addr, n uint64) []c20Span {
	var out []c20Span
	if n == 0 {
		return nil
	}
	if addr < capacity {
		l := capacity - addr
		if n < l {
			l = n
		}
		out = append(out, c20Span{addr, l})
	}
	if last := addr + (n - 1); last < addr { // wrapped part [0, last]
		l := last + 1
		if l > capacity {
			l = capacity
		}
		out = append(out, c20Span{0, l})
	}
	return out
}

func c20Exec(hist []c20Op, outcome func(string)) (string, bool, []lib.Problem) {
	if len(hist) == 0 {
		return "init", false, nil
	}
	capacity, unit := hist[0].Cap, hist[0].Unit
	st := mem.NewStorageWithUnitSize(capacity, unit)
	model := map[uint64]byte{} // absent = 0
	var spans []c20Span
	var writes []string
	var kept []byte
	var keptModel map[uint64]byte

	var probs []lib.Problem
	describe := func(step int) string {
		var sb strings.Builder
		fmt.Fprintf(&sb, "capacity=%d unit=%d history:", capacity, unit)
		for k := 1; k <= step; k++ {
			switch o := hist[k]; o.Op {
			case "ckpt":
				sb.WriteString(" checkpoint-save/load;")
			case "save":
				sb.WriteString(" keep-a-checkpoint;")
			case "rollback":
				sb.WriteString(" load-the-kept-checkpoint-into-the-live-storage;")
			default:
				fmt.Fprintf(&sb, " %s(addr=%d,len=%d);", o.Op, o.Addr, o.Len)
			}
		}
		return sb.String()
	}
	bad := func(step int, key, format string, a ...any) {
		probs = append(probs, lib.Problem{Key: "storage:" + key, What: describe(step) + " " + fmt.Sprintf(format, a...)})
	}
	multi := func(addr, n uint64) string {
		if n > 0 && addr/unit != (addr+(n-1))/unit {
			return "multi-unit"
		}
		return "single-unit"
	}
	want := func(lo, n uint64) []byte {
		b := make([]byte, n)
		for i := range b {
			b[i] = model[lo+uint64(i)]
		}
		return b
	}
	firstDiff := func(got, exp []byte) int {
		for i := range exp {
			if i >= len(got) || got[i] != exp[i] {
				return i
			}
		}
		return -1
	}

	lastEffect := "nothing" // what the final whole-storage comparison is attributed to
	for i, op := range hist {
		class := ""
		result := ""
		switch op.Op {
		case "cfg":
			class, result = "cfg", "ok"
		case "read":
			class = c20Classify(capacity, op.Addr, op.Len)
			var got []byte
			var err error
			if msg := lib.Catch(func() { got, err = st.Read(op.Addr, op.Len) }); msg != "" {
				bad(i, "read-panic:"+class, "Read panicked: %s", msg)
				break
			}
			spans = append(spans, c20Touched(capacity, op.Addr, op.Len)...)
			lastEffect = "read"
			result = "ok"
			if err != nil {
				result = "error"
			}
			switch class {
			case "ok":
				if err != nil {
					bad(i, "read-inrange-refused:"+multi(op.Addr, op.Len), "a read inside the capacity failed: %v", err)
				} else if uint64(len(got)) != op.Len {
					bad(i, "read-wrong-length:"+multi(op.Addr, op.Len), "read returned %d bytes", len(got))
				} else if d := firstDiff(got, want(op.Addr, op.Len)); d >= 0 {
					bad(i, "read-wrong-bytes:"+multi(op.Addr, op.Len), "byte at address %d reads %#x, last written value is %#x", op.Addr+uint64(d), got[d], model[op.Addr+uint64(d)])
				}
			case "free":
				if err == nil && len(got) != 0 {
					bad(i, "read-wrong-length:zero-length", "zero-length read returned %d bytes", len(got))
				}
			default:
				if err == nil {
					bad(i, "read-"+class+"-accepted", "the read touches an address >= capacity (%s) but returned %d bytes and no error", class, len(got))
				}
			}
		case "write":
			class = c20Classify(capacity, op.Addr, op.Len)
			data := c20Data(i, op.Len)
			var err error
			if msg := lib.Catch(func() { err = st.Write(op.Addr, data) }); msg != "" {
				bad(i, "write-panic:"+class, "Write panicked: %s", msg)
				break
			}
			spans = append(spans, c20Touched(capacity, op.Addr, op.Len)...)
			result = "ok"
			if err != nil {
				result = "error"
			}
			switch class {
			case "ok":
				lastEffect = "write"
				if err != nil {
					bad(i, "write-inrange-refused:"+multi(op.Addr, op.Len), "a write inside the capacity failed: %v", err)
					break
				}
				for j, b := range data {
					model[op.Addr+uint64(j)] = b
				}
				if op.Len > 0 {
					writes = append(writes, fmt.Sprintf("%d@%d+%d", i, op.Addr, op.Len))
				}
			case "free":
				lastEffect = "zero-length-write"
			default:
				lastEffect = "failed-write:" + class
				if err == nil {
					bad(i, "write-"+class+"-accepted", "the write touches an address >= capacity (%s) but returned no error", class)
				}
			}
		case "save":
			// keep a checkpoint (and what the reference holds now) for a rollback
			class = "save"
			var buf bytes.Buffer
			var err error
			if msg := lib.Catch(func() { err = st.SaveCheckpoint(&buf) }); msg != "" || err != nil {
				bad(i, "checkpoint-save-failed", "SaveCheckpoint: %v %s", err, msg)
				break
			}
			kept = buf.Bytes()
			keptModel = map[uint64]byte{}
			for k, v := range model {
				keptModel[k] = v
			}
			result = "ok"
		case "rollback":
			// load the kept checkpoint into the live storage, whatever it holds by now
			class = "rollback"
			if kept == nil {
				break
			}
			lastEffect = "rollback"
			var err error
			if msg := lib.Catch(func() { err = st.LoadCheckpoint(bytes.NewReader(kept)) }); msg != "" || err != nil {
				bad(i, "checkpoint-load-failed", "LoadCheckpoint of a kept checkpoint into the live storage: %v %s", err, msg)
				break
			}
			model = map[uint64]byte{}
			for k, v := range keptModel {
				model[k] = v
			}
			result = "ok"
		case "ckpt":
			class = "ckpt"
			lastEffect = "checkpoint"
			var buf bytes.Buffer
			var err error
			if msg := lib.Catch(func() { err = st.SaveCheckpoint(&buf) }); msg != "" || err != nil {
				bad(i, "checkpoint-save-failed", "SaveCheckpoint: %v %s", err, msg)
				break
			}
			fresh := mem.NewStorageWithUnitSize(capacity, unit)
			if msg := lib.Catch(func() { err = fresh.LoadCheckpoint(&buf) }); msg != "" || err != nil {
				bad(i, "checkpoint-load-failed", "LoadCheckpoint of a checkpoint just saved: %v %s", err, msg)
				break
			}
			if buf.Len() != 0 {
				bad(i, "checkpoint-trailing-bytes", "LoadCheckpoint left %d bytes of its own checkpoint unread", buf.Len())
			}
			st = fresh
			result = "ok"
		default:
			return "", true, []lib.Problem{{Key: "storage:bad-op", What: "unknown op " + op.Op}}
		}
		if len(probs) > 0 {
			return "", true, probs
		}
		if outcome != nil && i == len(hist)-1 {
			outcome(fmt.Sprintf("%s %s %s %s cap%d unit%d", op.Op, class, multi(op.Addr, op.Len), result, capacity, unit))
		}
	}

	// Whole-storage comparison at the end of the history (every prefix of a
	// history is itself an explored history, so this runs after every step but
	// never disturbs the allocation state seen by a following operation).
	last := len(hist) - 1
	probe := append([]c20Span{}, spans...)
	for _, a := range c20Addrs(capacity, unit) {
		if a < capacity {
			probe = append(probe, c20Span{a, 1})
		}
	}
	if capacity <= 16 {
		probe = append(probe, c20Span{0, capacity})
	}
	for _, sp := range probe {
		var got []byte
		var err error
		if msg := lib.Catch(func() { got, err = st.Read(sp.lo, sp.n) }); msg != "" {
			bad(last, "probe-read-panic", "reading back [%d,+%d) panicked: %s", sp.lo, sp.n, msg)
			break
		}
		if err != nil || uint64(len(got)) != sp.n {
			bad(last, "probe-read-refused", "reading back [%d,+%d), inside the capacity, failed: %v (%d bytes)", sp.lo, sp.n, err, len(got))
			break
		}
		if d := firstDiff(got, want(sp.lo, sp.n)); d >= 0 {
			a := sp.lo + uint64(d)
			bad(last, "contents-wrong-after-"+lastEffect, "byte at address %d is %#x, the reference byte array holds %#x", a, got[d], model[a])
			break
		}
	}
	if len(probs) > 0 {
		return "", true, probs
	}
	return fmt.Sprintf("cap%d unit%d writes%v", capacity, unit, writes), false, nil
}

func init() {
	lib.Register(&lib.Check{
		ID:    "C20",
		Level: "model_checking",
		Rule: "explicit-state BFS over histories of Read(addr,len) / Write(addr,len bytes) / checkpoint save+load into a fresh storage on the real mem.Storage, for capacity in {1,7,8,16,4096,8192,2^64-1} x unit in {1,4,8,4096}, " +
			"addresses {0, unit-1, unit, unit+1, cap-2..cap+1, 2^63, 2^64-2, 2^64-1}, lengths {0,1,2,3,unit,unit+1}; 2 (quick) / 3 (thorough) operations per history. Reference = sparse byte map with a capacity: in-range accesses must succeed and reads return the last written bytes; " +
			"accesses touching an address >= capacity or wrapping must fail; after every history the storage is read back (all ranges touched so far, all lattice addresses, the whole array when capacity <= 16) and compared with the map, so failed operations and checkpoint reloads must leave the contents as the map says. " +
			"state = (capacity, unit, sequence of successful writes); plus a rollback family: for every configuration and every in-range lattice writes w1, w2: [w1,] keep a checkpoint, w2, load the kept checkpoint into the LIVE storage, read back.",
		MinOutcomes: 200,
		Assumptions: []string{
			"a zero-length access touches no address: it must succeed below the capacity, at or beyond the capacity either result is accepted",
			"contents are compared through in-range Reads of the touched ranges and the lattice addresses (whole array only for capacity <= 16); bytes of an allocation unit that lie beyond the capacity are not observable",
			"the read-back happens once at the end of each history; since every prefix is an explored history every step is followed by a comparison without the probe reads allocating units in front of later operations",
			"write payloads are a step-dependent non-zero pattern of period 15",
		},
		Run: func(c *lib.Ctx) {
			lib.BFS(c, lib.BFSConfig[c20Op]{
				Ops: func(hist []c20Op) []c20Op {
					if len(hist) == 0 {
						var first []c20Op
						for _, cp := range c20Caps {
							for _, u := range c20Units {
								first = append(first, c20Op{Cap: cp, Unit: u, Op: "cfg"})
							}
						}
						return first
					}
					return c20Ops(hist[0].Cap, hist[0].Unit)
				},
				Exec: func(h []c20Op) (string, bool, []lib.Problem) {
					return c20Exec(h, c.Outcome)
				},
				MaxDepth: 1 + lib.Pick(c, 2, 3),
				Workers:  8,
			})
			// rollback family: [write w1,] keep a checkpoint, write w2, load the
			// kept checkpoint into the live storage, for every in-range w1, w2 of
			// the lattice; the final read-back must show the kept contents
			if c.Mine(0) {
				c.Add("bfs_plus_cases", 1)
			}
			lib.Cases(c, func(yield func([]c20Op) bool) {
				for _, cp := range c20Caps {
					for _, u := range c20Units {
						var ws []c20Op
						for _, o := range c20Ops(cp, u) {
							if o.Op == "write" && o.Len > 0 && c20Classify(cp, o.Addr, o.Len) == "ok" {
								ws = append(ws, o)
							}
						}
						cfg := c20Op{Cap: cp, Unit: u, Op: "cfg"}
						for _, w2 := range ws {
							if !yield([]c20Op{cfg, {Op: "save"}, w2, {Op: "rollback"}}) {
								return
							}
							for _, w1 := range ws {
								if !yield([]c20Op{cfg, w1, {Op: "save"}, w2, {Op: "rollback"}}) {
									return
								}
							}
						}
					}
				}
			}, func(h []c20Op) (string, []lib.Problem) {
				_, _, probs := c20Exec(h, nil)
				if len(probs) > 0 {
					return "violation", probs
				}
				return fmt.Sprintf("rollback cap%d unit%d writes%d", h[0].Cap, h[0].Unit, len(h)-3), nil
			})
		},
		Replay: func(c *lib.Ctx, raw json.RawMessage) []lib.Problem {
			var h []c20Op
			if err := json.Unmarshal(raw, &h); err != nil {
				c.InternalError("bad replay: %v", err)
				return nil
			}
			_, _, p := c20Exec(h, nil)
			return p
		},
	})
}

package grpa

import (
	"fmt"
	"reflect"

	"github.com/sarchlab/akita/v5/mem"
	"github.com/sarchlab/akita/v5/mem/idealmemcontroller"
	"github.com/sarchlab/akita/v5/mem/vm"
	"github.com/sarchlab/akita/v5/mem/vm/mmu"
	"github.com/sarchlab/akita/v5/mem/vm/tlb"
	"github.com/sarchlab/akita/v5/messaging"
	"github.com/sarchlab/akita/v5/modeling"
	"github.com/sarchlab/akita/v5/noc/directconnection"
	"github.com/sarchlab/akita/v5/timing"

	"verif/harness/simx"
)

// The C07 assembly: a scripted driver and an ideal memory controller over one
// direct connection ("small"), plus — in the "full" variant — a TLB, an MMU
// with its own page table, a standalone page table and a standalone storage,
// so that every entity kind (engine, ID generator, ticking components,
// connection, ports, storage, page table) is in the archive. Every knob of
// the rebuilt configuration can be moved by one c07Mut.

type c07Mut struct {
	Kind   string `json:"kind,omitempty"` // spec | portcap | storage-cap | storage-unit | pagesize | buildid | remove | add | rename
	Entity string `json:"entity,omitempty"`
	Field  string `json:"field,omitempty"`
	Delta  int    `json:"delta,omitempty"`
}

func (m c07Mut) String() string {
	if m.Kind == "" {
		return "no mutation"
	}
	return fmt.Sprintf("%s %s %s %+d", m.Kind, m.Entity, m.Field, m.Delta)
}

type c07Rig struct {
	Env    *simx.Env
	Driver *simx.Driver
	// Specs holds the effective Spec() of every component, by name.
	Specs map[string]any
	// PortCaps holds the buffer size every port was built with.
	PortCaps map[string]int
}

const (
	c07MemCap   = 1 * mem.MB
	c07MemUnit  = 4096
	c07AuxCap   = 8192
	c07AuxUnit  = 64
	c07Log2Page = 12
	c07PortBuf  = 2
)

func c07Script() []simx.MemOp {
	return []simx.MemOp{
		{Write: true, Addr: 0x1040, Size: 4, Data: []byte{1, 2, 3, 4}},
		{Addr: 0x1040, Size: 4},
		{Write: true, Addr: 0x2000, Size: 8, Data: []byte{9, 8, 7, 6, 5, 4, 3, 2}},
		{Addr: 0x2004, Size: 4},
	}
}

// c07MutateSpec applies a "spec" mutation to the spec a builder is about to
// receive (specPtr points to it).
func c07MutateSpec(mut c07Mut, name string, specPtr any) {
	if mut.Kind != "spec" || mut.Entity != name {
		return
	}
	f := reflect.ValueOf(specPtr).Elem().FieldByName(mut.Field)
	if !f.IsValid() {
		panic("c07: no spec field " + mut.Field)
	}
	switch f.Kind() {
	case reflect.Bool:
		f.SetBool(!f.Bool())
	case reflect.Int, reflect.Int8, reflect.Int16, reflect.Int32, reflect.Int64:
		f.SetInt(f.Int() + int64(mut.Delta))
	case reflect.Uint, reflect.Uint8, reflect.Uint16, reflect.Uint32, reflect.Uint64:
		f.SetUint(f.Uint() + uint64(int64(mut.Delta)))
	case reflect.Float32, reflect.Float64:
		f.SetFloat(f.Float() + float64(mut.Delta))
	case reflect.String:
		f.SetString(f.String() + "x")
	case reflect.Slice:
		if f.Type().Elem().Kind() == reflect.String {
			if f.Len() == 0 {
				f.Set(reflect.Append(f, reflect.ValueOf("x").Convert(f.Type().Elem())))
			} else {
				f.Index(0).SetString(f.Index(0).String() + "x")
			}
		}
	}
}

// c07SpecFields lists the mutations of one spec value: every numeric field
// +1 and -1, every string (and first string of a string slice) changed, every
// bool flipped.
func c07SpecFields(entity string, spec any) []c07Mut {
	var out []c07Mut
	t := reflect.TypeOf(spec)
	for i := 0; i < t.NumField(); i++ {
		f := t.Field(i)
		if f.PkgPath != "" {
			continue
		}
		switch f.Type.Kind() {
		case reflect.Bool, reflect.String:
			out = append(out, c07Mut{Kind: "spec", Entity: entity, Field: f.Name, Delta: 1})
		case reflect.Slice:
			if f.Type.Elem().Kind() == reflect.String {
				out = append(out, c07Mut{Kind: "spec", Entity: entity, Field: f.Name, Delta: 1})
			}
		case reflect.Int, reflect.Int8, reflect.Int16, reflect.Int32, reflect.Int64,
			reflect.Uint, reflect.Uint8, reflect.Uint16, reflect.Uint32, reflect.Uint64,
			reflect.Float32, reflect.Float64:
			out = append(out, c07Mut{Kind: "spec", Entity: entity, Field: f.Name, Delta: 1},
				c07Mut{Kind: "spec", Entity: entity, Field: f.Name, Delta: -1})
		}
	}
	return out
}

// c07Build builds the assembly inside a real simulation.Simulation. It may
// panic when a mutated configuration is rejected by a builder.
func c07Build(full bool, mut c07Mut) *c07Rig {
	env := simx.NewFull()
	rig := &c07Rig{Env: env, Specs: map[string]any{}, PortCaps: map[string]int{}}
	is := func(kind, entity string) bool { return mut.Kind == kind && mut.Entity == entity }
	rename := func(name string) string {
		if is("rename", name) {
			return name + "X"
		}
		return name
	}
	ports := func(comp messaging.Component, conn *directconnection.Comp, names ...string) {
		for _, n := range names {
			full := comp.Name() + "." + n
			if is("remove", full) {
				continue
			}
			size := c07PortBuf
			if is("portcap", full) {
				size += mut.Delta
			}
			p := modeling.MakePortBuilder().WithRegistrar(env).WithComponent(comp).
				WithSpec(modeling.PortSpec{BufSize: size}).Build(n)
			comp.AssignPort(n, p)
			rig.PortCaps[full] = size
			if conn != nil {
				conn.PlugIn(p)
			}
		}
	}
	storage := func(name string, capacity, unit uint64) *mem.Storage {
		if is("storage-cap", name) {
			capacity += uint64(int64(mut.Delta))
		}
		if is("storage-unit", name) {
			unit += uint64(int64(mut.Delta))
		}
		return mem.MakeStorageBuilder().WithCapacity(capacity).WithUnitSize(unit).WithSimulation(env).Build(rename(name))
	}

	cspec := directconnection.DefaultSpec()
	c07MutateSpec(mut, "Conn", &cspec)
	conn := directconnection.MakeBuilder().WithRegistrar(env).WithSpec(cspec).Build("Conn")
	rig.Specs["Conn"] = conn.Spec()

	// the ideal memory controller with an explicitly built storage
	mspec := idealmemcontroller.DefaultSpec()
	mspec.Width = 1
	mspec.Latency = 3
	mspec.CacheLineSize = 64
	mspec.Capacity = c07MemCap
	c07MutateSpec(mut, "Mem", &mspec)
	memc := idealmemcontroller.MakeBuilder().WithRegistrar(env).WithSpec(mspec).
		WithResources(idealmemcontroller.Resources{Storage: storage("Mem.Storage", c07MemCap, c07MemUnit)}).
		Build("Mem")
	rig.Specs["Mem"] = memc.Spec()
	ports(memc, conn, "Top", "Control")

	if full {
		if !is("remove", "Aux.Storage") {
			aux := storage("Aux.Storage", c07AuxCap, c07AuxUnit)
			_ = aux.Write(100, []byte{1, 2, 3})
		}
		if is("add", "Extra.Storage") {
			storage("Extra.Storage", 64, 8)
		}
		if !is("remove", "PT") {
			l := uint64(c07Log2Page)
			if is("pagesize", "PT") {
				l += uint64(int64(mut.Delta))
			}
			pt := vm.MakePageTableBuilder().WithLog2PageSize(l).WithSimulation(env).Build(rename("PT"))
			pt.Insert(vm.Page{PID: 1, VAddr: 0x1000, PAddr: 0x5000, PageSize: 1 << l, Valid: true, DeviceID: 1})
			pt.Insert(vm.Page{PID: 2, VAddr: 0x2000, PAddr: 0x6000, PageSize: 1 << l, Valid: true, DeviceID: 1})
		}

		tspec := tlb.DefaultSpec()
		tspec.NumWays = 2
		tspec.MSHRSize = 2
		tspec.Latency = 2
		c07MutateSpec(mut, "TLB", &tspec)
		if !is("remove", "TLB") {
			t := tlb.MakeBuilder().WithRegistrar(env).WithSpec(tspec).
				WithResources(tlb.Resources{TranslationProviderMapper: &mem.SinglePortMapper{Port: "MMU.Top"}}).
				Build(rename("TLB"))
			rig.Specs["TLB"] = t.Spec()
			ports(t, conn, "Top", "Bottom", "Control")
		}

		uspec := mmu.DefaultSpec()
		c07MutateSpec(mut, "MMU", &uspec)
		u := mmu.MakeBuilder().WithRegistrar(env).WithSpec(uspec).Build("MMU")
		rig.Specs["MMU"] = u.Spec()
		ports(u, conn, "Top", "Control")
		if is("add", "MMU.Extra") {
			p := modeling.MakePortBuilder().WithRegistrar(env).WithComponent(u).
				WithSpec(modeling.PortSpec{BufSize: 1}).Build("Extra")
			_ = p
		}
		if is("add", "Mem2") {
			m2 := idealmemcontroller.MakeBuilder().WithRegistrar(env).WithSpec(mspec).Build("Mem2")
			ports(m2, conn, "Top", "Control")
		}
	}

	driverBuf := c07PortBuf
	if is("portcap", "Driver.Mem") {
		driverBuf += mut.Delta
	}
	rig.Driver = simx.NewDriver(env, "Driver", c07Script(), true,
		[]messaging.RemotePort{memc.GetPortByName("Top").AsRemote()}, driverBuf)
	rig.PortCaps["Driver.Mem"] = driverBuf
	conn.PlugIn(rig.Driver.GetPortByName("Mem"))
	return rig
}

// c07CutTimes runs the unmutated assembly to completion and returns the
// distinct event times.
func c07CutTimes(full bool) []uint64 {
	rig := c07Build(full, c07Mut{})
	defer rig.Env.Close()
	tr := rig.Env.TraceEvents()
	rig.Driver.TickLater()
	if msg := rig.Env.Run(100000); msg != "" {
		panic("c07: reference run failed: " + msg)
	}
	var times []uint64
	for _, e := range tr.Events {
		if len(times) == 0 || times[len(times)-1] != e.Time {
			times = append(times, e.Time)
		}
	}
	return times
}

// c07RunTo builds the unmutated assembly and runs it up to time t.
func c07RunTo(full bool, t uint64) *c07Rig {
	rig := c07Build(full, c07Mut{})
	rig.Driver.TickLater()
	_ = rig.Env.Eng.RunUntil(timing.VTimeInPicoSec(t))
	return rig
}

package grpc2

import (
	"bytes"
	"encoding/json"
	"fmt"
	"math/bits"
	"runtime/debug"
	"sort"
	"strings"

	"github.com/sarchlab/akita/v5/simulation"

	"verif/harness/checks/grpd"
	"verif/harness/lib"
	"verif/harness/simx"
)

// C33: observing a simulation does not change it.
//
// A case is one (assembly, script). It is run bare, then once per observer
// configuration; every run's fingerprint must equal the bare one.

type c33Case struct {
	Cfg  simx.ChainCfg `json:"cfg"`
	Ops  []simx.MemOp  `json:"ops"`
	Full bool          `json:"full"` // also run inside a real simulation.Simulation (DB tracer)
	// back-pressure family: how the requester retrieves responses (see
	// slowdriver.go), and whether only the singleton observer sets and the
	// complete one are run
	Slow string `json:"slow,omitempty"`
	Few  bool   `json:"few,omitempty"`
	// relay-network family (harness components of C09, ticking and
	// event-driven, over one or two direct connections): the opaque case and
	// its label
	Relay      json.RawMessage `json:"relay,omitempty"`
	RelayLabel string          `json:"relay_label,omitempty"`
}

// light observers, one bit each
const (
	obsTracer = 1 << iota
	obsBufTrace
	obsEngineHook
	obsPortHook
	obsBufHook
	obsLightAll = 1<<iota - 1
)

var obsNames = []string{"tracer", "buffer-tracing", "engine-hook", "port-hooks", "buffer-hooks"}

func obsLabel(mask int) string {
	if mask == 0 {
		return "bare"
	}
	var s []string
	for i, n := range obsNames {
		if mask&(1<<i) != 0 {
			s = append(s, n)
		}
	}
	return strings.Join(s, "+")
}

// lightSubsets lists every non-empty subset, fewest observers first.
func lightSubsets() []int {
	var out []int
	for m := 1; m <= obsLightAll; m++ {
		out = append(out, m)
	}
	sort.SliceStable(out, func(i, j int) bool { return bits.OnesCount(uint(out[i])) < bits.OnesCount(uint(out[j])) })
	return out
}

// fingerprint is what the statement says must not change.
type fingerprint struct {
	Panic     string
	Done      bool
	Responses []string // per response in arrival order: op, kind, data, completion time
	Anomalies int
	Storage   []string // per backing storage: hex of the touched address range
	FinalTime uint64
}

type obsStats struct {
	traceEvents, bufTasks, portHookCalls, engineHookCalls, bufHookCalls, bufHooked, dbTracing int64
}

var c33Stats obsStats

// runObserved builds the assembly, attaches the observers and returns the fingerprint.
// env kind: "light", "full" (simulation, DB tracer idle), "full-db" (DB tracer recording).
func runObserved(cs c33Case, envKind string, mask int) fingerprint {
	var env *simx.Env
	switch envKind {
	case "light":
		env = simx.NewLight()
	case "full":
		env = simx.NewFull()
	case "full-db":
		env = simx.NewFullWith(simulation.MakeBuilder().WithVisTracingOnStart().WithoutSourceRecording())
	}
	ch := buildChainSlow(env, cs.Cfg, cloneOps(cs.Ops), cs.Slow)
	defer env.Close()

	var tlog *[]traceEvent
	var ph, bh *countHook
	var eh *engineHook
	if mask&obsTracer != 0 {
		tlog, _ = attachTracers(env)
	}
	if mask&obsBufTrace != 0 {
		attachBufferTracers(env)
	}
	if mask&obsEngineHook != 0 {
		eh = &engineHook{}
		env.Eng.AcceptHook(eh)
	}
	if mask&obsPortHook != 0 {
		ph = attachPortHooks(env)
	}
	if mask&obsBufHook != 0 {
		var n int
		bh, n = attachBufferHooks(env)
		c33Stats.bufHooked += int64(n)
	}
	if env.Sim != nil && env.Sim.GetVisTracer().IsTracing() {
		c33Stats.dbTracing++
	}

	var fp fingerprint
	ch.Driver.TickLater()
	fp.Panic = runBounded(env)

	st := ch.Driver.State
	fp.Done = ch.Driver.Done()
	fp.Anomalies = len(st.Anomalies)
	res := append([]simx.DriverResult{}, st.Results...)
	sort.SliceStable(res, func(i, j int) bool { return res[i].Order < res[j].Order })
	for _, r := range res {
		fp.Responses = append(fp.Responses, fmt.Sprintf("op%d %s %x @%d", r.Op, r.Kind, r.Data, r.DoneAt))
	}
	hi := uint64(0)
	for _, op := range cs.Ops {
		if e := op.Addr + op.Size; e > hi {
			hi = e
		}
	}
	hi = (hi + simx.LineSize - 1) / simx.LineSize * simx.LineSize
	for i, s := range ch.Backing {
		b, err := s.Read(0, hi)
		if err != nil {
			fp.Storage = append(fp.Storage, fmt.Sprintf("storage %d unreadable: %v", i, err))
			continue
		}
		fp.Storage = append(fp.Storage, fmt.Sprintf("%x", bytes.TrimRight(b, "\x00")))
	}
	fp.FinalTime = uint64(env.Eng.CurrentTime())

	if tlog != nil {
		c33Stats.traceEvents += int64(len(*tlog))
		for _, e := range *tlog {
			if e.Op == "start" && (e.Kind == "incoming_buffer" || e.Kind == "outgoing_buffer") {
				c33Stats.bufTasks++
			}
		}
	}
	if ph != nil {
		c33Stats.portHookCalls += int64(ph.n)
	}
	if bh != nil {
		c33Stats.bufHookCalls += int64(bh.n)
	}
	if eh != nil {
		c33Stats.engineHookCalls += int64(eh.before + eh.after)
	}
	return fp
}

// simHorizon bounds a run in simulated time (the scripts finish within a
// fraction of a microsecond; the largest final time seen is recorded as
// max_final_time_ps). No engine hook is used as a guard: the engine must be really
// unhooked in the runs that do not ask for an engine hook.
const simHorizon = 10_000_000 // ps = 10 us

func runBounded(env *simx.Env) string {
	msg, _ := lib.CatchStack(func() { _ = env.Eng.RunUntil(simHorizon) })
	if msg != "" {
		return msg
	}
	if env.Eng.CurrentTime() >= simHorizon/2 {
		return fmt.Sprintf("HORIZON: still running after %d ps of simulated time", uint64(env.Eng.CurrentTime()))
	}
	return ""
}

// diffFingerprints names the clauses on which b differs from a.
func diffFingerprints(a, b fingerprint) map[string]string {
	d := map[string]string{}
	if a.Panic != b.Panic {
		d["run-fails-differently"] = fmt.Sprintf("bare run: %q, observed run: %q", a.Panic, b.Panic)
		return d
	}
	if len(a.Responses) != len(b.Responses) || a.Done != b.Done || a.Anomalies != b.Anomalies {
		d["responses-differ"] = fmt.Sprintf("bare: %d responses (done=%v, %d unexpected), observed: %d responses (done=%v, %d unexpected)",
			len(a.Responses), a.Done, a.Anomalies, len(b.Responses), b.Done, b.Anomalies)
	} else {
		for i := range a.Responses {
			if a.Responses[i] == b.Responses[i] {
				continue
			}
			fa, fb := strings.Fields(a.Responses[i]), strings.Fields(b.Responses[i])
			clause := "response-time-differs"
			switch {
			case fa[0] != fb[0]:
				clause = "arrival-order-differs"
			case fa[1] != fb[1]:
				clause = "response-kind-differs"
			case fa[2] != fb[2]:
				clause = "response-data-differs"
			}
			if _, ok := d[clause]; !ok {
				d[clause] = fmt.Sprintf("response #%d bare %q, observed %q", i, clipS(a.Responses[i]), clipS(b.Responses[i]))
			}
		}
	}
	for i := range a.Storage {
		if i >= len(b.Storage) || a.Storage[i] != b.Storage[i] {
			d["final-storage-differs"] = fmt.Sprintf("backing storage %d differs", i)
			break
		}
	}
	if a.FinalTime != b.FinalTime {
		d["final-time-differs"] = fmt.Sprintf("bare run ends at %d ps, observed run at %d ps", a.FinalTime, b.FinalTime)
	}
	return d
}

func slowLabel(slow string) string {
	if slow == "" {
		return ""
	}
	return " [requester retrieves " + slow + "]"
}

func clipS(s string) string {
	if len(s) > 120 {
		return s[:120] + "…"
	}
	return s
}

// runC33Relay: bare run vs engine hook, port hooks, both.
func runC33Relay(cs c33Case) (string, []lib.Problem) {
	bare, err := grpd.C33RelayRun(cs.Relay, 0)
	if err != nil {
		return "bad-case", []lib.Problem{{Key: "INTERNAL:bad-relay-case", What: err.Error()}}
	}
	var probs []lib.Problem
	runs := 1
	for mask, label := range map[int]string{1: "engine-hook", 2: "port-hooks", 3: "engine-hook+port-hooks"} {
		fp, _ := grpd.C33RelayRun(cs.Relay, mask)
		runs++
		if fp != bare {
			probs = append(probs, lib.Problem{Key: "observe:relay-network:arrivals-differ:" + label,
				What: fmt.Sprintf("relay network %s case %s under {%s}: sinks saw %q, the bare run %q", cs.RelayLabel, string(cs.Relay), label, fp, bare)})
		}
	}
	sort.Slice(probs, func(i, j int) bool { return probs[i].Key < probs[j].Key })
	if c33Ctx != nil {
		c33Ctx.Add("observed_runs", int64(runs))
	}
	return "relay " + cs.RelayLabel, probs
}

func runC33(cs c33Case) (string, []lib.Problem) {
	if cs.Relay != nil {
		return runC33Relay(cs)
	}
	bare := runObserved(cs, "light", 0)
	sig := fmt.Sprintf("%v+%s", cs.Cfg.Stages, cs.Cfg.Memory)
	if cs.Slow != "" {
		sig += " requester-" + cs.Slow
	}
	var probs []lib.Problem
	seen := map[string]bool{}
	report := func(label string, d map[string]string) {
		for clause, what := range d {
			// only the smallest observer set that shows a clause is reported
			if seen[clause] {
				continue
			}
			seen[clause] = true
			probs = append(probs, lib.Problem{
				Key:  "observe:" + clause + ":" + label,
				What: fmt.Sprintf("%s%s script %s under {%s}: %s", cs.Cfg.Name(), slowLabel(cs.Slow), scriptString(cs.Ops), label, what),
			})
		}
	}
	runs := 1
	if c33Ctx != nil {
		c33Ctx.Max("max_final_time_ps", int64(bare.FinalTime))
	}
	if !cs.Full {
		for _, m := range lightSubsets() {
			if cs.Few && bits.OnesCount(uint(m)) != 1 && m != obsLightAll {
				continue
			}
			report(obsLabel(m), diffFingerprints(bare, runObserved(cs, "light", m)))
			runs++
			if len(probs) > 0 {
				break // subsets come smallest first: this is a minimal observer set that changes the outcome
			}
		}
	} else {
		// inside a real simulation.Simulation: it attaches the DB tracer to every
		// component and buffer tracing to every port by itself
		others := obsTracer | obsEngineHook | obsPortHook | obsBufHook
		for _, v := range []struct {
			kind, label string
			mask        int
		}{
			{"full", "simulation(db-tracer-idle)", 0},
			{"full-db", "simulation(db-tracer-recording)", 0},
			{"full", "simulation(db-tracer-idle)+" + obsLabel(others), others},
			{"full-db", "simulation(db-tracer-recording)+" + obsLabel(others), others},
		} {
			report(v.label, diffFingerprints(bare, runObserved(cs, v.kind, v.mask)))
			runs++
		}
	}
	if c33Ctx != nil {
		c33Ctx.Add("observed_runs", int64(runs))
	}
	out := fmt.Sprintf("%s r%d t=%d", sig, len(bare.Responses), bare.FinalTime/1000)
	if cs.Full {
		out = "sim:" + out
	}
	if bare.Panic != "" {
		out = sig + " bare-run-fails"
	}
	return out, probs
}

var c33Ctx *lib.Ctx

func c33Configs(c *lib.Ctx) []simx.ChainCfg {
	var out []simx.ChainCfg
	stageSets := [][]string{
		{}, {"rob"}, {"wb"}, {"wt-around"}, {"wt-evict"}, {"wt-through"},
		{"wt-around", "wb"}, {"wt-evict", "wb"}, {"wt-through", "wb"}, {"rob", "wb"}, {"rob", "wt-through", "wb"}, {"wb", "wb"},
	}
	mems := lib.Pick(c, []string{"ideal", "banked2"}, []string{"ideal", "banked1", "banked2"})
	variants := []struct{ buf, lat, mshr int }{{1, 0, 1}, {4, 1, 2}}
	if c.Thorough() {
		variants = append(variants, struct{ buf, lat, mshr int }{4, 2, 1})
	}
	for _, st := range stageSets {
		for _, m := range mems {
			for _, nm := range []int{1, 2} {
				if nm == 2 && len(st) > 0 && st[len(st)-1] == "rob" {
					continue
				}
				for vi, v := range variants {
					for _, eager := range []bool{false, true} {
						// quick: the tight setting issues serially, the roomy one eagerly
						if !c.Thorough() && eager != (vi == 1) {
							continue
						}
						out = append(out, simx.ChainCfg{Stages: st, Memory: m, NumMem: nm, PortBuf: v.buf, Lat: v.lat, MSHR: v.mshr, Eager: eager})
					}
				}
			}
		}
	}
	pols := lib.Pick(c, []string{""}, []string{"", "-open"})
	for _, m := range dramKinds {
		for _, pol := range pols {
			for _, st := range [][]string{{}, {"wb"}} {
				out = append(out, simx.ChainCfg{Stages: st, Memory: m + pol, NumMem: 1, PortBuf: 4, Lat: 1, MSHR: 2, Eager: true})
			}
		}
	}
	return out
}

func enumC33(c *lib.Ctx, yield func(c33Case) bool) {
	lines := simx.SameSetLines(3)
	alpha2 := opAlphabet(lines[:2])
	alpha3 := opAlphabet(lines[:3])
	var alphaK3 []simx.MemOp // read4, read line, write line, write4@8, masked write on 2 lines
	for i, op := range alpha2 {
		if k := i % 7; k != 1 && k != 4 {
			alphaK3 = append(alphaK3, op)
		}
	}
	for _, cfg := range c33Configs(c) {
		y := func(ops []simx.MemOp) bool { return yield(c33Case{Cfg: cfg, Ops: ops}) }
		// k = 2 on every assembly
		if !enumScripts(lib.Pick(c, alpha2, alpha3), 2, y) {
			return
		}
		// k = 3 on a few cache-bearing assemblies (quick: 5 operations per line)
		if hasCache(cfg) && cfg.Memory == "ideal" && cfg.NumMem == 1 && cfg.Lat == 1 && cfg.Eager &&
			(c.Thorough() || len(cfg.Stages) == 1 && cfg.Stages[0] == "wb" || len(cfg.Stages) == 2 && cfg.Stages[0] == "wt-through") {
			if !enumScripts(lib.Pick(c, alphaK3, alpha2), 3, y) {
				return
			}
		}
	}
	// back-pressure family: tight port buffers, eager issue, bursts of 5
	// operations and requesters that leave responses in their port, so that
	// ports fill up, connections go to sleep on a full destination and a
	// retrieval has to wake them up again
	lines2 := simx.SameSetLines(2)
	burstAlpha := []simx.MemOp{{Addr: lines2[0], Size: 4}, {Write: true, Addr: lines2[0], Size: 4}, {Addr: lines2[1], Size: 4}}
	for _, st := range [][]string{{}, {"rob"}, {"wb"}, {"wt-through"}} {
		for _, m := range []string{"ideal", "banked2"} {
			for _, buf := range []int{1, 2} {
				for _, slow := range []string{"", "every4", "hold12"} {
					cfg := simx.ChainCfg{Stages: st, Memory: m, NumMem: 1, PortBuf: buf, Lat: 1, MSHR: 2, Eager: true}
					if !enumScripts(burstAlpha, 5, func(ops []simx.MemOp) bool {
						return yield(c33Case{Cfg: cfg, Ops: ops, Slow: slow, Few: !c.Thorough()})
					}) {
						return
					}
				}
			}
		}
	}
	// relay networks: sources, forwarders and sinks (ticking or event-driven)
	// over two direct connections, scripts of <= 3 messages (the C09 cases
	// with an event-driven component and two connections)
	okRelay := true
	grpd.C33RelayCases(c, func(raw json.RawMessage, label string) bool {
		okRelay = yield(c33Case{Relay: raw, RelayLabel: label})
		return okRelay
	})
	if !okRelay {
		return
	}
	// inside a real simulation (DB tracer idle / recording from the start): k = 2 over 2 lines
	fullCfgs := []simx.ChainCfg{
		{Stages: []string{"wb"}, Memory: "ideal", NumMem: 1, PortBuf: 4, Lat: 1, MSHR: 2, Eager: true},
		{Stages: []string{"wt-through", "wb"}, Memory: "banked2", NumMem: 2, PortBuf: 1, Lat: 0, MSHR: 1, Eager: true},
		{Stages: []string{"rob"}, Memory: "dram-DDR4", NumMem: 1, PortBuf: 4, Lat: 1, MSHR: 2, Eager: false},
	}
	if c.Thorough() {
		fullCfgs = append(fullCfgs,
			simx.ChainCfg{Stages: []string{}, Memory: "ideal", NumMem: 2, PortBuf: 4, Lat: 1, MSHR: 2, Eager: true},
			simx.ChainCfg{Stages: []string{"wt-evict"}, Memory: "banked1", NumMem: 1, PortBuf: 4, Lat: 2, MSHR: 1, Eager: true},
			simx.ChainCfg{Stages: []string{"wb", "wb"}, Memory: "ideal", NumMem: 1, PortBuf: 4, Lat: 1, MSHR: 2, Eager: true},
			simx.ChainCfg{Stages: []string{"rob", "wt-through", "wb"}, Memory: "ideal", NumMem: 1, PortBuf: 4, Lat: 1, MSHR: 2, Eager: true},
		)
	}
	for _, cfg := range fullCfgs {
		if !enumScripts(alpha2, 2, func(ops []simx.MemOp) bool { return yield(c33Case{Cfg: cfg, Ops: ops, Full: true}) }) {
			return
		}
	}
}

func init() {
	lib.Register(&lib.Check{
		ID:    "C33",
		Level: "exploration",
		Rule: "differential small-scope simulation on the real components: assemblies = 12 stage stacks {none, rob, wb, wt-around/evict/through, wt-*>wb, rob>wb, rob>wt-through>wb, wb>wb} x memories {ideal, banked2 [thorough +banked1]} x {1, 2 interleaved controllers} x (port buffer, latency, MSHR, issue) settings {(1,0,1,serial), (4,1,2,eager)} [thorough: 3 settings x {serial, eager}], plus 5 DRAM presets x {none, wb}; scripts = every sequence of k=2 operations over {read4@0, read4@8, read line, write line, write4@0, write4@8, masked line write} x 2 [3] same-set lines on every assembly, and k=3 (5 of the 7 operations x 2 lines) on the eager wb and wt-through>wb assemblies over ideal memory [thorough: all 7 operations, every eager cache-bearing assembly over one ideal memory]; back-pressure family: stacks {none, rob, wb, wt-through} x {ideal, banked2} x port buffer {1,2}, eager issue, x requester {takes responses at once, only every 4th tick, none before tick 12} x every burst of k=5 operations over {read4 line A, write4 line A, read4 line B} (243), under the 5 singleton observer sets and the complete one [thorough: all 31]; relay-network family: every C09 case with two direct connections and at least one event-driven component (sources / forwarders / sinks, <= 3 messages at instants {0, 0.5, 1, 2 ns}) bare vs {no-op engine hook, no-op hook on every port, both}, comparing what every sink received and when. " +
			"Each (assembly, script) is run bare and under EVERY non-empty subset of {recording tracer on every component, incoming+outgoing buffer tracing on every port, engine Before/AfterEvent hook, counting hook on every port, counting hook on every queueing.Buffer reachable in component state} (31 subsets); on 3 [7] assemblies x k=2 over 2 lines also inside a real simulation.Simulation with its DB tracer idle and recording from the start, alone and together with the other observers. " +
			"Oracle: the fingerprint (per response in arrival order: op, kind, data bytes, simulated completion time; number of responses; final bytes of every backing storage over the touched range; final simulated time; run failure text) equals that of the bare run; generated IDs are not compared. A case = (assembly, script); observed_runs counts the runs.",
		Sharded:     true,
		MinOutcomes: 20,
		Assumptions: []string{
			"the bare run is the light environment (no simulation.Simulation, no hook of any kind: runs are bounded by RunUntil(10 us simulated), not by an engine hook); the scripted requester never has two in-flight requests touching the same byte",
			"final storage is compared over [0, end of the highest touched line) of every backing storage",
			"inside a simulation.Simulation, buffer tracing is the one the simulation attaches itself (attaching a second copy is not a supported configuration)",
		},
		Run: func(c *lib.Ctx) {
			c33Ctx = c
			// every run builds a fresh engine and assembly: let the heap grow instead of
			// collecting every few runs (the workers are short-lived)
			defer debug.SetGCPercent(debug.SetGCPercent(1000))
			lib.Cases(c, func(y func(c33Case) bool) { enumC33(c, y) }, runC33)
			lib.CleanScratch()
			s := c33Stats
			c.Add("tracer_events_seen", s.traceEvents)
			c.Add("buffer_tasks_seen", s.bufTasks)
			c.Add("port_hook_calls", s.portHookCalls)
			c.Add("engine_hook_calls", s.engineHookCalls)
			c.Add("buffer_hook_calls", s.bufHookCalls)
			c.Add("buffers_hooked", s.bufHooked)
			c.Add("db_tracer_recording_runs", s.dbTracing)
			if s.traceEvents == 0 || s.bufTasks == 0 || s.portHookCalls == 0 || s.engineHookCalls == 0 || s.bufHookCalls == 0 {
				c.InternalError("an observer never observed anything in this worker: %+v", s)
			}
		},
		Replay: lib.ReplayCases(runC33),
	})
}

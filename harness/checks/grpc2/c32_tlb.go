package grpc2

import (
	"encoding/json"
	"fmt"
	"strings"

	"github.com/sarchlab/akita/v5/mem"
	"github.com/sarchlab/akita/v5/mem/vm"
	"github.com/sarchlab/akita/v5/mem/vm/tlb"
	"github.com/sarchlab/akita/v5/mem/vm/vmprotocol"
	"github.com/sarchlab/akita/v5/messaging"
	"github.com/sarchlab/akita/v5/modeling"
	"github.com/sarchlab/akita/v5/noc/directconnection"
	"github.com/sarchlab/akita/v5/timing"

	"verif/harness/lib"
	"verif/harness/simx"
)

// A tiny translation scenario for C32: scripted requester -> real TLB -> stub
// translation provider, plus the scripted controller on the TLB's Control port.

type xlatSpec struct {
	Freq    timing.Freq          `json:"freq"`
	Script  string               `json:"script"` // JSON of []uint64 virtual addresses
	Target  messaging.RemotePort `json:"target"`
	Latency int                  `json:"latency"` // provider only
}

type xlatPending struct {
	ReqID uint64               `json:"req_id"`
	Src   messaging.RemotePort `json:"src"`
	VAddr uint64               `json:"vaddr"`
	PID   uint32               `json:"pid"`
	Due   uint64               `json:"due"`
}

type xlatState struct {
	Next     int           `json:"next"`
	Inflight []uint64      `json:"inflight"`
	Answered int           `json:"answered"`
	Ticks    uint64        `json:"ticks"`
	Pending  []xlatPending `json:"pending"`
}

type xlatComp = modeling.Component[xlatSpec, xlatState, modeling.None]

// xlatDriverMW issues one translation request per tick (eagerly) and counts answers.
type xlatDriverMW struct {
	c      *xlatComp
	vaddrs []uint64
}

func (m *xlatDriverMW) Tick() bool {
	st := &m.c.State
	port := m.c.GetPortByName("Req")
	progress := false
	for {
		msg := port.RetrieveIncoming()
		if msg == nil {
			break
		}
		progress = true
		for i, id := range st.Inflight {
			if id == msg.Meta().RspTo {
				st.Inflight = append(st.Inflight[:i], st.Inflight[i+1:]...)
				st.Answered++
				break
			}
		}
	}
	if st.Next < len(m.vaddrs) && port.CanSend() {
		req := vmprotocol.TranslationReq{}
		req.ID = timing.GetIDGenerator().Generate()
		req.Src = port.AsRemote()
		req.Dst = m.c.Spec().Target
		req.VAddr = m.vaddrs[st.Next]
		req.PID = 1
		req.DeviceID = 1
		req.TrafficBytes = 12
		req.TrafficClass = "vmprotocol.TranslationReq"
		port.Send(req)
		st.Inflight = append(st.Inflight, req.ID)
		st.Next++
		progress = true
	}
	return progress
}

// xlatProviderMW answers every translation request after Latency ticks.
type xlatProviderMW struct{ c *xlatComp }

func (m *xlatProviderMW) Tick() bool {
	st := &m.c.State
	port := m.c.GetPortByName("Top")
	st.Ticks++
	progress := false
	for {
		msg := port.RetrieveIncoming()
		if msg == nil {
			break
		}
		progress = true
		if req, ok := msg.(vmprotocol.TranslationReq); ok {
			st.Pending = append(st.Pending, xlatPending{ReqID: req.ID, Src: req.Src, VAddr: req.VAddr, PID: uint32(req.PID), Due: st.Ticks + uint64(m.c.Spec().Latency)})
		}
	}
	for len(st.Pending) > 0 && st.Pending[0].Due <= st.Ticks && port.CanSend() {
		p := st.Pending[0]
		st.Pending = st.Pending[1:]
		rsp := vmprotocol.TranslationRsp{}
		rsp.ID = timing.GetIDGenerator().Generate()
		rsp.Src = port.AsRemote()
		rsp.Dst = p.Src
		rsp.RspTo = p.ReqID
		rsp.Page = vm.Page{PID: vm.PID(p.PID), VAddr: p.VAddr &^ 4095, PAddr: 0x100000 + p.VAddr&^4095, PageSize: 4096, Valid: true, DeviceID: 1}
		rsp.TrafficBytes = 24
		rsp.TrafficClass = "vmprotocol.TranslationRsp"
		port.Send(rsp)
		progress = true
	}
	return progress || len(st.Pending) > 0
}

type tlbScene struct {
	env      *simx.Env
	conn     *directconnection.Comp
	driver   *xlatComp
	provider *xlatComp
	tlb      *tlb.Comp
	nReq     int
}

func buildTLBScene(vaddrs []uint64, tlbLatency, providerLatency int) *tlbScene {
	env := simx.NewLight()
	sc := &tlbScene{env: env, nReq: len(vaddrs)}
	sc.conn = directconnection.MakeBuilder().WithRegistrar(env).Build("Conn")

	mk := func(name string, spec xlatSpec) *xlatComp {
		c := modeling.NewBuilder[xlatSpec, xlatState, modeling.None]().
			WithEngine(env.Eng).WithFreq(spec.Freq).WithSpec(spec).Build(name)
		c.State = xlatState{Inflight: []uint64{}, Pending: []xlatPending{}}
		return c
	}
	sc.provider = mk("Provider", xlatSpec{Freq: 1 * timing.GHz, Latency: providerLatency})
	sc.provider.DeclarePort("Top", vmprotocol.Responder)
	sc.provider.AddMiddleware(&xlatProviderMW{c: sc.provider})
	env.RegisterComponent(sc.provider)
	env.AssignPorts(sc.provider, 4, "Top")

	spec := tlb.DefaultSpec()
	spec.NumSets = 1
	spec.NumWays = 2
	spec.MSHRSize = 2
	spec.Latency = tlbLatency
	spec.NumReqPerCycle = 1
	sc.tlb = tlb.MakeBuilder().WithRegistrar(env).WithSpec(spec).
		WithResources(tlb.Resources{TranslationProviderMapper: &mem.SinglePortMapper{Port: sc.provider.GetPortByName("Top").AsRemote()}}).
		Build("TLB")
	env.AssignPorts(sc.tlb, 4, "Top", "Bottom", "Control")

	script, _ := json.Marshal(vaddrs)
	sc.driver = mk("XDriver", xlatSpec{Freq: 1 * timing.GHz, Script: string(script), Target: sc.tlb.GetPortByName("Top").AsRemote()})
	sc.driver.DeclarePort("Req", vmprotocol.Requester)
	sc.driver.AddMiddleware(&xlatDriverMW{c: sc.driver, vaddrs: append([]uint64{}, vaddrs...)})
	env.RegisterComponent(sc.driver)
	env.AssignPorts(sc.driver, 4, "Req")

	for _, p := range []messaging.Port{sc.provider.GetPortByName("Top"), sc.tlb.GetPortByName("Top"), sc.tlb.GetPortByName("Bottom"), sc.tlb.GetPortByName("Control"), sc.driver.GetPortByName("Req")} {
		sc.conn.PlugIn(p)
	}
	return sc
}

type c32TLBCase struct {
	VAddrs  []uint64 `json:"vaddrs"`
	TLBLat  int      `json:"tlb_lat"`
	ProvLat int      `json:"prov_lat"`
	History string   `json:"history"`
	Cut     int      `json:"cut"`
}

func tlbCutTimes(cs c32TLBCase) []uint64 {
	sc := buildTLBScene(cs.VAddrs, cs.TLBLat, cs.ProvLat)
	defer sc.env.Close()
	tr := sc.env.TraceEvents()
	sc.driver.TickLater()
	if msg := sc.env.Run(200000); msg != "" {
		return nil
	}
	var out []uint64
	for _, e := range tr.Events {
		if len(out) == 0 || out[len(out)-1] != e.Time {
			out = append(out, e.Time)
		}
	}
	return out
}

func runC32TLB(cs c32TLBCase) (string, []lib.Problem) {
	if cs.History == "" {
		return runC32TLBOnce(cs, 0, false)
	}
	cuts := tlbCutTimes(cs)
	if cuts == nil {
		return "tlb reference-run-failed", nil
	}
	var probs []lib.Problem
	seen := map[string]bool{}
	outcomes := map[string]bool{}
	for ci, t := range cuts {
		if cs.Cut >= 0 && ci != cs.Cut {
			continue
		}
		out, p := runC32TLBOnce(cs, t, true)
		outcomes[out] = true
		if c32Ctx != nil {
			c32Ctx.Add("cut_points_explored", 1)
			c32Ctx.Outcome(out)
		}
		for _, pr := range p {
			if !seen[pr.Key] {
				seen[pr.Key] = true
				pr.What = fmt.Sprintf("cut #%d (t=%d): %s", ci, t, pr.What)
				probs = append(probs, pr)
			}
		}
	}
	return fmt.Sprintf("tlb %s %d-outcomes", cs.History, len(outcomes)), probs
}

func runC32TLBOnce(cs c32TLBCase, cutTime uint64, controlled bool) (string, []lib.Problem) {
	sc := buildTLBScene(cs.VAddrs, cs.TLBLat, cs.ProvLat)
	defer sc.env.Close()
	hist := cs.History
	if hist == "" {
		hist = "no-control"
	}
	var ctrl *simx.Controller
	if controlled {
		ctrl = simx.NewController(sc.env, "Ctrl", historySteps(cs.History, 1), []messaging.RemotePort{sc.tlb.GetPortByName("Control").AsRemote()}, 2)
		sc.conn.PlugIn(ctrl.GetPortByName("Ctrl"))
	}
	tlog, _ := attachTracers(sc.env)
	attachBufferTracers(sc.env)
	sc.driver.TickLater()
	var msg string
	if controlled {
		msg, _ = lib.CatchStack(func() {
			_ = sc.env.Eng.RunUntil(timing.VTimeInPicoSec(cutTime))
			ctrl.Start()
		})
	}
	if msg == "" {
		msg = runBounded(sc.env)
	}
	if msg != "" {
		if strings.HasPrefix(msg, "HORIZON") {
			return "tlb " + hist + " not-quiescent", nil
		}
		c32Stats.panics++
		if c32Ctx != nil && c32Stats.panics <= 1 {
			c32Ctx.Note("not judged, run panics: TLB script %x history %s cut t=%d: %s", cs.VAddrs, hist, cutTime, msg)
		}
		return "tlb " + hist + " run-panics(not-judged)", nil
	}
	memFamily = ""
	resetHist := strings.Contains(cs.History, "reset")
	allAnswered := sc.driver.State.Answered == sc.nReq
	tp, stats := judgeTrace(*tlog, resetHist || allAnswered, resetHist)
	var probs []lib.Problem
	seen := map[string]bool{}
	for _, p := range tp {
		k := p.clause + ":" + p.where
		if seen[k] {
			continue
		}
		seen[k] = true
		probs = append(probs, lib.Problem{Key: "trace:" + p.clause + ":" + p.where + ":" + histClass(cs.History),
			What: fmt.Sprintf("TLB(lat %d) over provider(lat %d), translations %x, history %s: %s", cs.TLBLat, cs.ProvLat, cs.VAddrs, hist, p.what)})
	}
	c32Stats.tasks += int64(stats["tasks"])
	c32Stats.milestones += int64(stats["milestones"])
	c32Stats.danglingEnds += int64(stats["ends-of-unstarted-tasks"])
	c32Stats.redundantEnds += int64(stats["redundant-ends-after-reset"])
	return fmt.Sprintf("tlb %s answered%d/%d", hist, sc.driver.State.Answered, sc.nReq), probs
}

func enumC32TLB(c *lib.Ctx, yield func(c32TLBCase) bool) {
	// page-aligned virtual addresses (what the address translator sends) on three
	// pages: repeats give TLB hits and MSHR merges, three pages overflow two ways
	alpha := []uint64{0x1000, 0x2000, 0x3000}
	k := lib.Pick(c, 2, 3)
	hists := append([]string{""}, c32Histories...)
	if !c.Thorough() {
		hists = []string{"", "reset", "pause-reset-enable", "drain-reset-enable", "pause-enable"}
	}
	for _, tl := range []int{2, 4} {
		for _, pl := range []int{1, 6} {
			for _, h := range hists {
				idx := make([]int, k)
				for {
					va := make([]uint64, k)
					for i, a := range idx {
						va[i] = alpha[a]
					}
					if !yield(c32TLBCase{VAddrs: va, TLBLat: tl, ProvLat: pl, History: h, Cut: -1}) {
						return
					}
					p := k - 1
					for p >= 0 {
						idx[p]++
						if idx[p] < len(alpha) {
							break
						}
						idx[p] = 0
						p--
					}
					if p < 0 {
						break
					}
				}
			}
		}
	}
}

package grpc2

// Script alphabet and enumeration helpers, copied from checks/sim/c16_transparent.go.

import (
	"fmt"

	"verif/harness/simx"
)

// opAlphabet builds the per-line operation alphabet: read 4 B (two offsets),
// read line, write full line, write partial (two offsets), write masked.
func opAlphabet(lines []uint64) []simx.MemOp {
	var out []simx.MemOp
	for _, l := range lines {
		out = append(out,
			simx.MemOp{Addr: l, Size: 4},
			simx.MemOp{Addr: l + 8, Size: 4},
			simx.MemOp{Addr: l, Size: simx.LineSize},
			simx.MemOp{Write: true, Addr: l, Size: simx.LineSize},
			simx.MemOp{Write: true, Addr: l, Size: 4},
			simx.MemOp{Write: true, Addr: l + 8, Size: 4},
			simx.MemOp{Write: true, Addr: l, Size: simx.LineSize, Mask: []bool{}},
		)
	}
	return out
}

// fillOp gives op number i of a script its unique payload (and mask pattern).
func fillOp(op simx.MemOp, i int) simx.MemOp {
	if !op.Write {
		return op
	}
	op.Data = make([]byte, op.Size)
	for k := range op.Data {
		op.Data[k] = byte(0x10*(i+1) + (k % 13) + 1)
	}
	if op.Mask != nil {
		op.Mask = make([]bool, op.Size)
		for k := range op.Mask {
			op.Mask[k] = (k/4+i)%2 == 0 // alternate 4-byte groups, phase depends on the op index
		}
	}
	return op
}

func enumScripts(alpha []simx.MemOp, k int, yield func([]simx.MemOp) bool) bool {
	idx := make([]int, k)
	for {
		ops := make([]simx.MemOp, k)
		for i, a := range idx {
			ops[i] = fillOp(alpha[a], i)
		}
		if !yield(ops) {
			return false
		}
		p := k - 1
		for p >= 0 {
			idx[p]++
			if idx[p] < len(alpha) {
				break
			}
			idx[p] = 0
			p--
		}
		if p < 0 {
			return true
		}
	}
}

func cloneOps(ops []simx.MemOp) []simx.MemOp {
	out := make([]simx.MemOp, len(ops))
	copy(out, ops)
	return out
}

func scriptString(ops []simx.MemOp) string {
	s := ""
	for _, op := range ops {
		k := "R"
		if op.Write {
			k = "W"
			if op.Mask != nil {
				k = "Wm"
			}
		}
		s += fmt.Sprintf("%s(%#x,%d) ", k, op.Addr, op.Size)
	}
	return s
}

func hasCache(cfg simx.ChainCfg) bool {
	for _, s := range cfg.Stages {
		if s != "rob" {
			return true
		}
	}
	return false
}

var dramKinds = []string{"dram-DDR4", "dram-DDR5", "dram-HBM2", "dram-HBM3", "dram-GDDR6"}

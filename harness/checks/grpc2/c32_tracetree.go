package grpc2

import (
	"fmt"
	"regexp"
	"runtime/debug"
	"sort"
	"strings"

	"github.com/sarchlab/akita/v5/mem/memcontrolprotocol"
	"github.com/sarchlab/akita/v5/messaging"
	"github.com/sarchlab/akita/v5/timing"

	"verif/harness/lib"
	"verif/harness/simx"
)

// C32: traces are well-formed task trees.
//
// A recording tracer sits on every component and buffer tracing on every port.
// The trace of a run is judged once the run is quiescent (the engine has no
// event left). Control histories are started at EVERY cut (each distinct event
// time of the uncontrolled run) while the scripted traffic is in flight.

type c32Case struct {
	Cfg     simx.ChainCfg `json:"cfg"`
	Ops     []simx.MemOp  `json:"ops"`
	History string        `json:"history"`        // "" = no control traffic
	Prefix  int           `json:"prefix"`         // the history addresses the top Prefix control ports of the chain
	Cut     int           `json:"cut"`            // index into the cut times; -1 = every cut in turn
	TLB     *c32TLBCase   `json:"tlb,omitempty"`  // instead of all the above: the translation scenario
	Slow    string        `json:"slow,omitempty"` // the requester retrieves its responses slowly: every4 | hold12
}

var c32Histories = []string{"reset", "pause-reset-enable", "drain-reset-enable", "reset-twice", "pause-enable", "drain-enable"}

// historySteps builds the control script over the top `prefix` control ports
// (index 0 = top of the chain). Resets go bottom-up so that no component that
// stays un-reset is left waiting for work dropped below it; pauses and drains
// go top-down, enables bottom-up (the order the protocol documents).
func historySteps(history string, prefix int) []simx.CtrlStep {
	var steps []simx.CtrlStep
	add := func(cmd memcontrolprotocol.Command, topDown bool) {
		if topDown {
			for i := 0; i < prefix; i++ {
				steps = append(steps, simx.CtrlStep{Target: i, Cmd: int(cmd)})
			}
		} else {
			for i := prefix - 1; i >= 0; i-- {
				steps = append(steps, simx.CtrlStep{Target: i, Cmd: int(cmd)})
			}
		}
	}
	switch history {
	case "reset":
		add(memcontrolprotocol.CmdReset, false)
	case "pause-reset-enable":
		add(memcontrolprotocol.CmdPause, true)
		add(memcontrolprotocol.CmdReset, false)
		add(memcontrolprotocol.CmdEnable, false)
	case "drain-reset-enable":
		add(memcontrolprotocol.CmdDrain, true)
		add(memcontrolprotocol.CmdReset, false)
		add(memcontrolprotocol.CmdEnable, false)
	case "reset-twice":
		add(memcontrolprotocol.CmdReset, false)
		add(memcontrolprotocol.CmdReset, false)
	case "pause-enable":
		add(memcontrolprotocol.CmdPause, true)
		add(memcontrolprotocol.CmdEnable, false)
	case "drain-enable":
		add(memcontrolprotocol.CmdDrain, true)
		add(memcontrolprotocol.CmdEnable, false)
	default:
		panic("unknown history " + history)
	}
	return steps
}

// histClass groups the histories for problem keys: what matters for a trace
// defect is whether work was dropped by a Reset.
func histClass(h string) string {
	switch {
	case h == "":
		return "no-control"
	case strings.Contains(h, "reset"):
		return "with-reset"
	}
	return "pause-drain-enable"
}

// ---- the oracle ---------------------------------------------------------------------------

type taskRec struct {
	starts, ends  int
	start, end    uint64
	kind, what    string
	location, dom string
}

var digitsRe = regexp.MustCompile(`[0-9]+`)

// compClass turns "S0WB" into "WB", "Mem1" into "Mem": the component type, not the instance.
func compClass(domain string) string {
	if i := strings.Index(domain, "."); i > 0 {
		domain = domain[:i]
	}
	c := strings.TrimPrefix(digitsRe.ReplaceAllString(domain, ""), "S")
	if c == "Mem" && memFamily != "" {
		c = memFamily
	}
	return c
}

// memFamily names the memory model of the assembly being judged (the component
// is called MemN whatever its type).
var memFamily string

func memFamilyOf(kind string) string {
	switch {
	case strings.HasPrefix(kind, "dram"):
		return "DRAM"
	case strings.HasPrefix(kind, "banked"):
		return "BankedMem"
	}
	return "IdealMem"
}

type traceProblem struct{ clause, where, what string }

// judgeTrace applies the statement to one recorded trace.
//
// resetHistory: the reset helpers end "every task a transaction could hold"
// without tracking which are still open, and the library documents that
// consumers ignore such redundant ends (tracing/reset_test.go: "emits the end
// unconditionally; the consumer ignores unknown IDs"). In a history that
// contains a Reset a second end of an already ended task is therefore counted,
// not judged; the task's lifetime is [start, first end] in every case.
func judgeTrace(log []traceEvent, quiescent, resetHistory bool) (probs []traceProblem, stats map[string]int) {
	stats = map[string]int{}
	tasks := map[uint64]*taskRec{}
	add := func(clause, where, f string, a ...any) {
		probs = append(probs, traceProblem{clause, where, fmt.Sprintf(f, a...)})
	}
	for _, e := range log {
		switch e.Op {
		case "start":
			stats["starts"]++
			if t, ok := tasks[e.ID]; ok {
				t.starts++
				add("task-started-twice", e.Kind+"@"+compClass(e.Domain), "task %d (%s %s at %s) is started again at %d (first start %d as %s %s at %s)", e.ID, e.Kind, e.What, e.Location, e.Time, t.start, t.kind, t.what, t.location)
				continue
			}
			tasks[e.ID] = &taskRec{starts: 1, start: e.Time, kind: e.Kind, what: e.What, location: e.Location, dom: e.Domain}
		case "end":
			t, ok := tasks[e.ID]
			if !ok {
				// EndTaskOnReset documents ending tasks that were never opened as a
				// harmless no-op; the statement speaks about started tasks only.
				stats["ends-of-unstarted-tasks"]++
				continue
			}
			stats["ends"]++
			t.ends++
			if t.ends == 1 {
				t.end = e.Time
				if e.Time < t.start {
					add("task-ends-before-start", t.kind+"@"+compClass(t.dom), "task %d (%s %s at %s) starts at %d and ends at %d", e.ID, t.kind, t.what, t.location, t.start, e.Time)
				}
			} else if resetHistory {
				stats["redundant-ends-after-reset"]++
			} else {
				add("task-ended-twice", t.kind+"@"+compClass(t.dom), "task %d (%s %s at %s, started %d) is ended at %d and again at %d", e.ID, t.kind, t.what, t.location, t.start, t.end, e.Time)
			}
		}
	}
	for _, e := range log {
		if e.Op != "milestone" && e.Op != "tag" {
			continue
		}
		stats[e.Op+"s"]++
		t, ok := tasks[e.TaskID]
		if !ok {
			add(e.Op+"-names-unstarted-task", compClass(e.Domain), "%s %q (%s) emitted by %s at %d names task %d, which was never started", e.Op, e.What, e.Kind, e.Domain, e.Time, e.TaskID)
			continue
		}
		if e.Time < t.start || (t.ends > 0 && e.Time > t.end) {
			add(e.Op+"-outside-lifetime", t.kind+"@"+compClass(t.dom), "%s %q at %d on task %d (%s %s at %s), whose lifetime is [%d, %d]", e.Op, e.What, e.Time, e.TaskID, t.kind, t.what, t.location, t.start, t.end)
		}
	}
	if quiescent {
		ids := make([]uint64, 0, len(tasks))
		for id := range tasks {
			ids = append(ids, id)
		}
		sort.Slice(ids, func(i, j int) bool { return ids[i] < ids[j] })
		for _, id := range ids {
			if t := tasks[id]; t.ends == 0 {
				add("task-never-ended", t.kind+"@"+compClass(t.dom), "task %d (%s %s at %s, started %d) is still open when the run is quiescent", id, t.kind, t.what, t.location, t.start)
			}
		}
	}
	kinds := map[string]map[string]bool{}
	for _, t := range tasks {
		if kinds[t.location] == nil {
			kinds[t.location] = map[string]bool{}
		}
		kinds[t.location][t.kind] = true
	}
	locs := make([]string, 0, len(kinds))
	for l := range kinds {
		locs = append(locs, l)
	}
	sort.Strings(locs)
	for _, l := range locs {
		if len(kinds[l]) > 1 {
			var ks []string
			for k := range kinds[l] {
				ks = append(ks, k)
			}
			sort.Strings(ks)
			add("location-hosts-several-kinds", strings.Join(ks, "+")+"@"+compClass(l), "location %q hosts tasks of kinds %v", l, ks)
		}
	}
	stats["tasks"] = len(tasks)
	stats["locations"] = len(kinds)
	return probs, stats
}

func slowTag(slow string) string {
	if slow == "" {
		return ""
	}
	return " [requester retrieves " + slow + "]"
}

// ---- running one traced scenario --------------------------------------------------------------

var c32Ctx *lib.Ctx

// c32CutTimes runs the uncontrolled workload and returns its distinct event times.
func c32CutTimes(cfg simx.ChainCfg, ops []simx.MemOp) []uint64 {
	ch := buildChainIn(simx.NewLight(), cfg, cloneOps(ops))
	defer ch.Env.Close()
	tr := ch.Env.TraceEvents()
	ch.Driver.TickLater()
	if msg := ch.Env.Run(200000); msg != "" {
		return nil
	}
	var out []uint64
	for _, e := range tr.Events {
		if len(out) == 0 || out[len(out)-1] != e.Time {
			out = append(out, e.Time)
		}
	}
	return out
}

func runC32(cs c32Case) (string, []lib.Problem) {
	if cs.TLB != nil {
		return runC32TLB(*cs.TLB)
	}
	if cs.History == "" {
		return runC32Once(cs, 0, false)
	}
	cuts := c32CutTimes(cs.Cfg, cs.Ops)
	if cuts == nil {
		return "reference-run-failed", nil
	}
	var probs []lib.Problem
	seen := map[string]bool{}
	outcomes := map[string]bool{}
	for ci, t := range cuts {
		if cs.Cut >= 0 && ci != cs.Cut {
			continue
		}
		out, p := runC32Once(cs, t, true)
		outcomes[out] = true
		if c32Ctx != nil {
			c32Ctx.Add("cut_points_explored", 1)
			c32Ctx.Outcome(out)
		}
		for _, pr := range p {
			if !seen[pr.Key] {
				seen[pr.Key] = true
				pr.What = fmt.Sprintf("cut #%d (t=%d): %s", ci, t, pr.What)
				probs = append(probs, pr)
			}
		}
	}
	return fmt.Sprintf("%s/p%d %d-outcomes", cs.History, cs.Prefix, len(outcomes)), probs
}

func runC32Once(cs c32Case, cutTime uint64, controlled bool) (string, []lib.Problem) {
	env := simx.NewLight()
	ch := buildChainSlow(env, cs.Cfg, cloneOps(cs.Ops), cs.Slow)
	defer env.Close()
	hist := cs.History
	if hist == "" {
		hist = "no-control"
	}
	var probs []lib.Problem
	bad := func(clause, where, f string, a ...any) {
		probs = append(probs, lib.Problem{Key: "trace:" + clause + ":" + where + ":" + histClass(cs.History),
			What: fmt.Sprintf("%s%s script %s history %s/p%d: ", cs.Cfg.Name(), slowTag(cs.Slow), scriptString(cs.Ops), hist, cs.Prefix) + fmt.Sprintf(f, a...)})
	}

	var ctrl *simx.Controller
	if controlled {
		var targets []messaging.RemotePort
		for i := 0; i < cs.Prefix && i < len(ch.Controls); i++ {
			targets = append(targets, ch.Controls[i].AsRemote())
			ch.Conn.PlugIn(ch.Controls[i])
		}
		ctrl = simx.NewController(env, "Ctrl", historySteps(cs.History, len(targets)), targets, 2)
		ch.Conn.PlugIn(ctrl.GetPortByName("Ctrl"))
	}
	// observers last, so that the controller and its port are covered too
	tlog, _ := attachTracers(env)
	attachBufferTracers(env)

	ch.Driver.TickLater()
	var msg string
	if controlled {
		msg, _ = lib.CatchStack(func() {
			_ = env.Eng.RunUntil(timing.VTimeInPicoSec(cutTime))
			ctrl.Start()
		})
	}
	if msg == "" {
		msg = runBounded(env)
	}
	if msg != "" {
		// not quiescent: the statement says nothing (a run that fails or never
		// settles is the business of C16/C18/C33, not of this property)
		if strings.HasPrefix(msg, "HORIZON") {
			return hist + " not-quiescent", nil
		}
		c32Stats.panics++
		if c32Ctx != nil && c32Stats.panics <= 1 {
			c32Ctx.Note("not judged, run panics: %s script %s history %s/p%d cut t=%d: %s", cs.Cfg.Name(), scriptString(cs.Ops), hist, cs.Prefix, cutTime, msg)
		}
		return hist + " run-panics(not-judged)", nil
	}
	ctrlDone := "-"
	if ctrl != nil {
		ctrlDone = fmt.Sprintf("ctl%d/%d", ctrl.State.Next, len(ctrl.Steps))
	}
	memFamily = memFamilyOf(cs.Cfg.Memory)
	// quiescent: the engine has no event left and, unless a Reset dropped work on
	// purpose, every scripted request has been answered (a request that hangs for a
	// functional reason is the business of C16/C25, and its tasks are then open
	// because the work is, not because the trace is malformed)
	resetHist := strings.Contains(cs.History, "reset")
	tp, stats := judgeTrace(*tlog, resetHist || ch.Driver.Done(), resetHist)
	seen := map[string]bool{}
	for _, p := range tp {
		k := p.clause + ":" + p.where
		if seen[k] {
			continue
		}
		seen[k] = true
		bad(p.clause, p.where, "%s", p.what)
	}
	c32Stats.tasks += int64(stats["tasks"])
	c32Stats.milestones += int64(stats["milestones"])
	c32Stats.tags += int64(stats["tags"])
	c32Stats.danglingEnds += int64(stats["ends-of-unstarted-tasks"])
	c32Stats.redundantEnds += int64(stats["redundant-ends-after-reset"])
	c32Stats.locations += int64(stats["locations"])
	done := "all-answered"
	if !ch.Driver.Done() {
		done = "requests-dropped"
	}
	return fmt.Sprintf("%s%s %v+%s %s %s", hist, slowTag(cs.Slow), cs.Cfg.Stages, cs.Cfg.Memory, done, ctrlDone), probs
}

var c32Stats struct{ tasks, milestones, tags, danglingEnds, redundantEnds, locations, panics int64 }

// ---- enumeration --------------------------------------------------------------------------------

func enumC32(c *lib.Ctx, yield func(c32Case) bool) {
	lines := simx.SameSetLines(3)
	alpha2 := opAlphabet(lines[:2])
	alpha3 := opAlphabet(lines[:3])
	// (1) the memory-hierarchy scenarios without control traffic
	for _, cfg := range c33Configs(c) {
		if !enumScripts(lib.Pick(c, alpha2, alpha3), 2, func(ops []simx.MemOp) bool { return yield(c32Case{Cfg: cfg, Ops: ops, Cut: -1}) }) {
			return
		}
	}
	for _, cfg := range c33Configs(c) {
		if hasCache(cfg) && cfg.Memory == "ideal" && cfg.NumMem == 1 && cfg.Lat == 1 && cfg.Eager && (c.Thorough() || len(cfg.Stages) <= 1 || cfg.Stages[0] == "wt-through") {
			if !enumScripts(alpha2, 3, func(ops []simx.MemOp) bool { return yield(c32Case{Cfg: cfg, Ops: ops, Cut: -1}) }) {
				return
			}
		}
	}
	// (1b) back-pressure: every kind of agent once directly under a requester that
	// is slow to retrieve its responses, with port buffers of 1 (and 4), so that the
	// agent finds its output port full and has to retry: k=2 over the full
	// alphabet and write-heavy k=3 scripts
	var wAlpha []simx.MemOp // read4, write line, write4@0, write4@8, masked write on two lines
	for i, op := range alpha2 {
		if k := i % 7; k == 0 || k >= 3 {
			wAlpha = append(wAlpha, op)
		}
	}
	for _, st := range [][]string{{}, {"rob"}, {"wb"}, {"wt-around"}, {"wt-evict"}, {"wt-through"}, {"wt-through", "wb"}} {
		for _, m := range []string{"banked1", "banked2", "ideal", "dram-DDR4"} {
			if len(st) > 0 && !c.Thorough() && (m == "banked1" || m == "dram-DDR4") && st[0] != "wb" {
				continue // quick: every memory kind directly and under wb; the other stacks over banked2 and ideal
			}
			for _, nm := range []int{1, 2} {
				if nm == 2 && (len(st) > 0 || m == "dram-DDR4") {
					continue
				}
				for _, buf := range lib.Pick(c, []int{1}, []int{1, 4}) {
					for _, slow := range slowModes {
						cfg := simx.ChainCfg{Stages: st, Memory: m, NumMem: nm, PortBuf: buf, Lat: 1, MSHR: 2, Eager: true}
						y := func(ops []simx.MemOp) bool { return yield(c32Case{Cfg: cfg, Ops: ops, Cut: -1, Slow: slow}) }
						if !enumScripts(alpha2, 2, y) {
							return
						}
						if (len(st) == 0 || c.Thorough()) && !enumScripts(wAlpha, 3, y) {
							return
						}
					}
				}
			}
		}
	}
	// (2) control histories started at every cut, traffic in flight
	var ctlAlpha []simx.MemOp // thorough: read4, read line, write line, write4@8, masked write; quick: without the masked write
	for i, op := range alpha2 {
		k := i % 7
		if k == 0 || k == 2 || k == 3 || k == 5 || (k == 6 && c.Thorough()) {
			ctlAlpha = append(ctlAlpha, op)
		}
	}
	type ctlCfg struct {
		stages []string
		mem    string
	}
	var cfgs []ctlCfg
	if c.Thorough() {
		for _, st := range [][]string{{}, {"wb"}, {"wt-through"}, {"rob"}, {"wt-evict", "wb"}, {"wb", "wb"}, {"rob", "wb"},
			{"wt-around"}, {"wt-evict"}, {"wt-through", "wb"}, {"rob", "wt-through", "wb"}} {
			for _, m := range []string{"ideal", "banked2", "dram-DDR4", "banked1", "dram-HBM2-open"} {
				cfgs = append(cfgs, ctlCfg{st, m})
			}
		}
	} else {
		for _, st := range [][]string{{}, {"wb"}, {"wt-through"}, {"rob"}, {"wt-evict", "wb"}, {"wb", "wb"}} {
			cfgs = append(cfgs, ctlCfg{st, "ideal"})
		}
		for _, m := range []string{"banked2", "dram-DDR4"} {
			cfgs = append(cfgs, ctlCfg{[]string{}, m}, ctlCfg{[]string{"wb"}, m})
		}
	}
	hists := c32Histories
	if !c.Thorough() {
		hists = []string{"reset", "pause-reset-enable", "drain-reset-enable", "pause-enable"}
	}
	for _, cc := range cfgs {
		cfg := simx.ChainCfg{Stages: cc.stages, Memory: cc.mem, NumMem: 1, PortBuf: 4, Lat: 1, MSHR: 2, Eager: true}
		nCtl := len(cc.stages) + 1
		for _, h := range hists {
			for p := 1; p <= nCtl; p++ {
				if !enumScripts(ctlAlpha, 2, func(ops []simx.MemOp) bool {
					return yield(c32Case{Cfg: cfg, Ops: ops, History: h, Prefix: p, Cut: -1})
				}) {
					return
				}
			}
		}
	}
}

func enumC32All(c *lib.Ctx, yield func(c32Case) bool) {
	cont := true
	// the translation scenario first: it is the smallest
	enumC32TLB(c, func(t c32TLBCase) bool {
		tc := t
		cont = yield(c32Case{TLB: &tc, Cut: -1})
		return cont
	})
	if cont {
		enumC32(c, yield)
	}
}

func init() {
	lib.Register(&lib.Check{
		ID:    "C32",
		Level: "exploration",
		Rule: "small-scope simulation on the real components with a recording tracer on every component and incoming+outgoing buffer tracing on every port. (1) Every assembly of the C33 catalogue x every k=2 script over {read4@0, read4@8, read line, write line, write4@0, write4@8, masked write} x 2 [thorough 3] same-set lines, plus k=3 on cache-bearing eager assemblies over ideal memory. " +
			"(1b) Back-pressure: stacks {none, rob, wb, wt-around, wt-evict, wt-through, wt-through>wb} over {banked 1/2 banks, ideal, DDR4} (quick: every memory kind directly and under wb, the other stacks over banked2 and ideal; two interleaved controllers for the stage-less banked/ideal ones) with port buffers of 1 [thorough: and 4], eager issue and a requester that retrieves its responses only every 4th tick / not before tick 12, so that the agent below finds its output port full and retries: every k=2 script over the 7 operations x 2 lines, and write-heavy k=3 scripts (5 operations x 2 lines) on the stage-less assemblies [thorough: everywhere]. " +
			"(2) Control histories {reset, pause-reset-enable, drain-reset-enable, pause-enable [thorough + reset-twice, drain-enable]} addressed to every top-down prefix of the chain's control ports (caches/ROB first, memory last; pauses and drains top-down, resets and enables bottom-up) on stacks {none, wb, wt-through, rob, wt-evict>wb, wb>wb} over ideal memory and {none, wb} over {banked2, DDR4} [thorough: 11 stacks x 5 memories], x every k=2 script over 4 [5] operations x 2 lines issued eagerly, with the history started at EVERY distinct event time of the uncontrolled run (traffic in flight). " +
			"(3) A translation scenario: scripted requester -> real TLB (1 set x 2 ways, MSHR 2, latency {2,4}) -> stub provider (latency {1,6}), every k=2 [thorough 3] sequence over 4 virtual addresses on 3 pages, without control traffic and with each of the six histories on the TLB's control port started at every cut. " +
			"Oracle, once the engine has no event left: no task ID is started twice; every started task is ended exactly once with end >= start; every milestone and tag names a task that was started and carries a time inside that task's [start, end]; every location hosts tasks of one kind only. Ends of never-started tasks, and in histories containing a Reset second ends of already ended tasks (both documented as harmless products of the blanket end-on-reset helpers), are counted, not judged; a task's lifetime is [start, first end]. Runs that panic or do not settle are counted, not judged. A case = (assembly, script, history, prefix); cut_points_explored counts the controlled runs.",
		Sharded:     true,
		MinOutcomes: 20,
		Assumptions: []string{
			"quiescent = the engine ran out of events within 10 us of simulated time and, in histories without a Reset, every scripted request was answered; otherwise the still-open-task clause is not judged (the other clauses are)",
			"resets are issued bottom-up over a top-down prefix of the chain, so that no component that stays un-reset is left waiting for work dropped below it (the protocol's documented consequence of a Reset); only the scripted requester can be left waiting, and it emits no tasks of its own",
			"milestones are placed by their time stamp, not by call order",
		},
		Run: func(c *lib.Ctx) {
			c32Ctx = c
			// every run builds a fresh engine and assembly: let the heap grow instead of
			// collecting every few runs (the workers are short-lived)
			defer debug.SetGCPercent(debug.SetGCPercent(1000))
			lib.Cases(c, func(y func(c32Case) bool) { enumC32All(c, y) }, runC32)
			lib.CleanScratch()
			c.Add("tasks_seen", c32Stats.tasks)
			c.Add("milestones_seen", c32Stats.milestones)
			c.Add("tags_seen", c32Stats.tags)
			c.Add("locations_seen", c32Stats.locations)
			c.Add("ends_of_unstarted_tasks", c32Stats.danglingEnds)
			c.Add("redundant_ends_after_reset", c32Stats.redundantEnds)
			c.Add("runs_panicking_not_judged", c32Stats.panics)
			if c32Stats.tasks == 0 || c32Stats.milestones == 0 {
				c.InternalError("the recording tracer saw no tasks or no milestones in this worker")
			}
		},
		Replay: lib.ReplayCases(runC32),
	})
}

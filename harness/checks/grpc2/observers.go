// Package grpc2 holds the tracing-related simulation checks C33 and C32.
package grpc2

import (
	"reflect"

	"github.com/sarchlab/akita/v5/hooking"
	"github.com/sarchlab/akita/v5/timing"
	"github.com/sarchlab/akita/v5/tracing"

	"verif/harness/simx"
)

// traceEvent is one call a recording tracer received.
type traceEvent struct {
	Op       string // start | end | tag | milestone
	ID       uint64 // task ID (start/end) or the tag's / milestone's own ID
	TaskID   uint64 // owning task of a tag / milestone
	ParentID uint64
	Kind     string
	What     string
	Location string
	Time     uint64
	Domain   string // component the tracer call came from
}

// recTracer records every tracer call made on one component.
type recTracer struct {
	domain string
	log    *[]traceEvent
}

func (r *recTracer) StartTask(t tracing.TaskStart) {
	*r.log = append(*r.log, traceEvent{Op: "start", ID: t.ID, ParentID: t.ParentID, Kind: t.Kind, What: t.What, Location: t.Location, Time: uint64(t.Time), Domain: r.domain})
}

func (r *recTracer) EndTask(t tracing.TaskEnd) {
	*r.log = append(*r.log, traceEvent{Op: "end", ID: t.ID, Time: uint64(t.Time), Domain: r.domain})
}

func (r *recTracer) AddTaskTag(t tracing.TaskTag) {
	*r.log = append(*r.log, traceEvent{Op: "tag", ID: t.ID, TaskID: t.TaskID, What: t.What, Time: uint64(t.Time), Domain: r.domain})
}

func (r *recTracer) AddMilestone(m tracing.Milestone) {
	*r.log = append(*r.log, traceEvent{Op: "milestone", ID: m.ID, TaskID: m.TaskID, Kind: string(m.Kind), What: m.What, Time: uint64(m.Time), Domain: r.domain})
}

// attachTracers puts a recording tracer on every registered component that can
// be traced and returns the shared log and the number of components covered.
func attachTracers(env *simx.Env) (*[]traceEvent, int) {
	log := &[]traceEvent{}
	n := 0
	for _, c := range env.Components() {
		if d, ok := c.(tracing.NamedHookable); ok {
			tracing.CollectTrace(d, &recTracer{domain: c.Name(), log: log})
			n++
		}
	}
	return log, n
}

// attachBufferTracers enables incoming/outgoing buffer tracing on every port.
func attachBufferTracers(env *simx.Env) int {
	for _, p := range env.Ports() {
		tracing.CollectIncomingBufferTrace(p)
		tracing.CollectOutgoingBufferTrace(p)
	}
	return len(env.Ports())
}

// countHook counts its invocations and never touches what it observes.
type countHook struct{ n int }

func (h *countHook) Func(hooking.HookCtx) { h.n++ }

func attachPortHooks(env *simx.Env) *countHook {
	h := &countHook{}
	for _, p := range env.Ports() {
		p.AcceptHook(h)
	}
	return h
}

type engineHook struct{ before, after int }

// engineHookHorizon bounds a hooked run by its number of events (an unhooked
// run is bounded in simulated time only, see runBounded).
const engineHookHorizon = 400000

func (h *engineHook) Func(ctx hooking.HookCtx) {
	switch ctx.Pos {
	case timing.HookPosBeforeEvent:
		h.before++
		if h.before > engineHookHorizon {
			panic("HORIZON: more than 400000 events under the engine hook")
		}
	case timing.HookPosAfterEvent:
		h.after++
	}
}

var hookableType = reflect.TypeOf((*hooking.Hookable)(nil)).Elem()

// attachBufferHooks walks the exported State of every component and hooks every
// queueing.Buffer (anything hookable that is not itself a component or port)
// reachable through exported fields, slices and arrays.
func attachBufferHooks(env *simx.Env) (*countHook, int) {
	h := &countHook{}
	n := 0
	var walk func(v reflect.Value, depth int)
	walk = func(v reflect.Value, depth int) {
		if depth > 6 {
			return
		}
		switch v.Kind() {
		case reflect.Struct:
			if v.CanAddr() && v.Addr().CanInterface() && v.Addr().Type().Implements(hookableType) {
				v.Addr().Interface().(hooking.Hookable).AcceptHook(h)
				n++
				return
			}
			for i := 0; i < v.NumField(); i++ {
				if v.Type().Field(i).IsExported() {
					walk(v.Field(i), depth+1)
				}
			}
		case reflect.Slice, reflect.Array:
			for i := 0; i < v.Len(); i++ {
				walk(v.Index(i), depth+1)
			}
		}
	}
	for _, c := range env.Components() {
		cv := reflect.ValueOf(c)
		for cv.Kind() == reflect.Pointer || cv.Kind() == reflect.Interface {
			if cv.IsNil() {
				break
			}
			cv = cv.Elem()
		}
		if cv.Kind() != reflect.Struct {
			continue
		}
		// Comp types embed *modeling.Component[Spec, State, Resources]; State is a field of it
		var findState func(v reflect.Value, depth int) (reflect.Value, bool)
		findState = func(v reflect.Value, depth int) (reflect.Value, bool) {
			if depth > 3 || v.Kind() != reflect.Struct {
				return reflect.Value{}, false
			}
			if f := v.FieldByName("State"); f.IsValid() && f.CanAddr() && f.Kind() == reflect.Struct {
				return f, true
			}
			for i := 0; i < v.NumField(); i++ {
				f := v.Field(i)
				if !v.Type().Field(i).Anonymous {
					continue
				}
				for f.Kind() == reflect.Pointer && !f.IsNil() {
					f = f.Elem()
				}
				if s, ok := findState(f, depth+1); ok {
					return s, true
				}
			}
			return reflect.Value{}, false
		}
		if st, ok := findState(cv, 0); ok {
			walk(st, 0)
		}
	}
	return h, n
}

package grpc2

import (
	"fmt"

	"github.com/sarchlab/akita/v5/mem"
	"github.com/sarchlab/akita/v5/mem/cache/writeback"
	"github.com/sarchlab/akita/v5/mem/cache/writethroughcache"
	"github.com/sarchlab/akita/v5/mem/dram"
	"github.com/sarchlab/akita/v5/mem/idealmemcontroller"
	"github.com/sarchlab/akita/v5/mem/rob"
	"github.com/sarchlab/akita/v5/mem/simplebankedmemory"
	"github.com/sarchlab/akita/v5/messaging"
	"github.com/sarchlab/akita/v5/noc/directconnection"

	"verif/harness/simx"
)

// buildChainIn is simx.BuildChain with the environment supplied by the caller
// (so that a customised simulation builder, e.g. with the DB tracer started, can
// be used). The body is a copy of simx.BuildChain.
func buildChainIn(env *simx.Env, cfg simx.ChainCfg, ops []simx.MemOp) *simx.Chain {
	return buildChainSlow(env, cfg, ops, "")
}

// buildChainSlow additionally selects the requester's response-retrieval mode
// (see slowdriver.go).
func buildChainSlow(env *simx.Env, cfg simx.ChainCfg, ops []simx.MemOp, slow string) *simx.Chain {
	ch := &simx.Chain{Env: env, Cfg: cfg}
	if cfg.NumMem < 1 {
		cfg.NumMem = 1
	}
	conn := directconnection.MakeBuilder().WithRegistrar(env).Build("Conn")
	ch.Conn = conn

	// memories
	var memRemotes []messaging.RemotePort
	for i := 0; i < cfg.NumMem; i++ {
		name := fmt.Sprintf("Mem%d", i)
		var comp messaging.Component
		var st *mem.Storage
		switch {
		case cfg.Memory == "ideal":
			spec := idealmemcontroller.DefaultSpec()
			spec.Capacity = 1 * mem.MB
			spec.Latency = cfg.Lat + 1
			spec.Width = 2
			c := idealmemcontroller.MakeBuilder().WithRegistrar(env).WithSpec(spec).Build(name)
			comp, st = c, c.Resources().Storage
		case cfg.Memory == "banked1" || cfg.Memory == "banked2":
			spec := simplebankedmemory.DefaultSpec()
			spec.Capacity = 1 * mem.MB
			spec.NumBanks = 1
			if cfg.Memory == "banked2" {
				spec.NumBanks = 2
			}
			spec.StageLatency = cfg.Lat + 1
			spec.BankPipelineDepth = 1 + cfg.Lat%2
			c := simplebankedmemory.MakeBuilder().WithRegistrar(env).WithSpec(spec).Build(name)
			comp, st = c, c.Resources().Storage
		default:
			spec, ok := simx.DRAMPreset(cfg.Memory)
			if !ok {
				panic("grpc2: unknown memory kind " + cfg.Memory)
			}
			if cfg.DRAMQ == 1 {
				spec.TransactionQueueSize = 2
				spec.CommandQueueCapacity = 2
			}
			c := dram.MakeBuilder().WithRegistrar(env).WithSpec(spec).Build(name)
			comp, st = c, c.Resources().Storage
			ch.DRAM = append(ch.DRAM, c)
		}
		env.AssignPorts(comp, cfg.PortBuf, "Top", "Control")
		conn.PlugIn(comp.GetPortByName("Top"))
		ch.MemTop = append(ch.MemTop, comp.GetPortByName("Top"))
		ch.MemComps = append(ch.MemComps, comp)
		ch.Backing = append(ch.Backing, st)
		memRemotes = append(memRemotes, comp.GetPortByName("Top").AsRemote())
	}
	mapper := func() mem.AddressToPortMapper {
		if len(memRemotes) == 1 {
			return &mem.SinglePortMapper{Port: memRemotes[0]}
		}
		m := mem.NewInterleavedAddressPortMapper(simx.LineSize)
		m.LowModules = append(m.LowModules, memRemotes...)
		return m
	}

	// stages, built bottom-up so that each knows its lower module
	below := mapper()
	var belowTop messaging.RemotePort
	if len(memRemotes) == 1 {
		belowTop = memRemotes[0]
	}
	var controls []messaging.Port
	for i := len(cfg.Stages) - 1; i >= 0; i-- {
		kind := cfg.Stages[i]
		name := fmt.Sprintf("S%d%s", i, map[string]string{"wb": "WB", "rob": "ROB", "wt-around": "WTA", "wt-evict": "WTE", "wt-through": "WTT"}[kind])
		var comp messaging.Component
		switch kind {
		case "wb":
			spec := writeback.DefaultSpec()
			spec.TotalByteSize = simx.LineSize * simx.CacheSets * simx.CacheWays
			spec.WayAssociativity = simx.CacheWays
			spec.Log2BlockSize = 6
			spec.NumMSHREntry = cfg.MSHR
			spec.NumReqPerCycle = 1 + cfg.Lat%2
			spec.BankLatency = cfg.Lat
			spec.DirLatency = cfg.Lat
			spec.WriteBufferCapacity = 2
			spec.MaxInflightFetch = 2
			spec.MaxInflightEviction = 2
			c := writeback.MakeBuilder().WithRegistrar(env).WithSpec(spec).
				WithResources(writeback.Resources{AddressToPortMapper: below}).Build(name)
			ch.WB = append([]*writeback.Comp{c}, ch.WB...)
			comp = c
		case "wt-around", "wt-evict", "wt-through":
			spec := writethroughcache.DefaultSpec()
			spec.TotalByteSize = simx.LineSize * simx.CacheSets * simx.CacheWays
			spec.WayAssociativity = simx.CacheWays
			spec.Log2BlockSize = 6
			spec.NumMSHREntry = cfg.MSHR
			spec.NumReqPerCycle = 1 + cfg.Lat%2
			spec.BankLatency = cfg.Lat
			spec.DirLatency = cfg.Lat
			spec.MaxNumConcurrentTrans = 4
			spec.WritePolicyType = map[string]string{"wt-around": "write-around", "wt-evict": "write-evict", "wt-through": "write-through"}[kind]
			c := writethroughcache.MakeBuilder().WithRegistrar(env).WithSpec(spec).
				WithResources(writethroughcache.Resources{AddressMapper: below}).Build(name)
			ch.WT = append([]*writethroughcache.Comp{c}, ch.WT...)
			comp = c
		case "rob":
			if belowTop == "" {
				panic("grpc2: a ROB needs a single lower module")
			}
			spec := rob.DefaultSpec()
			spec.BufferSize = 2 + cfg.Lat
			spec.NumReqPerCycle = 1 + cfg.Lat%2
			spec.BottomUnit = belowTop
			c := rob.MakeBuilder().WithRegistrar(env).WithSpec(spec).Build(name)
			ch.ROB = append([]*rob.Comp{c}, ch.ROB...)
			comp = c
		default:
			panic("grpc2: unknown stage kind " + kind)
		}
		env.AssignPorts(comp, cfg.PortBuf, "Top", "Bottom", "Control")
		conn.PlugIn(comp.GetPortByName("Top"))
		conn.PlugIn(comp.GetPortByName("Bottom"))
		controls = append([]messaging.Port{comp.GetPortByName("Control")}, controls...)
		belowTop = comp.GetPortByName("Top").AsRemote()
		below = &mem.SinglePortMapper{Port: belowTop}
	}
	for _, m := range ch.MemComps {
		controls = append(controls, m.GetPortByName("Control"))
	}
	ch.Controls = controls

	// driver
	var targets []messaging.RemotePort
	if belowTop != "" {
		targets = []messaging.RemotePort{belowTop}
	} else {
		// no stage above two interleaved memories: the driver picks by address
		targets = memRemotes
		for i := range ops {
			ops[i].Dst = int(ops[i].Addr / simx.LineSize % uint64(len(memRemotes)))
		}
	}
	ch.Driver = newDriver(env, "Driver", ops, cfg.Eager, targets, cfg.PortBuf, slow)
	conn.PlugIn(ch.Driver.GetPortByName("Mem"))
	return ch
}

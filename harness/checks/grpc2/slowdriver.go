package grpc2

import (
	"encoding/json"
	"fmt"

	"github.com/sarchlab/akita/v5/mem/memprotocol"
	"github.com/sarchlab/akita/v5/mem/vm"
	"github.com/sarchlab/akita/v5/messaging"
	"github.com/sarchlab/akita/v5/modeling"
	"github.com/sarchlab/akita/v5/timing"

	"verif/harness/simx"
)

// A requester that is slow to retrieve its responses, so that the agents below
// it see a full output port and have to retry (the classic place for double
// ends / double starts). It is simx.Driver with one change: responses are only
// retrieved on the ticks the slow mode allows. The middleware below is a copy of
// simx's driver middleware (which is unexported).
//
// Slow modes: "" = simx.Driver itself; "every4" = retrieve on every 4th tick
// only; "hold12" = retrieve nothing before tick 12, then on every tick.

var slowModes = []string{"every4", "hold12"}

type slowDriverMW struct {
	d    *simx.Driver
	slow string
}

func (m *slowDriverMW) mayRetrieve(ticks uint64) bool {
	switch m.slow {
	case "every4":
		return ticks%4 == 0
	case "hold12":
		return ticks >= 12
	}
	return true
}

func zeroOf[T any](s []T) T {
	var z T
	return z
}

func slowOverlaps(a, b simx.MemOp) bool {
	return a.Addr < b.Addr+b.Size && b.Addr < a.Addr+a.Size
}

func (m *slowDriverMW) Tick() bool {
	d := m.d
	st := &d.State
	spec := d.Spec()
	port := d.GetPortByName("Mem")
	progress := false
	st.Ticks++

	for m.mayRetrieve(st.Ticks) {
		msg := port.RetrieveIncoming()
		if msg == nil {
			break
		}
		progress = true
		meta := msg.Meta()
		idx := -1
		for i, f := range st.Inflight {
			if f.ReqID == meta.RspTo {
				idx = i
				break
			}
		}
		if idx < 0 {
			st.Anomalies = append(st.Anomalies, fmt.Sprintf("unexpected %T RspTo=%d from %s", msg, meta.RspTo, meta.Src))
			continue
		}
		f := st.Inflight[idx]
		st.Inflight = append(st.Inflight[:idx], st.Inflight[idx+1:]...)
		r := simx.DriverResult{Op: f.Op, IssuedAt: f.IssuedAt, DoneAt: uint64(d.CurrentTime()), ReqID: f.ReqID,
			Src: string(meta.Src), Dst: string(meta.Dst), Order: len(st.Results)}
		switch rsp := msg.(type) {
		case memprotocol.DataReadyRsp:
			r.Kind = "data"
			r.Data = append([]byte{}, rsp.Data...)
		case memprotocol.WriteDoneRsp:
			r.Kind = "done"
		default:
			r.Kind = fmt.Sprintf("%T", msg)
		}
		st.Results = append(st.Results, r)
	}

	for st.Next < len(d.Ops) {
		op := d.Ops[st.Next]
		if op.At > st.Ticks {
			progress = true
			break
		}
		if !spec.Eager && len(st.Inflight) > 0 {
			break
		}
		blocked := false
		for _, f := range st.Inflight {
			if slowOverlaps(d.Ops[f.Op], op) {
				blocked = true
				break
			}
		}
		if blocked || !port.CanSend() {
			break
		}
		pid := vm.PID(op.PID)
		if pid == 0 {
			pid = 1
		}
		id := timing.GetIDGenerator().Generate()
		var msg messaging.Msg
		if op.Write {
			req := memprotocol.WriteReq{}
			req.ID = id
			req.Src = port.AsRemote()
			req.Dst = spec.Targets[op.Dst]
			req.Address = op.Addr
			req.PID = pid
			req.Data = append([]byte{}, op.Data...)
			if op.Mask != nil {
				req.DirtyMask = append([]bool{}, op.Mask...)
			}
			req.TrafficBytes = len(op.Data) + 12
			req.TrafficClass = "memprotocol.WriteReq"
			msg = req
		} else {
			req := memprotocol.ReadReq{}
			req.ID = id
			req.Src = port.AsRemote()
			req.Dst = spec.Targets[op.Dst]
			req.Address = op.Addr
			req.AccessByteSize = op.Size
			req.PID = pid
			req.TrafficBytes = 12
			req.TrafficClass = "memprotocol.ReadReq"
			msg = req
		}
		port.Send(msg)
		f := zeroOf(st.Inflight) // the element type is unexported in simx; its fields are not
		f.Op, f.ReqID, f.IssuedAt = st.Next, id, uint64(d.CurrentTime())
		st.Inflight = append(st.Inflight, f)
		st.Next++
		progress = true
	}
	// keep ticking while answers are outstanding: they may already be waiting
	// in the port for a tick on which retrieval is allowed
	return progress || len(st.Inflight) > 0
}

// newDriver builds the scripted requester: simx's own for slow == "", the
// slow-retrieving variant otherwise.
func newDriver(e *simx.Env, name string, ops []simx.MemOp, eager bool, targets []messaging.RemotePort, portBuf int, slow string) *simx.Driver {
	if slow == "" {
		return simx.NewDriver(e, name, ops, eager, targets, portBuf)
	}
	script, err := json.Marshal(ops)
	if err != nil {
		panic(err)
	}
	spec := simx.DriverSpec{Freq: 1 * timing.GHz, Script: string(script), Eager: eager, Targets: targets}
	c := modeling.NewBuilder[simx.DriverSpec, simx.DriverState, modeling.None]().
		WithEngine(e.Eng).WithFreq(spec.Freq).WithSpec(spec).Build(name)
	c.State = simx.DriverState{Results: []simx.DriverResult{}, Anomalies: []string{}}
	c.DeclarePort("Mem", memprotocol.Requester)
	d := &simx.Driver{Component: c, Ops: append([]simx.MemOp{}, ops...)}
	c.AddMiddleware(&slowDriverMW{d: d, slow: slow})
	e.RegisterComponent(d)
	e.AssignPorts(d, portBuf, "Mem")
	return d
}

package grpb

// C03Scenarios yields a deterministic subset of the C29 (network) and C27
// (MMU) cases as opaque scenario runs, for the determinism check C03.
func C03Scenarios(thorough bool, yield func(name string, run func()) bool) {
	stride := 397
	if thorough {
		stride = 11
	}
	i := 0
	ok := true
	enumNetCases(false, func(cs netCase) bool {
		i++
		if i%stride != 0 {
			return true
		}
		c := cs
		ok = yield("net", func() { runNetCase(c) })
		return ok
	})
	if !ok {
		return
	}
	i = 0
	mstride := 12007
	if thorough {
		mstride = 401
	}
	enumMMUCases(false, func(cs mmuCase) bool {
		i++
		if i%mstride != 0 {
			return true
		}
		c := cs
		ok = yield("mmu", func() { runMMUCase(c) })
		return ok
	})
}

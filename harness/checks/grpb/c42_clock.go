// Package grpb holds the input-lattice checks C24, C30, C31, C42 and C43.
package grpb

import (
	"fmt"
	"math"
	"math/big"
	"sort"

	"github.com/sarchlab/akita/v5/timing"

	"verif/harness/lib"
)

// C42: clock arithmetic (timing.Freq) is exact.
//
// The statement speaks of "multiples of the period". For frequencies that do
// not divide 10^12 the period is not an integer number of picoseconds; the
// library defines Period() as the truncated quotient and every other function
// works on that integer. The reference therefore takes P := Freq.Period() — the
// period the library itself reports — and defines, in math/big,
//
//	ThisTick(t)        = ceil(t/P)*P
//	NextTick(t)        = (floor(t/P)+1)*P
//	NCyclesLater(n, t) = ThisTick(t) + n*P
//	Cycle(t)           = floor(t/P)
//
// A function is judged on an input only if the mathematically correct result
// fits in 64 bits (the statement's quantifier).

type clockCase struct {
	F uint64 `json:"f"` // frequency in Hz
	T uint64 `json:"t"` // time in ps
}

var two64 = new(big.Int).Lsh(big.NewInt(1), 64)

func fits64(x *big.Int) bool { return x.Sign() >= 0 && x.Cmp(two64) < 0 }

func clockFreqs(thorough bool) []uint64 {
	const ps = 1_000_000_000_000
	set := map[uint64]bool{}
	add := func(f uint64, spread uint64) {
		for d := uint64(0); d <= spread; d++ {
			for _, g := range []uint64{f - d, f + d} {
				if g >= 1 && g <= ps { // 1 Hz .. 1 THz; f-d wraps far above ps when d>f
					set[g] = true
				}
			}
		}
	}
	spread := uint64(1)
	maxP, maxHz := uint64(128), uint64(128)
	if thorough {
		spread, maxP, maxHz = 2, 1024, 1024
	}
	for p := uint64(1); p <= maxP; p++ {
		add(ps/p, spread) // the largest frequency whose truncated period is p
		// the smallest frequency whose truncated period is p
		add(ps/(p+1)+1, 0)
	}
	for f := uint64(1); f <= maxHz; f++ {
		add(f, spread)
	}
	pow := uint64(1)
	for k := 0; k <= 12; k++ {
		for d := uint64(1); d <= 9; d++ {
			if d*pow <= ps {
				add(d*pow, spread)
			}
		}
		pow *= 10
	}
	out := make([]uint64, 0, len(set))
	for f := range set {
		out = append(out, f)
	}
	sort.Slice(out, func(i, j int) bool { return out[i] < out[j] })
	return out
}

// clockTimes lists the lattice {q*P + r} near both ends of the 64-bit range.
func clockTimes(p uint64, thorough bool) []uint64 {
	nq := uint64(3) // q in {0,1,2} and the top 4 quotients
	if thorough {
		nq = 8
	}
	rs := map[uint64]bool{0: true, 1: true, 2: true, p / 2: true, p - 2: true, p - 1: true}
	if thorough {
		rs[3] = true
		rs[p/2-1] = true
		rs[p/2+1] = true
		rs[p-3] = true
		rs[p/3] = true
	}
	qtop := uint64(math.MaxUint64) / p
	qs := map[uint64]bool{}
	for q := uint64(0); q < nq; q++ {
		if q <= qtop {
			qs[q] = true
		}
		if qtop >= q+1 {
			qs[qtop-q-1] = true
		}
	}
	qs[qtop] = true
	set := map[uint64]bool{}
	P := new(big.Int).SetUint64(p)
	for q := range qs {
		for r := range rs {
			if r >= p { // also drops the wrapped values of p-2, p/2-1 … for tiny p
				continue
			}
			t := new(big.Int).Mul(new(big.Int).SetUint64(q), P)
			t.Add(t, new(big.Int).SetUint64(r))
			if fits64(t) {
				set[t.Uint64()] = true
			}
		}
	}
	set[math.MaxUint64] = true
	out := make([]uint64, 0, len(set))
	for t := range set {
		out = append(out, t)
	}
	sort.Slice(out, func(i, j int) bool { return out[i] < out[j] })
	return out
}

func runClockCase(cs clockCase) (string, []lib.Problem) {
	f := timing.Freq(cs.F)
	now := timing.VTimeInPicoSec(cs.T)
	var probs []lib.Problem

	var p uint64
	if msg := lib.Catch(func() { p = uint64(f.Period()) }); msg != "" || p == 0 {
		return "no-period", []lib.Problem{{Key: "clock:period:unusable",
			What: fmt.Sprintf("Freq(%d).Period() = %d (panic %q): no positive period inside 1 Hz..1 THz", cs.F, p, msg)}}
	}
	const ps = 1_000_000_000_000
	periodClass := "integer-period"
	if ps%cs.F != 0 {
		periodClass = "truncated-period"
	}
	posClass := "low"
	if cs.T/p > 16 {
		posClass = "near-2^64"
	}

	P := new(big.Int).SetUint64(p)
	T := new(big.Int).SetUint64(cs.T)
	fl := new(big.Int).Div(T, P) // floor(t/P)
	ce := new(big.Int).Set(fl)   // ceil(t/P)
	if new(big.Int).Mod(T, P).Sign() != 0 {
		ce.Add(ce, big.NewInt(1))
	}
	wantThis := new(big.Int).Mul(ce, P)
	wantNext := new(big.Int).Mul(new(big.Int).Add(fl, big.NewInt(1)), P)

	judged := 0
	bad := func(fn, format string, a ...any) {
		probs = append(probs, lib.Problem{
			Key:  fmt.Sprintf("clock:%s:%s:%s", fn, periodClass, posClass),
			What: fmt.Sprintf("f=%d Hz (period %d ps) t=%d: ", cs.F, p, cs.T) + fmt.Sprintf(format, a...),
		})
	}
	call := func(fn string, g func() uint64, want *big.Int) {
		if !fits64(want) {
			return
		}
		judged++
		var got uint64
		if msg := lib.Catch(func() { got = g() }); msg != "" {
			bad(fn, "%s panicked: %s (exact result %s fits in 64 bits)", fn, msg, want)
			return
		}
		if got != want.Uint64() {
			bad(fn, "%s = %d, exact result is %s", fn, got, want)
		}
	}

	call("Cycle", func() uint64 { return f.Cycle(now) }, fl)
	call("ThisTick", func() uint64 { return uint64(f.ThisTick(now)) }, wantThis)
	call("NextTick", func() uint64 { return uint64(f.NextTick(now)) }, wantNext)

	if fits64(wantThis) {
		// N in {0,1,2, largest N whose result fits (capped at MaxInt64)}
		room := new(big.Int).Sub(new(big.Int).Sub(two64, big.NewInt(1)), wantThis)
		maxN := new(big.Int).Div(room, P)
		if !maxN.IsInt64() {
			maxN.SetInt64(math.MaxInt64)
		}
		ns := []int64{0, 1, 2, maxN.Int64()}
		if maxN.Int64() > 0 {
			ns = append(ns, maxN.Int64()-1)
		}
		seen := map[int64]bool{}
		for _, n := range ns {
			if seen[n] || n < 0 {
				continue
			}
			seen[n] = true
			want := new(big.Int).Add(wantThis, new(big.Int).Mul(big.NewInt(n), P))
			n := n
			fnName := "NCyclesLater"
			before := len(probs)
			call(fnName, func() uint64 { return uint64(f.NCyclesLater(int(n), now)) }, want)
			if len(probs) > before {
				probs[len(probs)-1].What += fmt.Sprintf(" [n=%d]", n)
			}
		}
	}

	out := fmt.Sprintf("%s %s judged%d", periodClass, posClass, judged)
	return out, dedupeProblems(probs)
}

// dedupeProblems keeps the first problem of every key.
func dedupeProblems(in []lib.Problem) []lib.Problem {
	if len(in) < 2 {
		return in
	}
	seen := map[string]bool{}
	var out []lib.Problem
	for _, p := range in {
		if !seen[p.Key] {
			seen[p.Key] = true
			out = append(out, p)
		}
	}
	return out
}

func init() {
	lib.Register(&lib.Check{
		ID:    "C42",
		Level: "exploration",
		Rule: "every (frequency, time) of a boundary lattice: frequencies = both ends of the frequency interval of every truncated period 1..128 ps (thorough 1..1024), every 1..128 Hz (thorough 1..1024), every d*10^k (d 1..9, k 0..12) <= 1 THz, each with neighbours +-1 (thorough +-2), clipped to 1 Hz..1 THz; " +
			"times = q*P+r for q in {0,1,2} and the 4 largest quotients below 2^64 (thorough 8+9), r in {0,1,2,P/2,P-2,P-1} (thorough more), plus 2^64-1; per point Cycle, ThisTick, NextTick and NCyclesLater for N in {0,1,2,Nmax-1,Nmax} " +
			"are compared with math/big definitions over P = Freq.Period(); a function is judged only where the exact result fits in 64 bits. Each (f,t) pair is a distinct case.",
		Sharded:     true,
		MinOutcomes: 6,
		Assumptions: []string{
			"the period of a frequency is the integer the library itself reports (Freq.Period(), i.e. 10^12/f truncated); 'multiple of the period' means multiple of that integer",
			"N >= 0 (N is an int; N cycles *later*)",
			"exactness is claimed on the listed lattice (every residue class near both ends of the range for every listed frequency), not on all 2^64 x 10^12 inputs",
		},
		Run: func(c *lib.Ctx) {
			lib.Cases(c, func(yield func(clockCase) bool) {
				for _, f := range clockFreqs(c.Thorough()) {
					p := uint64(1_000_000_000_000) / f
					for _, t := range clockTimes(p, c.Thorough()) {
						if !yield(clockCase{F: f, T: t}) {
							return
						}
					}
				}
			}, runClockCase)
		},
		Replay: lib.ReplayCases(runClockCase),
	})
}

package grpb

import "testing"

func BenchmarkNet(b *testing.B) {
	var cases []netCase
	enumNetCases(false, func(c netCase) bool {
		if len(cases) < 200000 {
			cases = append(cases, c)
		}
		return true
	})
	b.ResetTimer()
	for i := 0; i < b.N; i++ {
		runNetCase(cases[(i*37)%len(cases)])
	}
}

package grpb

import (
	"fmt"
	"strings"

	"github.com/sarchlab/akita/v5/messaging"
	"github.com/sarchlab/akita/v5/naming"
	"github.com/sarchlab/akita/v5/noc/networking/mesh"
	"github.com/sarchlab/akita/v5/noc/networking/networkconnector"
	"github.com/sarchlab/akita/v5/noc/networking/routing"
	"github.com/sarchlab/akita/v5/noc/networking/switching/endpoint"
	"github.com/sarchlab/akita/v5/noc/networking/switching/switches"
	"github.com/sarchlab/akita/v5/timing"

	"verif/harness/lib"
)

// C30: routing tables built by the generic connector give loop-free shortest
// routes to every device; mesh routing takes Manhattan-distance hops; a reused
// connector builds the same tables as a fresh one.
//
// The networks are real: real switches, endpoints and direct connections on a
// real serial engine, built through the public connector API. The harness hands
// the connector a registrar that remembers the components it registers, so the
// routing table of every switch (switches.GetRoutingTable) and its port wiring
// (State.PortComplexes: local port -> remote port) can be read back.

type routeCase struct {
	Kind string `json:"kind"` // graph | reuse | mesh
	// graph / reuse (network B)
	N        int      `json:"n,omitempty"`
	Edges    [][2]int `json:"edges,omitempty"`
	Dev      []int    `json:"dev,omitempty"`      // devices on each switch (device k of a switch has 1+k%2 ports)
	DevFirst bool     `json:"devfirst,omitempty"` // connect the devices before the switch links
	Rev      bool     `json:"rev,omitempty"`      // links created in reverse order with swapped ends
	// reuse: the network built first with the same connector
	AN     int      `json:"an,omitempty"`
	AEdges [][2]int `json:"aedges,omitempty"`
	ADev   []int    `json:"adev,omitempty"`
	// mesh
	Dims    [3]int `json:"dims,omitempty"`
	Pattern string `json:"pattern,omitempty"` // full-asc | full-desc | corners
}

// capReg is a modeling.Registrar that remembers what is registered with it.
type capReg struct {
	eng *timing.SerialEngine
	sws []*switches.Comp
	eps []*endpoint.Comp
}

func (r *capReg) GetEngine() timing.Engine { return r.eng }
func (r *capReg) RegisterComponent(c naming.Named) {
	switch v := c.(type) {
	case *switches.Comp:
		r.sws = append(r.sws, v)
	case *endpoint.Comp:
		r.eps = append(r.eps, v)
	}
}
func (r *capReg) RegisterConnection(_ naming.Named) {}
func (r *capReg) RegisterResource(_ naming.Named)   {}
func (r *capReg) RegisterPort(_ naming.Named)       {}

var (
	devLinkParam = networkconnector.DeviceToSwitchLinkParameter{
		DeviceEndParam: networkconnector.LinkEndDeviceParameter{IncomingBufSize: 1, OutgoingBufSize: 1, NumInputChannel: 1, NumOutputChannel: 1},
		SwitchEndParam: networkconnector.LinkEndSwitchParameter{IncomingBufSize: 1, OutgoingBufSize: 1, NumInputChannel: 1, NumOutputChannel: 1, Latency: 1},
		LinkParam:      networkconnector.LinkParameter{IsIdeal: true, Frequency: 1 * timing.GHz},
	}
	swLinkParam = networkconnector.SwitchToSwitchLinkParameter{
		LeftEndParam:  networkconnector.LinkEndSwitchParameter{IncomingBufSize: 1, OutgoingBufSize: 1, NumInputChannel: 1, NumOutputChannel: 1, Latency: 1},
		RightEndParam: networkconnector.LinkEndSwitchParameter{IncomingBufSize: 1, OutgoingBufSize: 1, NumInputChannel: 1, NumOutputChannel: 1, Latency: 1},
		LinkParam:     networkconnector.LinkParameter{IsIdeal: true, Frequency: 1 * timing.GHz},
	}
)

// builtNet is what the harness knows about one network after building it.
type builtNet struct {
	sws      []*switches.Comp
	devPorts [][]messaging.Port // per device
	devSw    []int              // switch of each device
	// port wiring read back from the switches
	owner  map[messaging.RemotePort]int // switch-port name -> switch
	toSw   map[messaging.RemotePort]int // switch-port name -> neighbouring switch
	toDev  map[messaging.RemotePort]int // switch-port name -> device
	tables []routing.Table
}

// buildGraphNet builds one network with conn (whose registrar is reg).
func buildGraphNet(conn *networkconnector.Connector, reg *capReg, name, devPrefix string, n int, edges [][2]int, dev []int, devFirst, rev bool) (*builtNet, error) {
	sw0, ep0 := len(reg.sws), len(reg.eps)
	conn.NewNetwork(name)
	for i := 0; i < n; i++ {
		conn.AddSwitch()
	}
	net := &builtNet{}
	connectDevs := func() {
		for s := 0; s < n; s++ {
			for k := 0; k < dev[s]; k++ {
				var ports []messaging.Port
				for j := 0; j <= k%2; j++ {
					ports = append(ports, messaging.NewPort(nil, 1, 1, fmt.Sprintf("%s[%d].Port[%d]", devPrefix, len(net.devPorts), j)))
				}
				conn.ConnectDevice(s, ports, devLinkParam)
				net.devPorts = append(net.devPorts, ports)
				net.devSw = append(net.devSw, s)
			}
		}
	}
	connectSws := func() {
		es := append([][2]int(nil), edges...)
		if rev {
			for i, j := 0, len(es)-1; i < j; i, j = i+1, j-1 {
				es[i], es[j] = es[j], es[i]
			}
		}
		for _, e := range es {
			if rev {
				conn.ConnectSwitches(e[1], e[0], swLinkParam)
			} else {
				conn.ConnectSwitches(e[0], e[1], swLinkParam)
			}
		}
	}
	if devFirst {
		connectDevs()
		connectSws()
	} else {
		connectSws()
		connectDevs()
	}
	conn.EstablishRoute()

	net.sws = reg.sws[sw0:]
	eps := reg.eps[ep0:]
	if len(net.sws) != n || len(eps) != len(net.devPorts) {
		return nil, fmt.Errorf("harness: captured %d switches / %d endpoints for %d switches / %d devices", len(net.sws), len(eps), n, len(net.devPorts))
	}
	if err := net.readWiring(eps); err != nil {
		return nil, err
	}
	return net, nil
}

// readWiring reads the port wiring and routing tables back from the switches.
// eps[k] must be the endpoint of device k.
func (net *builtNet) readWiring(eps []*endpoint.Comp) error {
	net.owner = map[messaging.RemotePort]int{}
	net.toSw = map[messaging.RemotePort]int{}
	net.toDev = map[messaging.RemotePort]int{}
	epOf := map[messaging.RemotePort]int{}
	for k, ep := range eps {
		epOf[ep.NetworkPort().AsRemote()] = k
	}
	for s, sw := range net.sws {
		net.tables = append(net.tables, switches.GetRoutingTable(sw))
		for _, pc := range sw.State.PortComplexes {
			net.owner[messaging.RemotePort(pc.LocalPortName)] = s
		}
	}
	for _, sw := range net.sws {
		for _, pc := range sw.State.PortComplexes {
			local := messaging.RemotePort(pc.LocalPortName)
			if t, ok := net.owner[pc.RemotePort]; ok {
				net.toSw[local] = t
			} else if d, ok := epOf[pc.RemotePort]; ok {
				net.toDev[local] = d
			} else {
				return fmt.Errorf("harness: switch port %s is wired to unknown port %q", local, pc.RemotePort)
			}
		}
	}
	return nil
}

func bfsDist(n int, edges [][2]int) [][]int {
	adj := make([][]int, n)
	for _, e := range edges {
		adj[e[0]] = append(adj[e[0]], e[1])
		adj[e[1]] = append(adj[e[1]], e[0])
	}
	dist := make([][]int, n)
	for s := 0; s < n; s++ {
		d := make([]int, n)
		for i := range d {
			d[i] = -1
		}
		d[s] = 0
		q := []int{s}
		for len(q) > 0 {
			u := q[0]
			q = q[1:]
			for _, v := range adj[u] {
				if d[v] < 0 {
					d[v] = d[u] + 1
					q = append(q, v)
				}
			}
		}
		dist[s] = d
	}
	return dist
}

// followRoutes walks the tables hop by hop from every switch to every device
// port. want(s, device) is the required number of switch-to-switch hops.
func (net *builtNet) followRoutes(kind string, want func(s, d int) int, bad func(key, format string, a ...any)) {
	for s := range net.sws {
		for d, ports := range net.devPorts {
			for _, p := range ports {
				dst := p.AsRemote()
				cur, hops := s, 0
				visited := map[int]bool{s: true}
				path := []string{net.sws[s].Name()}
				for {
					var out messaging.RemotePort
					if msg := lib.Catch(func() { out = net.tables[cur].FindPort(dst) }); msg != "" {
						bad(kind+":findport-panic", "FindPort(%s) on %s panicked: %s", dst, net.sws[cur].Name(), msg)
						break
					}
					if out == "" {
						bad(kind+":no-route", "%s has no route to %s (path so far %v)", net.sws[cur].Name(), dst, path)
						break
					}
					if o, ok := net.owner[out]; !ok || o != cur {
						bad(kind+":foreign-output-port", "%s routes %s to %s, which is not one of its ports", net.sws[cur].Name(), dst, out)
						break
					}
					if dd, ok := net.toDev[out]; ok {
						if dd != d {
							bad(kind+":wrong-device", "route from %s to %s ends at device %d, not device %d (path %v)", net.sws[s].Name(), dst, dd, d, path)
						} else if hops != want(s, d) {
							bad(kind+":not-shortest", "route from %s to %s takes %d switch hops, the shortest takes %d (path %v)", net.sws[s].Name(), dst, hops, want(s, d), path)
						}
						break
					}
					cur = net.toSw[out]
					hops++
					path = append(path, net.sws[cur].Name())
					if visited[cur] {
						bad(kind+":loop", "route from %s to %s revisits %s (path %v)", net.sws[s].Name(), dst, net.sws[cur].Name(), path)
						break
					}
					visited[cur] = true
				}
			}
		}
	}
}

func newConnector() (*networkconnector.Connector, *capReg) {
	reg := &capReg{eng: timing.NewSerialEngine()}
	conn := networkconnector.MakeConnector().WithRegistrar(reg).WithDefaultFreq(1 * timing.GHz)
	return &conn, reg
}

func graphShape(n int, edges [][2]int, dev []int) string {
	nd := 0
	for _, d := range dev {
		nd += d
	}
	return fmt.Sprintf("n%d e%d d%d", n, len(edges), nd)
}

func runRouteCase(cs routeCase) (string, []lib.Problem) {
	timing.ResetIDGenerator()
	var probs []lib.Problem
	bad := func(key, format string, a ...any) {
		probs = append(probs, lib.Problem{Key: "routing:" + key, What: fmt.Sprintf(format, a...)})
	}
	switch cs.Kind {
	case "graph":
		var net *builtNet
		var err error
		msg, where := lib.CatchStack(func() {
			conn, reg := newConnector()
			net, err = buildGraphNet(conn, reg, "Net", "Dev", cs.N, cs.Edges, cs.Dev, cs.DevFirst, cs.Rev)
		})
		if msg != "" {
			bad("graph:build-panic", "building the network panicked: %s at %s", msg, where)
			return "panic", probs
		}
		if err != nil {
			bad("graph:unreadable", "%v", err)
			return "unreadable", probs
		}
		dist := bfsDist(cs.N, cs.Edges)
		net.followRoutes("graph", func(s, d int) int { return dist[s][net.devSw[d]] }, bad)
		return "graph " + graphShape(cs.N, cs.Edges, cs.Dev), dedupeProblems(probs)

	case "reuse":
		var reused, fresh *builtNet
		var err error
		msg, where := lib.CatchStack(func() {
			conn, reg := newConnector()
			if _, err = buildGraphNet(conn, reg, "First", "Old", cs.AN, cs.AEdges, cs.ADev, true, false); err != nil {
				return
			}
			reused, err = buildGraphNet(conn, reg, "Net", "Dev", cs.N, cs.Edges, cs.Dev, cs.DevFirst, cs.Rev)
		})
		if msg != "" {
			bad("reuse:build-panic", "building network B with a connector that had built network A before panicked: %s at %s", msg, where)
			return "panic", probs
		}
		if err != nil {
			bad("reuse:unreadable", "%v", err)
			return "unreadable", probs
		}
		timing.ResetIDGenerator()
		msg, where = lib.CatchStack(func() {
			conn, reg := newConnector()
			fresh, err = buildGraphNet(conn, reg, "Net", "Dev", cs.N, cs.Edges, cs.Dev, cs.DevFirst, cs.Rev)
		})
		if msg != "" || err != nil {
			bad("graph:build-panic", "building network B with a fresh connector failed: %s %v at %s", msg, err, where)
			return "panic", probs
		}
		for s := range fresh.sws {
			if reused.sws[s].Name() != fresh.sws[s].Name() {
				bad("reuse:switch-name", "switch %d is called %s by the reused connector, %s by a fresh one", s, reused.sws[s].Name(), fresh.sws[s].Name())
			}
			for _, ports := range fresh.devPorts {
				for _, p := range ports {
					a, b := reused.tables[s].FindPort(p.AsRemote()), fresh.tables[s].FindPort(p.AsRemote())
					if a != b {
						bad("reuse:table-differs", "%s routes %s to %q on the reused connector, to %q on a fresh one", fresh.sws[s].Name(), p.AsRemote(), a, b)
					}
				}
			}
			// stale entries: nothing of network A may be routed by network B
			a, b := reused.tables[s].FindPort("Old[0].Port[0]"), fresh.tables[s].FindPort("Old[0].Port[0]")
			if a != b {
				bad("reuse:stale-route", "%s routes the first network's device port Old[0].Port[0] to %q on the reused connector, to %q on a fresh one", fresh.sws[s].Name(), a, b)
			}
		}
		dist := bfsDist(cs.N, cs.Edges)
		reused.followRoutes("reuse", func(s, d int) int { return dist[s][reused.devSw[d]] }, bad)
		return "reuse " + graphShape(cs.AN, cs.AEdges, cs.ADev) + " then " + graphShape(cs.N, cs.Edges, cs.Dev), dedupeProblems(probs)

	case "mesh":
		return runMeshCase(cs, bad, &probs)
	}
	return "bad-case", nil
}

func runMeshCase(cs routeCase, bad func(key, format string, a ...any), probs *[]lib.Problem) (string, []lib.Problem) {
	X, Y, Z := cs.Dims[0], cs.Dims[1], cs.Dims[2]
	type tileDev struct {
		loc   [3]int
		ports []messaging.Port
	}
	var devs []tileDev
	mkPorts := func(loc [3]int, n int) []messaging.Port {
		var ps []messaging.Port
		for j := 0; j < n; j++ {
			ps = append(ps, messaging.NewPort(nil, 1, 1, fmt.Sprintf("Tile[%d][%d][%d].Port[%d]", loc[0], loc[1], loc[2], j)))
		}
		return ps
	}
	var locs [][3]int
	for x := 0; x < X; x++ {
		for y := 0; y < Y; y++ {
			for z := 0; z < Z; z++ {
				locs = append(locs, [3]int{x, y, z})
			}
		}
	}
	switch cs.Pattern {
	case "full-asc":
	case "full-desc":
		for i, j := 0, len(locs)-1; i < j; i, j = i+1, j-1 {
			locs[i], locs[j] = locs[j], locs[i]
		}
	case "corners":
		far := [3]int{X - 1, Y - 1, Z - 1}
		locs = [][3]int{far}
		if far != [3]int{0, 0, 0} {
			locs = append(locs, [3]int{0, 0, 0})
		}
	}
	for i, loc := range locs {
		devs = append(devs, tileDev{loc, mkPorts(loc, 1+i%2)})
	}

	reg := &capReg{eng: timing.NewSerialEngine()}
	net := &builtNet{}
	var err error
	msg, where := lib.CatchStack(func() {
		mc := mesh.NewConnector().WithRegistrar(reg).WithFreq(1 * timing.GHz)
		mc.CreateNetwork("Mesh")
		for _, d := range devs {
			mc.AddTile(d.loc, d.ports)
		}
		mc.EstablishNetwork()
	})
	if msg != "" {
		bad("mesh:build-panic", "building the %dx%dx%d mesh (%s) panicked: %s at %s", X, Y, Z, cs.Pattern, msg, where)
		return "panic", *probs
	}
	if len(reg.sws) != X*Y*Z || len(reg.eps) != X*Y*Z {
		bad("mesh:switch-count", "a %dx%dx%d mesh has %d switches and %d endpoints", X, Y, Z, len(reg.sws), len(reg.eps))
		return "miscount", *probs
	}
	// coordinates of every switch / endpoint from its name
	coord := func(name, prefix string) ([3]int, bool) {
		var c [3]int
		k := strings.Index(name, prefix+"[")
		if k < 0 {
			return c, false
		}
		_, e := fmt.Sscanf(name[k+len(prefix):], "[%d][%d][%d]", &c[0], &c[1], &c[2])
		return c, e == nil
	}
	net.sws = reg.sws
	swLoc := make([][3]int, len(reg.sws))
	for i, sw := range reg.sws {
		c, ok := coord(sw.Name(), "SW")
		if !ok {
			bad("mesh:unreadable", "cannot read the coordinates of switch %s", sw.Name())
			return "unreadable", *probs
		}
		swLoc[i] = c
	}
	// device k = the k-th tile with ports; its endpoint is the one at the same coordinates
	eps := make([]*endpoint.Comp, len(devs))
	for k, d := range devs {
		net.devPorts = append(net.devPorts, d.ports)
		for i := range reg.sws {
			if swLoc[i] == d.loc {
				net.devSw = append(net.devSw, i)
			}
		}
		for _, ep := range reg.eps {
			if c, ok := coord(ep.Name(), "EP"); ok && c == d.loc {
				eps[k] = ep
			}
		}
		if eps[k] == nil || len(net.devSw) != k+1 {
			bad("mesh:unreadable", "no switch/endpoint found at tile %v", d.loc)
			return "unreadable", *probs
		}
	}
	// endpoints of port-less tiles are wired too; give them device numbers past the real ones
	all := append([]*endpoint.Comp(nil), eps...)
	for _, ep := range reg.eps {
		known := false
		for _, e := range eps {
			known = known || e == ep
		}
		if !known {
			all = append(all, ep)
		}
	}
	if err = net.readWiring(all); err != nil {
		bad("mesh:unreadable", "%v", err)
		return "unreadable", *probs
	}
	abs := func(a int) int {
		if a < 0 {
			return -a
		}
		return a
	}
	net.followRoutes("mesh", func(s, d int) int {
		a, b := swLoc[s], devs[d].loc
		return abs(a[0]-b[0]) + abs(a[1]-b[1]) + abs(a[2]-b[2])
	}, bad)
	return fmt.Sprintf("mesh %dx%dx%d %s", X, Y, Z, cs.Pattern), dedupeProblems(*probs)
}

// connectedGraphs yields the edge list of every connected labelled graph on n
// vertices (edges in lexicographic order).
func connectedGraphs(n int, yield func([][2]int) bool) bool {
	var pairs [][2]int
	for a := 0; a < n; a++ {
		for b := a + 1; b < n; b++ {
			pairs = append(pairs, [2]int{a, b})
		}
	}
	for mask := 0; mask < 1<<len(pairs); mask++ {
		var edges [][2]int
		for i, p := range pairs {
			if mask>>i&1 == 1 {
				edges = append(edges, p)
			}
		}
		d := bfsDist(n, edges)
		ok := true
		for _, x := range d[0] {
			ok = ok && x >= 0
		}
		if ok && !yield(edges) {
			return false
		}
	}
	return true
}

// placements yields every assignment of 0..2 devices to each switch with at
// least one device and at most maxSw switches carrying devices.
func placements(n, maxSw int, yield func([]int) bool) bool {
	dev := make([]int, n)
	var rec func(i, used, total int) bool
	rec = func(i, used, total int) bool {
		if i == n {
			if total == 0 {
				return true
			}
			return yield(append([]int(nil), dev...))
		}
		for k := 0; k <= 2; k++ {
			if k > 0 && used == maxSw {
				break
			}
			dev[i] = k
			u := used
			if k > 0 {
				u++
			}
			if !rec(i+1, u, total+k) {
				return false
			}
		}
		dev[i] = 0
		return true
	}
	return rec(0, 0, 0)
}

func enumRouteCases(thorough bool, yield func(routeCase) bool) {
	maxN := 4
	if thorough {
		maxN = 5
	}
	for n := 1; n <= maxN; n++ {
		ok := connectedGraphs(n, func(edges [][2]int) bool {
			return placements(n, 3, func(dev []int) bool {
				for _, devFirst := range []bool{true, false} {
					for _, rev := range []bool{false, true} {
						if rev && len(edges) == 0 {
							continue
						}
						if !yield(routeCase{Kind: "graph", N: n, Edges: edges, Dev: dev, DevFirst: devFirst, Rev: rev}) {
							return false
						}
					}
				}
				return true
			})
		})
		if !ok {
			return
		}
	}
	// reuse: network A (three shapes) then network B (every graph of <= 3 (thorough 4) switches x placement)
	firsts := []routeCase{
		{AN: 1, ADev: []int{1}},
		{AN: 2, AEdges: [][2]int{{0, 1}}, ADev: []int{1, 2}},
		{AN: 3, AEdges: [][2]int{{0, 1}, {0, 2}, {1, 2}}, ADev: []int{0, 1, 1}},
	}
	maxB := 3
	if thorough {
		maxB = 4
	}
	for _, a := range firsts {
		for n := 1; n <= maxB; n++ {
			ok := connectedGraphs(n, func(edges [][2]int) bool {
				return placements(n, 3, func(dev []int) bool {
					for _, devFirst := range []bool{true, false} {
						if !yield(routeCase{Kind: "reuse", N: n, Edges: edges, Dev: dev, DevFirst: devFirst, AN: a.AN, AEdges: a.AEdges, ADev: a.ADev}) {
							return false
						}
					}
					return true
				})
			})
			if !ok {
				return
			}
		}
	}
	// mesh up to 3x3x2 (thorough 4x4x2)
	mx := 3
	if thorough {
		mx = 4
	}
	for x := 1; x <= mx; x++ {
		for y := 1; y <= mx; y++ {
			for z := 1; z <= 2; z++ {
				for _, p := range []string{"full-asc", "full-desc", "corners"} {
					if !yield(routeCase{Kind: "mesh", Dims: [3]int{x, y, z}, Pattern: p}) {
						return
					}
				}
			}
		}
	}
}

func init() {
	lib.Register(&lib.Check{
		ID:    "C30",
		Level: "exploration",
		Rule: "(graph) every connected labelled switch graph with <= 4 switches (thorough <= 5: 728 graphs at n=5) x every placement of 0..2 devices per switch (>= 1 device, <= 3 switches carrying devices; devices alternate 1 and 2 ports) x {devices first, links first} x {link creation order/orientation forward, reversed}: the network is built with the real networkconnector on a real engine, " +
			"then from every switch to every device port the tables are followed hop by hop (FindPort -> owning switch port -> wired neighbour): must arrive at that device, in exactly BFS-distance switch hops, never revisiting a switch; " +
			"(reuse) one connector builds network A (3 shapes) then network B (every graph of <= 3 (thorough 4) switches x placement x order): no panic, and every FindPort answer equals that of a fresh connector building B, B's routes are also followed; " +
			"(mesh) every mesh 1x1x1..3x3x2 (thorough 4x4x2) x {all tiles ascending, all tiles descending, corner tiles only}: every switch to every tile port in exactly Manhattan-distance hops. Each parameter tuple is a distinct case.",
		Sharded:     true,
		MinOutcomes: 20,
		Assumptions: []string{
			"default FloydWarshallRouter, ideal links; the switch wiring is read back from State.PortComplexes of the real switches",
			"every network has at least one device (EstablishRoute indexes the first remote of every node)",
			"'same tables' means equal FindPort answers for every device port of the network (and for one stale port name of the previous network); both networks get the same name so no prefix has to be stripped",
		},
		Run: func(c *lib.Ctx) {
			lib.Cases(c, func(yield func(routeCase) bool) { enumRouteCases(c.Thorough(), yield) }, runRouteCase)
		},
		Replay: lib.ReplayCases(runRouteCase),
	})
}

package grpb

import (
	"fmt"
	"runtime/debug"
	"sort"
	"strings"

	"github.com/sarchlab/akita/v5/mem/vm"
	"github.com/sarchlab/akita/v5/mem/vm/mmu"
	"github.com/sarchlab/akita/v5/mem/vm/vmprotocol"
	"github.com/sarchlab/akita/v5/messaging"
	"github.com/sarchlab/akita/v5/modeling"
	"github.com/sarchlab/akita/v5/timing"
	"github.com/sarchlab/akita/v5/tracing"

	"verif/harness/lib"
)

// C27: with automatic page allocation, every touched (PID, virtual page) ends
// up with exactly one mapping and no auto-allocated page overlaps the physical
// range of any other page.
//
// A real MMU component (built with its builder, real Top/Control ports, real
// serial engine) works on a real vm.PageTable. The harness is the requester: an
// event per cycle on the same engine hands TranslationReqs to the Top port as
// its capacity allows and takes the responses out, fast or slowly (a slow
// requester leaves the outgoing buffer full, so finished walks are retried;
// back-to-back requests give concurrent walks, also of the same page).
// The page table handed to the MMU is a thin recording wrapper
// around the real one (vm.PageTable has no iterator), so the complete final
// contents are known; every recorded page is cross-checked with the real
// table's Find at the end.

type mmuPre struct {
	PID   int `json:"pid"`
	VPage int `json:"vp"`
	Frame int `json:"f"`
}

type mmuReq struct {
	PID   int `json:"pid"`
	VPage int `json:"vp"`
}

type mmuCase struct {
	Pre      []mmuPre `json:"pre,omitempty"`
	Reqs     []mmuReq `json:"reqs"`
	InFlight int      `json:"inflight"`
	Cap      int      `json:"cap"`              // Top port capacity (both directions)
	Latency  int      `json:"lat"`              // walk latency
	Gap      bool     `json:"gap,omitempty"`    // wait for the MMU to go idle between two requests
	OneRsp   bool     `json:"onersp,omitempty"` // take one response per idle period (else all)
}

const (
	mmuLog2Page  = 12
	mmuCycle     = timing.VTimeInPicoSec(1000) // the MMU's default 1 GHz
	mmuSlowDrain = 4                           // a slow requester takes one response every 4th cycle
	mmuMaxCycles = 200
)

// mmuDriver is the requester: one event per cycle on the MMU's engine (a
// primary event, so it runs before the MMU's tick of the same cycle). It first
// takes responses out of the Top port (all of them, or one every mmuSlowDrain
// cycles), then hands over the next requests as far as the Top port accepts
// them (back to back, or only once every earlier request has been answered).
type mmuDriver struct {
	eng    *timing.SerialEngine
	top    messaging.Port
	comp   *mmu.Comp
	cs     mmuCase
	reqIDs []uint64
	next   int
	cycle  int
	rsps   []vmprotocol.TranslationRsp
	// most walks seen in flight at once (evidence only)
	maxWalks int
}

type mmuTickEvent struct{ timing.EventBase }

func (d *mmuDriver) take() {
	d.rsps = append(d.rsps, d.top.RetrieveOutgoing().(vmprotocol.TranslationRsp))
}

func (d *mmuDriver) Handle(_ timing.Event) error {
	if n := len(d.comp.State.WalkingTranslations); n > d.maxWalks {
		d.maxWalks = n
	}
	if d.cs.OneRsp {
		if d.cycle%mmuSlowDrain == mmuSlowDrain-1 && d.top.PeekOutgoing() != nil {
			d.take()
		}
	} else {
		for d.top.PeekOutgoing() != nil {
			d.take()
		}
	}
	for d.next < len(d.cs.Reqs) && d.top.CanDeliver() {
		if d.cs.Gap && len(d.rsps) < d.next {
			break
		}
		r := d.cs.Reqs[d.next]
		req := vmprotocol.TranslationReq{
			VAddr:    uint64(r.VPage)<<mmuLog2Page + uint64(d.next%2)*0x10,
			PID:      vm.PID(r.PID),
			DeviceID: 2,
		}
		req.ID = uint64(7000 + d.next)
		req.Src = "Requester.Port"
		req.Dst = d.top.AsRemote()
		req.TrafficClass = "vmprotocol.TranslationReq"
		d.reqIDs[d.next] = req.ID
		d.top.Deliver(req)
		d.next++
		if d.cs.Gap {
			break
		}
	}
	d.cycle++
	if (d.next < len(d.cs.Reqs) || len(d.rsps) < len(d.cs.Reqs)) && d.cycle < mmuMaxCycles {
		d.eng.Schedule(mmuTickEvent{EventBase: timing.MakeEventBase(d.eng.CurrentTime()+mmuCycle, "Requester")})
	}
	return nil
}

// recTable records every mutation and forwards to the real page table.
type recTable struct {
	inner   vm.PageTable
	inserts []vm.Page
	removes int
	updates int
	finds   int // one per attempt to finish a walk
}

func (t *recTable) Insert(p vm.Page)                          { t.inner.Insert(p); t.inserts = append(t.inserts, p) }
func (t *recTable) Remove(pid vm.PID, vAddr uint64)           { t.removes++; t.inner.Remove(pid, vAddr) }
func (t *recTable) Update(p vm.Page)                          { t.updates++; t.inner.Update(p) }
func (t *recTable) Find(pid vm.PID, a uint64) (vm.Page, bool) { t.finds++; return t.inner.Find(pid, a) }
func (t *recTable) ReverseLookup(p uint64) (vm.Page, bool)    { return t.inner.ReverseLookup(p) }
func (t *recTable) GetLog2PageSize() uint64 {
	return t.inner.(interface{ GetLog2PageSize() uint64 }).GetLog2PageSize()
}

func runMMUCase(cs mmuCase) (string, []lib.Problem) {
	timing.ResetIDGenerator()
	tracing.VerifResetRegistries()
	var probs []lib.Problem
	bad := func(key, format string, a ...any) {
		probs = append(probs, lib.Problem{Key: "mmu:" + key,
			What: fmt.Sprintf("pre=%v reqs=%v inflight=%d cap=%d lat=%d gap=%v onersp=%v: ", cs.Pre, cs.Reqs, cs.InFlight, cs.Cap, cs.Latency, cs.Gap, cs.OneRsp) + fmt.Sprintf(format, a...)})
	}
	const pageSize = uint64(1) << mmuLog2Page

	table := &recTable{inner: vm.NewPageTable(mmuLog2Page)}
	for _, p := range cs.Pre {
		table.inner.Insert(vm.Page{PID: vm.PID(p.PID), VAddr: uint64(p.VPage) << mmuLog2Page, PAddr: uint64(p.Frame) << mmuLog2Page,
			PageSize: pageSize, Valid: true, DeviceID: 1})
	}

	var rsps []vmprotocol.TranslationRsp
	issued, maxWalks := 0, 0
	reqIDs := make([]uint64, len(cs.Reqs))
	msg, where := lib.CatchStack(func() {
		eng := timing.NewSerialEngine()
		spec := mmu.DefaultSpec()
		spec.AutoPageAllocation = true
		spec.Log2PageSize = mmuLog2Page
		spec.Latency = cs.Latency
		spec.MaxRequestsInFlight = cs.InFlight
		comp := mmu.MakeBuilder().
			WithRegistrar(modeling.NewStandaloneRegistrar(eng)).
			WithSpec(spec).
			WithResources(mmu.Resources{PageTable: table}).
			Build("MMU")
		top := messaging.NewPort(comp, cs.Cap, cs.Cap, "MMU.Top")
		ctrl := messaging.NewPort(comp, 1, 1, "MMU.Control")
		comp.AssignPort("Top", top)
		comp.AssignPort("Control", ctrl)
		top.SetConnection(&stubLink{})
		ctrl.SetConnection(&stubLink{})

		drv := &mmuDriver{eng: eng, top: top, comp: comp, cs: cs, reqIDs: reqIDs}
		eng.RegisterHandler("Requester", drv)
		eng.Schedule(mmuTickEvent{EventBase: timing.MakeEventBase(0, "Requester")})
		_ = eng.Run()
		// anything the MMU still has to say after the last expected response
		for k := 0; k < 16 && top.PeekOutgoing() != nil; k++ {
			for top.PeekOutgoing() != nil {
				drv.take()
			}
			_ = eng.Run()
		}
		rsps, issued, maxWalks = drv.rsps, drv.next, drv.maxWalks
	})
	if msg != "" {
		bad("panic", "the MMU panicked: %s at %s", msg, where)
		return "panic", probs
	}
	if table.removes != 0 || table.updates != 0 {
		bad("table-mutated", "the MMU removed %d and updated %d pages while only translating", table.removes, table.updates)
	}

	// the complete final table: pre-inserted pages + recorded inserts
	type entry struct {
		page vm.Page
		auto bool
	}
	var all []entry
	for _, p := range cs.Pre {
		pg, ok := table.inner.Find(vm.PID(p.PID), uint64(p.VPage)<<mmuLog2Page)
		if !ok {
			bad("pre-inserted-lost", "pre-inserted page pid=%d vpage=%d is gone", p.PID, p.VPage)
			continue
		}
		all = append(all, entry{pg, false})
	}
	for _, pg := range table.inserts {
		all = append(all, entry{pg, true})
		got, ok := table.inner.Find(pg.PID, pg.VAddr)
		if !ok || got != pg {
			bad("auto-page-unfindable", "auto-allocated page %+v is not what Find(pid, vaddr) returns (%+v, %v)", pg, got, ok)
		}
	}
	// exactly one mapping per touched (PID, vpage)
	type key struct {
		pid   vm.PID
		vpage uint64
	}
	count := map[key]int{}
	for _, e := range all {
		count[key{e.page.PID, e.page.VAddr >> mmuLog2Page}]++
	}
	touched := map[key]bool{}
	for _, r := range cs.Reqs {
		touched[key{vm.PID(r.PID), uint64(r.VPage)}] = true
	}
	// every answer names the one mapping of its page
	answered := map[uint64]int{}
	answeredPage := map[key]bool{}
	for _, r := range rsps {
		idx := -1
		for i, id := range reqIDs {
			if id == r.RspTo {
				idx = i
			}
		}
		if idx < 0 {
			bad("stray-response", "response %+v answers no request", r.MsgMeta)
			continue
		}
		answered[r.RspTo]++
		answeredPage[key{vm.PID(cs.Reqs[idx].PID), uint64(cs.Reqs[idx].VPage)}] = true
		want, ok := table.inner.Find(vm.PID(cs.Reqs[idx].PID), uint64(cs.Reqs[idx].VPage)<<mmuLog2Page)
		if ok && r.Page != want {
			bad("response-names-other-mapping", "request %d (pid=%d vpage=%d) was answered with %+v, the table maps it to %+v", idx, cs.Reqs[idx].PID, cs.Reqs[idx].VPage, r.Page, want)
		}
	}
	unanswered := 0
	for _, id := range reqIDs {
		if answered[id] == 0 {
			unanswered++
		}
	}
	keys := make([]key, 0, len(touched))
	for k := range touched {
		keys = append(keys, k)
	}
	sort.Slice(keys, func(i, j int) bool {
		return keys[i].pid < keys[j].pid || (keys[i].pid == keys[j].pid && keys[i].vpage < keys[j].vpage)
	})
	for _, k := range keys {
		switch n := count[k]; {
		case n == 0 && answeredPage[k]:
			bad("no-mapping", "a translation of pid=%d vpage=%d was answered but the page has no mapping in the final table", k.pid, k.vpage)
		case n > 1:
			bad("two-mappings", "touched page pid=%d vpage=%d has %d mappings", k.pid, k.vpage, n)
		}
	}
	for k, n := range count {
		if !touched[k] && n > 0 {
			pre := false
			for _, p := range cs.Pre {
				pre = pre || (vm.PID(p.PID) == k.pid && uint64(p.VPage) == k.vpage)
			}
			if !pre {
				bad("untouched-page-mapped", "pid=%d vpage=%d was never requested but has a mapping", k.pid, k.vpage)
			}
		}
	}
	// no auto page overlaps any other page
	autos := 0
	for i, a := range all {
		if !a.auto {
			continue
		}
		autos++
		if a.page.PageSize != pageSize || a.page.PAddr%pageSize != 0 || a.page.VAddr%pageSize != 0 || !a.page.Valid {
			bad("auto-page-malformed", "auto-allocated page %+v is not an aligned valid page of the table's page size", a.page)
		}
		for j, b := range all {
			if i == j || (b.auto && j < i) {
				continue
			}
			if a.page.PAddr < b.page.PAddr+b.page.PageSize && b.page.PAddr < a.page.PAddr+a.page.PageSize {
				kind := "pre-inserted"
				if b.auto {
					kind = "auto-allocated"
				}
				bad("alias-with-"+kind, "auto page pid=%d vpage=%d at [%#x,%#x) overlaps %s page pid=%d vpage=%d at [%#x,%#x)",
					a.page.PID, a.page.VAddr>>mmuLog2Page, a.page.PAddr, a.page.PAddr+a.page.PageSize, kind,
					b.page.PID, b.page.VAddr>>mmuLog2Page, b.page.PAddr, b.page.PAddr+b.page.PageSize)
			}
		}
	}
	// a walk whose response did not fit into the full outgoing buffer is
	// finished a second time: one Find per attempt
	retried := table.finds > len(rsps)
	return fmt.Sprintf("pre%d reqs%d auto%d inflight%d cap%d walks%d retried=%v unissued%d unanswered%d", len(cs.Pre), len(cs.Reqs), autos, cs.InFlight, cs.Cap, maxWalks, retried, len(cs.Reqs)-issued, unanswered), dedupeProblems(probs)
}

// mmuTables yields every assignment of a subset of frames 0..3 to distinct
// (PID, vpage) pairs with at most maxPages pages, then a few tables in which
// two processes share a frame. From the (freeUpTo+1)-th page on, a page must
// have a greater (PID, vpage) than the page before it (walking the frames
// upward); freeUpTo >= maxPages means no restriction.
func mmuTables(maxPages, freeUpTo int, yield func([]mmuPre) bool) bool {
	var pairs []mmuReq
	for pid := 1; pid <= 2; pid++ {
		for vp := 0; vp <= 2; vp++ {
			pairs = append(pairs, mmuReq{pid, vp})
		}
	}
	var cur []mmuPre
	used := make([]bool, len(pairs))
	var rec func(frame int) bool
	rec = func(frame int) bool {
		if frame == 4 {
			return yield(append([]mmuPre(nil), cur...))
		}
		if !rec(frame + 1) { // frame unassigned
			return false
		}
		if len(cur) == maxPages {
			return true
		}
		for i, p := range pairs {
			if used[i] {
				continue
			}
			if len(cur) >= freeUpTo && len(cur) > 0 && !(cur[len(cur)-1].PID < p.PID || (cur[len(cur)-1].PID == p.PID && cur[len(cur)-1].VPage < p.VPage)) {
				continue
			}
			used[i] = true
			cur = append(cur, mmuPre{p.PID, p.VPage, frame})
			ok := rec(frame + 1)
			cur = cur[:len(cur)-1]
			used[i] = false
			if !ok {
				return false
			}
		}
		return true
	}
	if !rec(0) {
		return false
	}
	if maxPages >= 2 {
		for _, f := range []int{0, 1} {
			shared := []mmuPre{{1, 0, f}, {2, 0, f}}
			if !yield(shared) {
				return false
			}
			if maxPages >= 3 {
				if !yield(append(append([]mmuPre(nil), shared...), mmuPre{2, 1, f + 1})) ||
					!yield(append(append([]mmuPre(nil), shared...), mmuPre{1, 2, 3})) {
					return false
				}
			}
		}
	}
	return true
}

func mmuStreams(n int, yield func([]mmuReq) bool) bool {
	cur := make([]mmuReq, n)
	var rec func(i int) bool
	rec = func(i int) bool {
		if i == n {
			return yield(append([]mmuReq(nil), cur...))
		}
		for pid := 1; pid <= 2; pid++ {
			for vp := 0; vp <= 2; vp++ {
				cur[i] = mmuReq{pid, vp}
				if !rec(i + 1) {
					return false
				}
			}
		}
		return true
	}
	return rec(0)
}

func enumMMUCases(thorough bool, yield func(mmuCase) bool) {
	emit := func(pre []mmuPre, reqs []mmuReq, allConfigs bool) bool {
		for _, inflight := range []int{1, 2, 4} {
			for _, cp := range []int{1, 4} {
				if !allConfigs {
					// the most adversarial timing only: slow walks, requests back to back, slow requester
					if !yield(mmuCase{Pre: pre, Reqs: reqs, InFlight: inflight, Cap: cp, Latency: 2, Gap: false, OneRsp: true}) {
						return false
					}
					continue
				}
				for _, lat := range []int{0, 2} {
					for _, gap := range []bool{false, true} {
						for _, one := range []bool{false, true} {
							if !yield(mmuCase{Pre: pre, Reqs: reqs, InFlight: inflight, Cap: cp, Latency: lat, Gap: gap, OneRsp: one}) {
								return false
							}
						}
					}
				}
			}
		}
		return true
	}
	// family = (stream length, max pre-inserted pages, page count up to which
	// every pair assignment is taken, only tables with more than minPages pages,
	// all 48 configurations or the 6 of the adversarial timing)
	type family struct {
		n, maxPages, freeUpTo, minPages int
		allConfigs                      bool
	}
	fams := []family{{1, 4, 2, 0, true}, {2, 4, 2, 0, true}, {3, 1, 1, 0, true}, {3, 4, 0, 2, false}}
	if thorough {
		fams = []family{{1, 4, 4, 0, true}, {2, 4, 4, 0, true}, {3, 4, 2, 0, true}, {4, 1, 1, 0, true}, {4, 4, 0, 2, false}}
	}
	for _, f := range fams {
		ok := mmuTables(f.maxPages, f.freeUpTo, func(pre []mmuPre) bool {
			if len(pre) < f.minPages {
				return true
			}
			return mmuStreams(f.n, func(reqs []mmuReq) bool { return emit(pre, reqs, f.allConfigs) })
		})
		if !ok {
			return
		}
	}
	// insertion-order families: the tables above are pre-populated walking the
	// frames upward; here the same pages are inserted in another order (the
	// table keeps per-process lists in insertion order). quick: every table
	// with >= 2 pages inserted walking the frames downward; thorough: every
	// non-identity permutation of the insertion order, and the downward order
	// with streams of length 2.
	type ofamily struct {
		n        int
		allPerms bool
	}
	ofams := []ofamily{{1, false}}
	if thorough {
		ofams = []ofamily{{1, true}, {2, false}}
	}
	for _, f := range ofams {
		ok := mmuTables(4, 4, func(pre []mmuPre) bool {
			if len(pre) < 2 {
				return true
			}
			return mmuOrders(pre, f.allPerms, func(ordered []mmuPre) bool {
				return mmuStreams(f.n, func(reqs []mmuReq) bool { return emit(ordered, reqs, false) })
			})
		})
		if !ok {
			return
		}
	}
}

// mmuOrders yields the insertion orders of a table other than the given one:
// the reversed order only, or every non-identity permutation.
func mmuOrders(pre []mmuPre, all bool, yield func([]mmuPre) bool) bool {
	n := len(pre)
	if !all {
		rev := make([]mmuPre, n)
		for i, p := range pre {
			rev[n-1-i] = p
		}
		return yield(rev)
	}
	idx := make([]int, 0, n)
	used := make([]bool, n)
	var rec func() bool
	rec = func() bool {
		if len(idx) == n {
			identity := true
			out := make([]mmuPre, n)
			for i, j := range idx {
				out[i] = pre[j]
				identity = identity && i == j
			}
			return identity || yield(out)
		}
		for j := 0; j < n; j++ {
			if used[j] {
				continue
			}
			used[j] = true
			idx = append(idx, j)
			ok := rec()
			idx = idx[:len(idx)-1]
			used[j] = false
			if !ok {
				return false
			}
		}
		return true
	}
	return rec()
}

func init() {
	lib.Register(&lib.Check{
		ID:    "C27",
		Level: "exploration",
		Rule: "every (pre-populated table, request stream, configuration): tables = assignments of a subset of frames {0..3} to distinct (PID in {1,2}, vpage in {0,1,2}) pairs (page-aligned, table page size 4 KiB) plus 6 tables in which two processes share a frame; 'all' = all 1045 assignments + the 6, 'canonical' = the 505 assignments in which, walking the frames upward, the third and fourth page have a greater (PID,vpage) than the page before + the 6, 'increasing' = the 185 assignments with >= 2 pages and (PID,vpage) increasing along the frames + the 6; these are inserted walking the frames upward; 'reordered' = all tables with >= 2 pages inserted walking the frames downward (quick) or in every other permutation (thorough), since the table keeps per-process lists in insertion order; " +
			"configurations = MaxRequestsInFlight {1,2,4} x Top port capacity {1,4} (incoming and outgoing) x walk latency {0,2} x {requests handed over back to back as the port accepts them (concurrent walks, also of the same page), each only after all earlier ones were answered} x {requester takes all responses every cycle, one response every 4th cycle (full outgoing buffer: finished walks are retried)} = 48, 'adversarial' = the 6 with latency 2, back to back, slow requester; " +
			"quick: every stream of length <= 2 over PID x vpage on the canonical tables x 48, length 3 on the 25 tables with <= 1 page x 48, length 3 on the increasing tables x adversarial, length 1 on the reordered (downward) tables x adversarial; thorough: length <= 2 on all tables x 48, length 3 on the canonical tables x 48, length 4 on the tables with <= 1 page x 48, length 4 on the increasing tables x adversarial, length 1 on every reordered table x adversarial, length 2 on the downward tables x adversarial; " +
			"a real MMU with auto allocation on a real serial engine and a real vm.PageTable (behind a recording wrapper) is driven by a requester that is an event per cycle on the same engine, until every request is answered; oracle on the final table: every (PID,vpage) that was answered has a mapping, no requested page has two, no never-requested page appears, every auto-allocated page is an aligned valid table-size page whose [PAddr,PAddr+size) is disjoint from every other page, and every response carries the table's mapping. Each tuple is a distinct case; counters report how many cases had concurrent walks and retried walks.",
		Sharded:     true,
		MinOutcomes: 30,
		Assumptions: []string{
			"pre-inserted pages are page-aligned and of the table's page size (unaligned or mixed-size pre-inserted pages are outside the check)",
			"the harness plays the requester and the connection on the Top port (one primary event per cycle, so it acts before the MMU's tick of that cycle); the Control port stays silent",
			"the property is about the table, not about liveness: a page that was requested but never answered is only reported in the outcome classes (it does not occur)",
			"vm.PageTable has no iterator: the final contents are the pre-inserted pages plus the Insert calls recorded by a forwarding wrapper, each cross-checked with Find on the real table",
		},
		Run: func(c *lib.Ctx) {
			debug.SetGCPercent(-1) // many tiny simulations: collect only when the heap reaches 256 MiB
			debug.SetMemoryLimit(256 << 20)
			lib.Cases(c, func(yield func(mmuCase) bool) { enumMMUCases(c.Thorough(), yield) }, func(cs mmuCase) (string, []lib.Problem) {
				out, probs := runMMUCase(cs)
				if strings.Contains(out, "retried=true") {
					c.Add("cases_with_a_retried_walk", 1)
				}
				if !strings.Contains(out, "walks0") && !strings.Contains(out, "walks1") {
					c.Add("cases_with_concurrent_walks", 1)
				}
				if !strings.Contains(out, "unissued0 unanswered0") {
					c.Add("cases_not_fully_answered", 1)
				}
				return out, probs
			})
		},
		Replay: lib.ReplayCases(runMMUCase),
	})
}

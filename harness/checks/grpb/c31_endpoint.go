package grpb

import (
	"fmt"
	"reflect"

	"github.com/sarchlab/akita/v5/hooking"
	"github.com/sarchlab/akita/v5/messaging"
	"github.com/sarchlab/akita/v5/modeling"
	"github.com/sarchlab/akita/v5/noc/networking/switching/endpoint"
	"github.com/sarchlab/akita/v5/noc/packetization"
	"github.com/sarchlab/akita/v5/timing"

	"verif/harness/lib"
)

// C31: endpoints packetise and reassemble losslessly. The real endpoint
// component is built with its builder, given real ports and a real serial
// engine; the harness plays the device (sending / draining the device ports)
// and the network (draining / feeding the network port).

type epCase struct {
	// (i) flit count
	Count bool `json:"count,omitempty"`
	Bytes int  `json:"bytes,omitempty"`
	OvNum int  `json:"ovn,omitempty"` // encoding overhead = OvNum/OvDen, OvDen a power of two
	OvDen int  `json:"ovd,omitempty"`
	Flit  int  `json:"flit,omitempty"`
	OutCh int  `json:"outch,omitempty"`
	// (ii) reassembly
	Sizes  []int `json:"sizes,omitempty"` // flits per message
	Order  []int `json:"order,omitempty"` // arrival order, indices into the flattened (message, seq) list
	InCh   int   `json:"inch,omitempty"`
	DevCap int   `json:"devcap,omitempty"`
	Burst  int   `json:"burst,omitempty"` // flits handed to the network port between two engine runs
	Eager  bool  `json:"eager,omitempty"` // device drains its ports after every burst (else only at the end)
}

// stubOwner is the device that owns the device ports.
type stubOwner struct {
	hooking.HookableBase
	*messaging.PortOwnerBase
	name string
}

func (s *stubOwner) Name() string                    { return s.name }
func (s *stubOwner) NotifyRecv(_ messaging.Port)     {}
func (s *stubOwner) NotifyPortFree(_ messaging.Port) {}

// stubLink is the connection plugged into the endpoint's network port.
type stubLink struct {
	hooking.HookableBase
}

func (s *stubLink) Name() string                     { return "StubLink" }
func (s *stubLink) PlugIn(_ messaging.Port)          {}
func (s *stubLink) Unplug(_ messaging.Port)          {}
func (s *stubLink) NotifyAvailable(_ messaging.Port) {}
func (s *stubLink) NotifySend()                      {}

type epRig struct {
	eng      *timing.SerialEngine
	ep       *endpoint.Comp
	net      messaging.Port
	dev      []messaging.Port
	devOwner *stubOwner
}

func buildEndpoint(spec endpoint.Spec, nDev, devCap int) *epRig {
	timing.ResetIDGenerator()
	r := &epRig{eng: timing.NewSerialEngine()}
	r.devOwner = &stubOwner{PortOwnerBase: messaging.NewPortOwnerBase(), name: "Dev"}
	for i := 0; i < nDev; i++ {
		r.dev = append(r.dev, messaging.NewPort(r.devOwner, devCap, 4, fmt.Sprintf("Dev.Port%d", i)))
	}
	r.ep = endpoint.MakeBuilder().
		WithRegistrar(modeling.NewStandaloneRegistrar(r.eng)).
		WithSpec(spec).
		WithResources(endpoint.Resources{DevicePorts: r.dev}).
		Build("EP")
	r.net = messaging.NewPort(r.ep, 8, 8, "EP.NetworkPort")
	r.ep.SetNetworkPort(r.net)
	r.net.SetConnection(&stubLink{})
	r.ep.SetDefaultSwitchDst("Switch.Port")
	return r
}

// ceilDiv returns ceil(a/b) for a >= 0, b > 0.
func ceilDiv(a, b int) int { return (a + b - 1) / b }

func runFlitCount(cs epCase) (string, []lib.Problem) {
	spec := endpoint.DefaultSpec()
	spec.FlitByteSize = cs.Flit
	spec.EncodingOverhead = float64(cs.OvNum) / float64(cs.OvDen) // exact: OvDen is a power of two
	spec.NumOutputChannels = cs.OutCh
	spec.NumInputChannels = 1
	var probs []lib.Problem
	bad := func(key, format string, a ...any) {
		probs = append(probs, lib.Problem{Key: "endpoint:flitcount:" + key,
			What: fmt.Sprintf("bytes=%d overhead=%d/%d flit=%d: ", cs.Bytes, cs.OvNum, cs.OvDen, cs.Flit) + fmt.Sprintf(format, a...)})
	}
	// exact: encoded = b + ceil(b*num/den); flits = max(1, ceil(encoded/flit))
	encoded := cs.Bytes + ceilDiv(cs.Bytes*cs.OvNum, cs.OvDen)
	want := ceilDiv(encoded, cs.Flit)
	if want < 1 {
		want = 1
	}

	var flits []packetization.Flit
	msg := lib.Catch(func() {
		r := buildEndpoint(spec, 1, 4)
		// a bystander message first and last: its flits must not be counted with ours
		metas := []messaging.MsgMeta{
			{ID: 900, Src: "Dev.Port0", Dst: "Far.Port", TrafficBytes: 0, TrafficClass: "x"},
			{ID: 901, Src: "Dev.Port0", Dst: "Far.Port", TrafficBytes: cs.Bytes, TrafficClass: "y", RspTo: 5},
			{ID: 902, Src: "Dev.Port0", Dst: "Far.Port", TrafficBytes: 0, TrafficClass: "x"},
		}
		for _, m := range metas {
			r.dev[0].Send(m)
		}
		for round := 0; round < 200; round++ {
			_ = r.eng.Run()
			n := 0
			for r.net.PeekOutgoing() != nil {
				flits = append(flits, r.net.RetrieveOutgoing().(packetization.Flit))
				n++
			}
			if n == 0 {
				break
			}
		}
	})
	if msg != "" {
		bad("panic", "endpoint panicked: %s", msg)
		return "panic", probs
	}
	got := 0
	for _, f := range flits {
		if f.Msg.ID != 901 {
			continue
		}
		got++
		if f.NumFlitInMsg != want {
			bad("announced", "flit %d announces NumFlitInMsg=%d, the encoded size %d needs %d", f.SeqID, f.NumFlitInMsg, encoded, want)
		}
		if f.Msg.TrafficBytes != cs.Bytes || f.Msg.Src != "Dev.Port0" || f.Msg.Dst != "Far.Port" || f.Msg.RspTo != 5 || f.Msg.TrafficClass != "y" {
			bad("carried-meta", "flit carries %+v, not the message that was sent", f.Msg)
		}
	}
	if got != want {
		bad("count", "%d flits left the network port, the encoded size %d needs %d", got, encoded, want)
	}
	if len(flits)-got != 2 {
		bad("bystander", "the two zero-byte bystander messages produced %d flits, want 2", len(flits)-got)
	}
	return fmt.Sprintf("count flits=%d", want), dedupeProblems(probs)
}

type epDelivery struct {
	msg      messaging.Msg
	port     int
	injected int // flits injected so far when the delivery happened
}

type epPortHook struct {
	port int
	log  *[]epDelivery
	inj  *int
}

func (h *epPortHook) Func(ctx hooking.HookCtx) {
	if ctx.Pos != messaging.HookPosPortMsgRecvd {
		return
	}
	m, _ := ctx.Item.(messaging.Msg)
	*h.log = append(*h.log, epDelivery{msg: m, port: h.port, injected: *h.inj})
}

func runReassembly(cs epCase) (string, []lib.Problem) {
	spec := endpoint.DefaultSpec()
	spec.NumInputChannels = cs.InCh
	spec.NumOutputChannels = 1
	var probs []lib.Problem
	bad := func(key, format string, a ...any) {
		probs = append(probs, lib.Problem{Key: "endpoint:reassembly:" + key,
			What: fmt.Sprintf("sizes=%v order=%v inch=%d devcap=%d burst=%d eager=%v: ", cs.Sizes, cs.Order, cs.InCh, cs.DevCap, cs.Burst, cs.Eager) + fmt.Sprintf(format, a...)})
	}

	// messages and their flits
	type flitRef struct{ msg, seq int }
	var flat []flitRef
	metas := make([]messaging.MsgMeta, len(cs.Sizes))
	for i, n := range cs.Sizes {
		metas[i] = messaging.MsgMeta{
			ID:           uint64(100 + i),
			Src:          messaging.RemotePort(fmt.Sprintf("Far[%d].Port", i)),
			Dst:          messaging.RemotePort(fmt.Sprintf("Dev.Port%d", i%2)),
			TrafficClass: fmt.Sprintf("class-%d", i),
			TrafficBytes: 10*i + 1,
			RspTo:        uint64(7 * i),
		}
		for s := 0; s < n; s++ {
			flat = append(flat, flitRef{i, s})
		}
	}
	if len(cs.Order) != len(flat) {
		return "bad-case", nil
	}

	var log []epDelivery
	injected := 0
	arrivedAt := make([]int, len(metas)) // number of injected flits after which message i was complete
	msg := lib.Catch(func() {
		r := buildEndpoint(spec, 2, cs.DevCap)
		for i, p := range r.dev {
			p.AcceptHook(&epPortHook{port: i, log: &log, inj: &injected})
		}
		drain := func() bool {
			gotAny := false
			for _, p := range r.dev {
				for p.PeekIncoming() != nil {
					p.RetrieveIncoming()
					gotAny = true
				}
			}
			return gotAny
		}
		seen := make([]int, len(metas))
		for k, fi := range cs.Order {
			fr := flat[fi]
			if !r.net.CanDeliver() {
				_ = r.eng.Run()
			}
			r.net.Deliver(packetization.Flit{
				MsgMeta:      messaging.MsgMeta{ID: uint64(1000 + fi), Src: "Switch.Port", Dst: "EP.NetworkPort"},
				SeqID:        fr.seq,
				NumFlitInMsg: cs.Sizes[fr.msg],
				Msg:          metas[fr.msg],
				MsgTaskID:    uint64(500 + fr.msg),
			})
			injected++
			seen[fr.msg]++
			if seen[fr.msg] == cs.Sizes[fr.msg] {
				arrivedAt[fr.msg] = injected
			}
			if (k+1)%cs.Burst == 0 || k+1 == len(cs.Order) {
				_ = r.eng.Run()
				if cs.Eager {
					for drain() {
						_ = r.eng.Run()
					}
				}
			}
		}
		for round := 0; round < 50; round++ {
			_ = r.eng.Run()
			if !drain() {
				break
			}
		}
	})
	if msg != "" {
		bad("panic", "endpoint panicked: %s", msg)
		return "panic", probs
	}

	times := make([]int, len(metas))
	for _, d := range log {
		am, ok := d.msg.(packetization.AssembledMsg)
		if !ok {
			bad("wrong-type", "device port %d received a %T", d.port, d.msg)
			continue
		}
		match := -1
		for i := range metas {
			if reflect.DeepEqual(am.MsgMeta, metas[i]) {
				match = i
			}
		}
		if match < 0 {
			bad("fields-altered-or-merged", "device port %d received %+v, which is none of the messages sent", d.port, am.MsgMeta)
			continue
		}
		if match%2 != d.port {
			bad("wrong-port", "message %d (dst %s) was delivered to device port %d", match, metas[match].Dst, d.port)
		}
		times[match]++
		if d.injected < arrivedAt[match] || arrivedAt[match] == 0 {
			bad("early-delivery", "message %d was delivered after %d injected flits, its last flit was number %d", match, d.injected, arrivedAt[match])
		}
	}
	for i, n := range times {
		switch {
		case n == 0:
			bad("never-delivered", "message %d (%d flits, all arrived) was never delivered", i, cs.Sizes[i])
		case n > 1:
			bad("delivered-twice", "message %d was delivered %d times", i, n)
		}
	}
	total := 0
	for _, n := range cs.Sizes {
		total += n
	}
	return fmt.Sprintf("reasm msgs=%d flits=%d inch=%d devcap=%d burst=%d eager=%v", len(cs.Sizes), total, cs.InCh, cs.DevCap, cs.Burst, cs.Eager), dedupeProblems(probs)
}

func runEpCase(cs epCase) (string, []lib.Problem) {
	if cs.Count {
		return runFlitCount(cs)
	}
	return runReassembly(cs)
}

// permutations yields every permutation of 0..n-1 (lexicographic).
func permutations(n int, yield func([]int) bool) bool {
	perm := make([]int, n)
	used := make([]bool, n)
	var rec func(i int) bool
	rec = func(i int) bool {
		if i == n {
			return yield(append([]int(nil), perm...))
		}
		for v := 0; v < n; v++ {
			if used[v] {
				continue
			}
			used[v] = true
			perm[i] = v
			if !rec(i + 1) {
				return false
			}
			used[v] = false
		}
		return true
	}
	return rec(0)
}

// inOrderOnly tells whether the flits of every message appear in ascending
// (or, with desc, descending) sequence order in perm.
func inOrderOnly(perm []int, owner []int, desc bool) bool {
	last := map[int]int{}
	for _, fi := range perm {
		m := owner[fi]
		if l, ok := last[m]; ok {
			if (!desc && fi < l) || (desc && fi > l) {
				return false
			}
		}
		last[m] = fi
	}
	return true
}

func enumEpCases(thorough bool, yield func(epCase) bool) {
	// (i) flit count
	flitSizes := []int{1, 8, 64}
	ovs := [][2]int{{0, 1}, {1, 4}, {1, 2}, {1, 1}}
	span := 3
	if thorough {
		flitSizes = []int{1, 2, 8, 32, 64}
		ovs = [][2]int{{0, 1}, {1, 8}, {1, 4}, {1, 2}, {3, 4}, {1, 1}, {2, 1}}
		span = 5
	}
	for _, fs := range flitSizes {
		for _, ov := range ovs {
			for b := 0; b <= span*fs+1; b++ {
				for outch := 1; outch <= 2; outch++ {
					if !yield(epCase{Count: true, Bytes: b, OvNum: ov[0], OvDen: ov[1], Flit: fs, OutCh: outch}) {
						return
					}
				}
			}
		}
	}
	// (ii) reassembly
	var sizeSets [][]int
	for a := 1; a <= 3; a++ {
		for b := 1; b <= 3; b++ {
			sizeSets = append(sizeSets, []int{a, b})
		}
	}
	for a := 1; a <= 3; a++ {
		for b := 1; b <= 3; b++ {
			for c := 1; c <= 3; c++ {
				if a+b+c <= 7 {
					sizeSets = append(sizeSets, []int{a, b, c})
				}
			}
		}
	}
	for _, sizes := range sizeSets {
		total := 0
		var owner []int
		for i, n := range sizes {
			total += n
			for s := 0; s < n; s++ {
				owner = append(owner, i)
			}
		}
		bursts := []int{1, 2, total}
		if total == 2 {
			bursts = []int{1, 2}
		}
		ok := permutations(total, func(perm []int) bool {
			// quick: every arrival order for <= 6 flits; for 7 flits every interleaving
			// with the flits of each message in ascending or in descending order.
			if !thorough && total > 6 && !inOrderOnly(perm, owner, false) && !inOrderOnly(perm, owner, true) {
				return true
			}
			for inch := 1; inch <= 2; inch++ {
				for _, devcap := range []int{1, 4} {
					for _, burst := range bursts {
						for _, eager := range []bool{false, true} {
							if !yield(epCase{Sizes: sizes, Order: perm, InCh: inch, DevCap: devcap, Burst: burst, Eager: eager}) {
								return false
							}
						}
					}
				}
			}
			return true
		})
		if !ok {
			return
		}
	}
}

func init() {
	lib.Register(&lib.Check{
		ID:    "C31",
		Level: "exploration",
		Rule: "(i) every (traffic bytes 0..3*flit+1, overhead in {0,1/4,1/2,1}, flit size in {1,8,64}, output channels 1..2) (thorough: bytes 0..5*flit+1, overheads {0,1/8,1/4,1/2,3/4,1,2}, flit sizes {1,2,8,32,64}): the message is sent through a real device port into the real endpoint between two zero-byte bystanders, the flits leaving the network port are counted and compared with max(1, ceil((b+ceil(b*ov))/flit)) in integer arithmetic; " +
			"(ii) every message set of 2..3 messages with 1..3 flits each (<= 7 flits) x every arrival order of the distinct flits (quick: for 7 flits only the interleavings with each message's flits ascending or descending) x input channels {1,2} x device-port capacity {1,4} x burst {1,2,all} x device drains {eagerly, at the end}: " +
			"flits are delivered to the real endpoint's network port, the real serial engine is run, a hook on the two device ports records every delivery; each message must be delivered exactly once, to its port, only after its last flit, with all fields intact. Each parameter tuple is a distinct case.",
		Sharded:     true,
		MinOutcomes: 20,
		Assumptions: []string{
			"overheads are dyadic rationals so the implementation's float64 arithmetic cannot legitimately differ from the exact reference",
			"the harness plays device and network: stub owner for the device ports, stub connection on the network port; tracing hooks are not attached to the endpoint",
			"message IDs are distinct; every message's flits announce the same NumFlitInMsg",
		},
		Run: func(c *lib.Ctx) {
			lib.Cases(c, func(yield func(epCase) bool) { enumEpCases(c.Thorough(), yield) }, runEpCase)
		},
		Replay: lib.ReplayCases(runEpCase),
	})
}

package grpb

import (
	"bytes"
	"encoding/json"
	"fmt"
	"reflect"
	"strings"
	"sync"
	"unicode"
	"unsafe"

	"github.com/sarchlab/akita/v5/modeling"
	"github.com/sarchlab/akita/v5/timing"

	"verif/harness/lib"
)

// C43: a Spec/State type accepted by modeling.ValidateSpec / ValidateState (and
// therefore by component construction) round-trips every value of a small
// lattice through encoding/json (and, for the hand-written catalogue, through a
// real modeling.Component checkpoint); structs whose state is only in
// unexported fields without custom JSON are rejected.
//
// What the oracle deliberately does NOT demand:
//   - nothing about rejected types (the validator may be stricter than needed),
//     except the statement's own lossy shape (unexported-only, no custom JSON);
//   - fields tagged `json:"-"` are an explicit opt-out written by the author of
//     the type: they are expected to come back as zero and are not judged;
//   - NaN/Inf floats (Marshal fails loudly) and invalid UTF-8 strings are not in
//     the value lattice.

const c43Pkg = "verif/harness/checks/grpb"

// tdesc is a JSON-serialisable description of a Go type.
type tdesc struct {
	K  string  `json:"k"`            // leaf kind name, or slice|array|map|struct|ptr|iface|chan|func
	E  *tdesc  `json:"e,omitempty"`  // element type
	MK string  `json:"mk,omitempty"` // map key kind
	F  []fdesc `json:"f,omitempty"`  // struct fields
}

type fdesc struct {
	N   string `json:"n"`             // field name; lower case first letter = unexported
	Tag string `json:"tag,omitempty"` // value of the json tag ("" = no tag)
	T   tdesc  `json:"t"`
}

type valCase struct {
	T   *tdesc `json:"t,omitempty"`
	Cat string `json:"cat,omitempty"` // name of a hand-written catalogue entry
}

var leafTypes = map[string]reflect.Type{
	"bool": reflect.TypeOf(false), "string": reflect.TypeOf(""),
	"int": reflect.TypeOf(int(0)), "int8": reflect.TypeOf(int8(0)), "int16": reflect.TypeOf(int16(0)),
	"int32": reflect.TypeOf(int32(0)), "int64": reflect.TypeOf(int64(0)),
	"uint": reflect.TypeOf(uint(0)), "uint8": reflect.TypeOf(uint8(0)), "uint16": reflect.TypeOf(uint16(0)),
	"uint32": reflect.TypeOf(uint32(0)), "uint64": reflect.TypeOf(uint64(0)),
	"float32": reflect.TypeOf(float32(0)), "float64": reflect.TypeOf(float64(0)),
	"complex128": reflect.TypeOf(complex128(0)),
}

func (d tdesc) goType() reflect.Type {
	if t, ok := leafTypes[d.K]; ok {
		return t
	}
	switch d.K {
	case "slice":
		return reflect.SliceOf(d.E.goType())
	case "array":
		return reflect.ArrayOf(2, d.E.goType())
	case "map":
		return reflect.MapOf(leafTypes[d.MK], d.E.goType())
	case "ptr":
		return reflect.PointerTo(d.E.goType())
	case "iface":
		return reflect.TypeOf((*any)(nil)).Elem()
	case "chan":
		return reflect.ChanOf(reflect.BothDir, reflect.TypeOf(0))
	case "func":
		return reflect.TypeOf(func() {})
	case "struct":
		fs := make([]reflect.StructField, len(d.F))
		for i, f := range d.F {
			fs[i] = reflect.StructField{Name: f.N, Type: f.T.goType()}
			if f.Tag != "" {
				fs[i].Tag = reflect.StructTag(fmt.Sprintf(`json:"%s"`, f.Tag))
			}
			if !unicode.IsUpper(rune(f.N[0])) {
				fs[i].PkgPath = c43Pkg
			}
		}
		return reflect.StructOf(fs)
	}
	panic("bad type descriptor " + d.K)
}

func (d tdesc) String() string {
	switch d.K {
	case "slice":
		return "[]" + d.E.String()
	case "array":
		return "[2]" + d.E.String()
	case "map":
		return "map[" + d.MK + "]" + d.E.String()
	case "ptr":
		return "*" + d.E.String()
	case "iface":
		return "any"
	case "chan":
		return "chan int"
	case "func":
		return "func()"
	case "struct":
		var parts []string
		for _, f := range d.F {
			s := f.N + " " + f.T.String()
			if f.Tag != "" {
				s += fmt.Sprintf(" `json:%q`", f.Tag)
			}
			parts = append(parts, s)
		}
		return "struct{" + strings.Join(parts, "; ") + "}"
	}
	return d.K
}

// ---------------------------------------------------------------------------
// value lattice

var leafValues = map[reflect.Kind][]any{
	reflect.Bool:       {false, true},
	reflect.String:     {"", "a", "é\n\"<&>"},
	reflect.Int:        {int(0), int(1), int(-2)},
	reflect.Int8:       {int8(0), int8(1), int8(-128)},
	reflect.Int16:      {int16(0), int16(1), int16(-2)},
	reflect.Int32:      {int32(0), int32(1), int32(-2)},
	reflect.Int64:      {int64(0), int64(1), int64(-9223372036854775808)},
	reflect.Uint:       {uint(0), uint(1), uint(2)},
	reflect.Uint8:      {uint8(0), uint8(1), uint8(255)},
	reflect.Uint16:     {uint16(0), uint16(1), uint16(2)},
	reflect.Uint32:     {uint32(0), uint32(1), uint32(2)},
	reflect.Uint64:     {uint64(0), uint64(1), uint64(18446744073709551615)},
	reflect.Float32:    {float32(0), float32(1.5), float32(0.1)},
	reflect.Float64:    {float64(0), float64(1.5), float64(-0.1)},
	reflect.Complex128: {complex128(0), complex(1, 2)},
}

// cleanField returns field i of the addressable struct v without the read-only
// flag reflect puts on unexported fields.
func cleanField(v reflect.Value, i int) reflect.Value {
	f := v.Field(i)
	return reflect.NewAt(f.Type(), unsafe.Pointer(f.UnsafeAddr())).Elem()
}

func variants(t reflect.Type) int {
	if vs, ok := leafValues[t.Kind()]; ok {
		return len(vs)
	}
	switch t.Kind() {
	case reflect.Slice, reflect.Map:
		return 4
	case reflect.Array:
		return 3
	case reflect.Struct:
		n := 3
		for i := 0; i < t.NumField(); i++ {
			n += variants(t.Field(i).Type) - 1
		}
		if t.NumField() == 0 {
			return 1
		}
		return n
	default: // ptr, interface, chan, func
		return 2
	}
}

// mk builds the i-th value of the lattice of t (i taken modulo the lattice
// size). It is deterministic and returns a fresh, addressable, unaliased value.
func mk(t reflect.Type, i int) reflect.Value {
	v := reflect.New(t).Elem()
	n := variants(t)
	i %= n
	if i == 0 {
		return v
	}
	if vs, ok := leafValues[t.Kind()]; ok {
		v.Set(reflect.ValueOf(vs[i]).Convert(t))
		return v
	}
	switch t.Kind() {
	case reflect.Slice:
		s := reflect.MakeSlice(t, 0, 2)
		for k := 1; k < i; k++ {
			s = reflect.Append(s, mk(t.Elem(), k))
		}
		v.Set(s)
	case reflect.Array:
		for k := 0; k < t.Len(); k++ {
			v.Index(k).Set(mk(t.Elem(), i+k))
		}
	case reflect.Map:
		m := reflect.MakeMap(t)
		for k := 1; k < i; k++ {
			m.SetMapIndex(mk(t.Key(), k), mk(t.Elem(), k))
		}
		v.Set(m)
	case reflect.Struct:
		if i <= 2 {
			for f := 0; f < t.NumField(); f++ {
				cleanField(v, f).Set(mk(t.Field(f).Type, i))
			}
			return v
		}
		i -= 3
		for f := 0; f < t.NumField(); f++ {
			nf := variants(t.Field(f).Type) - 1
			if i < nf {
				cleanField(v, f).Set(mk(t.Field(f).Type, i+1))
				return v
			}
			i -= nf
		}
	case reflect.Ptr:
		p := reflect.New(t.Elem())
		p.Elem().Set(mk(t.Elem(), 1))
		v.Set(p)
	case reflect.Interface:
		v.Set(reflect.ValueOf(1))
	case reflect.Chan:
		v.Set(reflect.MakeChan(t, 1))
	case reflect.Func:
		v.Set(reflect.MakeFunc(t, func([]reflect.Value) []reflect.Value { return nil }))
	}
	return v
}

func jsonName(f reflect.StructField) (name string, dash bool) {
	tag := f.Tag.Get("json")
	if tag == "-" {
		return "", true
	}
	if k := strings.IndexByte(tag, ','); k >= 0 {
		tag = tag[:k]
	}
	if tag != "" {
		return tag, false
	}
	return f.Name, false
}

var (
	marshalerT   = reflect.TypeOf((*json.Marshaler)(nil)).Elem()
	unmarshalerT = reflect.TypeOf((*json.Unmarshaler)(nil)).Elem()
)

func customJSONType(t reflect.Type) bool {
	return t.Implements(marshalerT) || reflect.PointerTo(t).Implements(marshalerT) ||
		reflect.PointerTo(t).Implements(unmarshalerT)
}

// scrub zeroes, in place, every field tagged json:"-" (the explicit opt-out).
func scrub(v reflect.Value) {
	t := v.Type()
	if customJSONType(t) {
		return
	}
	switch t.Kind() {
	case reflect.Struct:
		for i := 0; i < t.NumField(); i++ {
			f := cleanField(v, i)
			if _, dash := jsonName(t.Field(i)); dash {
				f.Set(reflect.Zero(f.Type()))
				continue
			}
			scrub(f)
		}
	case reflect.Slice, reflect.Array:
		for i := 0; i < v.Len(); i++ {
			scrub(v.Index(i))
		}
	case reflect.Map:
		for _, k := range v.MapKeys() {
			e := reflect.New(t.Elem()).Elem()
			e.Set(v.MapIndex(k))
			scrub(e)
			v.SetMapIndex(k, e)
		}
	}
}

// unexportedOnlyShape reports whether t contains (outside json:"-" fields and
// outside types with custom JSON) a struct that has fields, all of them
// unexported and none embedded: the lossy shape named by the statement.
func unexportedOnlyShape(t reflect.Type) bool {
	if customJSONType(t) {
		return false
	}
	switch t.Kind() {
	case reflect.Slice, reflect.Array, reflect.Map:
		return unexportedOnlyShape(t.Elem())
	case reflect.Struct:
		if t.NumField() == 0 {
			return false
		}
		all := true
		for i := 0; i < t.NumField(); i++ {
			f := t.Field(i)
			if f.PkgPath == "" || f.Anonymous {
				all = false
			}
		}
		if all {
			return true
		}
		for i := 0; i < t.NumField(); i++ {
			f := t.Field(i)
			if _, dash := jsonName(f); dash || f.PkgPath != "" {
				continue
			}
			if unexportedOnlyShape(f.Type) {
				return true
			}
		}
	}
	return false
}

// firstDiff explains the first difference between want and got (both
// addressable): which kind of field lost or altered its data.
func firstDiff(w, g reflect.Value, path string, outer map[string]bool) (reason, where string) {
	t := w.Type()
	if customJSONType(t) {
		return "custom-json-type", path
	}
	switch t.Kind() {
	case reflect.Struct:
		names := map[string]int{}
		for i := 0; i < t.NumField(); i++ {
			if n, dash := jsonName(t.Field(i)); !dash && t.Field(i).PkgPath == "" && !t.Field(i).Anonymous {
				names[n]++
			}
		}
		for i := 0; i < t.NumField(); i++ {
			f := t.Field(i)
			wf, gf := cleanField(w, i), cleanField(g, i)
			if reflect.DeepEqual(wf.Interface(), gf.Interface()) {
				continue
			}
			p := path + "." + f.Name
			n, _ := jsonName(f)
			switch {
			case f.Anonymous && f.Type.Kind() == reflect.Struct:
				shadow := map[string]bool{}
				for k := range names {
					shadow[k] = true
				}
				r, wh := firstDiff(wf, gf, p, shadow)
				if f.PkgPath != "" && strings.HasPrefix(r, "unexported-field-dropped") && !strings.Contains(r, "behind-embedded") {
					r += ":behind-embedded-unexported-type"
				}
				return r, wh
			case f.PkgPath != "":
				// the known shape is a struct that ALSO has exported fields
				// (accepted on purpose); a struct with only unexported fields
				// is the lossy shape the validator must reject
				if len(names) == 0 {
					return "unexported-field-dropped:in-unexported-only-struct", p
				}
				return "unexported-field-dropped", p
			case names[n] > 1:
				return "duplicate-json-name", p
			case outer[n]:
				return "embedded-field-shadowed", p
			}
			return firstDiff(wf, gf, p, nil)
		}
	case reflect.Slice, reflect.Array:
		if w.Len() != g.Len() || (t.Kind() == reflect.Slice && w.IsNil() != g.IsNil()) {
			return "length-or-nilness:" + t.Kind().String(), path
		}
		for i := 0; i < w.Len(); i++ {
			if !reflect.DeepEqual(w.Index(i).Interface(), g.Index(i).Interface()) {
				return firstDiff(w.Index(i), g.Index(i), fmt.Sprintf("%s[%d]", path, i), nil)
			}
		}
	case reflect.Map:
		if w.Len() != g.Len() || w.IsNil() != g.IsNil() {
			return "length-or-nilness:map", path
		}
		for _, k := range w.MapKeys() {
			we, ge := w.MapIndex(k), g.MapIndex(k)
			if !ge.IsValid() {
				return "map-key-lost:" + t.Key().Kind().String(), path
			}
			if !reflect.DeepEqual(we.Interface(), ge.Interface()) {
				wa, ga := reflect.New(t.Elem()).Elem(), reflect.New(t.Elem()).Elem()
				wa.Set(we)
				ga.Set(ge)
				return firstDiff(wa, ga, fmt.Sprintf("%s[%v]", path, k), nil)
			}
		}
	}
	return "value-altered:" + t.Kind().String(), path
}

var titleOf = map[string]string{"spec": "Spec", "state": "State"}

func errClass(err error) string {
	if err == nil {
		return "accepted"
	}
	s := err.Error()
	for _, k := range []string{"serializes as {}", "no UnmarshalJSON", "nested structs not allowed", "disallowed kind", "map key must be", "unsupported kind", "expected struct"} {
		if strings.Contains(s, k) {
			return "rejected(" + k + ")"
		}
	}
	return "rejected(other)"
}

// judgeType applies the oracle to one type. extra, when not nil, is an
// additional round trip (the component checkpoint) applied to every value.
func judgeType(t reflect.Type, label string, extra func(val reflect.Value) (reflect.Value, error)) (string, []lib.Problem) {
	var probs []lib.Problem
	bad := func(key, format string, a ...any) {
		probs = append(probs, lib.Problem{Key: "validate:" + key, What: "type " + label + ": " + fmt.Sprintf(format, a...)})
	}
	zero := reflect.Zero(t).Interface()
	var errSpec, errState error
	if msg := lib.Catch(func() { errSpec = modeling.ValidateSpec(zero) }); msg != "" {
		bad("spec:validator-panic", "ValidateSpec panicked: %s", msg)
		return "panic", probs
	}
	if msg := lib.Catch(func() { errState = modeling.ValidateState(zero) }); msg != "" {
		bad("state:validator-panic", "ValidateState panicked: %s", msg)
		return "panic", probs
	}
	var accepting []string
	if errSpec == nil {
		accepting = append(accepting, "spec")
	}
	if errState == nil {
		accepting = append(accepting, "state")
	}
	outcome := fmt.Sprintf("spec=%s state=%s", errClass(errSpec), errClass(errState))
	if unexportedOnlyShape(t) {
		outcome += " shape=unexported-only"
		for _, who := range accepting {
			bad(who+":lossy-shape-accepted:unexported-only", "contains a struct whose state is only in unexported fields without custom JSON, yet Validate%s accepts it", titleOf[who])
		}
	}
	if len(accepting) == 0 {
		return outcome, probs
	}
	n := variants(t)
	lossy := map[string]bool{}
	for i := 0; i < n; i++ {
		val, want := mk(t, i), mk(t, i)
		scrub(want)
		trips := []struct {
			name string
			f    func(reflect.Value) (reflect.Value, error)
		}{{"json", func(v reflect.Value) (reflect.Value, error) {
			data, err := json.Marshal(v.Interface())
			if err != nil {
				return reflect.Value{}, fmt.Errorf("marshal: %w", err)
			}
			p := reflect.New(t)
			if err := json.Unmarshal(data, p.Interface()); err != nil {
				return reflect.Value{}, fmt.Errorf("unmarshal of %s: %w", data, err)
			}
			return p.Elem(), nil
		}}}
		if extra != nil {
			trips = append(trips, struct {
				name string
				f    func(reflect.Value) (reflect.Value, error)
			}{"component-checkpoint", extra})
		}
		for _, trip := range trips {
			if trip.name == "component-checkpoint" && errState != nil {
				continue
			}
			var got reflect.Value
			var err error
			if msg := lib.Catch(func() { got, err = trip.f(val) }); msg != "" {
				err = fmt.Errorf("panic: %s", msg)
			}
			reason, where := "", ""
			switch {
			case err != nil:
				reason = "unmarshal-error"
				if strings.HasPrefix(err.Error(), "marshal") {
					reason = "marshal-error"
				}
				where = err.Error()
			case !reflect.DeepEqual(want.Interface(), got.Interface()):
				reason, where = firstDiff(want, got, "v", nil)
				where = fmt.Sprintf("%s: stored %+v, restored %+v", where, want.Interface(), got.Interface())
			default:
				continue
			}
			if lossy[trip.name+reason] {
				continue
			}
			lossy[trip.name+reason] = true
			for _, who := range accepting {
				if trip.name == "component-checkpoint" && who != "state" {
					continue
				}
				key := fmt.Sprintf("%s:accepted-lossy:%s:%s", who, trip.name, reason)
				if strings.HasPrefix(label, "catalogue:") { // hand-written shapes are told apart by name
					key += "@" + strings.TrimPrefix(label, "catalogue:")
				}
				bad(key, "accepted by Validate%s but value #%d does not survive the %s round trip — %s", titleOf[who], i, trip.name, where)
			}
		}
	}
	if len(lossy) > 0 {
		outcome += " lossy"
	}
	return outcome, probs
}

// ---------------------------------------------------------------------------
// hand-written catalogue (what reflect.StructOf cannot express)

type catPair struct{ vals []int }

func (c catPair) MarshalJSON() ([]byte, error)  { return json.Marshal(c.vals) }
func (c *catPair) UnmarshalJSON(b []byte) error { return json.Unmarshal(b, &c.vals) }

type catMarshalOnly struct{ vals []int }

func (c catMarshalOnly) MarshalJSON() ([]byte, error) { return json.Marshal(c.vals) }

type catPtrPair struct{ vals []int }

func (c *catPtrPair) MarshalJSON() ([]byte, error) { return json.Marshal(c.vals) }
func (c *catPtrPair) UnmarshalJSON(b []byte) error { return json.Unmarshal(b, &c.vals) }

type catHidden struct {
	vals  []int
	index map[string]int
}

type catinner struct { // unexported type, exported fields
	C int
}

// catSetMarshalOnly is a named non-struct type with only the marshal half.
type catSetMarshalOnly map[string]bool

func (s catSetMarshalOnly) MarshalJSON() ([]byte, error) {
	if s == nil {
		return []byte("null"), nil
	}
	keys := []string{}
	for k := range s {
		keys = append(keys, k)
	}
	if len(keys) > 1 && keys[0] > keys[1] {
		keys[0], keys[1] = keys[1], keys[0]
	}
	return json.Marshal(keys)
}

// catSetPair is a named map type with both halves, written to be faithful
// (nil-ness and false entries included).
type catSetPair map[string]bool

func (s catSetPair) MarshalJSON() ([]byte, error) {
	return json.Marshal(struct{ M map[string]bool }{map[string]bool(s)})
}
func (s *catSetPair) UnmarshalJSON(b []byte) error {
	var w struct{ M map[string]bool }
	if err := json.Unmarshal(b, &w); err != nil {
		return err
	}
	*s = catSetPair(w.M)
	return nil
}

type (
	catStatePair struct {
		Count int
		LRU   catPair
	}
	catStateMarshalOnly struct {
		Count int
		LRU   catMarshalOnly
	}
	catStatePtrPair struct {
		Count int
		LRU   catPtrPair
	}
	catStateHidden struct {
		Count int
		L     catHidden
	}
	catSliceHidden struct{ L []catHidden }
	catMapHidden   struct{ L map[string]catHidden }
	catArrayHidden struct{ L [2]catHidden }
	catDeepHidden  struct{ In struct{ H catHidden } }
	catEmbedded    struct {
		catInner0
		X int
	}
	catInner0 struct {
		A int
		B string
	}
	catEmbeddedLower struct {
		catinner
		X int
	}
	catEmbeddedShadow struct {
		catInner0
		A int
	}
	// embedded struct types with a lower-case name: encoding/json still
	// promotes their exported fields, so a lossy field type behind them matters
	catinnerHidden struct {
		Recent catHidden
		Hits   int
	}
	catEmbeddedLowerHidden struct {
		catinnerHidden
		Count int
	}
	catinnerMarshalOnly struct {
		M catMarshalOnly
	}
	catEmbeddedLowerMarshalOnly struct {
		catinnerMarshalOnly
		N int
	}
	catinnerPtr struct {
		P *int
	}
	catEmbeddedLowerPtr struct {
		catinnerPtr
		N int
	}
	catMixed struct {
		Count   int
		scratch int
	}
	catNamedMarshalOnly struct{ Tags catSetMarshalOnly }
	catNamedPair        struct{ Tags catSetPair }
	catTopPair          = catPair
	catTopMarshalOnly   = catMarshalOnly
	catTopHidden        = catHidden
	catEmpty            struct{}
	catDashPtr          struct {
		N    int
		Back *int `json:"-"`
	}
)

// The custom-JSON types hold their state in unexported fields, which mk()
// fills through unsafe like any other field, so the generic lattice applies.

type catSpec struct {
	N int `json:"n"`
}

var (
	compTripMu   sync.Mutex
	compTripPrev = map[reflect.Type]reflect.Value{}
)

// compTrip round-trips a State value through a real modeling.Component
// checkpoint (SaveCheckpoint on one component, LoadCheckpoint on a second one
// built the same way).
func compTrip[T any](val reflect.Value) (reflect.Value, error) {
	eng := timing.NewSerialEngine()
	build := func(name string) *modeling.Component[catSpec, T, modeling.None] {
		return modeling.NewBuilder[catSpec, T, modeling.None]().
			WithEngine(eng).WithFreq(1 * timing.GHz).WithSpec(catSpec{N: 3}).Build(name)
	}
	a, b := build("A"), build("B")
	a.State = val.Interface().(T)
	// the receiving component is not fresh: it holds the previous value of this
	// type (restore into a component that kept running / was pre-populated)
	compTripMu.Lock()
	if prev, ok := compTripPrev[val.Type()]; ok {
		if pv, ok := prev.Interface().(T); ok {
			b.State = pv
		}
	}
	compTripPrev[val.Type()] = val
	compTripMu.Unlock()
	var buf bytes.Buffer
	if err := a.SaveCheckpoint(&buf); err != nil {
		return reflect.Value{}, fmt.Errorf("marshal: %w", err)
	}
	if err := b.LoadCheckpoint(&buf); err != nil {
		return reflect.Value{}, err
	}
	out := reflect.New(val.Type()).Elem()
	out.Set(reflect.ValueOf(b.State))
	return out, nil
}

// buildAgrees checks that component construction accepts a State type exactly
// when ValidateState does.
func buildAgrees[T any](label string) []lib.Problem {
	var zero T
	want := modeling.ValidateState(zero) == nil
	msg := lib.Catch(func() {
		modeling.NewBuilder[catSpec, T, modeling.None]().
			WithEngine(timing.NewSerialEngine()).WithFreq(1 * timing.GHz).WithSpec(catSpec{}).Build("C")
	})
	if (msg == "") != want {
		return []lib.Problem{{Key: "validate:state:build-disagrees-with-validator",
			What: fmt.Sprintf("type %s: ValidateState accepts=%v but Builder.Build panic=%q", label, want, msg)}}
	}
	return nil
}

type catEntry struct {
	name string
	run  func() (string, []lib.Problem)
}

func catOf[T any](name string) catEntry {
	return catEntry{name, func() (string, []lib.Problem) {
		var zero T
		t := reflect.TypeOf(zero)
		label := "catalogue:" + name
		out, probs := judgeType(t, label, compTrip[T])
		probs = append(probs, buildAgrees[T](label)...)
		return "cat " + name + " " + out, probs
	}}
}

var catalogue = []catEntry{
	catOf[catEmpty]("empty"),
	catOf[catStatePair]("nested-custom-pair"),
	catOf[catTopPair]("top-custom-pair"),
	catOf[catStateMarshalOnly]("nested-marshal-only"),
	catOf[catTopMarshalOnly]("top-marshal-only"),
	catOf[catStatePtrPair]("nested-pointer-receiver-pair"),
	catOf[catTopHidden]("top-unexported-only"),
	catOf[catStateHidden]("nested-unexported-only"),
	catOf[catSliceHidden]("slice-of-unexported-only"),
	catOf[catMapHidden]("map-of-unexported-only"),
	catOf[catArrayHidden]("array-of-unexported-only"),
	catOf[catDeepHidden]("deep-unexported-only"),
	catOf[catEmbedded]("embedded-exported"),
	catOf[catEmbeddedLower]("embedded-unexported-type"),
	catOf[catEmbeddedShadow]("embedded-shadowed"),
	catOf[catEmbeddedLowerHidden]("embedded-unexported-type-with-unexported-only-field"),
	catOf[catEmbeddedLowerMarshalOnly]("embedded-unexported-type-with-marshal-only-field"),
	catOf[catEmbeddedLowerPtr]("embedded-unexported-type-with-pointer-field"),
	catOf[catMixed]("mixed-exported-unexported"),
	catOf[catNamedMarshalOnly]("named-map-marshal-only"),
	catOf[catNamedPair]("named-map-custom-pair"),
	catOf[catDashPtr]("dash-pointer"),
}

// ---------------------------------------------------------------------------
// enumeration of reflect.StructOf types

func leaf(k string) tdesc { return tdesc{K: k} }

func wrap(inner []tdesc, thorough bool) []tdesc {
	keyKinds := []string{"string", "int"}
	if thorough {
		keyKinds = []string{"string", "int", "int32", "int64", "uint", "uint32", "uint64", "bool", "float64", "int8"}
	}
	var out []tdesc
	for _, x := range inner {
		x := x
		out = append(out, tdesc{K: "slice", E: &x}, tdesc{K: "array", E: &x})
		for _, mk := range keyKinds {
			out = append(out, tdesc{K: "map", MK: mk, E: &x})
		}
		out = append(out,
			tdesc{K: "struct", F: []fdesc{{N: "A", T: x}}},
			tdesc{K: "struct", F: []fdesc{{N: "A", T: x}, {N: "b", T: x}}},
			tdesc{K: "struct", F: []fdesc{{N: "b", T: x}}},
		)
	}
	return out
}

type fieldMod struct{ name, tag string }

func enumValCases(thorough bool, yield func(valCase) bool) {
	for _, e := range catalogue {
		if !yield(valCase{Cat: e.name}) {
			return
		}
	}
	leaves := []string{"bool", "int", "uint8", "float64", "string"}
	if thorough {
		leaves = []string{"bool", "int", "int8", "int16", "int32", "int64", "uint", "uint8", "uint16", "uint32", "uint64", "float32", "float64", "string"}
	}
	var d0 []tdesc
	for _, l := range leaves {
		d0 = append(d0, leaf(l))
	}
	d1 := wrap(d0, thorough)
	d2 := wrap(d1, false)
	all := append(append(append([]tdesc{}, d0...), d1...), d2...)
	emit := func(fs ...fdesc) bool {
		return yield(valCase{T: &tdesc{K: "struct", F: fs}})
	}

	// family A: one field, every type of depth <= 2, every modifier
	for _, x := range all {
		for _, m := range []fieldMod{{"F0", ""}, {"F0", "a"}, {"f0", ""}, {"F0", "-"}, {"F0", "-,"}} {
			if !emit(fdesc{N: m.name, Tag: m.tag, T: x}) {
				return
			}
		}
	}
	// family B: two fields, the first of every type, the second a companion
	pint := leaf("int")
	companions := []fdesc{
		{N: "X", T: leaf("int")},
		{N: "y", T: leaf("int")},
		{N: "Z", Tag: "a", T: leaf("string")},
		{N: "W", Tag: "-", T: tdesc{K: "ptr", E: &pint}},
	}
	for _, x := range all {
		for _, m := range []fieldMod{{"F0", ""}, {"F0", "a"}} {
			for _, c := range companions {
				if !emit(fdesc{N: m.name, Tag: m.tag, T: x}, c) {
					return
				}
			}
		}
	}
	// family C: three fields over a small alphabet, every modifier combination
	small := []tdesc{leaf("int"), leaf("string"),
		{K: "slice", E: &pint}, {K: "map", MK: "string", E: &pint},
		{K: "struct", F: []fdesc{{N: "A", T: pint}}}, {K: "struct", F: []fdesc{{N: "b", T: pint}}}}
	if thorough {
		pstr := leaf("string")
		small = append(small, tdesc{K: "array", E: &pstr}, tdesc{K: "map", MK: "uint64", E: &pstr},
			tdesc{K: "struct", F: []fdesc{{N: "A", T: pint}, {N: "b", T: pint}}})
	}
	mods := func(i int) []fieldMod {
		up, lo := fmt.Sprintf("F%d", i), fmt.Sprintf("f%d", i)
		return []fieldMod{{up, ""}, {up, "a"}, {up, "b"}, {lo, ""}, {up, "-"}, {up, "-,"}}
	}
	for _, x0 := range small {
		for _, m0 := range mods(0) {
			for _, x1 := range small {
				for _, m1 := range mods(1) {
					for _, x2 := range small {
						for _, m2 := range mods(2) {
							if !emit(fdesc{N: m0.name, Tag: m0.tag, T: x0}, fdesc{N: m1.name, Tag: m1.tag, T: x1}, fdesc{N: m2.name, Tag: m2.tag, T: x2}) {
								return
							}
						}
					}
				}
			}
		}
	}
	// family D: kinds JSON cannot carry, at depth 0 and 1, exported or opted out
	badKinds := []tdesc{{K: "ptr", E: &pint}, {K: "iface"}, {K: "chan"}, {K: "func"}, leaf("complex128"),
		{K: "map", MK: "bool", E: &pint}, {K: "map", MK: "float64", E: &pint}}
	for _, x := range append(append([]tdesc{}, badKinds...), wrap(badKinds, false)...) {
		for _, m := range []fieldMod{{"F0", ""}, {"F0", "-"}, {"F0", "-,"}} {
			if !emit(fdesc{N: m.name, Tag: m.tag, T: x}) || !emit(fdesc{N: "N", T: leaf("int")}, fdesc{N: m.name, Tag: m.tag, T: x}) {
				return
			}
		}
	}
}

func runValCase(cs valCase) (string, []lib.Problem) {
	if cs.Cat != "" {
		for _, e := range catalogue {
			if e.name == cs.Cat {
				out, probs := e.run()
				return out, dedupeProblems(probs)
			}
		}
		return "unknown-catalogue-entry", nil
	}
	var t reflect.Type
	if msg := lib.Catch(func() { t = cs.T.goType() }); msg != "" {
		// reflect.StructOf cannot build it (not an akita matter)
		return "structof-refused", nil
	}
	out, probs := judgeType(t, cs.T.String(), nil)
	shape := fmt.Sprintf("fields=%d ", len(cs.T.F))
	return shape + out, dedupeProblems(probs)
}

func init() {
	lib.Register(&lib.Check{
		ID:    "C43",
		Level: "exploration",
		Rule: "every struct type of four reflect.StructOf families over leaves {bool,int,uint8,float64,string} (thorough: all 14 integer/float/bool/string kinds) and constructors {[]T,[2]T,map[K]T (K string,int; thorough 10 key kinds),struct{A T},struct{A T; b T},struct{b T}} applied up to depth 2: " +
			"(A) one field of every such type x {exported, tagged, unexported, json:\"-\", json:\"-,\" (which encoding/json writes under the key \"-\": not an opt-out)}; (B) that field (exported or tagged \"a\") plus one companion of {exported int, unexported int, string with the same tag \"a\", json:\"-\" pointer}; " +
			"(C) three fields over a 6-type (thorough 9) alphabet x {exported, tag a, tag b, unexported, json:\"-\", json:\"-,\"}^3; (D) pointer/interface/chan/func/complex/bad-map-key fields at depth 0..1, exported or json:\"-\"; plus a hand-written catalogue of 22 types (custom marshal pairs, marshal-only, pointer-receiver pairs, unexported-only at every nesting, embedded, shadowed, named map types with custom JSON). " +
			"Per type: ValidateSpec and ValidateState are called; if either accepts, every value of the type's lattice (zero, all-fields variant 1, all-fields variant 2, each field alone at each of its variants, recursively) goes through json.Marshal/Unmarshal (catalogue: also through a real modeling.Component SaveCheckpoint/LoadCheckpoint, and Builder.Build must agree with ValidateState) and must come back DeepEqual; types containing an unexported-only struct without custom JSON must be rejected. Each type is a distinct case.",
		Sharded:     true,
		MinOutcomes: 12,
		Assumptions: []string{
			"fields tagged json:\"-\" are an explicit opt-out by the type's author: they are expected to be restored as zero and are not judged",
			"value lattice: small integers plus the extreme of int8/int64/uint8/uint64, floats {0,1.5,0.1}, valid UTF-8 strings incl. characters JSON escapes; nil and empty slices/maps; no NaN/Inf, no invalid UTF-8, no omitempty/string tag options",
			"nothing is demanded of rejected types other than the statement's own shape (unexported-only struct without custom JSON must be rejected)",
			"reflect.StructOf types cannot instantiate the generic Component, so the component-checkpoint path is exercised for the catalogue only; it is json.Marshal/Unmarshal of State plus an envelope",
		},
		Run: func(c *lib.Ctx) {
			lib.Cases(c, func(yield func(valCase) bool) { enumValCases(c.Thorough(), yield) }, runValCase)
		},
		Replay: lib.ReplayCases(runValCase),
	})
}

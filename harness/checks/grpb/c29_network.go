package grpb

import (
	"fmt"
	"runtime/debug"
	"strings"

	"github.com/sarchlab/akita/v5/hooking"
	"github.com/sarchlab/akita/v5/messaging"
	"github.com/sarchlab/akita/v5/noc/networking/mesh"
	"github.com/sarchlab/akita/v5/noc/networking/networkconnector"
	"github.com/sarchlab/akita/v5/noc/networking/nvlink"
	"github.com/sarchlab/akita/v5/noc/networking/pcie"
	"github.com/sarchlab/akita/v5/timing"

	"verif/harness/lib"
)

// C29: networks built by the mesh, PCIe, NVLink and generic connectors deliver
// every message exactly once, at its destination device port, with the six
// metadata fields unchanged, and nothing anywhere else; mesh and tree
// topologies deliver everything as long as the devices keep draining.
//
// The networks are real (real endpoints, switches, connections, ports and
// serial engine, built through the public connector APIs). The devices are the
// harness: a port owner whose sends and drains are events on the same engine.
// The ledger is kept by hooks on the device ports.

// netMsg: Src and Dst are device-port numbers (in single-port topologies the
// port number is the device number).
type netMsg struct {
	Src   int `json:"s"`
	Dst   int `json:"d"`
	Bytes int `json:"b"`
	Tick  int `json:"t"`
}

type netCase struct {
	Topo  string `json:"topo"`
	Flit  int    `json:"flit"`
	Knob  int    `json:"knob"`            // 0 = builder defaults (mesh only), 1, 2 = latency/bandwidth/channel knob
	Stall bool   `json:"stall,omitempty"` // no device port is drained before cycle netStallCycles
	// StallMask: bit p set = port p alone is not drained before cycle
	// netStallCycles while the other ports are drained one cycle after every
	// arrival (multi-port topologies only)
	StallMask int      `json:"stallmask,omitempty"`
	Msgs      []netMsg `json:"msgs"`
}

const (
	netCycle       = timing.VTimeInPicoSec(1000) // 1 GHz
	netStallCycles = 60
	netEventBudget = 20000 // the largest case of either tier needs < 1000 events (counter max_events_per_case)
)

type netTopo struct {
	name    string
	devices int
	// portsOf[d] = number of ports device d plugs into its one endpoint (nil: one each)
	portsOf []int
	// live: the statement promises delivery (mesh and tree topologies)
	live  bool
	knobs []int
	// ports[d] are the ports of device d
	build func(reg *capReg, ports [][]messaging.Port, flit, knob int)
}

func (t *netTopo) numPorts(d int) int {
	if t.portsOf == nil {
		return 1
	}
	return t.portsOf[d]
}

// portDevice returns the device of every port, ports numbered device by device.
func (t *netTopo) portDevice() []int {
	var out []int
	for d := 0; d < t.devices; d++ {
		for k := 0; k < t.numPorts(d); k++ {
			out = append(out, d)
		}
	}
	return out
}

func (t netTopo) withPorts(name string, portsOf ...int) netTopo {
	t.name, t.portsOf = name, portsOf
	return t
}

func genericParams(knob int) (networkconnector.DeviceToSwitchLinkParameter, networkconnector.SwitchToSwitchLinkParameter) {
	sw := networkconnector.LinkEndSwitchParameter{IncomingBufSize: knob, OutgoingBufSize: knob, NumInputChannel: knob, NumOutputChannel: knob, Latency: knob}
	link := networkconnector.LinkParameter{IsIdeal: true, Frequency: 1 * timing.GHz}
	return networkconnector.DeviceToSwitchLinkParameter{
			DeviceEndParam: networkconnector.LinkEndDeviceParameter{IncomingBufSize: knob, OutgoingBufSize: knob, NumInputChannel: knob, NumOutputChannel: knob},
			SwitchEndParam: sw, LinkParam: link,
		}, networkconnector.SwitchToSwitchLinkParameter{
			LeftEndParam: sw, RightEndParam: sw, LinkParam: link,
		}
}

func genericTopo(name string, n int, edges [][2]int, devAt []int, live bool) netTopo {
	return netTopo{name: name, devices: len(devAt), live: live, knobs: []int{1, 2},
		build: func(reg *capReg, ports [][]messaging.Port, flit, knob int) {
			conn := networkconnector.MakeConnector().WithRegistrar(reg).WithDefaultFreq(1 * timing.GHz).WithFlitSize(flit)
			conn.NewNetwork("Net")
			for i := 0; i < n; i++ {
				conn.AddSwitch()
			}
			dp, sp := genericParams(knob)
			for _, e := range edges {
				conn.ConnectSwitches(e[0], e[1], sp)
			}
			for d, s := range devAt {
				conn.ConnectDevice(s, ports[d], dp)
			}
			conn.EstablishRoute()
		}}
}

func meshTopo(name string, tiles [][3]int) netTopo {
	return netTopo{name: name, devices: len(tiles), live: true, knobs: []int{0, 1, 2},
		build: func(reg *capReg, ports [][]messaging.Port, flit, knob int) {
			mc := mesh.NewConnector().WithRegistrar(reg).WithFreq(1 * timing.GHz).WithFlitSize(flit)
			if knob > 0 {
				mc = mc.WithSwitchLatency(knob).WithBandwidth(float64(knob))
			}
			mc.CreateNetwork("Mesh")
			for d, loc := range tiles {
				mc.AddTile(loc, ports[d])
			}
			mc.EstablishNetwork()
		}}
}

// pcieTopo: device 0 is the CPU on the root complex; parent[i] is the switch
// (0 = root) below which switch i+1 hangs; devSw[d-1] is the switch of device d.
func pcieTopo(name string, parent []int, devSw []int) netTopo {
	return netTopo{name: name, devices: 1 + len(devSw), live: true, knobs: []int{1, 2},
		build: func(reg *capReg, ports [][]messaging.Port, flit, knob int) {
			pc := pcie.NewConnector().WithRegistrar(reg).WithFrequency(1 * timing.GHz).
				WithBandwidth(uint64(flit) * uint64(timing.GHz)).WithSwitchLatency(knob)
			pc.CreateNetwork("PCIe")
			ids := []int{pc.AddRootComplex(ports[0])}
			for _, p := range parent {
				ids = append(ids, pc.AddSwitch(ids[p]))
			}
			for d, s := range devSw {
				pc.PlugInDevice(ids[s], ports[d+1])
			}
			pc.EstablishRoute()
		}}
}

// hybridTopo: device 0 is the CPU on the root complex, devices 1.. are
// accelerators below one PCIe switch, nvlinks connect pairs of devices. The
// NVLink connector numbers its devices in plug-in order and the root complex
// plugs the CPU in first, so its device IDs are the harness's device numbers
// (checked against the IDs PlugInDevice returns).
func hybridTopo(name string, accels int, nvlinks [][2]int) netTopo {
	return netTopo{name: name, devices: 1 + accels, live: len(nvlinks) == 0, knobs: []int{1, 2},
		build: func(reg *capReg, ports [][]messaging.Port, flit, knob int) {
			nc := nvlink.NewConnector().WithRegistrar(reg).WithFrequency(1 * timing.GHz).
				WithPCIeBandwidth(uint64(flit) * uint64(timing.GHz)).
				WithPCIeSwitchLatency(knob).WithNVLinkSwitchLatency(knob)
			nc.CreateNetwork("Hybrid")
			root := nc.AddRootComplex(ports[0])
			sw := nc.AddPCIeSwitch()
			nc.ConnectSwitchesWithPCIeLink(root, sw)
			for a := 0; a < accels; a++ {
				if id := nc.PlugInDevice(sw, ports[1+a]); id != 1+a {
					panic(fmt.Sprintf("harness: accelerator %d got NVLink device ID %d", 1+a, id))
				}
			}
			for _, l := range nvlinks {
				nc.ConnectDevicesWithNVLink(l[0], l[1], knob)
			}
			nc.EstablishRoute()
		}}
}

var netTopos = []netTopo{
	meshTopo("mesh-1x2", [][3]int{{0, 0, 0}, {0, 1, 0}}),
	meshTopo("mesh-3x1", [][3]int{{0, 0, 0}, {1, 0, 0}, {2, 0, 0}}),
	meshTopo("mesh-2x2", [][3]int{{0, 0, 0}, {1, 1, 0}, {1, 0, 0}}),
	meshTopo("mesh-2x2x2", [][3]int{{0, 0, 0}, {1, 1, 1}, {0, 1, 0}}),
	pcieTopo("pcie-root-sw-dev", []int{0}, []int{1}),
	pcieTopo("pcie-root-sw-2dev", []int{0}, []int{1, 1}),
	pcieTopo("pcie-root-sw-sw", []int{0, 1}, []int{1, 2}),
	pcieTopo("pcie-root-2sw", []int{0, 0}, []int{1, 2}),
	hybridTopo("hybrid-2acc-nolink", 2, nil),
	hybridTopo("hybrid-1acc", 1, nil),
	hybridTopo("hybrid-2acc-nvlink", 2, [][2]int{{1, 2}}),
	hybridTopo("hybrid-2acc-cpulink", 2, [][2]int{{0, 1}}),
	genericTopo("generic-line3", 3, [][2]int{{0, 1}, {1, 2}}, []int{0, 1, 2}, true),
	genericTopo("generic-star4", 4, [][2]int{{0, 1}, {0, 2}, {0, 3}}, []int{1, 2, 3}, true),
	genericTopo("generic-ring3", 3, [][2]int{{0, 1}, {1, 2}, {0, 2}}, []int{0, 1, 2}, false),
	genericTopo("generic-ring4", 4, [][2]int{{0, 1}, {1, 2}, {2, 3}, {0, 3}}, []int{0, 1, 3}, false),
	// devices that plug two ports into one endpoint (ports 1 and 2 are the second device's)
	meshTopo("", [][3]int{{0, 0, 0}, {0, 1, 0}}).withPorts("mesh-1x2-2port", 1, 2),
	pcieTopo("", []int{0}, []int{1}).withPorts("pcie-root-sw-dev-2port", 1, 2),
	genericTopo("", 2, [][2]int{{0, 1}}, []int{0, 1}, true).withPorts("generic-line2-2port", 1, 2),
}

func findNetTopo(name string) *netTopo {
	for i := range netTopos {
		if netTopos[i].name == name {
			return &netTopos[i]
		}
	}
	return nil
}

// netDevices is the harness side of the simulation: it owns the device ports,
// sends at the scripted instants and drains.
type netDevices struct {
	hooking.HookableBase
	*messaging.PortOwnerBase
	eng        *timing.SerialEngine
	ports      []messaging.Port
	stalled    []bool // per port: not drained before stallUntil
	stallUntil timing.VTimeInPicoSec
	metas      []messaging.MsgMeta
	script     []netMsg

	sent      []messaging.Msg
	delivered []netDelivery
	events    int
}

type netDelivery struct {
	port string
	msg  messaging.Msg
}

type netEvent struct {
	timing.EventBase
	Send  int // index of the message to send, or -1
	Drain int // device to drain, or -1
}

func (d *netDevices) Name() string                    { return "Devices" }
func (d *netDevices) NotifyPortFree(_ messaging.Port) {}
func (d *netDevices) NotifyRecv(p messaging.Port) {
	for i, q := range d.ports {
		if q == p {
			d.scheduleDrain(i)
		}
	}
}

func (d *netDevices) scheduleDrain(dev int) {
	t := d.eng.CurrentTime() + netCycle
	if d.stalled[dev] && t < d.stallUntil {
		t = d.stallUntil
	}
	d.eng.Schedule(netEvent{EventBase: timing.MakeEventBase(t, "Devices"), Send: -1, Drain: dev})
}

func (d *netDevices) Handle(e timing.Event) error {
	ev := e.(netEvent)
	if ev.Send >= 0 {
		m := d.script[ev.Send]
		p := d.ports[m.Src]
		if !p.CanSend() {
			panic("harness: device port cannot send")
		}
		p.Send(d.metas[ev.Send])
	}
	if ev.Drain >= 0 {
		p := d.ports[ev.Drain]
		for p.PeekIncoming() != nil {
			p.RetrieveIncoming()
		}
	}
	return nil
}

// Func is both the port hook (ledger) and the engine hook (event budget).
func (d *netDevices) Func(ctx hooking.HookCtx) {
	switch ctx.Pos {
	case messaging.HookPosPortMsgSend:
		d.sent = append(d.sent, ctx.Item.(messaging.Msg))
	case messaging.HookPosPortMsgRecvd:
		d.delivered = append(d.delivered, netDelivery{port: ctx.Domain.(messaging.Port).Name(), msg: ctx.Item.(messaging.Msg)})
		if len(d.delivered) > 3*len(d.script)+3 {
			// the verdict (duplicates or phantoms) is already certain
			panic("harness: delivery flood")
		}
	case timing.HookPosBeforeEvent:
		d.events++
		if d.events > netEventBudget {
			panic("harness: event budget exhausted")
		}
	}
}

// netLastEvents is the number of engine events of the last case run in this
// process (cases never run concurrently inside one process); evidence only.
var netLastEvents int

func stallName(cs netCase) string {
	switch {
	case cs.Stall:
		return "true"
	case cs.StallMask != 0:
		return fmt.Sprintf("ports%b", cs.StallMask)
	}
	return "false"
}

func runNetCase(cs netCase) (string, []lib.Problem) {
	topo := findNetTopo(cs.Topo)
	if topo == nil {
		return "bad-case", nil
	}
	timing.ResetIDGenerator()
	class := strings.SplitN(cs.Topo, "-", 2)[0]
	var probs []lib.Problem
	bad := func(key, format string, a ...any) {
		probs = append(probs, lib.Problem{Key: fmt.Sprintf("network:%s:%s", class, key),
			What: fmt.Sprintf("%s flit=%d knob=%d stall=%s msgs=%v: ", cs.Topo, cs.Flit, cs.Knob, stallName(cs), cs.Msgs) + fmt.Sprintf(format, a...)})
	}

	reg := &capReg{eng: timing.NewSerialEngine()}
	dev := &netDevices{PortOwnerBase: messaging.NewPortOwnerBase(), eng: reg.eng, script: cs.Msgs}
	dev.stallUntil = netStallCycles * netCycle
	devPorts := make([][]messaging.Port, topo.devices)
	for d := 0; d < topo.devices; d++ {
		for k := 0; k < topo.numPorts(d); k++ {
			name := fmt.Sprintf("Dev[%d].Port", d)
			if topo.numPorts(d) > 1 {
				name = fmt.Sprintf("Dev[%d].Port[%d]", d, k)
			}
			p := messaging.NewPort(dev, 1, 4, name)
			p.AcceptHook(dev)
			dev.stalled = append(dev.stalled, cs.Stall || cs.StallMask>>len(dev.ports)&1 == 1)
			dev.ports = append(dev.ports, p)
			devPorts[d] = append(devPorts[d], p)
		}
	}
	for _, m := range cs.Msgs {
		if m.Src < 0 || m.Src >= len(dev.ports) || m.Dst < 0 || m.Dst >= len(dev.ports) {
			return "bad-case", nil
		}
	}
	for i, m := range cs.Msgs {
		meta := messaging.MsgMeta{
			ID:           uint64(9000 + i),
			Src:          dev.ports[m.Src].AsRemote(),
			Dst:          dev.ports[m.Dst].AsRemote(),
			TrafficClass: fmt.Sprintf("class%d", i),
			TrafficBytes: m.Bytes,
		}
		if i%2 == 1 {
			meta.RspTo = uint64(9000 + i - 1)
		}
		dev.metas = append(dev.metas, meta)
	}

	msg, where := lib.CatchStack(func() { topo.build(reg, devPorts, cs.Flit, cs.Knob) })
	if msg != "" {
		bad("build-panic", "building the network panicked: %s at %s", msg, where)
		return "build-panic", probs
	}
	reg.eng.RegisterHandler("Devices", dev)
	reg.eng.AcceptHook(dev)
	for i, m := range cs.Msgs {
		reg.eng.Schedule(netEvent{EventBase: timing.MakeEventBase(timing.VTimeInPicoSec(m.Tick)*netCycle, "Devices"), Send: i, Drain: -1})
	}
	for i := range dev.ports {
		if dev.stalled[i] {
			reg.eng.Schedule(netEvent{EventBase: timing.MakeEventBase(dev.stallUntil, "Devices"), Send: -1, Drain: i})
		}
	}
	budget, flood := false, false
	msg, where = lib.CatchStack(func() { _ = reg.eng.Run() })
	if msg != "" {
		if strings.Contains(msg, "event budget exhausted") {
			budget = true
		} else if strings.Contains(msg, "delivery flood") {
			flood = true
		} else {
			bad("run-panic", "the simulation panicked: %s at %s", msg, where)
			return "run-panic", probs
		}
	}

	netLastEvents = dev.events

	// ledger
	if !flood && !budget && len(dev.sent) != len(cs.Msgs) {
		bad("harness", "the harness sent %d of %d messages", len(dev.sent), len(cs.Msgs))
	}
	times := make([]int, len(cs.Msgs))
	for _, d := range dev.delivered {
		meta := d.msg.Meta()
		match := -1
		for i, want := range dev.metas {
			if meta.ID == want.ID {
				match = i
			}
		}
		if match < 0 {
			bad("phantom-delivery", "port %s received a message with ID %d that no device sent: %+v", d.port, meta.ID, meta)
			continue
		}
		want := dev.metas[match]
		if meta != want {
			bad("metadata-altered", "message %d arrived as %+v, was sent as %+v", match, meta, want)
		}
		if d.port != string(want.Dst) {
			bad("wrong-port", "message %d for %s was delivered to %s", match, want.Dst, d.port)
		}
		times[match]++
	}
	undelivered := 0
	for i, n := range times {
		if n > 1 {
			bad("delivered-twice", "message %d was delivered %d times", i, n)
		}
		if n == 0 {
			undelivered++
		}
	}
	liveness := "all-delivered"
	if flood {
		// stopped early because of duplicates/phantoms (reported above); whether
		// the rest would have arrived is not judged
		liveness = "stopped-at-delivery-flood"
	} else if undelivered > 0 {
		liveness = "undelivered"
		if budget {
			liveness = "undelivered-still-running"
		}
		if topo.live {
			if budget {
				bad("not-delivered-livelock", "%d of %d messages not delivered after %d events and the network is still busy (devices drain)", undelivered, len(cs.Msgs), netEventBudget)
			} else {
				bad("not-delivered", "%d of %d messages never delivered although the devices drain; the network went idle at %d ps", undelivered, len(cs.Msgs), reg.eng.CurrentTime())
			}
		}
	} else if budget {
		// not part of the property: everything arrived, the network just keeps ticking
		liveness = "all-delivered-still-running"
	}
	return fmt.Sprintf("%s flit%d knob%d stall=%s n%d %s", cs.Topo, cs.Flit, cs.Knob, stallName(cs), len(cs.Msgs), liveness), dedupeProblems(probs)
}

// multisets yields every non-decreasing index sequence of length k over n options.
func multisets(n, k int, yield func([]int) bool) bool {
	idx := make([]int, k)
	var rec func(pos, lo int) bool
	rec = func(pos, lo int) bool {
		if pos == k {
			return yield(idx)
		}
		for v := lo; v < n; v++ {
			idx[pos] = v
			if !rec(pos+1, v) {
				return false
			}
		}
		return true
	}
	return rec(0, 0)
}

// netOptions: every (port, port of another device, size, tick).
func netOptions(portDev []int, sizes []int, maxTick int) []netMsg {
	var out []netMsg
	for s := range portDev {
		for d := range portDev {
			if portDev[s] == portDev[d] {
				continue
			}
			for _, b := range sizes {
				for t := 0; t <= maxTick; t++ {
					out = append(out, netMsg{Src: s, Dst: d, Bytes: b, Tick: t})
				}
			}
		}
	}
	return out
}

func enumNetCases(thorough bool, yield func(netCase) bool) {
	fullSizes := []int{0, 1, 64, 100}
	redSizes := []int{0, 100}
	fullUpTo, redAt := 2, 3
	if thorough {
		fullUpTo, redAt = 3, 4
	}
	for _, topo := range netTopos {
		portDev := topo.portDevice()
		full := netOptions(portDev, fullSizes, 1)
		red := netOptions(portDev, redSizes, 0)
		// drain modes: always, nothing before cycle 60, and (ports of multi-port
		// devices) that one port alone not before cycle 60
		type drain struct {
			all  bool
			mask int
		}
		drains := []drain{{false, 0}, {true, 0}}
		for p, d := range portDev {
			if topo.numPorts(d) > 1 {
				drains = append(drains, drain{false, 1 << p})
			}
		}
		for _, flit := range []int{8, 64} {
			for _, knob := range topo.knobs {
				for _, dr := range drains {
					emit := func(opts []netMsg, k int) bool {
						return multisets(len(opts), k, func(idx []int) bool {
							msgs := make([]netMsg, k)
							for i, v := range idx {
								msgs[i] = opts[v]
							}
							return yield(netCase{Topo: topo.name, Flit: flit, Knob: knob, Stall: dr.all, StallMask: dr.mask, Msgs: msgs})
						})
					}
					for k := 1; k <= fullUpTo; k++ {
						if !emit(full, k) {
							return
						}
					}
					if !emit(red, redAt) {
						return
					}
				}
			}
		}
	}
}

func init() {
	lib.Register(&lib.Check{
		ID:    "C29",
		Level: "exploration",
		Rule: "every (topology, flit size, knob, drain mode, message multiset): 19 topologies built with the real connectors — mesh {1x2, 3x1, 2x2, 2x2x2} with 2..3 device tiles, PCIe trees {root+switch+1 device, root+switch+2 devices, root+switch+switch, root+2 switches} with the CPU on the root, NVLink/PCIe hybrids {CPU + 1 accelerator, CPU + 2 accelerators: without NVLink, with an NVLink between the accelerators, with an NVLink between the CPU's and the first accelerator's NVLink switch}, generic {line3, star4, ring3, ring4}, each device with one port, plus {mesh 1x2, PCIe root+switch+device, generic line2} in which the second device plugs two ports into its one endpoint; flit size {8,64}; " +
			"knob {1,2} = switch latency (mesh: also transfers per cycle; generic: also channels and buffer sizes; hybrid: also NVLink latency/width), mesh additionally with the builder defaults; device ports are drained one cycle after each arrival, or none before cycle 60, or (each port of a two-port device in turn) that port alone not before cycle 60 while its sibling is drained every cycle; " +
			"messages = every multiset of <= 2 (thorough <= 3) messages over (ordered pair of ports of different devices, TrafficBytes in {0,1,64,100}, send tick in {0,1}) plus every multiset of 3 (thorough 4) over (ordered port pair, TrafficBytes in {0,100}, send tick 0), sent in canonical order; the real network is run on the real serial engine until idle (or an event budget); " +
			"hooks on the device ports give the ledger: every delivery must be a sent message, at its Dst port, with identical MsgMeta, at most once; in mesh/tree topologies every message must be delivered (before the network goes idle or the event budget, far above the largest event count of any case, runs out). Each tuple is a distinct case.",
		Sharded:     true,
		MinOutcomes: 30,
		Assumptions: []string{
			"devices are played by the harness (one port owner, sends and drains are events on the same engine); one port per device (two for one device of the three multi-port topologies), incoming capacity 1, outgoing capacity 4; no messages between two ports of the same device",
			"liveness is demanded only for mesh and tree topologies (incl. the hybrid without NVLink); for rings and NVLink hybrids only at-most-once, right place, intact metadata",
			"ideal links only (the connectors refuse non-ideal links); Ethernet links of the NVLink connector are therefore not covered",
			"message sets of the largest size use TrafficBytes {0,100} and send tick 0 only (bound stated in the rule)",
		},
		Run: func(c *lib.Ctx) {
			debug.SetGCPercent(-1) // every case builds and drops a whole network: collect only when the heap reaches 256 MiB
			debug.SetMemoryLimit(256 << 20)
			lib.Cases(c, func(yield func(netCase) bool) { enumNetCases(c.Thorough(), yield) }, func(cs netCase) (string, []lib.Problem) {
				out, probs := runNetCase(cs)
				c.Max("max_events_per_case", int64(netLastEvents))
				return out, probs
			})
		},
		Replay: lib.ReplayCases(runNetCase),
	})
}

package grpb

import (
	"fmt"

	"github.com/sarchlab/akita/v5/mem"
	"github.com/sarchlab/akita/v5/messaging"

	"verif/harness/lib"
)

// C24: interleaved address conversion is one-to-one, order-preserving,
// contiguous inside a stripe, rejects non-owned addresses, and agrees with the
// interleaved port mapper.
//
// Ownership reference. Both converters decide ownership on (external-Offset):
// the stripes of the interleaving start at Offset. The reference uses the same
// reading: element i owns external e  iff  e >= Offset and
// ((e-Offset) mod (size*n)) / size == i. (Under the only other plausible reading
// — stripes at absolute multiples of size, Offset merely a base — the converter
// already accepts addresses of foreign stripes for an unaligned Offset, so an
// unaligned Offset is wrong under that reading as well.)
//
// The order / one-to-one / contiguity clauses are judged on the addresses the
// reference says the element owns; "onto" is judged as a set at the end of the
// scan (three complete rounds are scanned, so the images must be exactly
// {0..K-1}), never per address.

type addrCase struct {
	Size   uint64 `json:"size"`
	N      int    `json:"n"`
	Idx    int    `json:"idx"`
	Offset uint64 `json:"off"`
	Func   bool   `json:"func"` // true: mem.ConvertAddress, false: InterleavingConverter
}

func addrConvert(cs addrCase, ext uint64) (uint64, string) {
	var got uint64
	msg := lib.Catch(func() {
		if cs.Func {
			got = mem.ConvertAddress("interleaving", cs.Offset, cs.Size, cs.N, cs.Idx, ext)
		} else {
			got = mem.InterleavingConverter{
				InterleavingSize:    cs.Size,
				TotalNumOfElements:  cs.N,
				CurrentElementIndex: cs.Idx,
				Offset:              cs.Offset,
			}.ConvertExternalToInternal(ext)
		}
	})
	return got, msg
}

func runAddrCase(cs addrCase) (string, []lib.Problem) {
	round := cs.Size * uint64(cs.N)
	which := "struct"
	if cs.Func {
		which = "func"
	}
	offClass := "offset-unaligned"
	switch {
	case cs.Offset%round == 0:
		offClass = "offset-multiple-of-round"
	case cs.Offset%cs.Size == 0:
		offClass = "offset-multiple-of-size"
	}
	var probs []lib.Problem
	reported := map[string]bool{}
	bad := func(clause, format string, a ...any) {
		key := fmt.Sprintf("addrconv:%s:%s:%s", which, clause, offClass)
		if reported[key] {
			return
		}
		reported[key] = true
		probs = append(probs, lib.Problem{Key: key,
			What: fmt.Sprintf("size=%d elements=%d index=%d offset=%d: ", cs.Size, cs.N, cs.Idx, cs.Offset) + fmt.Sprintf(format, a...)})
	}

	// below the offset: owned by nobody ("address is smaller than offset" is the documented panic)
	lo := uint64(0)
	if cs.Offset > 3 {
		lo = cs.Offset - 3
	}
	for e := lo; e < cs.Offset; e++ {
		if got, msg := addrConvert(cs, e); msg == "" {
			bad("below-offset-accepted", "external %d is below the offset but was converted to %d", e, got)
		}
	}

	// the port mapper can only express stripes at absolute multiples of size*n
	var mapper *mem.InterleavedAddressPortMapper
	var mapperLim *mem.InterleavedAddressPortMapper
	if cs.Offset%round == 0 {
		mapper = mem.NewInterleavedAddressPortMapper(cs.Size)
		mapperLim = mem.NewInterleavedAddressPortMapper(cs.Size)
		for i := 0; i < cs.N; i++ {
			p := messaging.RemotePort(fmt.Sprintf("Elem[%d].Port", i))
			mapper.LowModules = append(mapper.LowModules, p)
			mapperLim.LowModules = append(mapperLim.LowModules, p)
		}
		mapperLim.UseAddressSpaceLimitation = true
		mapperLim.LowAddress = cs.Offset
		mapperLim.HighAddress = cs.Offset + 3*round
		mapperLim.ModuleForOtherAddresses = "Other.Port"
	}
	mine := messaging.RemotePort(fmt.Sprintf("Elem[%d].Port", cs.Idx))

	images := map[uint64]uint64{} // internal -> external
	var prevExt, prevInt uint64
	havePrev := false
	owned := uint64(0)
	accepted, rejected := 0, 0
	for e := cs.Offset; e < cs.Offset+3*round; e++ {
		refOwned := int(((e-cs.Offset)%round)/cs.Size) == cs.Idx
		got, msg := addrConvert(cs, e)
		if msg == "" {
			accepted++
		} else {
			rejected++
		}
		if mapper != nil {
			for mi, m := range []*mem.InterleavedAddressPortMapper{mapper, mapperLim} {
				var port messaging.RemotePort
				if pm := lib.Catch(func() { port = m.Find(e) }); pm != "" {
					bad("mapper-panic", "port mapper Find(%d) panicked: %s", e, pm)
					continue
				}
				if (port == mine) != (msg == "") {
					bad("mapper-disagrees", "external %d: port mapper (limited=%v) says %s, converter of element %d %s",
						e, mi == 1, port, cs.Idx, map[bool]string{true: "accepts it", false: "rejects it"}[msg == ""])
				}
			}
		}
		switch {
		case refOwned && msg != "":
			bad("owned-rejected", "external %d belongs to element %d but was rejected: %s", e, cs.Idx, msg)
			continue
		case !refOwned && msg == "":
			bad("foreign-accepted", "external %d belongs to element %d but element %d converted it to %d",
				e, ((e-cs.Offset)%round)/cs.Size, cs.Idx, got)
			continue
		case !refOwned:
			continue
		}
		owned++
		if prev, dup := images[got]; dup {
			bad("not-one-to-one", "externals %d and %d both map to internal %d", prev, e, got)
		} else {
			images[got] = e
		}
		if havePrev {
			if got <= prevInt {
				bad("order", "external %d -> internal %d but the smaller external %d -> internal %d", e, got, prevExt, prevInt)
			}
			if e == prevExt+1 && got != prevInt+1 {
				bad("stripe-contiguity", "externals %d,%d are adjacent in one stripe but map to internals %d,%d", prevExt, e, prevInt, got)
			}
		}
		prevExt, prevInt, havePrev = e, got, true
	}
	// onto: three complete rounds were scanned, so the images are {0..owned-1}
	if !reported[fmt.Sprintf("addrconv:%s:owned-rejected:%s", which, offClass)] { // a rejected address leaves a hole by itself
		for k := uint64(0); k < owned; k++ {
			if _, ok := images[k]; !ok {
				bad("not-onto", "internal address %d is not the image of any of the %d owned externals in [%d,%d)", k, owned, cs.Offset, cs.Offset+3*round)
				break
			}
		}
	}
	return fmt.Sprintf("%s %s acc%d rej%d mapper=%v", which, offClass, accepted, rejected, mapper != nil), probs
}

func init() {
	lib.Register(&lib.Check{
		ID:    "C24",
		Level: "exploration",
		Rule: "every configuration (interleaving size in {1,2,3,4,6,64,96,4096} (thorough + {8,12,192,256,12288}; powers of two and not), elements 1..4 (thorough 1..5), every element index, offset in {0, size, round, 2*round, 1, size+1, round+1, round+size} (deduplicated), converter in {InterleavingConverter, ConvertAddress}); " +
			"per configuration every address of the three rounds above the offset and the 3 addresses below it is converted on the real code and compared with a reference ownership function; owned addresses must map one-to-one, strictly increasing, contiguously inside a stripe and onto {0..K-1}; " +
			"for offsets that are multiples of the round size the InterleavedAddressPortMapper (with and without address-space limitation) must pick element i exactly for the addresses converter i accepts. Each configuration is a distinct case.",
		Sharded:     true,
		MinOutcomes: 8,
		Assumptions: []string{
			"ownership is decided on (external-Offset), as both converters do: stripes start at Offset",
			"the port mapper has no offset, so mapper agreement is judged only for offsets that are multiples of size*elements",
			"addresses up to offset+3*size*elements; no claim about addresses near 2^64",
		},
		Run: func(c *lib.Ctx) {
			lib.Cases(c, func(yield func(addrCase) bool) {
				sizes := []uint64{1, 2, 3, 4, 6, 64, 96, 4096}
				maxN := 4
				if c.Thorough() {
					sizes = []uint64{1, 2, 3, 4, 6, 8, 12, 64, 96, 192, 256, 4096, 12288}
					maxN = 5
				}
				for _, fn := range []bool{false, true} {
					for _, size := range sizes {
						for n := 1; n <= maxN; n++ {
							round := size * uint64(n)
							seen := map[uint64]bool{}
							for _, off := range []uint64{0, size, round, 2 * round, 1, size + 1, round + 1, round + size} {
								if seen[off] {
									continue
								}
								seen[off] = true
								for idx := 0; idx < n; idx++ {
									if !yield(addrCase{Size: size, N: n, Idx: idx, Offset: off, Func: fn}) {
										return
									}
								}
							}
						}
					}
				}
			}, runAddrCase)
		},
		Replay: lib.ReplayCases(runAddrCase),
	})
}

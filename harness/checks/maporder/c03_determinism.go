// Package maporder holds the checks that need the map-order overlay (E4).
package maporder

import (
	"bytes"
	"crypto/sha256"
	"encoding/hex"
	"encoding/json"
	"fmt"
	"os"
	"os/exec"
	"sort"
	"strconv"
	"strings"

	"github.com/sarchlab/akita/v5/messaging"
	"github.com/sarchlab/akita/v5/timing"
	"github.com/sarchlab/akita/v5/vmap"
	"github.com/sarchlab/akita/v5/vsched"

	"verif/harness/checks/grpb"
	"verif/harness/checks/grpd"
	"verif/harness/checks/grpe"
	"verif/harness/checks/sim"
	"verif/harness/lib"
	"verif/harness/simx"
)

// C03: serial simulations are deterministic — no result depends on map
// iteration order, goroutine scheduling or the process.

type fingerprint struct {
	Sum    string
	Events int
	Msgs   int
	Gos    int
	Occ    map[int]int
	Ranges int
	Panic  string
}

// observe runs one scenario under the current vmap policy and fingerprints
// the handled-event sequence, every message accepted by a port (with IDs) and
// whatever the scenario contributes (final state).
func observe(run func()) fingerprint {
	h := sha256.New()
	fp := fingerprint{}
	timing.VerifEventObserver = func(e timing.Event) {
		fp.Events++
		fmt.Fprintf(h, "E %d %s %T %v\n", e.Time(), e.HandlerID(), e, e.IsSecondary())
	}
	messaging.VerifMsgObserver = func(kind, port string, m messaging.Msg) {
		fp.Msgs++
		meta := m.Meta()
		fmt.Fprintf(h, "M %s %s %T %d %s %s %d %d %s\n", kind, port, m, meta.ID, meta.Src, meta.Dst, meta.RspTo, meta.TrafficBytes, meta.TrafficClass)
	}
	simx.Fingerprint = func(tag string, data []byte) {
		fmt.Fprintf(h, "X %s %d\n", tag, len(data))
		h.Write(data)
	}
	defer func() {
		timing.VerifEventObserver = nil
		messaging.VerifMsgObserver = nil
		simx.Fingerprint = nil
	}()
	vmap.Reset()
	simx.ResetGlobals()
	gos := vsched.GoCount
	fp.Panic = lib.Catch(run)
	fp.Gos = vsched.GoCount - gos
	fp.Occ = map[int]int{}
	for k, v := range vmap.Occ {
		fp.Occ[k] = v
	}
	fp.Ranges = vmap.Total
	fmt.Fprintf(h, "P %s\n", fp.Panic)
	fp.Sum = hex.EncodeToString(h.Sum(nil)[:12])
	return fp
}

type scenario struct {
	name string
	run  func()
}

func allScenarios(c *lib.Ctx, yield func(scenario) bool) {
	ok := true
	y := func(name string, run func()) bool {
		if !ok {
			return false // a provider kept going after a stop: never yield again
		}
		ok = yield(scenario{name, run})
		return ok
	}
	sim.C03Scenarios(c, y)
	if !ok {
		return
	}
	grpb.C03Scenarios(c.Thorough(), y)
	if !ok {
		return
	}
	grpd.C03Scenarios(c, y)
	if !ok {
		return
	}
	grpe.C03Scenarios(c, y)
}

type c03Case struct {
	Index int    `json:"index"`
	Name  string `json:"name"`
}

var sites map[int]string

func loadSites() {
	sites = map[int]string{}
	// the site table of the overlay this binary was built with (bin/vcheck puts
	// it next to the binary), else the standard overlay's
	var b []byte
	var err error
	if exe, e := os.Executable(); e == nil {
		b, err = os.ReadFile(exe + ".sites.json")
	}
	if len(b) == 0 || err != nil {
		b, err = os.ReadFile(lib.VerifDir + "/.build/overlay-maporder/report.json")
	}
	if err != nil {
		return
	}
	var rep struct {
		MapSites []string `json:"map_sites"`
	}
	if json.Unmarshal(b, &rep) != nil {
		return
	}
	for _, s := range rep.MapSites {
		parts := strings.SplitN(s, " ", 3)
		if id, err := strconv.Atoi(parts[0]); err == nil && len(parts) >= 2 {
			sites[id] = parts[1]
		}
	}
}

func siteName(id int) string {
	if s, ok := sites[id]; ok {
		return s
	}
	return fmt.Sprintf("site#%d", id)
}

func judge(c *lib.Ctx, idx int, sc scenario, childCheck bool) (string, []lib.Problem) {
	var probs []lib.Problem
	bad := func(key, f string, a ...any) {
		probs = append(probs, lib.Problem{Key: "determinism:" + key, What: fmt.Sprintf("scenario #%d (%s): ", idx, sc.name) + fmt.Sprintf(f, a...)})
	}
	vmap.Base, vmap.DevSite, vmap.DevNth = vmap.Ascending, -1, 0
	base := observe(sc.run)
	if again := observe(sc.run); again.Sum != base.Sum {
		bad("same-process-rerun-differs:"+sc.name, "two runs in one process under the same map order differ (%s vs %s)", base.Sum, again.Sum)
		return "nondeterministic", probs
	}
	// a rerun as a user can do it: only the public ID-generator reset in
	// between, the tracing package's process-global side tables as the previous
	// run left them
	simx.KeepRegistries = true
	third := observe(sc.run)
	simx.KeepRegistries = false
	if third.Sum != base.Sum {
		bad("same-process-rerun-differs-after-public-reset:"+sc.name, "a rerun in the same process after timing.ResetIDGenerator() only (tracing side tables left as the previous run left them) differs: %s vs %s (events %d vs %d, messages %d vs %d)", third.Sum, base.Sum, third.Events, base.Events, third.Msgs, base.Msgs)
	}
	if base.Gos != 0 {
		bad("goroutine-spawned:"+sc.name, "a serial simulation executed %d go statements", base.Gos)
	}
	limit := lib.Pick(c, 3, 1<<30)
	var ids []int
	for s := range base.Occ {
		ids = append(ids, s)
	}
	sort.Ints(ids)
	devs := 0
	for _, s := range ids {
		n := base.Occ[s]
		if n > limit {
			n = limit
		}
		for k := 0; k < n; k++ {
			vmap.Base, vmap.DevSite, vmap.DevNth = vmap.Ascending, s, k
			d := observe(sc.run)
			devs++
			if d.Sum != base.Sum {
				bad("map-order-dependence:"+siteName(s), "iterating the map at %s in the opposite order (dynamic occurrence #%d) changes the run: fingerprint %s vs %s (events %d vs %d, messages %d vs %d)", siteName(s), k, d.Sum, base.Sum, d.Events, base.Events, d.Msgs, base.Msgs)
				break
			}
		}
	}
	for _, pol := range []int{vmap.Descending, vmap.Rotate1} {
		vmap.Base, vmap.DevSite = pol, -1
		d := observe(sc.run)
		devs++
		if d.Sum != base.Sum {
			bad(fmt.Sprintf("map-order-dependence:global-policy-%d:%s", pol, sc.name), "running with every map iterated under policy %d changes the run: %s vs %s", pol, d.Sum, base.Sum)
		}
	}
	vmap.Base, vmap.DevSite = vmap.Ascending, -1
	c.Add("deviating_executions", int64(devs))
	c.Add("map_ranges_executed", int64(base.Ranges))
	for s := range base.Occ {
		c.Max(fmt.Sprintf("max_occurrences_site_%d", s), int64(base.Occ[s]))
	}
	if childCheck {
		self, _ := os.Executable()
		cmd := exec.Command(self, "C03", "--tier", c.Tier, "--shard", "0/1")
		cmd.Env = append(os.Environ(), fmt.Sprintf("VERIF_C03_CHILD=%d", idx))
		var out bytes.Buffer
		cmd.Stdout = &out
		err := cmd.Run()
		k := strings.Index(out.String(), "@@FP ")
		if err != nil || k < 0 {
			c.InternalError("second-process run of scenario #%d failed: %v", idx, err)
		} else {
			sum := strings.Fields(out.String()[k+5:])[0]
			c.Add("second_process_runs", 1)
			if sum != base.Sum {
				bad("other-process-differs:"+sc.name, "the same scenario run in a second OS process has fingerprint %s, here %s", sum, base.Sum)
			}
		}
	}
	return fmt.Sprintf("%s sites%d ev%d", sc.name, len(base.Occ), base.Events/64), probs
}

func init() {
	lib.Register(&lib.Check{
		ID:    "C03",
		Level: "exploration",
		Rule: "scenario set spanning the anchors (memory hierarchies incl. write-back/write-through/ROB/DRAM/banked inside light and real Simulation builds; translation stacks TLB/L2/MMU and the C25 AT/TLB/MMU-cache/GMMU stacks incl. control sequences; MMU auto-allocation with shared frames; mesh/PCIe/NVLink/generic networks; data movers), each a deterministic subset of the exhaustive enumerations of C06/C16/C25/C27/C29/C23. " +
			"For every scenario: baseline under ascending map order (run twice), then EVERY execution with exactly one deviation = one dynamic occurrence (static range-over-map site rewritten by the overlay, n-th execution with >= 2 keys; first 3 per site in quick, all in thorough) iterated in the opposite order, plus the global policies all-descending and rotate-by-one, plus (every 32nd scenario) the baseline in a second OS process. " +
			"Oracle: identical fingerprint = handled-event sequence (time, handler, type, class) + every message accepted by any port (kind, port, type, ID, Src, Dst, RspTo, bytes, class) + final SaveCheckpoint bytes of every entity where the scenario exposes them; no `go` statement executed (sync seam counter). Each scenario is a distinct case; deviating_executions counts the runs.",
		Sharded:     true,
		MinOutcomes: 4,
		Assumptions: []string{
			"map iteration order is controlled at every range-over-map site in akita library code (26 sites today, re-discovered by type-checking on every run; report.json lists them); maps keyed by pointers/interfaces cannot be ordered reproducibly and are reported as uncontrolled (none today)",
			"wall-clock independence is established by inventory (no time.Now on the simulation path), not by exploration",
		},
		Run: func(c *lib.Ctx) {
			loadSites()
			if v := os.Getenv("VERIF_C03_SEQ"); v != "" {
				// debugging aid: run the listed scenario indices in order in this process
				var all []scenario
				allScenarios(c, func(sc scenario) bool { all = append(all, sc); return true })
				for _, f := range strings.Split(v, ",") {
					k, _ := strconv.Atoi(f)
					vmap.Base, vmap.DevSite = vmap.Ascending, -1
					fp := observe(all[k].run)
					fmt.Printf("@@SEQ %d %s %s ev=%d msgs=%d\n", k, all[k].name, fp.Sum, fp.Events, fp.Msgs)
				}
				lib.CleanScratch()
				os.Exit(0)
			}
			if v := os.Getenv("VERIF_C03_CHILD"); v != "" {
				want, _ := strconv.Atoi(v)
				i := 0
				allScenarios(c, func(sc scenario) bool {
					if i == want {
						vmap.Base, vmap.DevSite = vmap.Ascending, -1
						fp := observe(sc.run)
						fmt.Printf("@@FP %s\n", fp.Sum)
						lib.CleanScratch()
						os.Exit(0)
					}
					i++
					return true
				})
				os.Exit(3)
			}
			lib.Cases(c, func(yield func(c03Case) bool) {
				i := 0
				allScenarios(c, func(sc scenario) bool {
					ok := yield(c03Case{Index: i, Name: sc.name})
					i++
					return ok
				})
			}, func(cs c03Case) (string, []lib.Problem) {
				var out string
				var probs []lib.Problem
				i := 0
				allScenarios(c, func(sc scenario) bool {
					if i == cs.Index {
						out, probs = judge(c, i, sc, i%32 == 0)
						return false
					}
					i++
					return true
				})
				return out, probs
			})
			if len(vmap.Uncontrolled) > 0 {
				for s, t := range vmap.Uncontrolled {
					c.Note("uncontrolled map site %s (key type %s)", siteName(s), t)
				}
			}
			lib.CleanScratch()
		},
		Replay: func(c *lib.Ctx, raw json.RawMessage) []lib.Problem {
			loadSites()
			var cs c03Case
			if err := json.Unmarshal(raw, &cs); err != nil {
				c.InternalError("bad replay case: %v", err)
				return nil
			}
			var probs []lib.Problem
			i := 0
			allScenarios(c, func(sc scenario) bool {
				if i == cs.Index {
					_, probs = judge(c, i, sc, false)
					return false
				}
				i++
				return true
			})
			return probs
		},
	})
}

package sim

import (
	"fmt"
	"github.com/sarchlab/akita/v5/mem/memcontrolprotocol"
	"github.com/sarchlab/akita/v5/messaging"
	"strings"
	"sync"

	"github.com/sarchlab/akita/v5/mem/dram"

	"verif/harness/lib"
	"verif/harness/simx"
)

// C22: the DRAM controller issues commands in protocol-legal order and timing.

type c22Case struct {
	Cfg simx.ChainCfg `json:"cfg"`
	Ops []simx.MemOp  `json:"ops"`
	// Reset: a Reset control command is sent (and acknowledged) at 1 us, after
	// the operations without an At have completed; the operations with an At
	// (cycle 1500) follow it.
	Reset bool `json:"reset,omitempty"`
}

type bankKey struct{ rank, bg, bank uint64 }

// observeDRAM runs f with the command observer installed.
func observeDRAM(f func()) []dram.VerifCommand {
	var cmds []dram.VerifCommand
	dram.VerifObserver = func(c dram.VerifCommand) { cmds = append(cmds, c) }
	defer func() { dram.VerifObserver = nil }()
	f()
	return cmds
}

var (
	locMu    sync.Mutex
	locCache = map[string][]uint64{}
)

// dramAddressClasses probes the controller's address mapping with single reads
// and returns addresses [same row col0, same row col1, same bank other row,
// other bank same group, other group or rank].
func dramAddressClasses(memory string) []uint64 {
	locMu.Lock()
	defer locMu.Unlock()
	if a, ok := locCache[memory]; ok {
		return a
	}
	probe := func(addr uint64) (dram.VerifCommand, bool) {
		cfg := simx.ChainCfg{Memory: memory, NumMem: 1, PortBuf: 4, Lat: 1, MSHR: 1}
		var ch *simx.Chain
		cmds := observeDRAM(func() {
			ch = simx.BuildChain(cfg, []simx.MemOp{{Addr: addr, Size: 64}})
			ch.Driver.TickLater()
			ch.Env.Run(100000)
		})
		ch.Env.Close()
		for _, c := range cmds {
			if c.Kind == "ACT" {
				return c, true
			}
		}
		return dram.VerifCommand{}, false
	}
	base, ok := probe(0)
	if !ok {
		return nil
	}
	out := []uint64{0}
	want := []func(c dram.VerifCommand) bool{
		func(c dram.VerifCommand) bool {
			return c.Rank == base.Rank && c.BankGroup == base.BankGroup && c.Bank == base.Bank && c.Row == base.Row
		},
		func(c dram.VerifCommand) bool {
			return c.Rank == base.Rank && c.BankGroup == base.BankGroup && c.Bank == base.Bank && c.Row != base.Row
		},
		func(c dram.VerifCommand) bool {
			return c.Rank == base.Rank && c.BankGroup == base.BankGroup && c.Bank != base.Bank
		},
		func(c dram.VerifCommand) bool { return c.Rank != base.Rank || c.BankGroup != base.BankGroup },
	}
	var cands []uint64
	for sh := uint(6); sh < 20; sh++ {
		cands = append(cands, 1<<sh)
	}
	for _, w := range want {
		found := false
		for _, a := range cands {
			if c, ok := probe(a); ok && w(c) {
				out = append(out, a)
				found = true
				break
			}
		}
		if !found {
			out = append(out, ^uint64(0)) // class not reachable below 1 MiB with a power-of-two address
		}
	}
	locCache[memory] = out
	return out
}

type dramLimits struct {
	actToRead, actToWrite, actToPre, preToAct, actToAct int
}

func limitsOf(spec dram.Spec, memory string) dramLimits {
	l := dramLimits{
		actToRead:  spec.TRCD - spec.TAL,
		actToWrite: spec.TRCD - spec.TAL,
		actToPre:   spec.TRAS,
		preToAct:   spec.TRP,
		actToAct:   spec.TRAS + spec.TRP,
	}
	if strings.Contains(memory, "HBM") || strings.Contains(memory, "GDDR") {
		l.actToRead, l.actToWrite = spec.TRCDRD, spec.TRCDWR
	}
	return l
}

func runC22(cs c22Case) (string, []lib.Problem) {
	var ch *simx.Chain
	var panicMsg string
	resetAcked := false
	cmds := observeDRAM(func() {
		ch = simx.BuildChain(cs.Cfg, cloneOps(cs.Ops))
		ch.Driver.TickLater()
		if !cs.Reset {
			panicMsg = ch.Env.Run(400000)
			return
		}
		ctrl := simx.NewController(ch.Env, "Ctrl", []simx.CtrlStep{{Target: 0, Cmd: int(memcontrolprotocol.CmdReset)}},
			[]messaging.RemotePort{ch.DRAM[0].GetPortByName("Control").AsRemote()}, 2)
		ch.Conn.PlugIn(ctrl.GetPortByName("Ctrl"))
		ch.Conn.PlugIn(ch.DRAM[0].GetPortByName("Control"))
		ctrl.OnRsp = func(_ int, rsp simx.CtrlRsp) {
			resetAcked = rsp.Success
			dram.VerifObserver(dram.VerifCommand{Kind: "RESET"}) // marker in the command stream
		}
		msg, _ := lib.CatchStack(func() { _ = ch.Env.Eng.RunUntil(1_000_000) })
		if msg != "" {
			panicMsg = msg
			return
		}
		ctrl.Start()
		panicMsg = ch.Env.Run(400000)
	})
	defer ch.Env.Close()
	sig := cs.Cfg.Memory
	var probs []lib.Problem
	seen := map[string]bool{}
	bad := func(key, f string, a ...any) {
		if seen[key] {
			return
		}
		seen[key] = true
		probs = append(probs, lib.Problem{Key: "dram:" + key + ":" + sig, What: cs.Cfg.Name() + " script " + scriptString(cs.Ops) + ": " + fmt.Sprintf(f, a...)})
	}
	if panicMsg != "" {
		bad("run-panic", "%s", panicMsg)
		return "panic", probs
	}
	spec := ch.DRAM[0].Spec()
	lim := limitsOf(spec, cs.Cfg.Memory)

	type bank struct {
		open             bool
		row              uint64
		lastAct, lastPre int64
		hasAct, hasPre   bool
	}
	banks := map[bankKey]*bank{}
	kinds := map[string]int{}
	if cs.Reset && !resetAcked {
		bad("reset-not-acknowledged", "the Reset command sent at 1 us was not acknowledged with success")
	}
	for _, c := range cmds {
		kinds[c.Kind]++
		if c.Kind == "RESET" {
			// the controller forgets every bank's state; so does the model
			banks = map[bankKey]*bank{}
			continue
		}
		k := bankKey{c.Rank, c.BankGroup, c.Bank}
		b := banks[k]
		if b == nil {
			b = &bank{}
			banks[k] = b
		}
		t := int64(c.Tick)
		where := fmt.Sprintf("%s at tick %d on rank %d group %d bank %d row %d", c.Kind, c.Tick, c.Rank, c.BankGroup, c.Bank, c.Row)
		switch c.Kind {
		case "ACT":
			if b.open {
				bad("activate-on-open-bank", "%s: the bank already has row %d open (no precharge in between)", where, b.row)
			}
			if b.hasPre && t-b.lastPre < int64(lim.preToAct) {
				bad("precharge-to-activate-too-soon", "%s only %d cycles after the precharge (tRP=%d)", where, t-b.lastPre, lim.preToAct)
			}
			if b.hasAct && t-b.lastAct < int64(lim.actToAct) {
				bad("activate-to-activate-too-soon", "%s only %d cycles after the previous activate of this bank (tRC=%d)", where, t-b.lastAct, lim.actToAct)
			}
			b.open, b.row, b.lastAct, b.hasAct = true, c.Row, t, true
		case "RD", "RDA", "WR", "WRA":
			if !b.open {
				bad("column-command-on-closed-bank", "%s: the bank is not activated", where)
			} else if b.row != c.Row {
				bad("column-command-on-wrong-row", "%s: the open row is %d", where, b.row)
			}
			min := lim.actToRead
			name := "activate-to-read-too-soon"
			if c.Kind[0] == 'W' {
				min, name = lim.actToWrite, "activate-to-write-too-soon"
			}
			if b.hasAct && b.open && t-b.lastAct < int64(min) {
				bad(name, "%s only %d cycles after the activate (minimum %d)", where, t-b.lastAct, min)
			}
			if c.Kind == "RDA" || c.Kind == "WRA" {
				b.open = false
				b.hasPre = false // auto-precharge timing is not judged
			}
		case "PRE":
			if !b.open {
				bad("precharge-on-closed-bank", "%s: the bank is not open", where)
			}
			if b.hasAct && t-b.lastAct < int64(lim.actToPre) {
				bad("activate-to-precharge-too-soon", "%s only %d cycles after the activate (tRAS=%d)", where, t-b.lastAct, lim.actToPre)
			}
			b.open, b.lastPre, b.hasPre = false, t, true
		}
	}
	if len(cmds) == 0 {
		bad("no-commands-observed", "the observer saw no command")
	}
	probs = append(probs, checkDriverAgainstFlat(ch, cs.Ops, "dram:"+sig, cs.Cfg.Name())...)
	return fmt.Sprintf("%s A%d P%d R%d W%d RA%d WA%d", sig, kinds["ACT"], kinds["PRE"], kinds["RD"], kinds["WR"], kinds["RDA"], kinds["WRA"]), probs
}

// c22Geometries: non-preset geometries (every preset has 4 bank groups of 4
// banks on one rank).
var c22Geometries = []string{"dram-DEFAULT", "dram-DDR4@1x2x4", "dram-DDR4@2x4x2", "dram-HBM2@1x1x8", "dram-GDDR6@2x2x4"}

func enumC22(c *lib.Ctx, yield func(c22Case) bool) {
	k := lib.Pick(c, 3, 4)
	// geometry and reset families: every script of <= 2 requests before and
	// exactly 2 after an acknowledged Reset (and the same scripts without a
	// Reset), on the presets and on the non-preset geometries
	for _, m := range append(append([]string{}, c22Geometries...), dramKinds...) {
		for _, pol := range lib.Pick(c, []string{""}, []string{"", "-open"}) {
			memory := m + pol
			classes := dramAddressClasses(memory)
			if classes == nil {
				c.InternalError("cannot probe the address mapping of %s", memory)
				continue
			}
			var alpha []simx.MemOp
			for _, a := range classes {
				if a == ^uint64(0) {
					continue
				}
				alpha = append(alpha, simx.MemOp{Addr: a, Size: 64}, simx.MemOp{Write: true, Addr: a, Size: 64})
			}
			cfg := simx.ChainCfg{Memory: memory, NumMem: 1, PortBuf: 4, Lat: 1, MSHR: 1, Eager: true}
			for pre := 1; pre <= 2; pre++ {
				ok := enumScripts(alpha, pre+2, func(ops []simx.MemOp) bool {
					if pre == 2 && (ops[0].Write || !ops[3].Write) && !c.Thorough() {
						return true // quick: a quarter of the 4-request scripts
					}
					late := cloneOps(ops)
					for i := pre; i < len(late); i++ {
						late[i].At = 1500
					}
					return yield(c22Case{Cfg: cfg, Ops: late, Reset: true}) && yield(c22Case{Cfg: cfg, Ops: late})
				})
				if !ok {
					return
				}
			}
		}
	}
	for _, m := range dramKinds {
		for _, pol := range []string{"", "-open"} {
			memory := m + pol
			classes := dramAddressClasses(memory)
			if classes == nil {
				c.InternalError("cannot probe the address mapping of %s", memory)
				continue
			}
			var alpha []simx.MemOp
			for _, a := range classes {
				if a == ^uint64(0) {
					continue
				}
				alpha = append(alpha, simx.MemOp{Addr: a, Size: 64}, simx.MemOp{Write: true, Addr: a, Size: 64})
			}
			for _, q := range []int{0, 1} {
				for _, eager := range []bool{true, false} {
					if !c.Thorough() && q == 1 && !eager {
						continue
					}
					cfg := simx.ChainCfg{Memory: memory, NumMem: 1, PortBuf: 4, Lat: 1, MSHR: 1, Eager: eager, DRAMQ: q}
					for n := 1; n <= k; n++ {
						if !enumScripts(alpha, n, func(ops []simx.MemOp) bool { return yield(c22Case{Cfg: cfg, Ops: ops}) }) {
							return
						}
					}
				}
			}
		}
	}
}

func init() {
	lib.Register(&lib.Check{
		ID:          "C22",
		Level:       "exploration",
		Rule:        "geometry/reset family: presets and 5 non-preset geometries (DefaultSpec 2 ranks x 1 group x 8 banks; DDR4 1x2x4 and 2x4x2; HBM2 1x1x8; GDDR6 2x2x4) x close page [thorough + open page] x every script of 1..2 requests, an acknowledged Reset at 1 us (and the same script without it), then 2 more requests, the model forgetting every bank's state at the Reset; main family: every DRAM preset {DDR4, DDR5, HBM2, HBM3, GDDR6} x page policy {open, close} x queue setting {preset, 2-entry} x issue {back-to-back, one at a time} x every sequence of 1..k (quick 3, thorough 4) requests over {read, write} x address class {same row (2 columns), same bank other row, other bank, other bank group/rank} (classes found by probing the real address mapper); the command stream reported by the verif observer hook is checked against a per-bank state machine (ACT only on a closed bank; RD/WR/RDA/WRA only on the open row; PRE only on an open bank; RDA/WRA close) and against minimum separations recomputed from the Spec independently of the controller's timing table: ACT->RD/WR (tRCD-tAL, or tRCDRD/tRCDWR on HBM/GDDR), ACT->PRE (tRAS), PRE->ACT (tRP), ACT->ACT same bank (tRAS+tRP); completion and data via the C16 flat-memory oracle. Each (preset, policy, queue, issue, script) is a distinct case.",
		Sharded:     true,
		MinOutcomes: 20,
		Assumptions: []string{"only the separations the property names (plus same-bank tRC) are judged; the rest of the JEDEC table is recorded but not judged", "runs are short (no refresh window is reached)"},
		Run: func(c *lib.Ctx) {
			lib.Cases(c, func(y func(c22Case) bool) { enumC22(c, y) }, runC22)
			lib.CleanScratch()
		},
		Replay: lib.ReplayCases(runC22),
	})
}

package sim

import (
	"bytes"
	"fmt"
	"os"
	"path/filepath"
	"regexp"

	"github.com/sarchlab/akita/v5/timing"

	"verif/harness/lib"
	"verif/harness/simx"
)

// C06: checkpoint/restore at any time boundary is invisible.

type c06Case struct {
	Cfg simx.ChainCfg `json:"cfg"`
	Ops []simx.MemOp  `json:"ops"`
	// VM, when set, selects a translation-stack scenario instead of a memory chain.
	VM   *simx.VMCfg `json:"vm,omitempty"`
	XOps []simx.XOp  `json:"xops,omitempty"`
	// Net, when set, selects a mesh-network scenario.
	Net  *simx.NetCfg  `json:"net,omitempty"`
	Msgs []simx.NetMsg `json:"msgs,omitempty"`
	// Cut selects one cut (index into the distinct event times); -1 = all.
	Cut int `json:"cut"`
}

var c06Ctx *lib.Ctx

// c06Scn is one built instance of the scenario of a case.
type c06Scn struct {
	env    *simx.Env
	start  func()
	verify func(tag string) []lib.Problem
}

func (cs c06Case) build() c06Scn {
	if cs.Net != nil {
		cfg := *cs.Net
		cfg.Full = true
		nt := simx.BuildMesh(cfg, append([]simx.NetMsg{}, cs.Msgs...))
		return c06Scn{env: nt.Env, start: nt.Start, verify: func(tag string) []lib.Problem {
			var probs []lib.Problem
			// exactly-once delivery at the addressed device
			want := map[int]int{}
			for _, m := range cs.Msgs {
				want[m.To]++
			}
			for i, d := range nt.Devices {
				seen := map[uint64]bool{}
				for _, r := range d.State.Received {
					if seen[r.ID] {
						probs = append(probs, lib.Problem{Key: "message-delivered-twice", What: fmt.Sprintf("device %d received message %d twice", i, r.ID)})
					}
					seen[r.ID] = true
				}
				if len(d.State.Received) != want[i] {
					probs = append(probs, lib.Problem{Key: "message-count-wrong", What: fmt.Sprintf("device %d received %d messages, %d were addressed to it", i, len(d.State.Received), want[i])})
				}
			}
			return probs
		}}
	}
	if cs.VM != nil {
		cfg := *cs.VM
		cfg.Full = true
		st := simx.BuildVM(cfg, append([]simx.XOp{}, cs.XOps...))
		return c06Scn{env: st.Env, start: func() { st.Driver.TickLater() }, verify: func(tag string) []lib.Problem {
			var probs []lib.Problem
			if !st.Driver.Done() {
				probs = append(probs, lib.Problem{Key: "translation-unanswered", What: fmt.Sprintf("%d of %d translations unanswered", len(cs.XOps)-len(st.Driver.State.Results), len(cs.XOps))})
			}
			for _, r := range st.Driver.State.Results {
				op := cs.XOps[r.Op]
				if r.PAddr != simx.FrameOf(op.PID, op.VPage) {
					probs = append(probs, lib.Problem{Key: "wrong-translation", What: fmt.Sprintf("op %d (pid %d vpage %d) translated to %#x", r.Op, op.PID, op.VPage, r.PAddr)})
				}
			}
			for _, a := range st.Driver.State.Anomalies {
				probs = append(probs, lib.Problem{Key: "unexpected-response", What: a})
			}
			return probs
		}}
	}
	cfg := cs.Cfg
	cfg.Full = true
	ch := simx.BuildChain(cfg, cloneOps(cs.Ops))
	return c06Scn{env: ch.Env, start: func() { ch.Driver.TickLater() }, verify: func(tag string) []lib.Problem {
		return checkDriverAgainstFlat(ch, cs.Ops, tag, cfg.Name())
	}}
}

func (cs c06Case) label() (sig, name, script string) {
	if cs.Net != nil {
		return fmt.Sprintf("mesh%dx%d", cs.Net.Width, cs.Net.Height), cs.Net.Name(), fmt.Sprintf("%v", cs.Msgs)
	}
	if cs.VM != nil {
		l2 := ""
		if cs.VM.L2 {
			l2 = ">L2TLB"
		}
		return "TLB" + l2 + ">MMU", cs.VM.Name(), fmt.Sprintf("%v", cs.XOps)
	}
	return fmt.Sprintf("%v+%s", cs.Cfg.Stages, cs.Cfg.Memory), cs.Cfg.Name(), scriptString(cs.Ops)
}

type refRun struct {
	events []simx.EventRec
	final  map[string][]byte
	times  []uint64
}

func c06Reference(cs c06Case) (*refRun, string) {
	sc := cs.build()
	defer sc.env.Close()
	tr := sc.env.TraceEvents()
	sc.start()
	if msg := sc.env.Run(400000); msg != "" {
		return nil, msg
	}
	snap, err := sc.env.Snapshot()
	if err != nil {
		return nil, err.Error()
	}
	r := &refRun{events: tr.Events, final: snap}
	for _, e := range tr.Events {
		if len(r.times) == 0 || r.times[len(r.times)-1] != e.Time {
			r.times = append(r.times, e.Time)
		}
	}
	return r, ""
}

var idRe = regexp.MustCompile(`"(id|ID|RspTo|rsp_to|req_id|ReqID|recv_task_id|next_id|[a-z_]*_id|[A-Za-z]*ID)":\s*[0-9]+`)

// stripIDs blanks every numeric field whose name says it is an ID, so that a
// pure renumbering of generated IDs can be told apart from a real divergence.
func stripIDs(b []byte) []byte { return idRe.ReplaceAll(b, []byte(`"$1":0`)) }

func runC06(cs c06Case) (string, []lib.Problem) {
	ref, msg := c06Reference(cs)
	sig, cfgName, script := cs.label()
	if ref == nil {
		return "ref-failed", []lib.Problem{{Key: "checkpoint:reference-run-failed:" + sig, What: cfgName + ": " + msg}}
	}
	var probs []lib.Problem
	seen := map[string]bool{}
	add := func(cut int, t uint64, mode, key, f string, a ...any) {
		k := "checkpoint:" + key + ":" + mode + ":" + sig
		if key == "final-state-differs-only-in-generated-ids" {
			fam := "memory-chain"
			if cs.VM != nil {
				fam = "translation-stack"
			}
			if cs.Net != nil {
				fam = "mesh-network"
			}
			k = "checkpoint:" + key + ":" + mode + ":" + fam // one root cause per (mode, scenario family)
		}
		if seen[k] {
			return
		}
		seen[k] = true
		probs = append(probs, lib.Problem{Key: k, What: fmt.Sprintf("%s script %s cut #%d (t=%d) %s resume: ", cfgName, script, cut, t, mode) + fmt.Sprintf(f, a...)})
	}
	dir := lib.ScratchDir()
	path := filepath.Join(dir, fmt.Sprintf("ck-%d.tar.gz", os.Getpid()))
	defer os.Remove(path)
	for ci, t := range ref.times {
		if cs.Cut >= 0 && ci != cs.Cut {
			continue
		}
		for _, mode := range []string{"fresh-process", "same-process"} {
			if c06Ctx != nil {
				c06Ctx.Add("restores_explored", 1)
			}
			// source run up to the cut
			src := cs.build()
			src.start()
			pm := lib.Catch(func() { _ = src.env.Eng.RunUntil(timing.VTimeInPicoSec(t)) })
			if pm != "" {
				add(ci, t, mode, "source-run-panic", "%s", pm)
				src.env.Close()
				continue
			}
			err := src.env.Sim.SaveCheckpoint(path, "verif")
			idAtSave := timing.GetIDGeneratorNextID()
			src.env.Close()
			if err != nil {
				add(ci, t, mode, "save-error", "%v", err)
				continue
			}
			// rebuild and restore
			simx.SkipReset = mode == "same-process"
			dst := cs.build()
			simx.SkipReset = false
			tr := dst.env.TraceEvents()
			var lerr error
			pm = lib.Catch(func() { lerr = dst.env.Sim.LoadCheckpoint(path, "verif") })
			if pm != "" || lerr != nil {
				add(ci, t, mode, "load-failed", "%v %s", lerr, pm)
				dst.env.Close()
				continue
			}
			if got := timing.GetIDGeneratorNextID(); got != idAtSave {
				add(ci, t, mode, "id-counter-not-restored", "the ID counter is %d right after LoadCheckpoint, it was %d when the checkpoint was saved", got, idAtSave)
			}
			if m := dst.env.Run(400000); m != "" {
				add(ci, t, mode, "resumed-run-panic", "%s", m)
				dst.env.Close()
				continue
			}
			// event suffix
			var want []simx.EventRec
			for _, e := range ref.events {
				if e.Time > t {
					want = append(want, e)
				}
			}
			if len(want) != len(tr.Events) {
				add(ci, t, mode, "event-suffix-differs", "resumed run handled %d events, the uninterrupted run handled %d after the cut", len(tr.Events), len(want))
			} else {
				for i := range want {
					if want[i] != tr.Events[i] {
						add(ci, t, mode, "event-suffix-differs", "event %d after the cut is %+v, uninterrupted run had %+v", i, tr.Events[i], want[i])
						break
					}
				}
			}
			snap, err := dst.env.Snapshot()
			if err != nil {
				add(ci, t, mode, "snapshot-error", "%v", err)
			} else {
				strict := simx.DiffSnapshots(ref.final, snap)
				if len(strict) > 0 {
					// is it only a renumbering of generated IDs?
					a, b := map[string][]byte{}, map[string][]byte{}
					for k, v := range ref.final {
						a[k] = stripIDs(v)
					}
					for k, v := range snap {
						b[k] = stripIDs(v)
					}
					modID := simx.DiffSnapshots(a, b)
					if len(modID) == 0 {
						add(ci, t, mode, "final-state-differs-only-in-generated-ids", "entities %v differ from the uninterrupted run, but only in generated ID values (e.g. %s)", strict, firstDiff(ref.final[strict[0]], snap[strict[0]]))
					} else {
						add(ci, t, mode, "final-state-differs", "entities %v differ from the uninterrupted run beyond ID renumbering: %s", modID, firstDiff(ref.final[modID[0]], snap[modID[0]]))
					}
				}
			}
			// the resumed run must still be correct for the requester
			for _, p := range dst.verify("resumed:" + sig) {
				add(ci, t, mode, "resumed-"+p.Key, "%s", p.What)
			}
			dst.env.Close()
		}
	}
	return fmt.Sprintf("%s cuts%d", sig, len(ref.times)/8), probs
}

func firstDiff(a, b []byte) string {
	n := len(a)
	if len(b) < n {
		n = len(b)
	}
	i := 0
	for i < n && a[i] == b[i] {
		i++
	}
	lo := i - 60
	if lo < 0 {
		lo = 0
	}
	cut := func(x []byte) string {
		hi := i + 60
		if hi > len(x) {
			hi = len(x)
		}
		if lo > len(x) {
			return ""
		}
		return string(bytes.TrimSpace(x[lo:hi]))
	}
	return fmt.Sprintf("uninterrupted …%s… vs resumed …%s…", cut(a), cut(b))
}

func c06Configs(c *lib.Ctx) []simx.ChainCfg {
	var out []simx.ChainCfg
	stages := [][]string{{}, {"wb"}, {"wt-around"}, {"wt-evict"}, {"wt-through"}, {"rob", "wb"}, {"wt-through", "wb"}}
	if !c.Thorough() {
		stages = [][]string{{"wb"}, {"wt-through"}, {"rob", "wb"}}
	}
	for _, st := range stages {
		out = append(out, simx.ChainCfg{Stages: st, Memory: "ideal", NumMem: 1, PortBuf: 4, Lat: 1, MSHR: 2, Eager: true})
	}
	out = append(out,
		simx.ChainCfg{Stages: []string{"wb"}, Memory: "banked2", NumMem: 2, PortBuf: 1, Lat: 2, MSHR: 1, Eager: true},
		simx.ChainCfg{Stages: []string{}, Memory: "dram-DDR4-open", NumMem: 1, PortBuf: 4, Lat: 1, MSHR: 1, Eager: true},
	)
	if c.Thorough() {
		out = append(out,
			simx.ChainCfg{Stages: []string{}, Memory: "banked2", NumMem: 1, PortBuf: 4, Lat: 1, MSHR: 1, Eager: true},
			simx.ChainCfg{Stages: []string{"wb"}, Memory: "dram-HBM2", NumMem: 1, PortBuf: 4, Lat: 1, MSHR: 2, Eager: true},
		)
		for _, st := range stages {
			out = append(out, simx.ChainCfg{Stages: st, Memory: "ideal", NumMem: 1, PortBuf: 1, Lat: 0, MSHR: 1, Eager: false})
		}
		for _, m := range dramKinds {
			out = append(out, simx.ChainCfg{Stages: []string{}, Memory: m, NumMem: 1, PortBuf: 4, Lat: 1, MSHR: 1, Eager: true})
		}
	}
	return out
}

// enumC06VM yields the translation-stack cases: bursts of translations that
// saturate the TLB lookup pipeline (items dwell in its entry stage).
func enumC06VM(c *lib.Ctx, yield func(c06Case) bool) bool {
	cfgs := []simx.VMCfg{
		{Width: 2, Sets: 1, Ways: 2, MSHR: 2, Lat: 2, MMULat: 3, PortBuf: 4, Burst: 4},
		{Width: 1, Sets: 2, Ways: 1, MSHR: 1, Lat: 1, MMULat: 2, PortBuf: 2, Burst: 2},
		{Width: 2, Sets: 1, Ways: 2, MSHR: 2, Lat: 2, L2: true, MMULat: 3, PortBuf: 4, Burst: 4},
	}
	k := lib.Pick(c, 4, 5)
	// pages: (pid1,vp0) (pid1,vp1) (pid2,vp0): every sequence of k requests
	pages := []simx.XOp{{PID: 1, VPage: 0}, {PID: 1, VPage: 1}, {PID: 2, VPage: 0}}
	for ci := range cfgs {
		cfg := cfgs[ci]
		idx := make([]int, k)
		for {
			ops := make([]simx.XOp, k)
			for i, a := range idx {
				ops[i] = pages[a]
			}
			if !yield(c06Case{VM: &cfg, XOps: ops, Cut: -1}) {
				return false
			}
			p := k - 1
			for p >= 0 {
				idx[p]++
				if idx[p] < len(pages) {
					break
				}
				idx[p] = 0
				p--
			}
			if p < 0 {
				break
			}
		}
	}
	return true
}

// enumC06Net yields the mesh-network cases: every set of k messages over
// ordered device pairs and sizes {0, 100 bytes} (multi-flit), all sent at once.
func enumC06Net(c *lib.Ctx, yield func(c06Case) bool) bool {
	cfgs := []simx.NetCfg{
		{Width: 2, Height: 1, Flit: 16, PortBuf: 2},
		{Width: 2, Height: 2, Flit: 64, PortBuf: 1, Stall: 6},
	}
	if c.Thorough() {
		cfgs = append(cfgs, simx.NetCfg{Width: 3, Height: 1, Flit: 8, PortBuf: 2, Stall: 4})
	}
	k := lib.Pick(c, 2, 3)
	for ci := range cfgs {
		cfg := cfgs[ci]
		num := cfg.Width * cfg.Height
		var opts []simx.NetMsg
		for f := 0; f < num && f < 3; f++ {
			for t := 0; t < num && t < 3; t++ {
				if f == t {
					continue
				}
				for _, b := range []int{0, 100} {
					opts = append(opts, simx.NetMsg{From: f, To: t, Bytes: b})
				}
			}
		}
		idx := make([]int, k)
		for {
			msgs := make([]simx.NetMsg, k)
			for i, a := range idx {
				msgs[i] = opts[a]
			}
			if !yield(c06Case{Net: &cfg, Msgs: msgs, Cut: -1}) {
				return false
			}
			p := k - 1
			for p >= 0 {
				idx[p]++
				if idx[p] < len(opts) {
					break
				}
				idx[p] = 0
				p--
			}
			if p < 0 {
				break
			}
		}
	}
	return true
}

func enumC06(c *lib.Ctx, yield func(c06Case) bool) {
	if !enumC06VM(c, yield) {
		return
	}
	if !enumC06Net(c, yield) {
		return
	}
	lines := simx.SameSetLines(3)
	alpha3 := opAlphabet(lines)
	// quick alphabet: 5 kinds on line A + {write line, read line} on line B
	a, b := lines[0], lines[1]
	quick := []simx.MemOp{
		{Addr: a, Size: 4}, {Addr: a, Size: simx.LineSize},
		{Write: true, Addr: a, Size: simx.LineSize}, {Write: true, Addr: a + 8, Size: 4}, {Write: true, Addr: a, Size: simx.LineSize, Mask: []bool{}},
		{Write: true, Addr: b, Size: simx.LineSize}, {Addr: b, Size: simx.LineSize},
	}
	for _, cfg := range c06Configs(c) {
		y := func(ops []simx.MemOp) bool { return yield(c06Case{Cfg: cfg, Ops: ops, Cut: -1}) }
		if c.Thorough() {
			if !enumScripts(alpha3, 2, y) {
				return
			}
			continue
		}
		if !enumScripts(quick, 2, y) {
			return
		}
	}
}

func init() {
	lib.Register(&lib.Check{
		ID:    "C06",
		Level: "fault_enumeration",
		Rule: "crash-point style enumeration: for each assembly of the checkpoint catalogue (mesh networks 2x1 / 2x2 (thorough 3x1) with every sequence of 2 (thorough 3) messages over device pairs x {0, 100 bytes}; translation stacks TLB -> [L2 TLB] -> MMU with every burst of 4 (thorough 5) translations over 3 pages that saturates the TLB lookup pipeline; ideal / banked / DRAM memory, write-back, three write-through policies, ROB, two-level, interleaved; inside a real simulation.Simulation with tracing off) x every 2-operation script (quick: 7-operation alphabet over 2 lines on 5 assemblies; thorough: 21-operation alphabet over 3 lines, more assemblies and geometries and all DRAM presets), the uninterrupted run is recorded; then for EVERY distinct event time t: RunUntil(t), SaveCheckpoint, rebuild the identical simulation, LoadCheckpoint, Run — in two modes (fresh process state: ID generator and tracing side tables reset; same process: kept). " +
			"Oracle: the handled-event suffix after t and the final SaveCheckpoint bytes of every entity (components, ports, connection, storages, engine, ID generator) equal the uninterrupted run's; the resumed run satisfies the flat-memory oracle. A case = (assembly, script); restores_explored counts (cut, mode) pairs.",
		Sharded:     true,
		MinOutcomes: 5,
		Run: func(c *lib.Ctx) {
			c06Ctx = c
			lib.Cases(c, func(y func(c06Case) bool) { enumC06(c, y) }, runC06)
			lib.CleanScratch()
		},
		Replay: lib.ReplayCases(runC06),
	})
}

package sim

import (
	"sort"

	"github.com/sarchlab/akita/v5/mem/memcontrolprotocol"
	"github.com/sarchlab/akita/v5/messaging"

	"verif/harness/lib"
	"verif/harness/simx"
)

// C03Scenarios yields memory-hierarchy and translation-stack scenarios for the
// determinism check C03; each run also contributes its final entity snapshots
// and the requester's results to the fingerprint.
func C03Scenarios(c *lib.Ctx, yield func(name string, run func()) bool) {
	contribute := func(env *simx.Env) {
		if simx.Fingerprint == nil {
			return
		}
		snap, err := env.Snapshot()
		if err != nil {
			simx.Fingerprint("snapshot-error", []byte(err.Error()))
			return
		}
		keys := make([]string, 0, len(snap))
		for k := range snap {
			keys = append(keys, k)
		}
		sort.Strings(keys)
		for _, k := range keys {
			simx.Fingerprint("final:"+k, snap[k])
		}
	}
	lines := simx.SameSetLines(3)
	alpha := opAlphabet(lines)
	stride := 149
	if c.Thorough() {
		stride = 5
	}
	i := 0
	for _, cfg := range c06Configs(c) {
		for _, full := range []bool{false, true} {
			cfg := cfg
			cfg.Full = full
			ok := enumScripts(alpha, 3, func(ops []simx.MemOp) bool {
				i++
				if i%stride != 0 {
					return true
				}
				o := cloneOps(ops)
				return yield("chain", func() {
					ch := simx.BuildChain(cfg, cloneOps(o))
					defer ch.Env.Close()
					ch.Driver.TickLater()
					ch.Env.Run(400000)
					contribute(ch.Env)
				})
			})
			if !ok {
				return
			}
		}
	}
	// writes landing in three different storage allocation units (4 KiB each),
	// so that iteration over the storage's unit map has several keys
	units := []simx.MemOp{
		{Write: true, Addr: 0x40, Size: simx.LineSize},
		{Write: true, Addr: 0x1040, Size: simx.LineSize},
		{Write: true, Addr: 0x2040, Size: 4},
	}
	for _, st := range [][]string{{}, {"wb"}} {
		cfg := simx.ChainCfg{Stages: st, Memory: "ideal", NumMem: 1, PortBuf: 4, Lat: 1, MSHR: 2, Eager: true}
		ok := enumScripts(units, 3, func(ops []simx.MemOp) bool {
			o := cloneOps(ops)
			return yield("chain-multi-unit", func() {
				ch := simx.BuildChain(cfg, cloneOps(o))
				defer ch.Env.Close()
				ch.Driver.TickLater()
				ch.Env.Run(400000)
				contribute(ch.Env)
			})
		})
		if !ok {
			return
		}
	}
	// control traffic: several dirty lines, then Drain / Flush (unfiltered, or
	// filtered by two or three line addresses in either order) / Enable, so that
	// any per-request collection built from the filter has several keys
	flushLines := []uint64{0x0, 0x40, 0x80, 0x1040}
	var dirty []simx.MemOp
	for i, l := range flushLines {
		d := make([]byte, 4)
		for k := range d {
			d[k] = byte(0x21 + 0x10*i + k)
		}
		dirty = append(dirty, simx.MemOp{Write: true, Addr: l + 8, Size: 4, Data: d})
	}
	filters := [][]uint64{nil, {0x0, 0x40}, {0x40, 0x0}, {0x1040, 0x80, 0x0}, {0x0, 0x40, 0x80, 0x1040}}
	for _, st := range [][]string{{"wb"}, {"wb", "wb"}} {
		for _, f := range filters {
			cfg := simx.ChainCfg{Stages: st, Memory: "ideal", NumMem: 1, PortBuf: 4, Lat: 1, MSHR: 2, Eager: true}
			f := f
			if !yield("chain-flush", func() {
				ch := simx.BuildChain(cfg, cloneOps(dirty))
				defer ch.Env.Close()
				var steps []simx.CtrlStep
				var targets []messaging.RemotePort
				for i, c := range ch.WB {
					targets = append(targets, c.GetPortByName("Control").AsRemote())
					steps = append(steps,
						simx.CtrlStep{Target: i, Cmd: int(memcontrolprotocol.CmdDrain)},
						simx.CtrlStep{Target: i, Cmd: int(memcontrolprotocol.CmdFlush), Addresses: f})
				}
				for i := len(ch.WB) - 1; i >= 0; i-- {
					steps = append(steps, simx.CtrlStep{Target: i, Cmd: int(memcontrolprotocol.CmdEnable)})
				}
				ctrl := simx.NewController(ch.Env, "Ctrl", steps, targets, 2)
				ch.Conn.PlugIn(ctrl.GetPortByName("Ctrl"))
				for _, c := range ch.WB {
					ch.Conn.PlugIn(c.GetPortByName("Control"))
				}
				ch.Driver.TickLater()
				ch.Env.Run(400000)
				ctrl.Start()
				ch.Env.Run(400000)
				contribute(ch.Env)
			}) {
				return
			}
		}
	}
	j := 0
	if !enumC06Net(c, func(cs c06Case) bool {
		j++
		if j%5 != 0 {
			return true
		}
		cc := cs
		return yield("mesh", func() {
			for _, full := range []bool{false, true} {
				cfg := *cc.Net
				cfg.Full = full
				nt := simx.BuildMesh(cfg, append([]simx.NetMsg{}, cc.Msgs...))
				nt.Start()
				nt.Env.Run(400000)
				contribute(nt.Env)
				nt.Env.Close()
			}
		})
	}) {
		return
	}
	enumC06VM(c, func(cs c06Case) bool {
		i++
		if i%29 != 0 {
			return true
		}
		cc := cs
		return yield("vm", func() {
			st := simx.BuildVM(*cc.VM, append([]simx.XOp{}, cc.XOps...))
			defer st.Env.Close()
			st.Driver.TickLater()
			st.Env.Run(400000)
			contribute(st.Env)
		})
	})
}

package sim

import (
	"fmt"

	"github.com/sarchlab/akita/v5/mem/cache/writeback"
	"github.com/sarchlab/akita/v5/mem/memcontrolprotocol"
	"github.com/sarchlab/akita/v5/messaging"
	"github.com/sarchlab/akita/v5/timing"

	"verif/harness/lib"
	"verif/harness/simx"
)

// C17: draining and flushing write-back caches makes backing memory current;
// a filtered flush writes back exactly the matching dirty lines.

type flushFilter struct {
	Name  string   `json:"name"`
	Addrs []uint64 `json:"addrs,omitempty"`
	PID   uint32   `json:"pid,omitempty"`
}

type c17Case struct {
	Cfg    simx.ChainCfg `json:"cfg"`
	Ops    []simx.MemOp  `json:"ops"`
	Filter flushFilter   `json:"filter"`
	// Cut selects one cut point (index into the distinct event times of the
	// uncontrolled run); -1 = every cut point in turn.
	Cut int `json:"cut"`
}

type blockSnap struct {
	valid, dirty bool
	tag          uint64
	pid          uint32
}

func snapDir(c *writeback.Comp) [][]blockSnap {
	ds := &c.State.DirectoryState
	out := make([][]blockSnap, len(ds.Sets))
	for s, set := range ds.Sets {
		out[s] = make([]blockSnap, len(set.Blocks))
		for w, b := range set.Blocks {
			out[s][w] = blockSnap{b.IsValid, b.IsDirty, b.Tag, b.PID}
		}
	}
	return out
}

func (f flushFilter) matches(b blockSnap) bool {
	if f.PID != 0 && b.pid != f.PID {
		return false
	}
	if len(f.Addrs) > 0 {
		hit := false
		for _, a := range f.Addrs {
			if a/simx.LineSize*simx.LineSize == b.tag {
				hit = true
			}
		}
		if !hit {
			return false
		}
	}
	return true
}

var c17Ctx *lib.Ctx

// cutTimes runs the uncontrolled workload and returns its distinct event times.
func cutTimes(cfg simx.ChainCfg, ops []simx.MemOp) []uint64 {
	ch := simx.BuildChain(cfg, cloneOps(ops))
	defer ch.Env.Close()
	tr := ch.Env.TraceEvents()
	ch.Driver.TickLater()
	if msg := ch.Env.Run(200000); msg != "" {
		return nil
	}
	var out []uint64
	for _, e := range tr.Events {
		if len(out) == 0 || out[len(out)-1] != e.Time {
			out = append(out, e.Time)
		}
	}
	return out
}

func runC17(cs c17Case) (string, []lib.Problem) {
	cuts := cutTimes(cs.Cfg, cs.Ops)
	if cuts == nil {
		return "ref-failed", []lib.Problem{{Key: "flush:reference-run-failed", What: cs.Cfg.Name()}}
	}
	var probs []lib.Problem
	seen := map[string]bool{}
	outcomes := map[string]bool{}
	for ci, t := range cuts {
		if cs.Cut >= 0 && ci != cs.Cut {
			continue
		}
		out, p := runC17Cut(cs, t)
		outcomes[out] = true
		if c17Ctx != nil {
			c17Ctx.Add("cut_points_explored", 1)
			c17Ctx.Outcome(out)
		}
		for _, pr := range p {
			if !seen[pr.Key] {
				seen[pr.Key] = true
				pr.What = fmt.Sprintf("cut #%d (t=%d): %s", ci, t, pr.What)
				probs = append(probs, pr)
			}
		}
	}
	return fmt.Sprintf("%d-outcomes", len(outcomes)), probs
}

func runC17Cut(cs c17Case, cutTime uint64) (string, []lib.Problem) {
	ch := simx.BuildChain(cs.Cfg, cloneOps(cs.Ops))
	defer ch.Env.Close()
	sig := fmt.Sprintf("%v:%s", cs.Cfg.Stages, cs.Filter.Name)
	var probs []lib.Problem
	bad := func(key, f string, a ...any) {
		probs = append(probs, lib.Problem{Key: "flush:" + key + ":" + sig,
			What: cs.Cfg.Name() + " script " + scriptString(cs.Ops) + " filter " + cs.Filter.Name + ": " + fmt.Sprintf(f, a...)})
	}
	n := len(ch.WB)
	// control script: for each cache top-down: Drain, Flush; then Enable bottom-up
	var steps []simx.CtrlStep
	var targets []messaging.RemotePort
	for i, c := range ch.WB {
		targets = append(targets, c.GetPortByName("Control").AsRemote())
		steps = append(steps,
			simx.CtrlStep{Target: i, Cmd: int(memcontrolprotocol.CmdDrain)},
			simx.CtrlStep{Target: i, Cmd: int(memcontrolprotocol.CmdFlush), Addresses: cs.Filter.Addrs, PID: cs.Filter.PID})
	}
	for i := n - 1; i >= 0; i-- {
		steps = append(steps, simx.CtrlStep{Target: i, Cmd: int(memcontrolprotocol.CmdEnable)})
	}
	ctrl := simx.NewController(ch.Env, "Ctrl", steps, targets, 2)
	ch.Conn.PlugIn(ctrl.GetPortByName("Ctrl"))
	for _, c := range ch.WB {
		ch.Conn.PlugIn(c.GetPortByName("Control"))
	}

	before := make([][][]blockSnap, n)
	flushedDirty := 0
	ctrl.OnRsp = func(step int, rsp simx.CtrlRsp) {
		if !rsp.Success {
			bad("control-refused", "step %d (cmd %d) answered Success=false %q", step, rsp.Cmd, rsp.Error)
			return
		}
		if step >= 2*n {
			return
		}
		ci := step / 2
		c := ch.WB[ci]
		if step%2 == 0 { // drain acknowledged: the cache is quiescent and paused
			before[ci] = snapDir(c)
			return
		}
		// flush acknowledged
		after := snapDir(c)
		for s := range after {
			for w := range after[s] {
				b, a := before[ci][s][w], after[s][w]
				if !b.valid {
					continue
				}
				if !a.valid || a.tag != b.tag {
					bad("line-lost-validity", "%s set %d way %d line %#x was valid before the flush and is not after", c.Name(), s, w, b.tag)
					continue
				}
				m := cs.Filter.matches(b)
				switch {
				case b.dirty && m && a.dirty:
					bad("matching-dirty-line-not-written-back", "%s line %#x matches the filter and is still dirty after the flush ack", c.Name(), b.tag)
				case b.dirty && !m && !a.dirty:
					bad("non-matching-dirty-line-cleaned", "%s line %#x does not match the filter but is clean after the flush", c.Name(), b.tag)
				case !b.dirty && a.dirty:
					bad("clean-line-became-dirty", "%s line %#x was clean before the flush and is dirty after", c.Name(), b.tag)
				}
				if b.dirty && m {
					flushedDirty++
				}
			}
		}
		// data oracle: after the last cache has been flushed, backing memory is current
		// for every line the filter covers
		if ci != n-1 {
			return
		}
		acked := simx.FlatMemory{}
		alt := map[uint64]byte{}
		hasAlt := map[uint64]bool{}
		ackedOp := map[int]bool{}
		for _, r := range ch.Driver.State.Results {
			ackedOp[r.Op] = true
		}
		for i, op := range cs.Ops {
			if !op.Write {
				continue
			}
			if ackedOp[i] {
				acked.Apply(op)
			}
		}
		for _, f := range ch.Driver.State.Inflight {
			op := cs.Ops[f.Op]
			if !op.Write {
				continue
			}
			for k, v := range op.Data {
				if op.Mask != nil && !op.Mask[k] {
					continue
				}
				alt[op.Addr+uint64(k)] = v
				hasAlt[op.Addr+uint64(k)] = true
			}
		}
		lines := map[uint64]bool{}
		for _, op := range cs.Ops {
			if op.Write {
				lines[op.Addr/simx.LineSize*simx.LineSize] = true
			}
		}
		for l := range lines {
			if !cs.Filter.matches(blockSnap{valid: true, dirty: true, tag: l, pid: 1}) {
				continue
			}
			got, err := ch.ReadBacking(l, simx.LineSize)
			if err != nil {
				bad("backing-read-error", "%v", err)
				continue
			}
			for k := uint64(0); k < simx.LineSize; k++ {
				want := acked[l+k]
				if got[k] == want || (hasAlt[l+k] && got[k] == alt[l+k]) {
					continue
				}
				bad("backing-memory-stale", "after drain+flush of every cache, backing byte %#x holds %#x; the most recent acknowledged write put %#x there (in-flight alternative: %v %#x)", l+k, got[k], want, hasAlt[l+k], alt[l+k])
				break
			}
		}
	}

	ch.Driver.TickLater()
	msg, where := lib.CatchStack(func() {
		_ = ch.Env.Eng.RunUntil(timing.VTimeInPicoSec(cutTime))
		ctrl.Start()
	})
	if msg != "" {
		bad("run-panic", "%s @ %s", msg, where)
		return "panic", probs
	}
	if m := ch.Env.Run(400000); m != "" {
		bad("run-panic", "%s", m)
		return "panic", probs
	}
	if !ctrl.Done() {
		bad("control-unanswered", "control sequence stopped at step %d of %d (waiting=%v)", ctrl.State.Next, len(steps), ctrl.State.Waiting)
	}
	for _, a := range ctrl.State.Anomalies {
		bad("control-anomaly", "%s", a)
	}
	probs = append(probs, checkDriverAgainstFlat(ch, cs.Ops, "ctl:"+sig, cs.Cfg.Name())...)
	return fmt.Sprintf("%s dirty%d", sig, flushedDirty), probs
}

func c17Filters(lines []uint64) []flushFilter {
	return []flushFilter{
		{Name: "all"},
		{Name: "A", Addrs: []uint64{lines[0] + 8}},
		{Name: "A,B", Addrs: []uint64{lines[0], lines[1]}},
		{Name: "pid1", PID: 1},
		{Name: "pid2", PID: 2},
		{Name: "A+pid1", Addrs: []uint64{lines[0]}, PID: 1},
	}
}

func enumC17(c *lib.Ctx, yield func(c17Case) bool) {
	lines := simx.SameSetLines(3)
	// write-heavy alphabet: the three write kinds on every line, plus line reads
	var alpha []simx.MemOp
	for _, l := range lines {
		alpha = append(alpha,
			simx.MemOp{Write: true, Addr: l, Size: simx.LineSize},
			simx.MemOp{Write: true, Addr: l + 8, Size: 4},
			simx.MemOp{Write: true, Addr: l, Size: simx.LineSize, Mask: []bool{}},
			simx.MemOp{Addr: l, Size: simx.LineSize},
			simx.MemOp{Addr: l, Size: 4}, // a small read can be outstanding while a write to other bytes of the line coalesces
		)
	}
	var cfgs []simx.ChainCfg
	for _, st := range [][]string{{"wb"}, {"wb", "wb"}} {
		for _, v := range []struct{ buf, lat, mshr int }{{4, 1, 2}, {1, 0, 1}} {
			for _, eager := range []bool{true, false} {
				if !c.Thorough() && (!eager && v.buf == 1) {
					continue
				}
				cfgs = append(cfgs, simx.ChainCfg{Stages: st, Memory: "ideal", NumMem: 1, PortBuf: v.buf, Lat: v.lat, MSHR: v.mshr, Eager: eager})
				if len(st) == 1 && eager {
					// direct-mapped: a second line evicts the first, so k=2 reaches
					// "dirty victim still in the write buffer when the flush starts"
					cfgs = append(cfgs, simx.ChainCfg{Stages: st, Memory: "ideal", NumMem: 1, PortBuf: v.buf, Lat: v.lat + 1, MSHR: v.mshr, Eager: eager, Ways: 1})
				}
			}
		}
	}
	// queued victim write-backs: direct-mapped cache over a slow memory with one
	// eviction in flight at a time; k=3 so that two evictions overlap; filters
	// that select nothing are the interesting ones (nothing dirty left / the
	// evicted line itself)
	slow := simx.ChainCfg{Stages: []string{"wb"}, Memory: "ideal", NumMem: 1, PortBuf: 4, Lat: 1, MSHR: 2, Eager: true, Ways: 1, SlowEvict: true}
	wr := []simx.MemOp{}
	for _, l := range lines {
		wr = append(wr, simx.MemOp{Write: true, Addr: l, Size: simx.LineSize}, simx.MemOp{Addr: l, Size: simx.LineSize})
	}
	fs := c17Filters(lines)
	for _, f := range []flushFilter{fs[0], fs[1], fs[2]} {
		ok := enumScripts(wr, 3, func(ops []simx.MemOp) bool {
			if !ops[0].Write {
				return true // nothing dirty to evict
			}
			return yield(c17Case{Cfg: slow, Ops: ops, Filter: f, Cut: -1})
		})
		if !ok {
			return
		}
	}
	// k=4 on the same assembly: a third eviction queues behind the one in
	// flight while its transaction slot is free for the fourth request
	for _, f := range lib.Pick(c, []flushFilter{fs[0]}, []flushFilter{fs[0], fs[1], fs[2]}) {
		ok := enumScripts(wr, 4, func(ops []simx.MemOp) bool {
			if !ops[0].Write || !ops[1].Write {
				return true
			}
			return yield(c17Case{Cfg: slow, Ops: ops, Filter: f, Cut: -1})
		})
		if !ok {
			return
		}
	}
	k := lib.Pick(c, 2, 3)
	for _, cfg := range cfgs {
		for _, f := range c17Filters(lines) {
			ok := enumScripts(alpha, k, func(ops []simx.MemOp) bool {
				return yield(c17Case{Cfg: cfg, Ops: ops, Filter: f, Cut: -1})
			})
			if !ok {
				return
			}
		}
	}
}

func init() {
	lib.Register(&lib.Check{
		ID:    "C17",
		Level: "exploration",
		Rule: "exhaustive small-scope simulation with fault-point style cuts: write-back cache hierarchies (one and two levels, 2 sets x 2 ways plus direct-mapped single caches so that evictions are reachable with 2 lines, 2 geometry/latency settings, serial and eager issue) over ideal memory x every script of k (quick 2, thorough 3) operations over {write line, write 4 B, masked line write, read line, read 4 B} x 3 same-set lines x 6 flush filters {none, [A], [A,B], pid 1, pid 2, [A]+pid 1} x EVERY distinct event time of the uncontrolled run as the moment the control sequence starts (Drain, Flush(filter) per cache top-down, then Enable bottom-up) while traffic continues. " +
			"Oracle: every control step acknowledged with success; per cache, directory before (at drain ack) vs after (at flush ack): every line still valid, matching dirty lines clean, non-matching dirty lines still dirty; after the last flush the backing bytes of every covered line equal the most recent acknowledged write (or the single in-flight write to that byte); the run then completes and satisfies the C16 flat-memory oracle. A case = (assembly, script, filter); cut_points_explored counts the runs.",
		Sharded:     true,
		MinOutcomes: 6,
		Run: func(c *lib.Ctx) {
			c17Ctx = c
			lib.Cases(c, func(y func(c17Case) bool) { enumC17(c, y) }, runC17)
			lib.CleanScratch()
		},
		Replay: lib.ReplayCases(runC17),
	})
}

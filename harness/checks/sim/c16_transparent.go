// Package sim holds the checks built on the small-scope simulation explorer (E3).
package sim

import (
	"bytes"
	"fmt"
	"strings"

	"verif/harness/lib"
	"verif/harness/simx"
)

// C16: memory hierarchies are transparent to requesters.

type c16Case struct {
	Cfg simx.ChainCfg `json:"cfg"`
	Ops []simx.MemOp  `json:"ops"`
}

// opAlphabet builds the per-line operation alphabet: read 4 B (two offsets),
// read line, write full line, write partial (two offsets), write masked.
func opAlphabet(lines []uint64) []simx.MemOp {
	var out []simx.MemOp
	for _, l := range lines {
		out = append(out,
			simx.MemOp{Addr: l, Size: 4},
			simx.MemOp{Addr: l + 8, Size: 4},
			simx.MemOp{Addr: l, Size: simx.LineSize},
			simx.MemOp{Write: true, Addr: l, Size: simx.LineSize},
			simx.MemOp{Write: true, Addr: l, Size: 4},
			simx.MemOp{Write: true, Addr: l + 8, Size: 4},
			simx.MemOp{Write: true, Addr: l, Size: simx.LineSize, Mask: []bool{}},
		)
	}
	return out
}

// fillOp gives op number i of a script its unique payload (and mask pattern).
func fillOp(op simx.MemOp, i int) simx.MemOp {
	if !op.Write {
		return op
	}
	op.Data = make([]byte, op.Size)
	for k := range op.Data {
		op.Data[k] = byte(0x10*(i+1) + (k % 13) + 1)
	}
	if op.Mask != nil {
		op.Mask = make([]bool, op.Size)
		for k := range op.Mask {
			op.Mask[k] = (k/4+i)%2 == 0 // alternate 4-byte groups, phase depends on the op index
		}
	}
	return op
}

func enumScripts(alpha []simx.MemOp, k int, yield func([]simx.MemOp) bool) bool {
	idx := make([]int, k)
	for {
		ops := make([]simx.MemOp, k)
		for i, a := range idx {
			ops[i] = fillOp(alpha[a], i)
		}
		if !yield(ops) {
			return false
		}
		p := k - 1
		for p >= 0 {
			idx[p]++
			if idx[p] < len(alpha) {
				break
			}
			idx[p] = 0
			p--
		}
		if p < 0 {
			return true
		}
	}
}

func cloneOps(ops []simx.MemOp) []simx.MemOp {
	out := make([]simx.MemOp, len(ops))
	copy(out, ops)
	return out
}

// runC16 builds the hierarchy, runs the script and applies the flat-memory oracle.
func runC16(cs c16Case) (string, []lib.Problem) {
	ch := simx.BuildChain(cs.Cfg, cloneOps(cs.Ops))
	defer ch.Env.Close()
	var probs []lib.Problem
	top := "mem"
	if len(cs.Cfg.Stages) > 0 {
		top = cs.Cfg.Stages[0]
	}
	sig := fmt.Sprintf("%v+%s", cs.Cfg.Stages, cs.Cfg.Memory)
	bad := func(key, f string, a ...any) {
		probs = append(probs, lib.Problem{Key: "transparent:" + key + ":" + sig, What: cs.Cfg.Name() + ": " + fmt.Sprintf(f, a...)})
	}
	ch.Driver.TickLater()
	if msg := ch.Env.Run(200000); msg != "" {
		bad("run-panic", "%s", msg)
		return "panic", probs
	}
	_ = top
	probs = append(probs, checkDriverAgainstFlat(ch, cs.Ops, sig, cs.Cfg.Name())...)
	out := fmt.Sprintf("%s t=%d", sig, ch.Env.Eng.CurrentTime()/1000)
	return out, probs
}

// checkDriverAgainstFlat applies the C16 oracle to a finished run.
func checkDriverAgainstFlat(ch *simx.Chain, ops []simx.MemOp, sig, name string) []lib.Problem {
	var probs []lib.Problem
	bad := func(key, f string, a ...any) {
		probs = append(probs, lib.Problem{Key: "transparent:" + key + ":" + sig, What: name + ": " + fmt.Sprintf(f, a...)})
	}
	st := ch.Driver.State
	if !ch.Driver.Done() {
		bad("request-unanswered", "run ended with op %d.. unissued or %d request(s) unanswered: inflight=%+v", st.Next, len(st.Inflight), st.Inflight)
	}
	for _, a := range st.Anomalies {
		bad("unexpected-response", "%s", a)
	}
	flat := simx.FlatMemory{}
	byOp := map[int][]simx.DriverResult{}
	for _, r := range st.Results {
		byOp[r.Op] = append(byOp[r.Op], r)
	}
	me := string(ch.Driver.GetPortByName("Mem").AsRemote())
	for i, op := range ops {
		rs := byOp[i]
		if len(rs) > 1 {
			bad("duplicate-response", "op %d got %d responses", i, len(rs))
		}
		if op.Write {
			flat.Apply(op)
		}
		if len(rs) == 0 {
			continue
		}
		r := rs[0]
		if r.Dst != me {
			bad("response-wrong-dst", "op %d response addressed to %s, requester is %s", i, r.Dst, me)
		}
		if op.Write {
			if r.Kind != "done" {
				bad("wrong-response-kind", "write op %d answered with %s", i, r.Kind)
			}
			continue
		}
		if r.Kind != "data" {
			bad("wrong-response-kind", "read op %d answered with %s", i, r.Kind)
			continue
		}
		want := flat.Read(op.Addr, op.Size)
		if !bytes.Equal(r.Data, want) {
			kind := "read-wrong-data"
			if uint64(len(r.Data)) != op.Size {
				kind = "read-wrong-length"
			}
			bad(kind, "op %d read(%#x,%d) returned %x, flat memory holds %x (script %s)", i, op.Addr, op.Size, r.Data, want, scriptString(ops))
		}
	}
	return probs
}

func scriptString(ops []simx.MemOp) string {
	s := ""
	for _, op := range ops {
		k := "R"
		if op.Write {
			k = "W"
			if op.Mask != nil {
				k = "Wm"
			}
		}
		s += fmt.Sprintf("%s(%#x,%d) ", k, op.Addr, op.Size)
	}
	return s
}

var dramKinds = []string{"dram-DDR4", "dram-DDR5", "dram-HBM2", "dram-HBM3", "dram-GDDR6"}

// c16Configs is the assembly catalogue of C16.
func c16Configs(c *lib.Ctx) []simx.ChainCfg {
	var out []simx.ChainCfg
	stageSets := [][]string{
		{}, {"rob"}, {"wb"}, {"wt-around"}, {"wt-evict"}, {"wt-through"},
		{"wt-around", "wb"}, {"wt-evict", "wb"}, {"wt-through", "wb"}, {"rob", "wb"}, {"rob", "wt-through", "wb"}, {"wb", "wb"},
	}
	mems := []string{"ideal", "banked1", "banked2"}
	for _, st := range stageSets {
		for _, m := range mems {
			for _, nm := range []int{1, 2} {
				if nm == 2 && len(st) > 0 && st[len(st)-1] == "rob" {
					continue // a ROB has exactly one lower unit
				}
				for _, v := range []struct{ buf, lat, mshr int }{{1, 0, 1}, {4, 1, 2}, {4, 2, 1}} {
					for _, eager := range []bool{false, true} {
						out = append(out, simx.ChainCfg{Stages: st, Memory: m, NumMem: nm, PortBuf: v.buf, Lat: v.lat, MSHR: v.mshr, Eager: eager})
					}
				}
			}
		}
	}
	for _, m := range dramKinds {
		for _, pol := range []string{"", "-open"} {
			for _, st := range [][]string{{}, {"wb"}} {
				for _, eager := range []bool{false, true} {
					out = append(out, simx.ChainCfg{Stages: st, Memory: m + pol, NumMem: 1, PortBuf: 4, Lat: 1, MSHR: 2, Eager: eager})
				}
			}
		}
	}
	return out
}

func hasCache(cfg simx.ChainCfg) bool {
	for _, s := range cfg.Stages {
		if s != "rob" {
			return true
		}
	}
	return false
}

func enumC16(c *lib.Ctx, yield func(c16Case) bool) {
	lines := simx.SameSetLines(4)
	alphaFull := opAlphabet(lines)
	alpha3 := opAlphabet(lines[:3])
	alpha2 := opAlphabet(lines[:2])
	// back-pressure family: a requester that leaves its responses in the port
	// (every 4th tick only / nothing before tick 12), tight port buffers, eager
	// issue and bursts of 4 (thorough 5) operations over {read4 A, write4 A+8,
	// read line A, write4 B, read4 B+8}: every agent sees a full output port and
	// has to retry its response, on every stack kind over every memory kind
	burst := []simx.MemOp{
		{Addr: lines[0], Size: 4},
		{Write: true, Addr: lines[0] + 8, Size: 4},
		{Addr: lines[0], Size: simx.LineSize},
		{Write: true, Addr: lines[1], Size: 4},
		{Addr: lines[1] + 8, Size: 4},
	}
	bpStages := [][]string{{}, {"rob"}, {"wb"}, {"wt-around"}, {"wt-evict"}, {"wt-through"}, {"wt-through", "wb"}, {"rob", "wb"}}
	bpMems := lib.Pick(c, []string{"ideal", "banked2", "dram-DDR4"}, []string{"ideal", "banked1", "banked2", "dram-DDR4", "dram-HBM2-open"})
	for _, st := range bpStages {
		for _, m := range bpMems {
			if !c.Thorough() && strings.HasPrefix(m, "dram") && len(st) > 0 && st[0] != "wb" {
				continue // quick: DRAM only bare and under a write-back cache
			}
			for _, buf := range []int{1, 2} {
				for _, slow := range []string{"every4", "hold12"} {
					cfg := simx.ChainCfg{Stages: st, Memory: m, NumMem: 1, PortBuf: buf, Lat: 1, MSHR: 2, Eager: true, SlowDriver: slow}
					if !enumScripts(burst, lib.Pick(c, 4, 5), func(ops []simx.MemOp) bool { return yield(c16Case{cfg, ops}) }) {
						return
					}
				}
			}
		}
	}
	// geometry family: multi-bank caches with long bank latencies and wide
	// directories (a fetch can overtake an eviction that is still crossing the
	// bank pipeline), k = 4 over {read4@8, write4@8, read line} x 3 same-set
	// lines (2 ways: the third line evicts)
	var geoAlpha []simx.MemOp
	for _, l := range lines[:3] {
		geoAlpha = append(geoAlpha, simx.MemOp{Addr: l + 8, Size: 4}, simx.MemOp{Write: true, Addr: l + 8, Size: 4}, simx.MemOp{Addr: l, Size: simx.LineSize})
	}
	for _, st := range [][]string{{"wb"}, {"wt-through"}, {"wt-evict"}} {
		for _, g := range lib.Pick(c, [][3]int{{2, 10, 1}, {2, 4, 3}, {1, 10, 3}}, [][3]int{{2, 10, 1}, {2, 4, 3}, {1, 10, 3}, {4, 6, 2}, {2, 10, 3}, {1, 4, 1}}) {
			if !c.Thorough() && st[0] != "wb" && g != [3]int{2, 10, 1} {
				continue
			}
			cfg := simx.ChainCfg{Stages: st, Memory: "ideal", NumMem: 1, PortBuf: 4, Lat: 1, MSHR: 2, Eager: true, Banks: g[0], BankLat: g[1], Width: g[2]}
			if !enumScripts(geoAlpha, 4, func(ops []simx.MemOp) bool { return yield(c16Case{cfg, ops}) }) {
				return
			}
		}
	}
	for _, cfg := range c16Configs(c) {
		y := func(ops []simx.MemOp) bool { return yield(c16Case{cfg, ops}) }
		if c.Thorough() {
			// k = 2 over 4 lines and k = 3 over 3 lines everywhere
			if !enumScripts(alphaFull, 2, y) || !enumScripts(alpha3, 3, y) {
				return
			}
			// k = 5 over 2 lines on direct-mapped single caches; k = 4 over 3 lines on 2-way single caches
			if hasCache(cfg) && cfg.Memory == "ideal" && cfg.NumMem == 1 && cfg.Lat == 1 && cfg.Eager && len(cfg.Stages) == 1 {
				dm := cfg
				dm.Ways = 1
				yd := func(ops []simx.MemOp) bool { return yield(c16Case{dm, ops}) }
				if !enumScripts(alpha2, 5, yd) || !enumScripts(alpha3, 4, y) {
					return
				}
			}
			// k = 4 over 2 lines on the two-level cache hierarchies
			if len(cfg.Stages) >= 2 && cfg.Memory == "ideal" && cfg.NumMem == 1 && cfg.Lat == 1 {
				if !enumScripts(alpha2, 4, y) {
					return
				}
			}
			continue
		}
		// timed family: the second (and third) request arrives d cycles after the
		// first, for every d up to beyond the fill time: reaches windows such as
		// "fill data arrived, MSHR entry released, bank write not finished yet"
		if hasCache(cfg) && cfg.Memory == "ideal" && cfg.NumMem == 1 && cfg.Eager && len(cfg.Stages) == 1 && cfg.PortBuf == 4 {
			maxD := 16 + 6*cfg.Lat
			ok := enumScripts(alpha2, 2, func(ops []simx.MemOp) bool {
				if ops[0].Addr/simx.LineSize != ops[1].Addr/simx.LineSize {
					return true // the window is about one line
				}
				for d := 2; d <= maxD; d++ {
					o := cloneOps(ops)
					o[1].At = uint64(d)
					// a third access re-reads the line after everything settled
					o = append(o, fillOp(simx.MemOp{Addr: ops[0].Addr / simx.LineSize * simx.LineSize, Size: simx.LineSize, At: uint64(maxD + 40)}, 2))
					if !yield(c16Case{cfg, o}) {
						return false
					}
				}
				return true
			})
			if !ok {
				return
			}
		}
		// deep family: direct-mapped caches make eviction reachable with one other
		// line, so k = 4 over 2 lines covers miss + coalesced write + eviction + re-read
		if hasCache(cfg) && cfg.Memory == "ideal" && cfg.NumMem == 1 && cfg.Lat == 1 && cfg.Eager && len(cfg.Stages) == 1 {
			dm := cfg
			dm.Ways = 1
			yd := func(ops []simx.MemOp) bool { return yield(c16Case{dm, ops}) }
			if !enumScripts(alpha2, 4, yd) {
				return
			}
		}
		// two-level family: k = 4 on ONE line on the cache-over-cache
		// hierarchies (fetch the line, then a read and a write of different bytes
		// in flight together, then a re-read): reaches an upper cache installing
		// a fill that the lower cache served ahead of an earlier-arrived write
		if len(cfg.Stages) >= 2 && cfg.Memory == "ideal" && cfg.NumMem == 1 && cfg.Lat == 1 && cfg.Eager {
			if !enumScripts(opAlphabet(lines[:1]), 4, y) {
				return
			}
		}
		// quick: k = 2 over 3 lines everywhere; k = 3 over 3 lines (enough to
		// overflow 2 ways) on the cache-bearing assemblies over ideal memory
		if !enumScripts(alpha3, 2, y) {
			return
		}
		if hasCache(cfg) && cfg.Memory == "ideal" && cfg.NumMem == 1 && cfg.Lat == 1 {
			if !enumScripts(alpha3, 3, y) {
				return
			}
		}
	}
}

func init() {
	lib.Register(&lib.Check{
		ID:    "C16",
		Level: "exploration",
		Rule: "exhaustive small-scope simulation: assemblies = {none, rob, wb, wt-around, wt-evict, wt-through, wt-*>wb, rob>wb, rob>wt-through>wb, wb>wb} x memory {ideal, banked 1/2 banks} x {1, 2 interleaved controllers} x 3 (port buffer, latency, MSHR) settings x {one-at-a-time, eager} issue, plus 5 DRAM presets x {open, close} x {none, wb}; " +
			"caches are 2 sets x 2 ways x 64 B with all line addresses forced into one set; workloads = every sequence of k operations over {read4@0, read4@8, read line, write line, write4@0, write4@8, masked line write} x lines (quick: k=2 over 3 lines everywhere, k=3 over 3 lines on cache-bearing assemblies over one ideal memory, k=4 over 2 lines on direct-mapped single caches, k=4 on one line on the eager two-level hierarchies over one ideal memory, a geometry family (wb with (banks, bank latency, requests/cycle) in {(2,10,1),(2,4,3),(1,10,3)}, wt-through and wt-evict with (2,10,1) [thorough: 6 geometries on all three], k=4 over {read4@8, write4@8, read line} x 3 same-set lines), a back-pressure family (requester retrieving responses only every 4th tick / not before tick 12, port buffers 1-2, eager bursts of 4 [thorough 5] operations over 5 operations on 2 lines, 8 stack kinds x {ideal, banked2, DDR4} [thorough +banked1, HBM2-open]), and a timed family: every pair of operations on one line with the second delayed by every d in 2..16+6*latency cycles plus a final re-read; thorough: k=2 over 4 lines and k=3 over 3 lines everywhere, k=4 over 2 lines on two-level hierarchies, k=5 over 2 lines on direct-mapped and k=4 over 3 lines on 2-way single caches), run on the real components and SerialEngine; " +
			"oracle = flat byte map (masks honoured) in script order (legal because overlapping requests are never in flight together), exactly one response of the right kind per request addressed to the requester, nothing outstanding at the end. Each (assembly, script) is a distinct case.",
		Sharded:     true,
		MinOutcomes: 20,
		Assumptions: []string{"single PID (the flat-memory statement has no notion of process)", "driver never has two in-flight requests touching the same byte (the statement's precondition)"},
		Run: func(c *lib.Ctx) {
			lib.Cases(c, func(y func(c16Case) bool) { enumC16(c, y) }, runC16)
			lib.CleanScratch()
		},
		Replay: lib.ReplayCases(runC16),
	})
}

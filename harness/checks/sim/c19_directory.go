package sim

import (
	"fmt"

	"github.com/sarchlab/akita/v5/mem/cache"

	"verif/harness/lib"
	"verif/harness/simx"
)

// C19: cache directories stay well-formed — checked after EVERY handled event
// of every cache-bearing run, plus an exhaustive check of the victim-selection
// function over all small directory states.

type dirView struct {
	name string
	get  func() *cache.DirectoryState
}

func dirViews(ch *simx.Chain) []dirView {
	var out []dirView
	for _, c := range ch.WB {
		c := c
		out = append(out, dirView{c.Name(), func() *cache.DirectoryState { return &c.State.DirectoryState }})
	}
	for _, c := range ch.WT {
		c := c
		out = append(out, dirView{c.Name(), func() *cache.DirectoryState { return &c.State.DirectoryState }})
	}
	return out
}

// dirInvariants checks one directory and returns the first problem.
func dirInvariants(ds *cache.DirectoryState, kind string) (string, string) {
	numSets := len(ds.Sets)
	for si, set := range ds.Sets {
		ways := len(set.Blocks)
		seen := make([]int, ways)
		if len(set.LRUOrder) != ways {
			return "lru-not-a-permutation", fmt.Sprintf("set %d has %d ways but a recency list of %d entries: %v", si, ways, len(set.LRUOrder), set.LRUOrder)
		}
		for _, w := range set.LRUOrder {
			if w < 0 || w >= ways {
				return "lru-not-a-permutation", fmt.Sprintf("set %d recency list holds way %d: %v", si, w, set.LRUOrder)
			}
			seen[w]++
		}
		for w, n := range seen {
			if n != 1 {
				return "lru-not-a-permutation", fmt.Sprintf("set %d lists way %d %d times: %v", si, w, n, set.LRUOrder)
			}
		}
		for a := 0; a < ways; a++ {
			ba := set.Blocks[a]
			if ba.ReadCount < 0 {
				return "negative-reader-count", fmt.Sprintf("set %d way %d has ReadCount %d", si, a, ba.ReadCount)
			}
			if !ba.IsValid {
				continue
			}
			if want := cache.DirectorySetID(ba.Tag, simx.LineSize, numSets); want != si {
				return "block-in-wrong-set", fmt.Sprintf("valid block tag %#x sits in set %d, its line maps to set %d", ba.Tag, si, want)
			}
			for b := a + 1; b < ways; b++ {
				bb := set.Blocks[b]
				if bb.IsValid && bb.Tag == ba.Tag && bb.PID == ba.PID {
					return "duplicate-line", fmt.Sprintf("set %d ways %d and %d both hold line %#x of pid %d", si, a, b, ba.Tag, ba.PID)
				}
			}
		}
	}
	return "", ""
}

func runC19(cs c16Case) (string, []lib.Problem) {
	ch := simx.BuildChain(cs.Cfg, cloneOps(cs.Ops))
	defer ch.Env.Close()
	views := dirViews(ch)
	sig := fmt.Sprintf("%v", cs.Cfg.Stages)
	var probs []lib.Problem
	seenKey := map[string]bool{}
	bad := func(key, what string) {
		if !seenKey[key] {
			seenKey[key] = true
			probs = append(probs, lib.Problem{Key: "directory:" + key + ":" + sig, What: cs.Cfg.Name() + " script " + scriptString(cs.Ops) + ": " + what})
		}
	}
	events := 0
	tr := ch.Env.TraceEvents()
	tr.AfterEvent = func() {
		events++
		for _, v := range views {
			if k, w := dirInvariants(v.get(), v.name); k != "" {
				bad(k, fmt.Sprintf("%s after event %d (t=%d): %s", v.name, events, ch.Env.Eng.CurrentTime(), w))
			}
		}
	}
	ch.Driver.TickLater()
	if msg := ch.Env.Run(200000); msg != "" {
		bad("run-panic", msg)
		return "panic", probs
	}
	valid := 0
	for _, v := range views {
		for _, set := range v.get().Sets {
			for _, b := range set.Blocks {
				if b.IsValid {
					valid++
				}
			}
		}
	}
	return fmt.Sprintf("%s ev%d valid%d", sig, events/8, valid), probs
}

// --- (ii) victim selection over all small directory states ---

type victimCase struct {
	Ways   int    `json:"ways"`
	Perm   []int  `json:"lru"`
	Locked []bool `json:"locked"`
	Reads  []int  `json:"reads"`
	Valid  []bool `json:"valid"`
}

func runVictim(vc victimCase) (string, []lib.Problem) {
	var ds cache.DirectoryState
	cache.DirectoryReset(&ds, 1, vc.Ways, simx.LineSize)
	set := &ds.Sets[0]
	copy(set.LRUOrder, vc.Perm)
	for w := 0; w < vc.Ways; w++ {
		set.Blocks[w].IsLocked = vc.Locked[w]
		set.Blocks[w].ReadCount = vc.Reads[w]
		set.Blocks[w].IsValid = vc.Valid[w]
		set.Blocks[w].Tag = uint64(w+1) * simx.LineSize
	}
	want := -1
	for _, w := range vc.Perm {
		if !vc.Locked[w] && vc.Reads[w] == 0 {
			want = w
			break
		}
	}
	var probs []lib.Problem
	var setID, way int
	msg := lib.Catch(func() { setID, way = cache.DirectoryFindVictim(&ds, 1, simx.LineSize, 0x1000) })
	if msg != "" {
		return "panic", []lib.Problem{{Key: "directory:findvictim-panic", What: fmt.Sprintf("%+v: %s", vc, msg)}}
	}
	if setID != 0 {
		probs = append(probs, lib.Problem{Key: "directory:findvictim-wrong-set", What: fmt.Sprintf("%+v: set %d", vc, setID)})
	}
	if want >= 0 {
		if way != want {
			key := "directory:findvictim-not-least-recent-free-way"
			if way >= 0 && way < vc.Ways && (vc.Locked[way] || vc.Reads[way] > 0) {
				key = "directory:findvictim-chose-busy-block"
			}
			probs = append(probs, lib.Problem{Key: key, What: fmt.Sprintf("%+v: chose way %d, the least recently used way that is neither locked nor read is %d", vc, way, want)})
		}
		return "free", probs
	}
	// every way busy: any answer is a busy block; the callers' own guards must stall (dynamic clause above)
	return "all-busy", probs
}

func enumVictims(maxWays int, yield func(victimCase) bool) {
	for ways := 1; ways <= maxWays; ways++ {
		perm := make([]int, ways)
		for i := range perm {
			perm[i] = i
		}
		var perms [][]int
		var gen func(k int)
		gen = func(k int) {
			if k == ways {
				perms = append(perms, append([]int{}, perm...))
				return
			}
			for i := k; i < ways; i++ {
				perm[k], perm[i] = perm[i], perm[k]
				gen(k + 1)
				perm[k], perm[i] = perm[i], perm[k]
			}
		}
		gen(0)
		n := 1
		for i := 0; i < ways; i++ {
			n *= 8 // locked x reads{0,1} x valid per way
		}
		for _, p := range perms {
			for code := 0; code < n; code++ {
				vc := victimCase{Ways: ways, Perm: p, Locked: make([]bool, ways), Reads: make([]int, ways), Valid: make([]bool, ways)}
				x := code
				for w := 0; w < ways; w++ {
					vc.Locked[w] = x&1 == 1
					vc.Reads[w] = (x >> 1) & 1 * 2
					vc.Valid[w] = (x>>2)&1 == 1
					x >>= 3
				}
				if !yield(vc) {
					return
				}
			}
		}
	}
}

type c19Case struct {
	Sim    *c16Case    `json:"sim,omitempty"`
	Victim *victimCase `json:"victim,omitempty"`
}

func runC19Case(cs c19Case) (string, []lib.Problem) {
	if cs.Victim != nil {
		return runVictim(*cs.Victim)
	}
	return runC19(*cs.Sim)
}

func init() {
	lib.Register(&lib.Check{
		ID:    "C19",
		Level: "exploration",
		Rule: "(i) every cache-bearing assembly of the C16 catalogue (write-back / write-around / write-evict / write-through, one and two levels, 2 sets x 2 ways, lines forced into one set) x every script of k=2 (all) and k=3 (ideal-memory stacks; thorough: all) operations; after EVERY handled event of every run each directory is checked: recency list is a permutation of the ways, no two valid blocks hold the same (pid, line), every valid block sits in the set its line maps to, reader counts >= 0. " +
			"(ii) DirectoryFindVictim on every directory state with <= 4 ways (every recency permutation x locked x readers x valid per way): the victim is the least recently used way that is neither locked nor read (the never-chosen-for-replacement clause is decided at this function for all states; a tick of a cache may legitimately release and re-allocate a block within one event, so it is not judged across events). Each (assembly, script) and each directory state is a distinct case.",
		Sharded:     true,
		MinOutcomes: 10,
		Run: func(c *lib.Ctx) {
			lib.Cases(c, func(yield func(c19Case) bool) {
				ok := true
				enumVictims(4, func(v victimCase) bool { v2 := v; ok = yield(c19Case{Victim: &v2}); return ok })
				if !ok {
					return
				}
				enumC16(c, func(cs c16Case) bool {
					if !hasCache(cs.Cfg) || len(cs.Cfg.Memory) > 7 { // skip cache-less and DRAM-backed stacks (no extra directory behaviour)
						return true
					}
					cs2 := cs
					return yield(c19Case{Sim: &cs2})
				})
			}, runC19Case)
			lib.CleanScratch()
		},
		Replay: lib.ReplayCases(runC19Case),
	})
}

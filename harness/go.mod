module verif/harness

go 1.26.0

toolchain go1.26.2

require github.com/sarchlab/akita/v5 v5.0.0

replace github.com/sarchlab/akita/v5 => /repo

package simx

import (
	"encoding/json"
	"fmt"

	"github.com/sarchlab/akita/v5/mem/memcontrolprotocol"
	"github.com/sarchlab/akita/v5/mem/vm"
	"github.com/sarchlab/akita/v5/messaging"
	"github.com/sarchlab/akita/v5/modeling"
	"github.com/sarchlab/akita/v5/timing"
)

// CtrlStep is one control request of a scripted control sequence.
type CtrlStep struct {
	Target    int      `json:"t"` // index into the controller's target list
	Cmd       int      `json:"c"` // memcontrolprotocol.Command
	Addresses []uint64 `json:"a,omitempty"`
	PID       uint32   `json:"p,omitempty"`
}

// CtrlSpec is the immutable script of a Controller.
type CtrlSpec struct {
	Freq    timing.Freq            `json:"freq"`
	Script  string                 `json:"script"` // JSON of []CtrlStep
	Targets []messaging.RemotePort `json:"targets"`
}

// CtrlRsp records one control response.
type CtrlRsp struct {
	Step    int    `json:"step"`
	Cmd     int    `json:"cmd"`
	Success bool   `json:"success"`
	Error   string `json:"error"`
	RspTo   uint64 `json:"rsp_to"`
	ReqID   uint64 `json:"req_id"`
	Src     string `json:"src"`
	Time    uint64 `json:"time"`
}

// CtrlState is the mutable state of a Controller.
type CtrlState struct {
	Next      int       `json:"next"`
	Waiting   bool      `json:"waiting"`
	ReqID     uint64    `json:"req_id"`
	Started   bool      `json:"started"`
	Rsps      []CtrlRsp `json:"rsps"`
	Anomalies []string  `json:"anomalies"`
}

// Controller issues a scripted sequence of control requests, one at a time,
// each after the previous one has been answered.
type Controller struct {
	*modeling.Component[CtrlSpec, CtrlState, modeling.None]
	Steps []CtrlStep
	// OnRsp, when set, is called (inside the controller's tick) right after the
	// response to step i has been recorded and before the next step is sent.
	OnRsp func(step int, rsp CtrlRsp)
}

type ctrlMW struct{ c *Controller }

func (m *ctrlMW) Tick() bool {
	c := m.c
	st := &c.State
	if !st.Started {
		return false
	}
	port := c.GetPortByName("Ctrl")
	progress := false
	for {
		msg := port.RetrieveIncoming()
		if msg == nil {
			break
		}
		progress = true
		rsp, ok := msg.(memcontrolprotocol.Rsp)
		if !ok {
			st.Anomalies = append(st.Anomalies, fmt.Sprintf("unexpected %T on the control port", msg))
			continue
		}
		if !st.Waiting || rsp.RspTo != st.ReqID {
			st.Anomalies = append(st.Anomalies, fmt.Sprintf("unexpected control response cmd=%d RspTo=%d from %s (waiting=%v for %d)", rsp.Command, rsp.RspTo, rsp.Src, st.Waiting, st.ReqID))
			continue
		}
		r := CtrlRsp{Step: st.Next, Cmd: int(rsp.Command), Success: rsp.Success, Error: rsp.Error, RspTo: rsp.RspTo, ReqID: st.ReqID, Src: string(rsp.Src), Time: uint64(c.CurrentTime())}
		st.Rsps = append(st.Rsps, r)
		st.Waiting = false
		st.Next++
		if c.OnRsp != nil {
			c.OnRsp(r.Step, r)
		}
	}
	if !st.Waiting && st.Next < len(c.Steps) && port.CanSend() {
		s := c.Steps[st.Next]
		req := memcontrolprotocol.Req{}
		req.ID = timing.GetIDGenerator().Generate()
		req.Src = port.AsRemote()
		req.Dst = c.Spec().Targets[s.Target]
		req.Command = memcontrolprotocol.Command(s.Cmd)
		req.Addresses = append([]uint64(nil), s.Addresses...)
		req.PID = vm.PID(s.PID)
		req.TrafficBytes = 4
		req.TrafficClass = "memcontrolprotocol.Req"
		port.Send(req)
		st.Waiting = true
		st.ReqID = req.ID
		progress = true
	}
	return progress
}

// NewController builds a controller named name with a "Ctrl" port.
func NewController(e *Env, name string, steps []CtrlStep, targets []messaging.RemotePort, portBuf int) *Controller {
	script, err := json.Marshal(steps)
	if err != nil {
		panic(err)
	}
	spec := CtrlSpec{Freq: 1 * timing.GHz, Script: string(script), Targets: targets}
	comp := modeling.NewBuilder[CtrlSpec, CtrlState, modeling.None]().
		WithEngine(e.Eng).WithFreq(spec.Freq).WithSpec(spec).Build(name)
	comp.State = CtrlState{Rsps: []CtrlRsp{}, Anomalies: []string{}}
	comp.DeclarePort("Ctrl", memcontrolprotocol.Requester)
	c := &Controller{Component: comp, Steps: append([]CtrlStep{}, steps...)}
	comp.AddMiddleware(&ctrlMW{c: c})
	e.RegisterComponent(c)
	e.AssignPorts(c, portBuf, "Ctrl")
	return c
}

// Start lets the controller begin its script at the next clock edge.
func (c *Controller) Start() {
	c.State.Started = true
	c.TickLater()
}

// Done tells whether every step has been answered.
func (c *Controller) Done() bool {
	return c.State.Next == len(c.Steps) && !c.State.Waiting
}

package simx

import (
	"encoding/json"
	"fmt"

	"github.com/sarchlab/akita/v5/mem/memprotocol"
	"github.com/sarchlab/akita/v5/mem/vm"
	"github.com/sarchlab/akita/v5/messaging"
	"github.com/sarchlab/akita/v5/modeling"
	"github.com/sarchlab/akita/v5/timing"
)

// MemOp is one scripted memory access.
type MemOp struct {
	Write bool   `json:"w,omitempty"`
	Addr  uint64 `json:"a"`
	Size  uint64 `json:"n"`             // bytes read, or len(Data)
	Data  []byte `json:"d,omitempty"`   // write payload
	Mask  []bool `json:"m,omitempty"`   // dirty mask (nil = all bytes)
	PID   uint32 `json:"pid,omitempty"` // process id (default 1)
	At    uint64 `json:"at,omitempty"`  // earliest issue cycle (driver ticks)
	Dst   int    `json:"dst,omitempty"` // index into the driver's target list
}

// DriverSpec is the immutable script of a Driver.
type DriverSpec struct {
	Freq timing.Freq `json:"freq"`
	// Script is the JSON encoding of the []MemOp script (component Specs may
	// not contain nested structs). Build it with NewDriver.
	Script string `json:"script"`
	Eager  bool   `json:"eager"` // issue as fast as the no-overlapping-bytes rule allows
	// Targets are the remote ports requests are sent to (MemOp.Dst indexes it).
	Targets []messaging.RemotePort `json:"targets"`
	// Slow makes the driver leave responses in its port: "" = retrieve every
	// tick, "every4" = only on every 4th tick, "hold12" = nothing before tick
	// 12. The agents below then see a full output port and have to retry.
	Slow string `json:"slow,omitempty"`
}

func mayRetrieve(slow string, ticks uint64) bool {
	switch slow {
	case "every4":
		return ticks%4 == 0
	case "hold12":
		return ticks >= 12
	}
	return true
}

// DriverResult is what the driver observed for one op.
type DriverResult struct {
	Op       int    `json:"op"`
	Kind     string `json:"kind"` // "data", "done", or the Go type of an unexpected message
	Data     []byte `json:"data"`
	IssuedAt uint64 `json:"issued_at"`
	DoneAt   uint64 `json:"done_at"`
	ReqID    uint64 `json:"req_id"`
	Src      string `json:"src"`
	Dst      string `json:"dst"`
	Order    int    `json:"order"` // arrival order of the response
}

type inflightOp struct {
	Op       int    `json:"op"`
	ReqID    uint64 `json:"req_id"`
	IssuedAt uint64 `json:"issued_at"`
}

// DriverState is the mutable state of a Driver (fully serialisable).
type DriverState struct {
	Next      int            `json:"next"`
	Inflight  []inflightOp   `json:"inflight"`
	Results   []DriverResult `json:"results"`
	Anomalies []string       `json:"anomalies"`
	Ticks     uint64         `json:"ticks"`
}

// Driver is a scripted requester: a real modeling.Component whose middleware
// issues the script through its "Mem" port and records every response.
type Driver struct {
	*modeling.Component[DriverSpec, DriverState, modeling.None]
	Ops []MemOp // decoded from Spec().Script at build time
}

type driverMW struct{ d *Driver }

func overlaps(a, b MemOp) bool {
	return a.Addr < b.Addr+b.Size && b.Addr < a.Addr+a.Size
}

func (m *driverMW) Tick() bool {
	d := m.d
	st := &d.State
	spec := d.Spec()
	port := d.GetPortByName("Mem")
	progress := false
	st.Ticks++

	if !mayRetrieve(spec.Slow, st.Ticks) && len(st.Inflight) > 0 {
		progress = true // keep ticking while answers may be waiting in the port
	}
	for mayRetrieve(spec.Slow, st.Ticks) {
		msg := port.RetrieveIncoming()
		if msg == nil {
			break
		}
		progress = true
		meta := msg.Meta()
		idx := -1
		for i, f := range st.Inflight {
			if f.ReqID == meta.RspTo {
				idx = i
				break
			}
		}
		if idx < 0 {
			st.Anomalies = append(st.Anomalies, fmt.Sprintf("unexpected %T RspTo=%d from %s", msg, meta.RspTo, meta.Src))
			continue
		}
		f := st.Inflight[idx]
		st.Inflight = append(st.Inflight[:idx], st.Inflight[idx+1:]...)
		r := DriverResult{Op: f.Op, IssuedAt: f.IssuedAt, DoneAt: uint64(d.CurrentTime()), ReqID: f.ReqID,
			Src: string(meta.Src), Dst: string(meta.Dst), Order: len(st.Results)}
		switch rsp := msg.(type) {
		case memprotocol.DataReadyRsp:
			r.Kind = "data"
			r.Data = append([]byte{}, rsp.Data...)
		case memprotocol.WriteDoneRsp:
			r.Kind = "done"
		default:
			r.Kind = fmt.Sprintf("%T", msg)
		}
		st.Results = append(st.Results, r)
	}

	for st.Next < len(d.Ops) {
		op := d.Ops[st.Next]
		if op.At > st.Ticks {
			progress = true // keep ticking until the op becomes due
			break
		}
		if !spec.Eager && len(st.Inflight) > 0 {
			break
		}
		blocked := false
		for _, f := range st.Inflight {
			if overlaps(d.Ops[f.Op], op) {
				blocked = true
				break
			}
		}
		if blocked || !port.CanSend() {
			break
		}
		pid := vm.PID(op.PID)
		if pid == 0 {
			pid = 1
		}
		id := timing.GetIDGenerator().Generate()
		var msg messaging.Msg
		if op.Write {
			req := memprotocol.WriteReq{}
			req.ID = id
			req.Src = port.AsRemote()
			req.Dst = spec.Targets[op.Dst]
			req.Address = op.Addr
			req.PID = pid
			req.Data = append([]byte{}, op.Data...)
			if op.Mask != nil {
				req.DirtyMask = append([]bool{}, op.Mask...)
			}
			req.TrafficBytes = len(op.Data) + 12
			req.TrafficClass = "memprotocol.WriteReq"
			msg = req
		} else {
			req := memprotocol.ReadReq{}
			req.ID = id
			req.Src = port.AsRemote()
			req.Dst = spec.Targets[op.Dst]
			req.Address = op.Addr
			req.AccessByteSize = op.Size
			req.PID = pid
			req.TrafficBytes = 12
			req.TrafficClass = "memprotocol.ReadReq"
			msg = req
		}
		port.Send(msg)
		st.Inflight = append(st.Inflight, inflightOp{Op: st.Next, ReqID: id, IssuedAt: uint64(d.CurrentTime())})
		st.Next++
		progress = true
	}
	return progress
}

// NewDriver builds a driver named name with a "Mem" port of the given buffer size.
func NewDriver(e *Env, name string, ops []MemOp, eager bool, targets []messaging.RemotePort, portBuf int, slow ...string) *Driver {
	script, err := json.Marshal(ops)
	if err != nil {
		panic(err)
	}
	spec := DriverSpec{Freq: 1 * timing.GHz, Script: string(script), Eager: eager, Targets: targets}
	if len(slow) > 0 {
		spec.Slow = slow[0]
	}
	c := modeling.NewBuilder[DriverSpec, DriverState, modeling.None]().
		WithEngine(e.Eng).
		WithFreq(spec.Freq).
		WithSpec(spec).
		Build(name)
	c.State = DriverState{Inflight: []inflightOp{}, Results: []DriverResult{}, Anomalies: []string{}}
	c.DeclarePort("Mem", memprotocol.Requester)
	d := &Driver{Component: c, Ops: append([]MemOp{}, ops...)}
	c.AddMiddleware(&driverMW{d: d})
	e.RegisterComponent(d)
	e.AssignPorts(d, portBuf, "Mem")
	return d
}

// Done tells whether every scripted op has been answered.
func (d *Driver) Done() bool {
	return d.State.Next == len(d.Ops) && len(d.State.Inflight) == 0
}

// FlatMemory is the reference model of C16: a zero-initialised byte map.
type FlatMemory map[uint64]byte

// Apply performs a write honouring its dirty mask.
func (f FlatMemory) Apply(op MemOp) {
	for i, b := range op.Data {
		if op.Mask != nil && i < len(op.Mask) && !op.Mask[i] {
			continue
		}
		f[op.Addr+uint64(i)] = b
	}
}

// Read returns n bytes at addr.
func (f FlatMemory) Read(addr, n uint64) []byte {
	out := make([]byte, n)
	for i := uint64(0); i < n; i++ {
		out[i] = f[addr+i]
	}
	return out
}

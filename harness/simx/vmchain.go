package simx

import (
	"encoding/json"
	"fmt"

	"github.com/sarchlab/akita/v5/mem"
	"github.com/sarchlab/akita/v5/mem/vm"
	"github.com/sarchlab/akita/v5/mem/vm/mmu"
	"github.com/sarchlab/akita/v5/mem/vm/tlb"
	"github.com/sarchlab/akita/v5/mem/vm/vmprotocol"
	"github.com/sarchlab/akita/v5/messaging"
	"github.com/sarchlab/akita/v5/modeling"
	"github.com/sarchlab/akita/v5/noc/directconnection"
	"github.com/sarchlab/akita/v5/timing"
)

// XOp is one scripted translation request.
type XOp struct {
	PID   uint32 `json:"pid"`
	VPage uint64 `json:"vp"`
	At    uint64 `json:"at,omitempty"` // earliest issue cycle
}

// XSpec is the immutable script of an XDriver.
type XSpec struct {
	Freq   timing.Freq          `json:"freq"`
	Script string               `json:"script"`
	Target messaging.RemotePort `json:"target"`
	Burst  int                  `json:"burst"` // max requests issued per cycle
}

// XResult is what the driver observed for one translation.
type XResult struct {
	Op     int    `json:"op"`
	PAddr  uint64 `json:"paddr"`
	VAddr  uint64 `json:"vaddr"`
	PID    uint32 `json:"pid"`
	DoneAt uint64 `json:"done_at"`
	ReqID  uint64 `json:"req_id"`
}

type xInflight struct {
	Op    int    `json:"op"`
	ReqID uint64 `json:"req_id"`
}

// XState is the mutable (fully serialisable) state of an XDriver.
type XState struct {
	Next      int         `json:"next"`
	Inflight  []xInflight `json:"inflight"`
	Results   []XResult   `json:"results"`
	Anomalies []string    `json:"anomalies"`
	Ticks     uint64      `json:"ticks"`
}

// XDriver is a scripted translation requester.
type XDriver struct {
	*modeling.Component[XSpec, XState, modeling.None]
	Ops []XOp
}

type xMW struct{ d *XDriver }

func (m *xMW) Tick() bool {
	d := m.d
	st := &d.State
	port := d.GetPortByName("Trans")
	progress := false
	st.Ticks++
	for {
		msg := port.RetrieveIncoming()
		if msg == nil {
			break
		}
		progress = true
		rsp, ok := msg.(vmprotocol.TranslationRsp)
		if !ok {
			st.Anomalies = append(st.Anomalies, fmt.Sprintf("unexpected %T", msg))
			continue
		}
		idx := -1
		for i, f := range st.Inflight {
			if f.ReqID == rsp.RspTo {
				idx = i
				break
			}
		}
		if idx < 0 {
			st.Anomalies = append(st.Anomalies, fmt.Sprintf("translation response RspTo=%d matches no outstanding request", rsp.RspTo))
			continue
		}
		f := st.Inflight[idx]
		st.Inflight = append(st.Inflight[:idx], st.Inflight[idx+1:]...)
		st.Results = append(st.Results, XResult{Op: f.Op, PAddr: rsp.Page.PAddr, VAddr: rsp.Page.VAddr, PID: uint32(rsp.Page.PID), DoneAt: uint64(d.CurrentTime()), ReqID: f.ReqID})
	}
	issued := 0
	for st.Next < len(d.Ops) && issued < d.Spec().Burst {
		op := d.Ops[st.Next]
		if op.At > st.Ticks {
			progress = true
			break
		}
		if !port.CanSend() {
			break
		}
		req := vmprotocol.TranslationReq{}
		req.ID = timing.GetIDGenerator().Generate()
		req.Src = port.AsRemote()
		req.Dst = d.Spec().Target
		req.PID = vm.PID(op.PID)
		req.VAddr = op.VPage << 12
		req.DeviceID = 1
		req.TrafficClass = "vmprotocol.TranslationReq"
		port.Send(req)
		st.Inflight = append(st.Inflight, xInflight{Op: st.Next, ReqID: req.ID})
		st.Next++
		issued++
		progress = true
	}
	return progress
}

// Done tells whether every scripted translation has been answered.
func (d *XDriver) Done() bool { return d.State.Next == len(d.Ops) && len(d.State.Inflight) == 0 }

// VMCfg describes a translation stack: driver -> TLB -> [L2 TLB] -> MMU.
type VMCfg struct {
	Width   int  `json:"width"`    // TLB NumReqPerCycle (lookup pipeline lanes)
	Sets    int  `json:"sets"`     // TLB sets
	Ways    int  `json:"ways"`     // TLB ways
	MSHR    int  `json:"mshr"`     // TLB MSHR entries
	Lat     int  `json:"lat"`      // TLB latency
	L2      bool `json:"l2"`       // second TLB level
	MMULat  int  `json:"mmu_lat"`  // MMU walk latency
	PortBuf int  `json:"port_buf"` // port buffer size
	Burst   int  `json:"burst"`    // driver requests per cycle
	Full    bool `json:"full"`
}

// Name is a compact label.
func (c VMCfg) Name() string {
	l2 := ""
	if c.L2 {
		l2 = ">L2TLB"
	}
	return fmt.Sprintf("TLB%s>MMU/w%d/s%dx%d/m%d/l%d/mmu%d/b%d/burst%d", l2, c.Width, c.Sets, c.Ways, c.MSHR, c.Lat, c.MMULat, c.PortBuf, c.Burst)
}

// VMStack is a built translation stack.
type VMStack struct {
	Env    *Env
	Cfg    VMCfg
	Driver *XDriver
	Table  vm.PageTable
	TLBs   []*tlb.Comp
	MMU    *mmu.Comp
}

// FrameOf is the page-table mapping used by BuildVM: (pid, vpage) -> frame address.
func FrameOf(pid uint32, vpage uint64) uint64 {
	return 0x100000*uint64(pid) + vpage<<12
}

// BuildVM assembles the stack with a pre-populated page table (2 PIDs x 4 pages).
func BuildVM(cfg VMCfg, ops []XOp) *VMStack {
	var env *Env
	if cfg.Full {
		env = NewFull()
	} else {
		env = NewLight()
	}
	s := &VMStack{Env: env, Cfg: cfg}
	pt := vm.MakePageTableBuilder().WithSimulation(env).WithLog2PageSize(12).Build("PageTable")
	for pid := uint32(1); pid <= 2; pid++ {
		for vp := uint64(0); vp < 4; vp++ {
			pt.Insert(vm.Page{PID: vm.PID(pid), VAddr: vp << 12, PAddr: FrameOf(pid, vp), PageSize: 4096, Valid: true})
		}
	}
	s.Table = pt
	mspec := mmu.DefaultSpec()
	mspec.Log2PageSize = 12
	mspec.Latency = cfg.MMULat
	m := mmu.MakeBuilder().WithRegistrar(env).WithSpec(mspec).WithResources(mmu.Resources{PageTable: pt}).Build("MMU")
	env.AssignPorts(m, cfg.PortBuf, "Top", "Control")
	s.MMU = m
	below := m.GetPortByName("Top")
	n := 1
	if cfg.L2 {
		n = 2
	}
	var conns []*directconnection.Comp
	for i := n - 1; i >= 0; i-- {
		tspec := tlb.DefaultSpec()
		tspec.NumSets = cfg.Sets
		tspec.NumWays = cfg.Ways
		tspec.Log2PageSize = 12
		tspec.NumReqPerCycle = cfg.Width
		tspec.MSHRSize = cfg.MSHR
		tspec.Latency = cfg.Lat
		name := "TLB"
		if i == 1 {
			name = "L2TLB"
		}
		t := tlb.MakeBuilder().WithRegistrar(env).WithSpec(tspec).
			WithResources(tlb.Resources{TranslationProviderMapper: &mem.SinglePortMapper{Port: below.AsRemote()}}).Build(name)
		env.AssignPorts(t, cfg.PortBuf, "Top", "Bottom", "Control")
		c := directconnection.MakeBuilder().WithRegistrar(env).Build(fmt.Sprintf("Conn%d", i+1))
		c.PlugIn(t.GetPortByName("Bottom"))
		c.PlugIn(below)
		conns = append(conns, c)
		s.TLBs = append([]*tlb.Comp{t}, s.TLBs...)
		below = t.GetPortByName("Top")
	}
	script, _ := json.Marshal(ops)
	burst := cfg.Burst
	if burst < 1 {
		burst = 1
	}
	xs := XSpec{Freq: 1 * timing.GHz, Script: string(script), Target: below.AsRemote(), Burst: burst}
	comp := modeling.NewBuilder[XSpec, XState, modeling.None]().WithEngine(env.Eng).WithFreq(xs.Freq).WithSpec(xs).Build("XDriver")
	comp.State = XState{Inflight: []xInflight{}, Results: []XResult{}, Anomalies: []string{}}
	comp.DeclarePort("Trans", vmprotocol.Requester)
	d := &XDriver{Component: comp, Ops: append([]XOp{}, ops...)}
	comp.AddMiddleware(&xMW{d: d})
	env.RegisterComponent(d)
	env.AssignPorts(d, cfg.PortBuf, "Trans")
	c0 := directconnection.MakeBuilder().WithRegistrar(env).Build("Conn0")
	c0.PlugIn(d.GetPortByName("Trans"))
	c0.PlugIn(below)
	s.Driver = d
	return s
}

package simx

import (
	"encoding/json"
	"fmt"

	"github.com/sarchlab/akita/v5/mem/memprotocol"
	"github.com/sarchlab/akita/v5/messaging"
	"github.com/sarchlab/akita/v5/modeling"
	"github.com/sarchlab/akita/v5/noc/networking/mesh"
	"github.com/sarchlab/akita/v5/timing"
)

// NetMsg is one scripted network message.
type NetMsg struct {
	From  int    `json:"f"`
	To    int    `json:"t"`
	Bytes int    `json:"b"`
	At    uint64 `json:"at,omitempty"`
}

// NDevSpec is the immutable script of one network device.
type NDevSpec struct {
	Freq   timing.Freq            `json:"freq"`
	Script string                 `json:"script"` // JSON of the []NetMsg this device sends
	Peers  []messaging.RemotePort `json:"peers"`
	Stall  uint64                 `json:"stall"` // do not drain the port before this cycle
}

// NRecv records one delivered message.
type NRecv struct {
	ID    uint64 `json:"id"`
	Src   string `json:"src"`
	Bytes int    `json:"bytes"`
	Addr  uint64 `json:"addr"`
	At    uint64 `json:"at"`
}

// NDevState is the mutable state of a network device.
type NDevState struct {
	Next     int     `json:"next"`
	Ticks    uint64  `json:"ticks"`
	Received []NRecv `json:"received"`
}

// NDevice is a scripted network endpoint device (a real modeling.Component).
type NDevice struct {
	*modeling.Component[NDevSpec, NDevState, modeling.None]
	Msgs []NetMsg
}

type nDevMW struct{ d *NDevice }

func (m *nDevMW) Tick() bool {
	d := m.d
	st := &d.State
	port := d.GetPortByName("Net")
	st.Ticks++
	progress := false
	if st.Ticks >= d.Spec().Stall {
		for {
			msg := port.RetrieveIncoming()
			if msg == nil {
				break
			}
			progress = true
			meta := msg.Meta()
			r := NRecv{ID: meta.ID, Src: string(meta.Src), Bytes: meta.TrafficBytes, At: uint64(d.CurrentTime())}
			if w, ok := msg.(memprotocol.WriteReq); ok {
				r.Addr = w.Address
			}
			st.Received = append(st.Received, r)
		}
	} else if port.PeekIncoming() != nil || st.Next < len(d.Msgs) {
		progress = true // keep ticking until the stall window ends
	}
	for st.Next < len(d.Msgs) {
		msg := d.Msgs[st.Next]
		if msg.At > st.Ticks {
			progress = true
			break
		}
		if !port.CanSend() {
			break
		}
		req := memprotocol.WriteReq{}
		req.ID = timing.GetIDGenerator().Generate()
		req.Src = port.AsRemote()
		req.Dst = d.Spec().Peers[msg.To]
		req.Address = uint64(1000*msg.From + st.Next)
		req.TrafficBytes = msg.Bytes
		req.TrafficClass = "memprotocol.WriteReq"
		port.Send(req)
		st.Next++
		progress = true
	}
	if port.PeekIncoming() != nil {
		progress = true
	}
	return progress
}

// NetCfg describes a W x H mesh with one device per tile.
type NetCfg struct {
	W, H    int  `json:"-"`
	Width   int  `json:"w"`
	Height  int  `json:"h"`
	Flit    int  `json:"flit"`
	PortBuf int  `json:"port_buf"`
	Stall   int  `json:"stall"` // device 1 does not drain before this cycle
	Full    bool `json:"full"`
}

// Name is a compact label.
func (c NetCfg) Name() string {
	return fmt.Sprintf("mesh%dx%d/flit%d/b%d/stall%d", c.Width, c.Height, c.Flit, c.PortBuf, c.Stall)
}

// Net is a built mesh with its devices.
type Net struct {
	Env     *Env
	Cfg     NetCfg
	Devices []*NDevice
}

// BuildMesh assembles the mesh; msgs are distributed to their sending devices.
func BuildMesh(cfg NetCfg, msgs []NetMsg) *Net {
	var env *Env
	if cfg.Full {
		env = NewFull()
	} else {
		env = NewLight()
	}
	n := &Net{Env: env, Cfg: cfg}
	num := cfg.Width * cfg.Height
	peers := make([]messaging.RemotePort, num)
	for i := 0; i < num; i++ {
		peers[i] = messaging.RemotePort(fmt.Sprintf("Dev%d.Net", i))
	}
	mc := mesh.NewConnector().WithRegistrar(env).WithFreq(1 * timing.GHz).WithFlitSize(cfg.Flit)
	mc.CreateNetwork("Mesh")
	for i := 0; i < num; i++ {
		var mine []NetMsg
		for _, m := range msgs {
			if m.From == i {
				mine = append(mine, m)
			}
		}
		script, _ := json.Marshal(mine)
		spec := NDevSpec{Freq: 1 * timing.GHz, Script: string(script), Peers: peers}
		if i == 1 {
			spec.Stall = uint64(cfg.Stall)
		}
		comp := modeling.NewBuilder[NDevSpec, NDevState, modeling.None]().WithEngine(env.Eng).WithFreq(spec.Freq).WithSpec(spec).Build(fmt.Sprintf("Dev%d", i))
		comp.State = NDevState{Received: []NRecv{}}
		comp.DeclarePort("Net")
		d := &NDevice{Component: comp, Msgs: mine}
		comp.AddMiddleware(&nDevMW{d: d})
		env.RegisterComponent(d)
		env.AssignPorts(d, cfg.PortBuf, "Net")
		n.Devices = append(n.Devices, d)
		mc.AddTile([3]int{i % cfg.Width, i / cfg.Width, 0}, []messaging.Port{d.GetPortByName("Net")})
	}
	mc.EstablishNetwork()
	return n
}

// Start kicks every device.
func (n *Net) Start() {
	for _, d := range n.Devices {
		d.TickLater()
	}
}

// Package simx is the small-scope simulation explorer (engine E3): assembly
// generators over the real akita components, a scripted requester, message
// ledgers, and helpers to snapshot every entity.
package simx

import (
	"bytes"
	"fmt"
	"io"
	"os"
	"sort"

	"github.com/sarchlab/akita/v5/hooking"
	"github.com/sarchlab/akita/v5/messaging"
	"github.com/sarchlab/akita/v5/modeling"
	"github.com/sarchlab/akita/v5/naming"
	"github.com/sarchlab/akita/v5/simulation"
	"github.com/sarchlab/akita/v5/timing"
	"github.com/sarchlab/akita/v5/tracing"

	"verif/harness/lib"
)

// Env is one simulation instance: a real SerialEngine plus a registrar that
// remembers every registered entity. In "full" mode the registrar is a real
// simulation.Simulation (which attaches the DB tracer hook to every component
// and opens a SQLite recording); in "light" mode it is a recording stand-in
// for modeling.NewStandaloneRegistrar.
type Env struct {
	Eng *timing.SerialEngine
	Sim *simulation.Simulation // nil in light mode

	comps []naming.Named
	ports []messaging.Port
	conns []naming.Named
	res   []naming.Named

	closed bool
}

// Fingerprint, when set, receives extra observations a scenario wants to be
// part of a determinism fingerprint (e.g. final entity snapshots).
var Fingerprint func(tag string, data []byte)

// SkipReset, while true, makes NewLight/NewFull keep akita's process-global
// state (ID generator, tracing side tables) — used to model "rebuild and
// restore in the same process".
var SkipReset bool

// ResetGlobals clears akita's process-global state so that executions in one
// worker process cannot influence each other.
func ResetGlobals() {
	if SkipReset {
		return
	}
	timing.ResetIDGenerator()
	if KeepRegistries {
		return // what a user can do between two runs in one process: only the public ID reset
	}
	tracing.VerifResetRegistries()
}

// KeepRegistries makes ResetGlobals leave the tracing package's process-global
// task-ID side tables alone (there is no public way to clear them).
var KeepRegistries bool

var scratchSet bool

func enterScratch() {
	if !scratchSet {
		if err := os.Chdir(lib.ScratchDir()); err != nil {
			panic(err)
		}
		scratchSet = true
	}
}

// NewLight creates a light environment (no Simulation, no SQLite, no tracer hooks).
func NewLight() *Env {
	ResetGlobals()
	return &Env{Eng: timing.NewSerialEngine()}
}

// NewFull creates an environment backed by a real simulation.Simulation.
func NewFull() *Env {
	return NewFullWith(simulation.MakeBuilder())
}

// NullRecorder, when true (the default), gives simulations a data recorder
// that stores nothing (through the verif hook VerifBuildWithRecorder): creating
// a SQLite database per simulation does not scale across worker processes in
// this sandbox. Checks about the recording itself set it to false.
var NullRecorder = true

type nullRecorder struct{ tables []string }

func (r *nullRecorder) CreateTable(name string, _ any) { r.tables = append(r.tables, name) }
func (r *nullRecorder) InsertData(string, any)         {}
func (r *nullRecorder) ListTables() []string           { return r.tables }
func (r *nullRecorder) Flush()                         {}
func (r *nullRecorder) Close() error                   { return nil }

// NewFullWith creates a full environment from a customised builder.
func NewFullWith(b simulation.Builder) *Env {
	ResetGlobals()
	enterScratch()
	var sim *simulation.Simulation
	if NullRecorder {
		sim = b.WithoutMonitoring().VerifBuildWithRecorder(&nullRecorder{})
	} else {
		sim = b.WithoutMonitoring().Build()
	}
	return &Env{Eng: sim.GetEngine().(*timing.SerialEngine), Sim: sim}
}

// Close terminates the simulation and removes its recording.
func (e *Env) Close() {
	if e.closed {
		return
	}
	e.closed = true
	if e.Sim != nil {
		e.Sim.Terminate()
		_ = os.Remove("akita_sim_" + e.Sim.ID() + ".sqlite3")
		_ = os.Remove("akita_sim_" + e.Sim.ID() + ".sqlite3-wal")
		_ = os.Remove("akita_sim_" + e.Sim.ID() + ".sqlite3-shm")
	}
}

// modeling.Registrar implementation.

func (e *Env) GetEngine() timing.Engine { return e.Eng }

func (e *Env) RegisterComponent(c naming.Named) {
	e.comps = append(e.comps, c)
	if e.Sim != nil {
		e.Sim.RegisterComponent(c)
	}
}

func (e *Env) RegisterConnection(c naming.Named) {
	e.conns = append(e.conns, c)
	if e.Sim != nil {
		e.Sim.RegisterConnection(c)
	}
}

func (e *Env) RegisterResource(c naming.Named) {
	e.res = append(e.res, c)
	if e.Sim != nil {
		e.Sim.RegisterResource(c)
	}
}

func (e *Env) RegisterPort(p naming.Named) {
	e.ports = append(e.ports, p.(messaging.Port))
	if e.Sim != nil {
		e.Sim.RegisterPort(p)
	}
}

var _ modeling.Registrar = (*Env)(nil)

// Components returns the registered components in registration order.
func (e *Env) Components() []naming.Named { return e.comps }

// Ports returns the registered ports in registration order.
func (e *Env) Ports() []messaging.Port { return e.ports }

// Resources returns the registered shared resources.
func (e *Env) Resources() []naming.Named { return e.res }

// Connections returns the registered connections.
func (e *Env) Connections() []naming.Named { return e.conns }

// AssignPorts builds, registers and assigns one port per name.
func (e *Env) AssignPorts(comp messaging.Component, bufSize int, names ...string) {
	for _, name := range names {
		p := modeling.MakePortBuilder().
			WithRegistrar(e).
			WithComponent(comp).
			WithSpec(modeling.PortSpec{BufSize: bufSize}).
			Build(name)
		comp.AssignPort(name, p)
	}
}

type checkpointable interface {
	SaveCheckpoint(w io.Writer) error
}

// Snapshot returns the checkpoint bytes of every registered entity (plus the
// engine and the ID generator), keyed by entity name: the "complete state".
func (e *Env) Snapshot() (map[string][]byte, error) {
	out := map[string][]byte{}
	add := func(n naming.Named) error {
		c, ok := n.(checkpointable)
		if !ok {
			return fmt.Errorf("entity %q (%T) has no SaveCheckpoint", n.Name(), n)
		}
		var buf bytes.Buffer
		if err := c.SaveCheckpoint(&buf); err != nil {
			return fmt.Errorf("entity %q: %w", n.Name(), err)
		}
		out[n.Name()] = buf.Bytes()
		return nil
	}
	if err := add(e.Eng); err != nil {
		return nil, err
	}
	if g, ok := timing.GetIDGenerator().(naming.Named); ok {
		if err := add(g); err != nil {
			return nil, err
		}
	}
	for _, l := range [][]naming.Named{e.comps, e.conns, e.res} {
		for _, n := range l {
			if err := add(n); err != nil {
				return nil, err
			}
		}
	}
	for _, p := range e.ports {
		if err := add(p); err != nil {
			return nil, err
		}
	}
	return out, nil
}

// DiffSnapshots lists the entity names whose bytes differ.
func DiffSnapshots(a, b map[string][]byte) []string {
	var d []string
	for k, v := range a {
		if w, ok := b[k]; !ok || !bytes.Equal(v, w) {
			d = append(d, k)
		}
	}
	for k := range b {
		if _, ok := a[k]; !ok {
			d = append(d, k)
		}
	}
	sort.Strings(d)
	return d
}

// EventRec is one handled event as seen by the engine hook.
type EventRec struct {
	Time    uint64
	Handler string
	Type    string
	Sec     bool
}

// EventTrace records the engine's handled events.
type EventTrace struct {
	Events []EventRec
	// AfterEvent, when set, runs after every handled event (per-event invariants).
	AfterEvent func()
}

func (t *EventTrace) Func(ctx hooking.HookCtx) {
	switch ctx.Pos {
	case timing.HookPosBeforeEvent:
		ev := ctx.Item.(timing.Event)
		t.Events = append(t.Events, EventRec{uint64(ev.Time()), ev.HandlerID(), fmt.Sprintf("%T", ev), ev.IsSecondary()})
	case timing.HookPosAfterEvent:
		if t.AfterEvent != nil {
			t.AfterEvent()
		}
	}
}

// TraceEvents attaches an event trace hook to the engine.
func (e *Env) TraceEvents() *EventTrace {
	t := &EventTrace{}
	e.Eng.AcceptHook(t)
	return t
}

// Run runs the engine to completion with an event horizon; it returns an
// error string when the horizon is hit or the engine panics.
func (e *Env) Run(maxEvents int) (panicMsg string) {
	guard := &horizonHook{max: maxEvents}
	e.Eng.AcceptHook(guard)
	msg, where := lib.CatchStack(func() { _ = e.Eng.Run() })
	if msg != "" {
		if guard.hit {
			return fmt.Sprintf("HORIZON: more than %d events", maxEvents)
		}
		return msg + " @ " + where
	}
	return ""
}

type horizonHook struct {
	n, max int
	hit    bool
}

func (h *horizonHook) Func(ctx hooking.HookCtx) {
	if ctx.Pos == timing.HookPosBeforeEvent {
		h.n++
		if h.n > h.max {
			h.hit = true
			panic("simx: event horizon")
		}
	}
}

package simx

import (
	"fmt"
	"strings"

	"github.com/sarchlab/akita/v5/mem"
	"github.com/sarchlab/akita/v5/mem/cache"
	"github.com/sarchlab/akita/v5/mem/cache/writeback"
	"github.com/sarchlab/akita/v5/mem/cache/writethroughcache"
	"github.com/sarchlab/akita/v5/mem/dram"
	"github.com/sarchlab/akita/v5/mem/idealmemcontroller"
	"github.com/sarchlab/akita/v5/mem/rob"
	"github.com/sarchlab/akita/v5/mem/simplebankedmemory"
	"github.com/sarchlab/akita/v5/messaging"
	"github.com/sarchlab/akita/v5/noc/directconnection"
)

// ChainCfg describes a memory hierarchy: requester -> Stages... -> Memory.
type ChainCfg struct {
	// Stages, top to bottom: "rob", "wt-around", "wt-evict", "wt-through", "wb".
	Stages []string `json:"stages"`
	// Memory: "ideal", "banked1", "banked2", "dram-DDR4", "dram-DDR5",
	// "dram-HBM2", "dram-HBM3", "dram-GDDR6" (presets are close-page; +"-open" selects the open-page policy).
	Memory  string `json:"memory"`
	NumMem  int    `json:"num_mem"`         // 1, or 2 = two controllers interleaved at the line size
	PortBuf int    `json:"port_buf"`        // buffer size of every port
	Lat     int    `json:"lat"`             // latency knob for caches and the ideal memory
	MSHR    int    `json:"mshr"`            // MSHR entries of every cache
	Eager   bool   `json:"eager"`           // driver issue policy
	Full    bool   `json:"full"`            // build inside a real simulation.Simulation
	DRAMQ   int    `json:"dramq,omitempty"` // 0 = preset queue sizes, 1 = tiny queues (2 transactions, 2 commands)
	Ways    int    `json:"ways,omitempty"`  // cache associativity (0 = CacheWays)
	// SlowEvict: write-back caches may have one victim write-back in flight and
	// the ideal memory is 12 cycles slower, so victim write-backs queue up.
	SlowEvict bool `json:"slow_evict,omitempty"`
	// SlowDriver: the requester's response-retrieval mode (DriverSpec.Slow).
	SlowDriver string `json:"slow_driver,omitempty"`
	// Cache geometry overrides (0 = derived from Lat as before): number of
	// banks, bank latency, requests per cycle of every cache.
	Banks   int `json:"banks,omitempty"`
	BankLat int `json:"bank_lat,omitempty"`
	Width   int `json:"width,omitempty"`
}

// Name is a compact label.
func (c ChainCfg) Name() string {
	s := ""
	for _, st := range c.Stages {
		s += st + ">"
	}
	w := ""
	if c.Ways != 0 {
		w = fmt.Sprintf("/w%d", c.Ways)
	}
	if c.SlowEvict {
		w += "/slowevict"
	}
	if c.SlowDriver != "" {
		w += "/requester-" + c.SlowDriver
	}
	if c.Banks != 0 || c.BankLat != 0 || c.Width != 0 {
		w += fmt.Sprintf("/banks%d-banklat%d-width%d", c.Banks, c.BankLat, c.Width)
	}
	return fmt.Sprintf("%s%sx%d/b%d/l%d/m%d/e%v%s", s, c.Memory, c.NumMem, c.PortBuf, c.Lat, c.MSHR, c.Eager, w)
}

func applyGeometry(cfg ChainCfg, banks, bankLat, width *int) {
	if cfg.Banks != 0 {
		*banks = cfg.Banks
	}
	if cfg.BankLat != 0 {
		*bankLat = cfg.BankLat
	}
	if cfg.Width != 0 {
		*width = cfg.Width
	}
}

// Chain is a built hierarchy.
type Chain struct {
	Env      *Env
	Cfg      ChainCfg
	Driver   *Driver
	Conn     *directconnection.Comp
	WB       []*writeback.Comp
	WT       []*writethroughcache.Comp
	ROB      []*rob.Comp
	DRAM     []*dram.Comp
	Backing  []*mem.Storage // storages of the memory controllers
	MemTop   []messaging.Port
	MemComps []messaging.Component
	Controls []messaging.Port // control ports, top stage first, memories last
}

// Geometry shared by every cache in the catalogue: 64-byte lines, 2 sets x 2 ways.
const (
	LineSize  = 64
	CacheSets = 2
	CacheWays = 2
)

// SameSetLines returns n line addresses that all map to set 0 of every cache in
// the catalogue and, between them, fall on both interleaved memory controllers.
func SameSetLines(n int) []uint64 {
	var out []uint64
	parity := map[uint64]int{}
	for line := uint64(1); len(out) < n; line++ {
		addr := line * LineSize
		if cache.DirectorySetID(addr, LineSize, CacheSets) != 0 {
			continue
		}
		// keep a balance between even and odd lines
		if parity[line%2] > parity[1-line%2]+1 {
			continue
		}
		parity[line%2]++
		out = append(out, addr)
	}
	return out
}

// BuildChain assembles the hierarchy with a scripted driver on top.
func BuildChain(cfg ChainCfg, ops []MemOp) *Chain {
	var env *Env
	if cfg.Full {
		env = NewFull()
	} else {
		env = NewLight()
	}
	ch := &Chain{Env: env, Cfg: cfg}
	if cfg.NumMem < 1 {
		cfg.NumMem = 1
	}
	ways := CacheWays
	if cfg.Ways > 0 {
		ways = cfg.Ways
	}
	conn := directconnection.MakeBuilder().WithRegistrar(env).Build("Conn")
	ch.Conn = conn

	// memories
	var memRemotes []messaging.RemotePort
	for i := 0; i < cfg.NumMem; i++ {
		name := fmt.Sprintf("Mem%d", i)
		var comp messaging.Component
		var st *mem.Storage
		switch {
		case cfg.Memory == "ideal":
			spec := idealmemcontroller.DefaultSpec()
			spec.Capacity = 1 * mem.MB
			spec.Latency = cfg.Lat + 1
			if cfg.SlowEvict {
				spec.Latency += 12
			}
			spec.Width = 2
			c := idealmemcontroller.MakeBuilder().WithRegistrar(env).WithSpec(spec).Build(name)
			comp, st = c, c.Resources().Storage
		case cfg.Memory == "banked1" || cfg.Memory == "banked2":
			spec := simplebankedmemory.DefaultSpec()
			spec.Capacity = 1 * mem.MB
			spec.NumBanks = 1
			if cfg.Memory == "banked2" {
				spec.NumBanks = 2
			}
			spec.StageLatency = cfg.Lat + 1
			spec.BankPipelineDepth = 1 + cfg.Lat%2
			c := simplebankedmemory.MakeBuilder().WithRegistrar(env).WithSpec(spec).Build(name)
			comp, st = c, c.Resources().Storage
		default:
			spec, ok := DRAMPreset(cfg.Memory)
			if !ok {
				panic("simx: unknown memory kind " + cfg.Memory)
			}
			if cfg.DRAMQ == 1 {
				spec.TransactionQueueSize = 2
				spec.CommandQueueCapacity = 2
			}
			c := dram.MakeBuilder().WithRegistrar(env).WithSpec(spec).Build(name)
			ch.DRAM = append(ch.DRAM, c)
			comp, st = c, c.Resources().Storage
		}
		env.AssignPorts(comp, cfg.PortBuf, "Top", "Control")
		conn.PlugIn(comp.GetPortByName("Top"))
		ch.MemTop = append(ch.MemTop, comp.GetPortByName("Top"))
		ch.MemComps = append(ch.MemComps, comp)
		ch.Backing = append(ch.Backing, st)
		memRemotes = append(memRemotes, comp.GetPortByName("Top").AsRemote())
	}
	mapper := func() mem.AddressToPortMapper {
		if len(memRemotes) == 1 {
			return &mem.SinglePortMapper{Port: memRemotes[0]}
		}
		m := mem.NewInterleavedAddressPortMapper(LineSize)
		m.LowModules = append(m.LowModules, memRemotes...)
		return m
	}

	// stages, built bottom-up so that each knows its lower module
	below := mapper()
	var belowTop messaging.RemotePort
	if len(memRemotes) == 1 {
		belowTop = memRemotes[0]
	}
	var controls []messaging.Port
	for i := len(cfg.Stages) - 1; i >= 0; i-- {
		kind := cfg.Stages[i]
		name := fmt.Sprintf("S%d%s", i, map[string]string{"wb": "WB", "rob": "ROB", "wt-around": "WTA", "wt-evict": "WTE", "wt-through": "WTT"}[kind])
		var comp messaging.Component
		switch kind {
		case "wb":
			spec := writeback.DefaultSpec()
			spec.TotalByteSize = uint64(LineSize * CacheSets * ways)
			spec.WayAssociativity = ways
			spec.Log2BlockSize = 6
			spec.NumMSHREntry = cfg.MSHR
			spec.NumReqPerCycle = 1 + cfg.Lat%2
			spec.BankLatency = cfg.Lat
			spec.DirLatency = cfg.Lat
			applyGeometry(cfg, &spec.NumBanks, &spec.BankLatency, &spec.NumReqPerCycle)
			spec.WriteBufferCapacity = 2
			spec.MaxInflightFetch = 2
			spec.MaxInflightEviction = 2
			if cfg.SlowEvict {
				spec.MaxInflightEviction = 1
			}
			c := writeback.MakeBuilder().WithRegistrar(env).WithSpec(spec).
				WithResources(writeback.Resources{AddressToPortMapper: below}).Build(name)
			ch.WB = append([]*writeback.Comp{c}, ch.WB...)
			comp = c
		case "wt-around", "wt-evict", "wt-through":
			spec := writethroughcache.DefaultSpec()
			spec.TotalByteSize = uint64(LineSize * CacheSets * ways)
			spec.WayAssociativity = ways
			spec.Log2BlockSize = 6
			spec.NumMSHREntry = cfg.MSHR
			spec.NumReqPerCycle = 1 + cfg.Lat%2
			spec.BankLatency = cfg.Lat
			spec.DirLatency = cfg.Lat
			applyGeometry(cfg, &spec.NumBanks, &spec.BankLatency, &spec.NumReqPerCycle)
			spec.MaxNumConcurrentTrans = 4
			spec.WritePolicyType = map[string]string{"wt-around": "write-around", "wt-evict": "write-evict", "wt-through": "write-through"}[kind]
			c := writethroughcache.MakeBuilder().WithRegistrar(env).WithSpec(spec).
				WithResources(writethroughcache.Resources{AddressMapper: below}).Build(name)
			ch.WT = append([]*writethroughcache.Comp{c}, ch.WT...)
			comp = c
		case "rob":
			if belowTop == "" {
				panic("simx: a ROB needs a single lower module")
			}
			spec := rob.DefaultSpec()
			spec.BufferSize = 2 + cfg.Lat
			spec.NumReqPerCycle = 1 + cfg.Lat%2
			spec.BottomUnit = belowTop
			c := rob.MakeBuilder().WithRegistrar(env).WithSpec(spec).Build(name)
			ch.ROB = append([]*rob.Comp{c}, ch.ROB...)
			comp = c
		default:
			panic("simx: unknown stage kind " + kind)
		}
		env.AssignPorts(comp, cfg.PortBuf, "Top", "Bottom", "Control")
		conn.PlugIn(comp.GetPortByName("Top"))
		conn.PlugIn(comp.GetPortByName("Bottom"))
		controls = append([]messaging.Port{comp.GetPortByName("Control")}, controls...)
		belowTop = comp.GetPortByName("Top").AsRemote()
		below = &mem.SinglePortMapper{Port: belowTop}
	}
	for _, m := range ch.MemComps {
		controls = append(controls, m.GetPortByName("Control"))
	}
	ch.Controls = controls

	// driver
	var targets []messaging.RemotePort
	if belowTop != "" {
		targets = []messaging.RemotePort{belowTop}
	} else {
		// no stage above two interleaved memories: the driver picks by address
		targets = memRemotes
		for i := range ops {
			ops[i].Dst = int(ops[i].Addr / LineSize % uint64(len(memRemotes)))
		}
	}
	ch.Driver = NewDriver(env, "Driver", ops, cfg.Eager, targets, cfg.PortBuf, cfg.SlowDriver)
	conn.PlugIn(ch.Driver.GetPortByName("Mem"))
	return ch
}

// DRAMPreset resolves "dram-<PRESET>[-open]".
func DRAMPreset(kind string) (dram.Spec, bool) {
	// the presets use the close-page policy (the zero value); "-open" selects open-page
	openPage := false
	if len(kind) > 5 && kind[len(kind)-5:] == "-open" {
		openPage = true
		kind = kind[:len(kind)-5]
	}
	// "@RxGxB" overrides the geometry: ranks x bank groups x banks per group
	geo := ""
	if i := strings.Index(kind, "@"); i >= 0 {
		kind, geo = kind[:i], kind[i+1:]
	}
	var spec dram.Spec
	switch kind {
	case "dram-DEFAULT":
		spec = dram.DefaultSpec()
	case "dram-DDR4":
		spec = dram.DDR4Spec
	case "dram-DDR5":
		spec = dram.DDR5Spec
	case "dram-HBM2":
		spec = dram.HBM2Spec
	case "dram-HBM3":
		spec = dram.HBM3Spec
	case "dram-GDDR6":
		spec = dram.GDDR6Spec
	default:
		return spec, false
	}
	if geo != "" {
		var r, g, b int
		if n, _ := fmt.Sscanf(geo, "%dx%dx%d", &r, &g, &b); n != 3 || r < 1 || g < 1 || b < 1 {
			return spec, false
		}
		spec.NumRank, spec.NumBankGroup, spec.NumBank = r, g, b
	}
	if openPage {
		spec.PagePolicy = dram.PagePolicyOpen
	}
	return spec, true
}

// ReadBacking reads n bytes at addr from the memory controller that owns it.
func (ch *Chain) ReadBacking(addr, n uint64) ([]byte, error) {
	out := make([]byte, 0, n)
	for i := uint64(0); i < n; i++ {
		a := addr + i
		st := ch.Backing[int(a/LineSize%uint64(len(ch.Backing)))]
		b, err := st.Read(a, 1)
		if err != nil {
			return nil, err
		}
		out = append(out, b...)
	}
	return out, nil
}

// Package lib is the shared runner of the /verif model-checking harness:
// check registration, sharding over worker processes, replay, known-findings
// classification and evidence files.
package lib

import (
	"bufio"
	"bytes"
	"crypto/sha256"
	"encoding/hex"
	"encoding/json"
	"fmt"
	"io"
	"log"
	"os"
	"os/exec"
	"path/filepath"
	"runtime"
	"sort"
	"strconv"
	"strings"
	"sync"
	"time"
)

// VerifDir is the root of the verification tree.
var VerifDir = func() string {
	if d := os.Getenv("VERIF_DIR"); d != "" {
		return d
	}
	return "/verif"
}()

// Problem is one way in which one explored case violated the property.
// Key names the failing clause plus the input class / call site so that a
// known finding only suppresses the very failure it describes.
type Problem struct {
	Key  string `json:"key"`
	What string `json:"what"`
}

// Violation is a Problem together with the replayable case that produced it.
type Violation struct {
	Key   string          `json:"key"`
	What  string          `json:"what"`
	Case  json.RawMessage `json:"case"`
	Count int64           `json:"count"`
}

// Partial is what one worker (or an in-process run) accumulates.
type Partial struct {
	Counters   map[string]int64      `json:"counters"`
	Outcomes   map[string]int64      `json:"outcomes"`
	Violations map[string]*Violation `json:"violations"`
	Samples    []json.RawMessage     `json:"samples"`
	Notes      []string              `json:"notes"`
	Inexhaust  []string              `json:"inexhaustive"`
	Internal   []string              `json:"internal_errors"`
}

func newPartial() *Partial {
	return &Partial{
		Counters:   map[string]int64{},
		Outcomes:   map[string]int64{},
		Violations: map[string]*Violation{},
	}
}

// Check is a registered property check.
type Check struct {
	ID    string
	Level string // evidence level: model_checking | exploration | fault_enumeration
	Rule  string // how cases are enumerated and what makes one distinct/non-trivial
	// Sharded checks are re-executed as NumWorkers() worker processes, each
	// seeing Ctx.Shard/Ctx.NShards; otherwise Run is called once in-process.
	Sharded bool
	// MaxWorkers caps the number of workers (0 = all cores).
	MaxWorkers  int
	Assumptions []string
	Run         func(c *Ctx)
	// Replay re-executes one stored case and reports its problems.
	Replay func(c *Ctx, raw json.RawMessage) []Problem
	// MinOutcomes is the vacuity guard: fewer distinct outcomes than this is
	// an internal error of the check (exit 2).
	MinOutcomes int
}

var registry = map[string]*Check{}

// Register adds a check.
func Register(ch *Check) { registry[ch.ID] = ch }

// Ctx is handed to a running check.
type Ctx struct {
	Check   *Check
	ID      string
	Tier    string
	Seed    int64
	Shard   int
	NShards int
	Start   time.Time
	// Deadline is a soft internal deadline: checks poll Expired() and stop
	// cleanly with exhaustive=false, never with a violation.
	Deadline time.Time

	mu    sync.Mutex
	p     *Partial
	known map[string]knownFinding

	confirmed map[string]bool
}

// Thorough reports whether the thorough tier was requested.
func (c *Ctx) Thorough() bool { return c.Tier == "thorough" }

// Pick returns q for the quick tier and t for the thorough tier.
func Pick[T any](c *Ctx, q, t T) T {
	if c.Thorough() {
		return t
	}
	return q
}

// Mine tells whether the idx-th case of a deterministic enumeration belongs
// to this shard.
func (c *Ctx) Mine(idx int64) bool {
	if c.NShards <= 1 {
		return true
	}
	return int(idx%int64(c.NShards)) == c.Shard
}

// Expired tells whether the soft deadline has passed.
func (c *Ctx) Expired() bool { return time.Now().After(c.Deadline) }

// Add adds n to a named counter. The counters "evaluations",
// "distinct_nontrivial", "states", "transitions" and "traces_validated" feed
// the evidence file.
func (c *Ctx) Add(name string, n int64) {
	c.mu.Lock()
	c.p.Counters[name] += n
	c.mu.Unlock()
}

// Max raises a named counter to at least n.
func (c *Ctx) Max(name string, n int64) {
	c.mu.Lock()
	if c.p.Counters[name] < n {
		c.p.Counters[name] = n
	}
	c.mu.Unlock()
}

// Outcome records one observed outcome class (vacuity guard).
func (c *Ctx) Outcome(o string) {
	c.mu.Lock()
	if len(c.p.Outcomes) < 4096 || c.p.Outcomes[o] > 0 {
		c.p.Outcomes[o]++
	}
	c.mu.Unlock()
}

// Sample keeps up to a few example cases for the evidence file.
func (c *Ctx) Sample(v any) {
	c.mu.Lock()
	defer c.mu.Unlock()
	if len(c.p.Samples) >= 4 {
		return
	}
	b, err := json.Marshal(v)
	if err != nil {
		b, _ = json.Marshal(fmt.Sprintf("%+v", v))
	}
	if len(b) > 4000 {
		b, _ = json.Marshal(string(b[:4000]) + "…")
	}
	c.p.Samples = append(c.p.Samples, b)
}

// Note records a free-text remark for the evidence file.
func (c *Ctx) Note(format string, a ...any) {
	c.mu.Lock()
	if len(c.p.Notes) < 64 {
		c.p.Notes = append(c.p.Notes, fmt.Sprintf(format, a...))
	}
	c.mu.Unlock()
}

// Inexhaustive records that some cap was hit: the run is still a pass or
// fail on what it explored, but is not reported as exhaustive.
func (c *Ctx) Inexhaustive(format string, a ...any) {
	c.mu.Lock()
	if len(c.p.Inexhaust) < 64 {
		c.p.Inexhaust = append(c.p.Inexhaust, fmt.Sprintf(format, a...))
	}
	c.mu.Unlock()
}

// InternalError records a failure of the check itself (exit 2, no VIOLATION).
func (c *Ctx) InternalError(format string, a ...any) {
	c.mu.Lock()
	if len(c.p.Internal) < 64 {
		c.p.Internal = append(c.p.Internal, fmt.Sprintf(format, a...))
	}
	c.mu.Unlock()
}

// Violate records a violation with its replayable case.
func (c *Ctx) Violate(pr Problem, cs any) {
	b, err := json.Marshal(cs)
	if err != nil {
		b, _ = json.Marshal(fmt.Sprintf("%+v", cs))
	}
	c.mu.Lock()
	defer c.mu.Unlock()
	if v, ok := c.p.Violations[pr.Key]; ok {
		v.Count++
		// keep the smallest case as the representative
		if len(b) < len(v.Case) {
			v.Case, v.What = b, pr.What
		}
		return
	}
	if len(c.p.Violations) >= 400 {
		c.p.Counters["violations_dropped"]++
		return
	}
	c.p.Violations[pr.Key] = &Violation{Key: pr.Key, What: pr.What, Case: b, Count: 1}
}

// NumViolations returns the number of distinct violation keys so far that
// are not listed as open known findings.
func (c *Ctx) NumViolations() int {
	c.mu.Lock()
	defer c.mu.Unlock()
	if c.known == nil {
		c.known = loadKnown(c.ID)
	}
	n := 0
	for k := range c.p.Violations {
		if _, ok := c.known[k]; !ok {
			n++
		}
	}
	return n
}

// Catch runs f and converts a panic into a string ("" = no panic).
func Catch(f func()) (msg string) {
	defer func() {
		if r := recover(); r != nil {
			msg = fmt.Sprint(r)
			if msg == "" {
				msg = "panic"
			}
		}
	}()
	f()
	return ""
}

// CatchStack is Catch plus the top frames of the panicking goroutine.
func CatchStack(f func()) (msg, where string) {
	defer func() {
		if r := recover(); r != nil {
			msg = fmt.Sprint(r)
			if msg == "" {
				msg = "panic"
			}
			buf := make([]byte, 8192)
			buf = buf[:runtime.Stack(buf, false)]
			where = panicSite(string(buf))
		}
	}()
	f()
	return "", ""
}

func panicSite(stack string) string {
	lines := strings.Split(stack, "\n")
	seenPanic := false
	for i := 0; i+1 < len(lines); i++ {
		l := lines[i]
		if strings.HasPrefix(l, "panic(") {
			seenPanic = true
			continue
		}
		if !seenPanic {
			continue
		}
		if strings.HasPrefix(l, "\t") {
			continue
		}
		if strings.HasPrefix(l, "log.") || strings.HasPrefix(l, "runtime.") {
			continue
		}
		fn := l
		if k := strings.LastIndex(fn, "("); k > 0 {
			fn = fn[:k]
		}
		return fn
	}
	return ""
}

// ---------------------------------------------------------------------------
// Generic case-enumeration driver.

// Cases enumerates cases deterministically, runs the ones belonging to this
// shard through run, re-executes every failing case 5x to make sure it is
// reproducible, and records outcomes/violations. run returns an outcome class
// (for the vacuity guard) and the problems found.
func Cases[T any](c *Ctx, enum func(yield func(T) bool), run func(T) (string, []Problem)) {
	var idx, mine int64
	enum(func(cs T) bool {
		i := idx
		idx++
		if !c.Mine(i) {
			return true
		}
		mine++
		if mine&0xf == 0 && c.Expired() {
			c.Inexhaustive("deadline hit at case index %d", i)
			return false
		}
		out, probs := run(cs)
		c.Add("evaluations", 1)
		c.Add("distinct_nontrivial", 1)
		c.Outcome(out)
		if i%997 == 0 {
			c.Sample(cs)
		}
		if len(probs) > 0 {
			ConfirmAndRecord(c, cs, probs, func() []Problem { _, p := run(cs); return p })
		}
		return true
	})
}

// ConfirmAndRecord re-executes a failing case 5 times; only problems that
// reproduce every time are reported as violations, anything else is an
// internal error (nondeterminism that the harness failed to own).
func ConfirmAndRecord(c *Ctx, cs any, probs []Problem, rerun func() []Problem) {
	// A key that has already been confirmed reproducible on an earlier case of
	// this worker is only counted: re-confirming a widespread (e.g. known)
	// finding on every case would multiply the cost of the run by six.
	c.mu.Lock()
	if c.confirmed == nil {
		c.confirmed = map[string]bool{}
	}
	all := true
	for _, p := range probs {
		if !c.confirmed[p.Key] {
			all = false
		}
	}
	c.mu.Unlock()
	if all {
		for _, p := range probs {
			c.Violate(p, cs)
		}
		return
	}
	stable := map[string]int{}
	for k := 0; k < 5; k++ {
		seen := map[string]bool{}
		for _, p := range rerun() {
			if !seen[p.Key] {
				seen[p.Key] = true
				stable[p.Key]++
			}
		}
	}
	for _, p := range probs {
		if stable[p.Key] == 5 {
			c.mu.Lock()
			c.confirmed[p.Key] = true
			c.mu.Unlock()
			c.Violate(p, cs)
		} else {
			b, _ := json.Marshal(cs)
			c.InternalError("non-reproducible problem %q (%d/5 reruns) on case %s", p.Key, stable[p.Key], b)
		}
	}
}

// ReplayCases builds a Replay function for a check whose cases have type T.
func ReplayCases[T any](run func(T) (string, []Problem)) func(*Ctx, json.RawMessage) []Problem {
	return func(c *Ctx, raw json.RawMessage) []Problem {
		var cs T
		if err := json.Unmarshal(raw, &cs); err != nil {
			c.InternalError("cannot decode replay case: %v", err)
			return nil
		}
		_, p := run(cs)
		return p
	}
}

// ---------------------------------------------------------------------------
// Explicit-state BFS over operation histories.

// BFSConfig drives an explicit-state search whose states are reached by
// replaying an operation history on a fresh real object.
type BFSConfig[Op any] struct {
	// Ops lists the operations enabled after hist (simplest first).
	Ops func(hist []Op) []Op
	// Exec replays hist on a fresh instance and compares with the reference
	// model at every step. It returns the canonical key of the reached state
	// (used for de-duplication only), and any problems. terminal=true stops
	// expansion below this state (e.g. a documented panic poisoned it).
	Exec     func(hist []Op) (key string, terminal bool, probs []Problem)
	MaxDepth int
	// MaxStates caps the number of distinct states (0 = none).
	MaxStates int
	// Workers > 1 runs Exec for one BFS layer concurrently (only when the
	// code under test has no process-global state).
	Workers int
}

// BFS runs the search and fills the states/transitions counters.
func BFS[Op any](c *Ctx, cfg BFSConfig[Op]) {
	type node struct{ hist []Op }
	seen := map[string]bool{}
	k0, term0, p0 := cfg.Exec(nil)
	seen[k0] = true
	c.Add("states", 1)
	if len(p0) > 0 {
		ConfirmAndRecord(c, []Op{}, p0, func() []Problem { _, _, p := cfg.Exec(nil); return p })
	}
	frontier := []node{}
	if !term0 {
		frontier = append(frontier, node{})
	}
	depth := 0
	closed := false
	for len(frontier) > 0 && depth < cfg.MaxDepth {
		depth++
		type job struct {
			hist []Op
		}
		var jobs []job
		for _, n := range frontier {
			for _, op := range cfg.Ops(n.hist) {
				h := append(append([]Op{}, n.hist...), op)
				jobs = append(jobs, job{h})
			}
		}
		type res struct {
			key   string
			term  bool
			probs []Problem
		}
		results := make([]res, len(jobs))
		w := cfg.Workers
		if w < 1 {
			w = 1
		}
		var wg sync.WaitGroup
		chunk := (len(jobs) + w - 1) / w
		for g := 0; g < w; g++ {
			lo, hi := g*chunk, (g+1)*chunk
			if hi > len(jobs) {
				hi = len(jobs)
			}
			if lo >= hi {
				break
			}
			wg.Add(1)
			go func(lo, hi int) {
				defer wg.Done()
				for i := lo; i < hi; i++ {
					k, t, p := cfg.Exec(jobs[i].hist)
					results[i] = res{k, t, p}
				}
			}(lo, hi)
		}
		wg.Wait()
		var next []node
		for i, r := range results {
			c.Add("transitions", 1)
			c.Add("traces_validated", 1)
			if len(r.probs) > 0 {
				h := jobs[i].hist
				ConfirmAndRecord(c, h, r.probs, func() []Problem { _, _, p := cfg.Exec(h); return p })
				continue // do not expand below a violating state
			}
			if seen[r.key] {
				continue
			}
			seen[r.key] = true
			c.Add("states", 1)
			if n := len(seen); n == 2 || n%97 == 0 {
				c.Sample(jobs[i].hist)
			}
			if !r.term {
				next = append(next, node{jobs[i].hist})
			}
			if cfg.MaxStates > 0 && len(seen) >= cfg.MaxStates {
				c.Inexhaustive("state cap %d hit at depth %d", cfg.MaxStates, depth)
				next = nil
				break
			}
		}
		frontier = next
		if c.Expired() {
			c.Inexhaustive("deadline hit at depth %d", depth)
			break
		}
	}
	if len(frontier) == 0 {
		closed = true
	}
	c.Max("max_depth", int64(depth))
	if closed {
		c.Add("state_space_closed", 1)
	} else {
		c.Note("depth bound %d cut the search with %d frontier states", cfg.MaxDepth, len(frontier))
	}
}

// ---------------------------------------------------------------------------
// Known findings.

type knownFinding struct {
	Property string `json:"property"`
	Key      string `json:"key"`
	Status   string `json:"status"` // "open" or "fixed"
	What     string `json:"what"`
	Commit   string `json:"commit,omitempty"`
}

func loadKnown(id string) map[string]knownFinding {
	out := map[string]knownFinding{}
	b, err := os.ReadFile(filepath.Join(VerifDir, "known_findings.json"))
	if err != nil {
		return out
	}
	var doc struct {
		Findings []knownFinding `json:"findings"`
	}
	if err := json.Unmarshal(b, &doc); err != nil {
		fmt.Fprintf(os.Stderr, "known_findings.json: %v\n", err)
		os.Exit(2)
	}
	for _, f := range doc.Findings {
		if f.Property == id && f.Status == "open" {
			out[f.Key] = f
		}
	}
	return out
}

// ---------------------------------------------------------------------------
// Main.

// NumWorkers returns the number of worker processes for sharded checks.
func NumWorkers(ch *Check) int {
	n := runtime.NumCPU()
	if v, err := strconv.Atoi(os.Getenv("VERIF_WORKERS")); err == nil && v > 0 {
		n = v
	}
	if ch.MaxWorkers > 0 && n > ch.MaxWorkers {
		n = ch.MaxWorkers
	}
	if n < 1 {
		n = 1
	}
	return n
}

func usage() {
	ids := []string{}
	for id := range registry {
		ids = append(ids, id)
	}
	sort.Strings(ids)
	fmt.Fprintf(os.Stderr, "usage: vcheck <ID> [--tier quick|thorough] [--replay file] [--budget seconds]\nchecks: %s\n", strings.Join(ids, " "))
	os.Exit(2)
}

// Main is the entry point of every vcheck binary.
func Main() {
	log.SetOutput(io.Discard) // akita panics via log.Panic; expected panics must not flood stderr
	if len(os.Args) < 2 {
		usage()
	}
	id := os.Args[1]
	ch, ok := registry[id]
	if !ok {
		fmt.Fprintf(os.Stderr, "vcheck: no check %q in this binary\n", id)
		os.Exit(2)
	}
	tier := os.Getenv("VERIF_TIER")
	if tier == "" {
		tier = "quick"
	}
	var replay string
	shard, nshards := 0, 1
	worker := false
	budget := 0
	for i := 2; i < len(os.Args); i++ {
		switch os.Args[i] {
		case "--tier":
			i++
			tier = os.Args[i]
		case "--replay":
			i++
			replay = os.Args[i]
		case "--budget":
			i++
			budget, _ = strconv.Atoi(os.Args[i])
		case "--shard":
			i++
			fmt.Sscanf(os.Args[i], "%d/%d", &shard, &nshards)
			worker = true
		default:
			usage()
		}
	}
	if tier != "quick" && tier != "thorough" {
		usage()
	}
	seed, _ := strconv.ParseInt(os.Getenv("VERIF_SEED"), 10, 64)
	if budget == 0 {
		if b, err := strconv.Atoi(os.Getenv("VERIF_BUDGET")); err == nil {
			budget = b
		}
	}
	if budget == 0 {
		budget = 600
		if tier == "thorough" {
			budget = 3 * 3600
		}
	}
	c := &Ctx{Check: ch, ID: id, Tier: tier, Seed: seed, Shard: shard, NShards: nshards,
		Start: time.Now(), Deadline: time.Now().Add(time.Duration(budget) * time.Second), p: newPartial()}

	if replay != "" {
		os.Exit(doReplay(c, replay))
	}
	if worker {
		runInProcess(c)
		enc := json.NewEncoder(os.Stdout)
		fmt.Print("\n@@PARTIAL@@ ")
		_ = enc.Encode(c.p)
		os.Exit(0)
	}
	if ch.Sharded && NumWorkers(ch) > 1 {
		runWorkers(c, budget)
	} else {
		runInProcess(c)
	}
	os.Exit(finish(c))
}

func runInProcess(c *Ctx) {
	msg, where := CatchStack(func() { c.Check.Run(c) })
	if msg != "" {
		c.InternalError("check panicked: %s at %s", msg, where)
	}
}

func runWorkers(c *Ctx, budget int) {
	n := NumWorkers(c.Check)
	self, _ := os.Executable()
	var wg sync.WaitGroup
	parts := make([]*Partial, n)
	errs := make([]string, n)
	order := make([]int, n)
	for i := range order {
		order[i] = int((int64(i) + c.Seed) % int64(n))
		if order[i] < 0 {
			order[i] += n
		}
	}
	for _, i := range order {
		wg.Add(1)
		go func(i int) {
			defer wg.Done()
			cmd := exec.Command(self, c.ID, "--tier", c.Tier, "--shard", fmt.Sprintf("%d/%d", i, n), "--budget", strconv.Itoa(budget))
			cmd.Env = append(os.Environ(), "GOMAXPROCS="+workerProcs(c.Check), "VERIF_IS_WORKER=1")
			var out bytes.Buffer
			var serr bytes.Buffer
			cmd.Stdout = &out
			cmd.Stderr = &serr
			err := cmd.Run()
			data := out.Bytes()
			k := bytes.LastIndex(data, []byte("@@PARTIAL@@ "))
			if err != nil || k < 0 {
				tail := serr.String()
				if len(tail) > 3000 {
					tail = tail[len(tail)-3000:]
				}
				errs[i] = fmt.Sprintf("worker %d/%d failed: %v\n%s", i, n, err, tail)
				return
			}
			var p Partial
			if e := json.Unmarshal(data[k+len("@@PARTIAL@@ "):], &p); e != nil {
				errs[i] = fmt.Sprintf("worker %d/%d: bad partial: %v", i, n, e)
				return
			}
			parts[i] = &p
		}(i)
	}
	wg.Wait()
	for i := 0; i < n; i++ {
		if errs[i] != "" {
			c.InternalError("%s", errs[i])
			continue
		}
		merge(c.p, parts[i])
	}
	c.p.Counters["workers"] = int64(n)
}

func workerProcs(ch *Check) string {
	if v := os.Getenv("VERIF_WORKER_GOMAXPROCS"); v != "" {
		return v
	}
	return "2"
}

func merge(dst, src *Partial) {
	for k, v := range src.Counters {
		if strings.HasPrefix(k, "max_") {
			if dst.Counters[k] < v {
				dst.Counters[k] = v
			}
			continue
		}
		dst.Counters[k] += v
	}
	for k, v := range src.Outcomes {
		dst.Outcomes[k] += v
	}
	for k, v := range src.Violations {
		if d, ok := dst.Violations[k]; ok {
			d.Count += v.Count
			if len(v.Case) < len(d.Case) {
				d.Case, d.What = v.Case, v.What
			}
		} else {
			dst.Violations[k] = v
		}
	}
	for _, s := range src.Samples {
		if len(dst.Samples) < 4 {
			dst.Samples = append(dst.Samples, s)
		}
	}
	dst.Notes = appendUniq(dst.Notes, src.Notes)
	dst.Inexhaust = appendUniq(dst.Inexhaust, src.Inexhaust)
	dst.Internal = appendUniq(dst.Internal, src.Internal)
}

func appendUniq(dst, src []string) []string {
	for _, s := range src {
		dup := false
		for _, d := range dst {
			if d == s {
				dup = true
				break
			}
		}
		if !dup && len(dst) < 64 {
			dst = append(dst, s)
		}
	}
	return dst
}

type replayFile struct {
	Property string          `json:"property"`
	Key      string          `json:"key"`
	What     string          `json:"what"`
	Count    int64           `json:"count"`
	Tier     string          `json:"tier"`
	Case     json.RawMessage `json:"case"`
	Replay   string          `json:"replay_cmd"`
}

func doReplay(c *Ctx, path string) int {
	b, err := os.ReadFile(path)
	if err != nil {
		fmt.Fprintln(os.Stderr, err)
		return 2
	}
	var rf replayFile
	if err := json.Unmarshal(b, &rf); err != nil {
		fmt.Fprintln(os.Stderr, err)
		return 2
	}
	if c.Check.Replay == nil {
		fmt.Fprintf(os.Stderr, "check %s has no replay function\n", c.ID)
		return 2
	}
	if rf.Tier != "" {
		c.Tier = rf.Tier
	}
	var probs []Problem
	msg, where := CatchStack(func() { probs = c.Check.Replay(c, rf.Case) })
	if msg != "" {
		fmt.Printf("replay panicked: %s at %s\n", msg, where)
		return 2
	}
	if len(c.p.Internal) > 0 {
		fmt.Println(strings.Join(c.p.Internal, "\n"))
		return 2
	}
	hit := false
	for _, p := range probs {
		fmt.Printf("REPLAY property=%s key=%s :: %s\n", c.ID, p.Key, p.What)
		if p.Key == rf.Key {
			hit = true
		}
	}
	if hit {
		fmt.Printf("VIOLATION property=%s replay=%s\n", c.ID, path)
		return 1
	}
	fmt.Printf("replay of %s: recorded problem %q did not occur (%d other problems)\n", path, rf.Key, len(probs))
	return 0
}

func finish(c *Ctx) int {
	p := c.p
	known := loadKnown(c.ID)
	wall := time.Since(c.Start).Seconds()

	keys := make([]string, 0, len(p.Violations))
	for k := range p.Violations {
		keys = append(keys, k)
	}
	sort.Strings(keys)
	newViol := 0
	knownHit := []string{}
	replayDir := filepath.Join(VerifDir, "replays", c.ID)
	for _, k := range keys {
		v := p.Violations[k]
		if kf, ok := known[k]; ok {
			fmt.Printf("KNOWN-FINDING: property=%s %s :: %s\n", c.ID, k, kf.What)
			knownHit = append(knownHit, k)
			continue
		}
		newViol++
		_ = os.MkdirAll(replayDir, 0o755)
		h := sha256.Sum256([]byte(k))
		path := filepath.Join(replayDir, hex.EncodeToString(h[:6])+".json")
		rf := replayFile{Property: c.ID, Key: k, What: v.What, Count: v.Count, Tier: c.Tier, Case: v.Case,
			Replay: fmt.Sprintf("/verif/bin/vcheck %s --replay %s", c.ID, path)}
		b, _ := json.MarshalIndent(rf, "", " ")
		_ = os.WriteFile(path, b, 0o644)
		if newViol <= 25 {
			fmt.Printf("VIOLATION property=%s replay=%s\n", c.ID, path)
			fmt.Printf("  key=%s (%d cases) :: %s\n", k, v.Count, v.What)
		}
	}
	if newViol > 25 {
		fmt.Printf("  ... and %d more violation keys (see %s)\n", newViol-25, replayDir)
	}

	exhaustive := len(p.Inexhaust) == 0 && len(p.Internal) == 0
	internal := append([]string{}, p.Internal...)
	if c.Check.MinOutcomes > 0 && len(p.Outcomes) < c.Check.MinOutcomes && newViol == 0 {
		internal = append(internal, fmt.Sprintf("vacuity guard: only %d distinct outcomes observed, expected >= %d", len(p.Outcomes), c.Check.MinOutcomes))
	}

	cov := map[string]any{}
	for k, v := range p.Counters {
		cov[k] = v
	}
	ev := p.Counters["evaluations"]
	if ev == 0 {
		ev = p.Counters["transitions"]
	}
	dn := p.Counters["distinct_nontrivial"]
	if dn == 0 {
		dn = p.Counters["states"]
	}
	if p.Counters["bfs_plus_cases"] > 0 {
		// a check that runs an explicit-state search and then a family of
		// enumerated cases: both count as evaluations
		ev += p.Counters["transitions"]
		dn += p.Counters["states"]
		delete(cov, "bfs_plus_cases")
	}
	cov["evaluations"] = ev
	cov["distinct_nontrivial"] = dn
	if c.Check.Level == "model_checking" {
		cov["states"] = p.Counters["states"]
		cov["transitions"] = p.Counters["transitions"]
		cov["traces_validated_against_impl"] = p.Counters["traces_validated"]
	}
	cov["rule"] = c.Check.Rule
	samples := []any{}
	for _, s := range p.Samples {
		var v any
		_ = json.Unmarshal(s, &v)
		samples = append(samples, v)
	}
	if len(samples) == 0 {
		samples = append(samples, "no sample recorded")
	}
	cov["samples"] = samples
	cov["exhaustive"] = exhaustive
	cov["distinct_outcomes"] = len(p.Outcomes)
	oc := map[string]int64{}
	okeys := make([]string, 0, len(p.Outcomes))
	for k := range p.Outcomes {
		okeys = append(okeys, k)
	}
	sort.Strings(okeys)
	for i, k := range okeys {
		if i >= 40 {
			break
		}
		oc[k] = p.Outcomes[k]
	}
	cov["outcome_histogram"] = oc
	if len(p.Notes) > 0 {
		cov["notes"] = p.Notes
	}
	if len(p.Inexhaust) > 0 {
		cov["caps_hit"] = p.Inexhaust
	}
	if len(internal) > 0 {
		cov["internal_errors"] = internal
	}
	if len(knownHit) > 0 {
		cov["known_findings_reproduced"] = knownHit
	}
	// Two-part checks (bin/vcheck runs one binary after the other): fold the
	// evidence the first part has just written into this one.
	prevViol := 0
	if os.Getenv("VERIF_MERGE_PREV") != "" {
		if pb, err := os.ReadFile(filepath.Join(VerifDir, "evidence", c.ID+".json")); err == nil {
			var prev struct {
				Coverage   map[string]any `json:"coverage"`
				Violations int            `json:"violations"`
				WallS      float64        `json:"wall_s"`
			}
			if json.Unmarshal(pb, &prev) == nil && prev.Coverage != nil {
				num := func(v any) int64 {
					f, _ := v.(float64)
					return int64(f)
				}
				cov["first_half"] = prev.Coverage
				cov["evaluations"] = ev + num(prev.Coverage["evaluations"])
				cov["distinct_nontrivial"] = dn + num(prev.Coverage["distinct_nontrivial"])
				if e, ok := prev.Coverage["exhaustive"].(bool); ok && !e {
					cov["exhaustive"] = false
				}
				prevViol = prev.Violations
				wall += prev.WallS
			}
		}
	}
	evd := map[string]any{
		"property_id": c.ID,
		"tier":        c.Tier,
		"seed":        c.Seed,
		"level":       c.Check.Level,
		"coverage":    cov,
		"assumptions": append([]string{}, c.Check.Assumptions...),
		"wall_s":      wall,
		"violations":  newViol + prevViol,
	}
	_ = os.MkdirAll(filepath.Join(VerifDir, "evidence"), 0o755)
	b, _ := json.MarshalIndent(evd, "", " ")
	if err := os.WriteFile(filepath.Join(VerifDir, "evidence", c.ID+".json"), append(b, '\n'), 0o644); err != nil {
		fmt.Fprintln(os.Stderr, err)
		return 2
	}

	w := bufio.NewWriter(os.Stdout)
	fmt.Fprintf(w, "%s tier=%s evaluations=%d distinct=%d states=%d transitions=%d outcomes=%d exhaustive=%v known=%d violations=%d wall=%.1fs\n",
		c.ID, c.Tier, ev, dn, p.Counters["states"], p.Counters["transitions"], len(p.Outcomes), exhaustive, len(knownHit), newViol, wall)
	for _, s := range p.Inexhaust {
		fmt.Fprintf(w, "  cap: %s\n", s)
	}
	for _, s := range internal {
		fmt.Fprintf(w, "  INTERNAL: %s\n", s)
	}
	w.Flush()
	if newViol > 0 {
		return 1
	}
	if len(internal) > 0 {
		return 2
	}
	return 0
}

// ScratchDir returns a per-process scratch directory on tmpfs (removed by
// CleanScratch) for the SQLite files every Simulation opens.
func ScratchDir() string {
	base := "/dev/shm"
	if st, err := os.Stat(base); err != nil || !st.IsDir() {
		base = filepath.Join(VerifDir, ".build", "run")
	}
	d := filepath.Join(base, fmt.Sprintf("verif-%d", os.Getpid()))
	_ = os.MkdirAll(d, 0o755)
	return d
}

// CleanScratch removes the scratch directory.
func CleanScratch() {
	_ = os.RemoveAll(ScratchDir())
}

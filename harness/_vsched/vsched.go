// Package vsched is the cooperative scheduler behind the /verif interleaving
// explorer. It is compiled INTO the akita module through `go build -overlay`
// (as github.com/sarchlab/akita/v5/vsched) so that the sync/atomic shims that
// replace "sync" and "sync/atomic" in selected akita packages can reach it.
//
// When no exploration is active every shim falls straight through to the real
// primitive. When one is active, exactly one controlled goroutine runs at a
// time; each shim operation is a scheduling point; the explorer enumerates
// choice sequences with iterative preemption bounding.
package vsched

import (
	"fmt"
	"runtime"
	"strings"
)

// Thread is one controlled goroutine.
type Thread struct {
	ID   int
	Name string
	wake chan struct{}
	done bool
	pred func() bool // nil = enabled
	what string      // what it is parked on (for deadlock reports)
	pts  int         // scheduling points passed
}

// ChoicePoint records one scheduling decision with more than one enabled thread.
type ChoicePoint struct {
	Enabled    []int // thread ids in canonical order (running first if enabled)
	CurEnabled bool
	Chosen     int // index into Enabled
}

// Exec is the record of one execution.
type Exec struct {
	Points   []ChoicePoint
	Choices  []int
	Deadlock string // non-empty: description of the deadlock
	Panic    string // non-empty: a controlled goroutine panicked
	PanicAt  string
	Horizon  bool // step horizon hit
	Steps    int
	Threads  int
	Diverged string // replay divergence (hard internal error)
	Log      []string
}

// TraceOn makes every scheduling point append "T<id> <what>" to Exec.Log.
var TraceOn bool

// Logf appends a harness message to the execution log when tracing.
func Logf(format string, a ...any) {
	if TraceOn && s != nil {
		s.x.Log = append(s.x.Log, fmt.Sprintf("T%d   "+format, append([]any{s.cur.ID}, a...)...))
	}
}

type sched struct {
	threads []*Thread
	cur     *Thread
	prefix  []int
	x       *Exec
	aborted bool
	horizon int
	resets  []func()
	done    chan struct{}
	goCount int
}

var s *sched

// Active tells whether an exploration is running.
func Active() bool { return s != nil && !s.aborted }

type abortT struct{}

// GoCount is the number of `go` statements executed through the seam since
// process start (used by C03: a serial simulation must spawn none).
var GoCount int

// Go starts f in a new controlled goroutine (or a plain goroutine when no
// exploration is active).
func Go(f func()) {
	GoCount++
	if s == nil {
		go f()
		return
	}
	if s.aborted {
		return
	}
	sc := s
	t := &Thread{ID: len(sc.threads), wake: make(chan struct{}, 1)}
	sc.threads = append(sc.threads, t)
	go func() {
		<-t.wake
		if sc.aborted {
			sc.exit(t)
			return
		}
		defer func() {
			if r := recover(); r != nil {
				if _, ok := r.(abortT); !ok {
					if sc.x.Panic == "" {
						sc.x.Panic = fmt.Sprint(r)
						sc.x.PanicAt = site()
					}
					sc.abort()
				}
			}
			sc.exit(t)
		}()
		f()
	}()
}

func site() string {
	buf := make([]byte, 6000)
	buf = buf[:runtime.Stack(buf, false)]
	lines := strings.Split(string(buf), "\n")
	seen := false
	for _, l := range lines {
		if strings.HasPrefix(l, "panic(") {
			seen = true
			continue
		}
		if !seen || strings.HasPrefix(l, "\t") || strings.HasPrefix(l, "log.") || strings.HasPrefix(l, "runtime.") {
			continue
		}
		if k := strings.LastIndex(l, "("); k > 0 {
			return l[:k]
		}
		return l
	}
	return ""
}

// exit marks t finished and hands control to another thread.
func (sc *sched) exit(t *Thread) {
	t.done = true
	if sc.aborted {
		sc.wakeAllOrFinish()
		return
	}
	next := sc.pick(t)
	if next == nil {
		if sc.allDone() {
			close(sc.done)
			return
		}
		sc.deadlock()
		sc.abort()
		sc.wakeAllOrFinish()
		return
	}
	sc.cur = next
	next.wake <- struct{}{}
}

func (sc *sched) allDone() bool {
	for _, t := range sc.threads {
		if !t.done {
			return false
		}
	}
	return true
}

func (sc *sched) abort() { sc.aborted = true }

// wakeAllOrFinish, once aborted, releases every parked goroutine one after
// another (each unwinds with abortT and calls exit again).
func (sc *sched) wakeAllOrFinish() {
	for _, t := range sc.threads {
		if !t.done {
			sc.cur = t
			select {
			case t.wake <- struct{}{}:
			default:
			}
			return
		}
	}
	select {
	case <-sc.done:
	default:
		close(sc.done)
	}
}

func (sc *sched) deadlock() {
	var b strings.Builder
	for _, t := range sc.threads {
		if !t.done {
			fmt.Fprintf(&b, "[T%d %s blocked on %s] ", t.ID, t.Name, t.what)
		}
	}
	sc.x.Deadlock = b.String()
}

// pick chooses the next thread to run. me is the yielding thread.
func (sc *sched) pick(me *Thread) *Thread {
	var enabled []*Thread
	curEnabled := false
	if !me.done && (me.pred == nil || me.pred()) {
		enabled = append(enabled, me)
		curEnabled = true
	}
	for _, t := range sc.threads {
		if t == me || t.done {
			continue
		}
		if t.pred == nil || t.pred() {
			enabled = append(enabled, t)
		}
	}
	if len(enabled) == 0 {
		return nil
	}
	if len(enabled) == 1 {
		return enabled[0]
	}
	i := len(sc.x.Choices)
	c := 0
	if i < len(sc.prefix) {
		c = sc.prefix[i]
		if c >= len(enabled) {
			sc.x.Diverged = fmt.Sprintf("replay divergence at point %d: choice %d of %d enabled", i, c, len(enabled))
			c = 0
		}
	}
	ids := make([]int, len(enabled))
	for k, t := range enabled {
		ids[k] = t.ID
	}
	sc.x.Points = append(sc.x.Points, ChoicePoint{Enabled: ids, CurEnabled: curEnabled, Chosen: c})
	sc.x.Choices = append(sc.x.Choices, c)
	return enabled[c]
}

// Yield is a scheduling point: the calling controlled goroutine may continue
// only when pred (nil = always) holds.
func Yield(what string, pred func() bool) {
	sc := s
	if sc == nil {
		return
	}
	if sc.aborted {
		panic(abortT{})
	}
	t := sc.cur
	t.pred, t.what = pred, what
	t.pts++
	if TraceOn {
		sc.x.Log = append(sc.x.Log, fmt.Sprintf("T%d %s", t.ID, what))
	}
	sc.x.Steps++
	if sc.x.Steps > sc.horizon {
		sc.x.Horizon = true
		sc.abort()
		panic(abortT{})
	}
	next := sc.pick(t)
	if next == nil {
		sc.deadlock()
		sc.abort()
		panic(abortT{})
	}
	if next != t {
		sc.cur = next
		next.wake <- struct{}{}
		<-t.wake
		if sc.aborted {
			panic(abortT{})
		}
	}
	t.pred, t.what = nil, ""
}

// StmtPointsOff turns the statement-level points inserted by the overlay
// generator (-points) into no-ops; set by harnesses whose executions are too
// costly to be interleaved at statement granularity.
var StmtPointsOff bool

// Point is an explicit scheduling point with no blocking condition.
func Point() {
	if StmtPointsOff {
		return
	}
	Yield("point", nil)
}

// OnReset registers f to restore a shim object's virtual state at the end of
// the current execution (for process-global mutexes).
func OnReset(f func()) {
	if s != nil {
		s.resets = append(s.resets, f)
	}
}

// JoinAll blocks the calling thread until every other thread has finished.
func JoinAll() {
	sc := s
	if sc == nil {
		return
	}
	me := sc.cur
	Yield("JoinAll", func() bool {
		for _, t := range sc.threads {
			if t != me && !t.done {
				return false
			}
		}
		return true
	})
}

// Self returns the id of the running controlled thread (-1 when inactive).
func Self() int {
	if s == nil || s.cur == nil {
		return -1
	}
	return s.cur.ID
}

// SetName names the running thread for reports.
func SetName(n string) {
	if s != nil && s.cur != nil {
		s.cur.Name = n
	}
}

// Run executes body as thread 0 under the scheduler, following prefix and
// taking choice 0 afterwards. body must call JoinAll before returning if it
// spawned threads.
func Run(prefix []int, horizon int, body func()) *Exec {
	x := &Exec{}
	sc := &sched{prefix: prefix, x: x, horizon: horizon, done: make(chan struct{})}
	main := &Thread{ID: 0, Name: "main", wake: make(chan struct{}, 1)}
	sc.threads = []*Thread{main}
	sc.cur = main
	s = sc
	go func() {
		defer func() {
			if r := recover(); r != nil {
				if _, ok := r.(abortT); !ok {
					if x.Panic == "" {
						x.Panic = fmt.Sprint(r)
						x.PanicAt = site()
					}
					sc.abort()
				}
			}
			sc.exit(main)
		}()
		body()
	}()
	<-sc.done
	for _, f := range sc.resets {
		f()
	}
	x.Threads = len(sc.threads)
	s = nil
	return x
}

// Result summarises an exploration.
type Result struct {
	Executions   int64
	Bound        int   // preemption bound completed (-1 none)
	Exhaustive   bool  // every bound up to Bound fully explored, and raising the bound adds nothing
	Capped       string
	MaxPoints    int
	Transitions  int64
	BoundReached bool // the preemption bound actually cut alternatives
}

// Options configures Explore.
type Options struct {
	MaxPreemptions int // explore bounds 0..MaxPreemptions iteratively; <0 = unbounded
	Horizon        int
	MaxExecutions  int64
	Stop           func() bool
}

func cost(x *Exec, upto int) int {
	c := 0
	for i := 0; i < upto; i++ {
		if x.Points[i].CurEnabled && x.Points[i].Chosen != 0 {
			c++
		}
	}
	return c
}

// Explore enumerates every schedule of body with at most opt.MaxPreemptions
// preemptions (depth-first over choice prefixes; executions always run to
// completion), calling check after each execution. check returns false to stop.
func Explore(opt Options, body func(), check func(x *Exec) bool) Result {
	if opt.Horizon == 0 {
		opt.Horizon = 20000
	}
	res := Result{Bound: -1}
	bound := opt.MaxPreemptions
	type item struct{ prefix []int }
	stack := []item{{nil}}
	cut := false
	for len(stack) > 0 {
		it := stack[len(stack)-1]
		stack = stack[:len(stack)-1]
		x := Run(it.prefix, opt.Horizon, body)
		res.Executions++
		res.Transitions += int64(x.Steps)
		if len(x.Points) > res.MaxPoints {
			res.MaxPoints = len(x.Points)
		}
		if x.Diverged == "" && len(x.Points) < len(it.prefix) {
			x.Diverged = fmt.Sprintf("replay diverged: the execution ended after %d choice points, its prefix has %d (uncontrolled nondeterminism in the harness or the code under test)", len(x.Points), len(it.prefix))
		}
		if !check(x) {
			res.Capped = "stopped by check"
			return res
		}
		if x.Diverged != "" {
			res.Capped = x.Diverged
			return res
		}
		if opt.MaxExecutions > 0 && res.Executions >= opt.MaxExecutions {
			res.Capped = fmt.Sprintf("execution cap %d", opt.MaxExecutions)
			return res
		}
		if opt.Stop != nil && res.Executions&0xff == 0 && opt.Stop() {
			res.Capped = "deadline"
			return res
		}
		base := cost(x, len(it.prefix))
		c := base
		// push alternatives in reverse so that the earliest deviation is explored first
		var alts []item
		for i := len(it.prefix); i < len(x.Points); i++ {
			p := x.Points[i]
			for alt := 1; alt < len(p.Enabled); alt++ {
				cc := c
				if p.CurEnabled {
					cc++
				}
				if bound >= 0 && cc > bound {
					cut = true
					continue
				}
				np := make([]int, i+1)
				copy(np, x.Choices[:i])
				np[i] = alt
				alts = append(alts, item{np})
			}
			// default continuation chose 0 at point i: no cost
		}
		for k := len(alts) - 1; k >= 0; k-- {
			stack = append(stack, alts[k])
		}
	}
	res.Bound = bound
	res.BoundReached = cut
	res.Exhaustive = !cut
	return res
}

// Package vatomic mirrors the parts of "sync/atomic" that akita uses; every
// operation is a scheduling point while an exploration is active.
package vatomic

import (
	"sync/atomic"

	"github.com/sarchlab/akita/v5/vsched"
)

func LoadInt32(p *int32) int32        { vsched.Yield("atomic.LoadInt32", nil); return atomic.LoadInt32(p) }
func StoreInt32(p *int32, v int32)    { vsched.Yield("atomic.StoreInt32", nil); atomic.StoreInt32(p, v) }
func AddInt32(p *int32, d int32) int32 { vsched.Yield("atomic.AddInt32", nil); return atomic.AddInt32(p, d) }
func LoadUint64(p *uint64) uint64     { vsched.Yield("atomic.LoadUint64", nil); return atomic.LoadUint64(p) }
func StoreUint64(p *uint64, v uint64) { vsched.Yield("atomic.StoreUint64", nil); atomic.StoreUint64(p, v) }
func AddUint64(p *uint64, d uint64) uint64 {
	vsched.Yield("atomic.AddUint64", nil)
	return atomic.AddUint64(p, d)
}
func LoadInt64(p *int64) int64     { vsched.Yield("atomic.LoadInt64", nil); return atomic.LoadInt64(p) }
func StoreInt64(p *int64, v int64) { vsched.Yield("atomic.StoreInt64", nil); atomic.StoreInt64(p, v) }
func AddInt64(p *int64, d int64) int64 {
	vsched.Yield("atomic.AddInt64", nil)
	return atomic.AddInt64(p, d)
}
func CompareAndSwapInt32(p *int32, o, n int32) bool {
	vsched.Yield("atomic.CASInt32", nil)
	return atomic.CompareAndSwapInt32(p, o, n)
}
func CompareAndSwapUint64(p *uint64, o, n uint64) bool {
	vsched.Yield("atomic.CASUint64", nil)
	return atomic.CompareAndSwapUint64(p, o, n)
}

type Int32 = atomic.Int32
type Int64 = atomic.Int64
type Uint64 = atomic.Uint64
type Bool = atomic.Bool
type Value = atomic.Value

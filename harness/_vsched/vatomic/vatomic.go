// Package vatomic mirrors the parts of "sync/atomic" that akita uses; every
// operation is a scheduling point while an exploration is active.
package vatomic

import (
	"sync/atomic"

	"github.com/sarchlab/akita/v5/vsched"
)

func LoadInt32(p *int32) int32        { vsched.Yield("atomic.LoadInt32", nil); return atomic.LoadInt32(p) }
func StoreInt32(p *int32, v int32)    { vsched.Yield("atomic.StoreInt32", nil); atomic.StoreInt32(p, v) }
func AddInt32(p *int32, d int32) int32 { vsched.Yield("atomic.AddInt32", nil); return atomic.AddInt32(p, d) }
func LoadUint64(p *uint64) uint64     { vsched.Yield("atomic.LoadUint64", nil); return atomic.LoadUint64(p) }
func StoreUint64(p *uint64, v uint64) { vsched.Yield("atomic.StoreUint64", nil); atomic.StoreUint64(p, v) }
func AddUint64(p *uint64, d uint64) uint64 {
	vsched.Yield("atomic.AddUint64", nil)
	return atomic.AddUint64(p, d)
}
func LoadInt64(p *int64) int64     { vsched.Yield("atomic.LoadInt64", nil); return atomic.LoadInt64(p) }
func StoreInt64(p *int64, v int64) { vsched.Yield("atomic.StoreInt64", nil); atomic.StoreInt64(p, v) }
func AddInt64(p *int64, d int64) int64 {
	vsched.Yield("atomic.AddInt64", nil)
	return atomic.AddInt64(p, d)
}
func CompareAndSwapInt32(p *int32, o, n int32) bool {
	vsched.Yield("atomic.CASInt32", nil)
	return atomic.CompareAndSwapInt32(p, o, n)
}
func CompareAndSwapUint64(p *uint64, o, n uint64) bool {
	vsched.Yield("atomic.CASUint64", nil)
	return atomic.CompareAndSwapUint64(p, o, n)
}

// Typed atomics: every method is a scheduling point.

type Bool struct{ v atomic.Bool }

func (b *Bool) Load() bool       { vsched.Yield("atomic.Bool.Load", nil); return b.v.Load() }
func (b *Bool) Store(x bool)     { vsched.Yield("atomic.Bool.Store", nil); b.v.Store(x) }
func (b *Bool) Swap(x bool) bool { vsched.Yield("atomic.Bool.Swap", nil); return b.v.Swap(x) }
func (b *Bool) CompareAndSwap(o, n bool) bool {
	vsched.Yield("atomic.Bool.CAS", nil)
	return b.v.CompareAndSwap(o, n)
}

type Int32 struct{ v atomic.Int32 }

func (b *Int32) Load() int32         { vsched.Yield("atomic.Int32.Load", nil); return b.v.Load() }
func (b *Int32) Store(x int32)       { vsched.Yield("atomic.Int32.Store", nil); b.v.Store(x) }
func (b *Int32) Add(d int32) int32   { vsched.Yield("atomic.Int32.Add", nil); return b.v.Add(d) }
func (b *Int32) Swap(x int32) int32  { vsched.Yield("atomic.Int32.Swap", nil); return b.v.Swap(x) }
func (b *Int32) CompareAndSwap(o, n int32) bool {
	vsched.Yield("atomic.Int32.CAS", nil)
	return b.v.CompareAndSwap(o, n)
}

type Int64 struct{ v atomic.Int64 }

func (b *Int64) Load() int64         { vsched.Yield("atomic.Int64.Load", nil); return b.v.Load() }
func (b *Int64) Store(x int64)       { vsched.Yield("atomic.Int64.Store", nil); b.v.Store(x) }
func (b *Int64) Add(d int64) int64   { vsched.Yield("atomic.Int64.Add", nil); return b.v.Add(d) }
func (b *Int64) Swap(x int64) int64  { vsched.Yield("atomic.Int64.Swap", nil); return b.v.Swap(x) }
func (b *Int64) CompareAndSwap(o, n int64) bool {
	vsched.Yield("atomic.Int64.CAS", nil)
	return b.v.CompareAndSwap(o, n)
}

type Uint32 struct{ v atomic.Uint32 }

func (b *Uint32) Load() uint32        { vsched.Yield("atomic.Uint32.Load", nil); return b.v.Load() }
func (b *Uint32) Store(x uint32)      { vsched.Yield("atomic.Uint32.Store", nil); b.v.Store(x) }
func (b *Uint32) Add(d uint32) uint32 { vsched.Yield("atomic.Uint32.Add", nil); return b.v.Add(d) }
func (b *Uint32) CompareAndSwap(o, n uint32) bool {
	vsched.Yield("atomic.Uint32.CAS", nil)
	return b.v.CompareAndSwap(o, n)
}

type Uint64 struct{ v atomic.Uint64 }

func (b *Uint64) Load() uint64        { vsched.Yield("atomic.Uint64.Load", nil); return b.v.Load() }
func (b *Uint64) Store(x uint64)      { vsched.Yield("atomic.Uint64.Store", nil); b.v.Store(x) }
func (b *Uint64) Add(d uint64) uint64 { vsched.Yield("atomic.Uint64.Add", nil); return b.v.Add(d) }
func (b *Uint64) CompareAndSwap(o, n uint64) bool {
	vsched.Yield("atomic.Uint64.CAS", nil)
	return b.v.CompareAndSwap(o, n)
}

type Value = atomic.Value

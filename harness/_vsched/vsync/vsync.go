// Package vsync mirrors the parts of "sync" that akita uses; see vsched.
package vsync

import (
	"sync"

	"github.com/sarchlab/akita/v5/vsched"
)

type Locker = sync.Locker
type Once = sync.Once
type Map = sync.Map
type Pool = sync.Pool

// Mutex is sync.Mutex with a virtual twin used while an exploration is active.
type Mutex struct {
	real   sync.Mutex
	locked bool
	reg    bool
}

func (m *Mutex) Lock() {
	if !vsched.Active() {
		m.real.Lock()
		return
	}
	vsched.Yield("Mutex.Lock", func() bool { return !m.locked })
	m.locked = true
	if !m.reg {
		m.reg = true
		vsched.OnReset(func() { m.locked, m.reg = false, false })
	}
}

func (m *Mutex) TryLock() bool {
	if !vsched.Active() {
		return m.real.TryLock()
	}
	vsched.Yield("Mutex.TryLock", nil)
	if m.locked {
		return false
	}
	m.locked = true
	if !m.reg {
		m.reg = true
		vsched.OnReset(func() { m.locked, m.reg = false, false })
	}
	return true
}

func (m *Mutex) Unlock() {
	if !vsched.Active() {
		if m.locked { // unwinding after an aborted execution
			return
		}
		m.real.Unlock()
		return
	}
	vsched.Yield("Mutex.Unlock", nil)
	if !m.locked {
		panic("vsync: unlock of unlocked mutex")
	}
	m.locked = false
}

// RWMutex mirrors sync.RWMutex.
type RWMutex struct {
	real    sync.RWMutex
	writer  bool
	readers int
	reg     bool
}

func (m *RWMutex) register() {
	if !m.reg {
		m.reg = true
		vsched.OnReset(func() { m.writer, m.readers, m.reg = false, 0, false })
	}
}

func (m *RWMutex) Lock() {
	if !vsched.Active() {
		m.real.Lock()
		return
	}
	vsched.Yield("RWMutex.Lock", func() bool { return !m.writer && m.readers == 0 })
	m.writer = true
	m.register()
}

func (m *RWMutex) Unlock() {
	if !vsched.Active() {
		if m.writer {
			return
		}
		m.real.Unlock()
		return
	}
	vsched.Yield("RWMutex.Unlock", nil)
	if !m.writer {
		panic("vsync: unlock of unlocked RWMutex")
	}
	m.writer = false
}

func (m *RWMutex) RLock() {
	if !vsched.Active() {
		m.real.RLock()
		return
	}
	vsched.Yield("RWMutex.RLock", func() bool { return !m.writer })
	m.readers++
	m.register()
}

func (m *RWMutex) RUnlock() {
	if !vsched.Active() {
		if m.readers > 0 {
			return
		}
		m.real.RUnlock()
		return
	}
	vsched.Yield("RWMutex.RUnlock", nil)
	if m.readers <= 0 {
		panic("vsync: RUnlock of unlocked RWMutex")
	}
	m.readers--
}

// WaitGroup mirrors sync.WaitGroup.
type WaitGroup struct {
	real sync.WaitGroup
	n    int
	reg  bool
}

func (w *WaitGroup) Add(d int) {
	if !vsched.Active() {
		if w.reg {
			return
		}
		w.real.Add(d)
		return
	}
	vsched.Yield("WaitGroup.Add", nil)
	w.n += d
	if w.n < 0 {
		panic("vsync: negative WaitGroup counter")
	}
	if !w.reg {
		w.reg = true
		vsched.OnReset(func() { w.n, w.reg = 0, false })
	}
}

func (w *WaitGroup) Done() { w.Add(-1) }

func (w *WaitGroup) Wait() {
	if !vsched.Active() {
		if w.reg {
			return
		}
		w.real.Wait()
		return
	}
	vsched.Yield("WaitGroup.Wait", func() bool { return w.n == 0 })
}

// Cond mirrors sync.Cond.
type Cond struct {
	L       Locker
	real    *sync.Cond
	waiters []*bool
}

func NewCond(l Locker) *Cond { return &Cond{L: l, real: sync.NewCond(l)} }

func (c *Cond) Wait() {
	if !vsched.Active() {
		c.real.Wait()
		return
	}
	flag := new(bool)
	c.waiters = append(c.waiters, flag)
	c.L.Unlock()
	vsched.Yield("Cond.Wait", func() bool { return *flag })
	c.L.Lock()
}

func (c *Cond) Broadcast() {
	if !vsched.Active() {
		c.real.Broadcast()
		return
	}
	vsched.Yield("Cond.Broadcast", nil)
	for _, f := range c.waiters {
		*f = true
	}
	c.waiters = nil
}

func (c *Cond) Signal() {
	if !vsched.Active() {
		c.real.Signal()
		return
	}
	vsched.Yield("Cond.Signal", nil)
	if len(c.waiters) > 0 {
		*c.waiters[0] = true
		c.waiters = c.waiters[1:]
	}
}

package vsched

// Recv replaces `<-ch` on buffered channels. With exactly one controlled
// goroutine running at a time, len(ch) > 0 is an exact enabledness test.
func Recv[T any](ch chan T) T {
	if Active() {
		Yield("chan recv", func() bool { return len(ch) > 0 })
	}
	return <-ch
}

// SendPoint precedes `ch <- v` on buffered channels; room is `len(ch) < cap(ch)`.
func SendPoint(room func() bool) {
	if Active() {
		Yield("chan send", room)
	}
}
